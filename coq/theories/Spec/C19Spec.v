(* Executable statement of C19, written against the property text and RFC 5651 (EXT_TIME carries the sender
   current time as an NTP timestamp) / RFC 6726 (Expires = NTP seconds), not against the receiver's state:
   the predicates look only at the stream of events that was fed to the receiver and at the writer callbacks
   that came out, per event.  They are evaluated by the extracted driver on the IMPLEMENTATION's callbacks.

   The estimate of the sender's clock at receiver instant [now] through an FDT packet received at receiver
   instant [rx] whose EXT_TIME says [s] is   now - (rx - s)   (a signed difference; no late flag, no
   magnitude); without EXT_TIME it is [now].  An instance is unexpired at [now] when that estimate is not after
   the instant named by Expires.  The property excludes a +-2 s granularity band: the executable predicates
   take [band] = 2 s, the theorems of Properties/C19.v also prove them with [band] = 0 for the model. *)
From FluteV Require Import Model.Expiry.
Open Scope Z_scope.

Definition BAND : Z := 2000000000.

(* NTP 64-bit timestamp -> ns since the Unix epoch, at the microsecond resolution flute keeps *)
Definition spec_sct_ns (raw : N) : option Z :=
  let secs := (raw / 4294967296)%N in
  if (secs <? 2208988800)%N then None
  else Some (Z.of_N (secs - 2208988800) * 1000000000
             + Z.of_N (((raw mod 4294967296) * 1000000) / 4294967296) * 1000).

(* decimal 32-bit unsigned (xs:unsignedInt lexical form: optional '+', digits) *)
Definition is_digit (c : N) : bool := (48 <=? c)%N && (c <=? 57)%N.
Definition spec_decimal (s : list N) : option N :=
  let ds := match s with c :: r => if (c =? 43)%N then r else s | [] => [] end in
  match ds with
  | [] => None
  | _ =>
    if forallb is_digit ds then
      let v := fold_left (fun a c => (a * 10 + (c - 48))%N) ds 0%N in
      if (v <? 4294967296)%N then Some v else None
    else None
  end.

(* Expires attribute -> ns since the Unix epoch *)
Definition spec_expires_ns (es : list N) : option Z :=
  match spec_decimal es with
  | Some s => if (s <? 2208988800)%N then None else Some (Z.of_N (s - 2208988800) * 1000000000)
  | None => None
  end.

Definition spec_sct (sct : option N) : option Z :=
  match sct with Some raw => spec_sct_ns raw | None => None end.

Definition estimate (sct : option Z) (rx now : Z) : Z :=
  match sct with Some s => now - (rx - s) | None => now end.

(* is the instance of FDT packet event [ev] unexpired at [now] by the estimate taken from this very packet
   (always true when the check is disabled) *)
Definition pkt_live (chk : bool) (band : Z) (now : Z) (ev : event) : bool :=
  match ev with
  | EvFdtPkt _ sct _ _ (Some (es, _)) rx =>
    negb chk
    || match spec_expires_ns es with
       | Some e => estimate (spec_sct sct) rx now <=? e + band
       | None => false
       end
  | _ => false
  end.

(* does FDT packet event [ev] announce [toi] through an instance (of id [oid] when given) that is unexpired at
   [now] *)
Definition pkt_justifies (chk : bool) (band : Z) (now : Z) (toi : N) (oid : option N) (ev : event) : bool :=
  match ev with
  | EvFdtPkt id _ _ _ (Some (_, tois)) _ =>
    (match oid with Some i => (i =? id)%N | None => true end)
    && memN toi tois
    && pkt_live chk band now ev
  | _ => false
  end.

Definition justified (chk : bool) (band : Z) (hist : list event) (now : Z) (toi : N) (oid : option N) : bool :=
  existsb (pkt_justifies chk band now toi oid) hist.

Definition ev_time (ev : event) : option Z :=
  match ev with
  | EvFdtPkt _ _ _ _ _ now => Some now
  | EvObjPkt _ _ now => Some now
  | EvCleanup now => Some now
  | EvObjEnd _ _ => None
  end.

(* (a) every writer opened during an event is justified at the instant of that event by an FDT packet received
   up to and including that event.  [use_id]: also require that packet to belong to the instance the model
   names (the implementation's callbacks do not show the instance). [hist] is the reversed prefix. *)
Fixpoint sound_from (chk : bool) (band : Z) (use_id : bool) (hist : list event)
         (evs : list event) (outs : list (list action)) : bool :=
  match evs, outs with
  | [], [] => true
  | ev :: evs', acts :: outs' =>
    let hist' := ev :: hist in
    forallb (fun a => match a with
                      | AOpen toi id =>
                        match ev_time ev with
                        | Some now => justified chk band hist' now toi (if use_id then Some id else None)
                        | None => false
                        end
                      | AEnd _ => true
                      end) acts
    && sound_from chk band use_id hist' evs' outs'
  | _, _ => false
  end.

Definition P_C19_sound (chk : bool) (evs : list event) (outs : list (list action)) : bool :=
  sound_from chk BAND false [] evs outs.

(* (b) an object announced only by expired instances is neither completed nor reported failed: any callback
   for [toi] (open or end) happens only after some event instant at which some instance announcing [toi] was
   unexpired.  [jset] = TOIs justified at some event instant so far. *)
Definition tois_of_event (ev : event) : list N :=
  match ev with EvFdtPkt _ _ _ _ (Some (_, tois)) _ => tois | _ => [] end.

Definition justified_now (chk : bool) (band : Z) (hist : list event) (now : Z) : list N :=
  flat_map (fun ev => if pkt_live chk band now ev then tois_of_event ev else []) hist.

Definition action_toi (a : action) : N := match a with AOpen t _ => t | AEnd t => t end.

Fixpoint silent_from (chk : bool) (band : Z) (hist : list event) (jset : list N)
         (evs : list event) (outs : list (list action)) : bool :=
  match evs, outs with
  | [], [] => true
  | ev :: evs', acts :: outs' =>
    let hist' := ev :: hist in
    let jset' := match ev_time ev with
                 | Some now => justified_now chk band hist' now ++ jset
                 | None => jset
                 end in
    forallb (fun a => memN (action_toi a) jset') acts
    && silent_from chk band hist' jset' evs' outs'
  | _, _ => false
  end.

Definition P_C19_silent (chk : bool) (evs : list event) (outs : list (list action)) : bool :=
  silent_from chk BAND [] [] evs outs.

(* (c) skew invariance / disabled check, as a relation between two runs of the same stream under two receiver
   clocks: the callbacks must be identical (instance ids are not observable) *)
Definition action_eqb (a b : action) : bool :=
  match a, b with
  | AOpen t _, AOpen t' _ => (t =? t')%N
  | AEnd t, AEnd t' => (t =? t')%N
  | _, _ => false
  end.

Fixpoint list_eqb {A} (eqb : A -> A -> bool) (a b : list A) : bool :=
  match a, b with
  | [], [] => true
  | x :: a', y :: b' => eqb x y && list_eqb eqb a' b'
  | _, _ => false
  end.

Definition P_C19_same (outs outs' : list (list action)) : bool :=
  list_eqb (list_eqb action_eqb) outs outs'.

(* every FDT packet of the stream carries a usable sender current time *)
Definition all_sct (evs : list event) : bool :=
  forallb (fun ev => match ev with
                     | EvFdtPkt _ sct _ _ _ _ => match spec_sct sct with Some _ => true | None => false end
                     | _ => true
                     end) evs.

(* ------------------------------------------------------------------ (d) one session, in physical terms.
   The sender publishes at [t0] (its clock) an FDT of duration [d] seconds announcing TOI 1 and sends it in one
   packet at [t0+xf]; the packet reaches the receiver [dly] later; the three packets of the object reach it from
   sender-clock instant [t0+ro] on, 1 ms apart; the receiver's clock is the sender's plus [skew].  [order] =
   true: the object packets are delivered before the FDT packet.  Closed form of the outcome: with
     attach instant (receiver clock)  ra  = rf if the objects wait for the FDT, else the first object packet
     estimate                         est = (t0+xf) + (ra - rf)   with SCT  (no skew in it),   ra   without
   the object must be opened when the check is off or est is 2 s or more before Expires, and must see no
   callback at all when the check is on and est is 2 s or more after Expires. *)
Record session := mkSession {
  se_d : N; se_t0 : Z; se_xf : Z; se_dly : Z; se_ro : Z; se_skew : Z;
  se_sct : bool; se_chk : bool; se_order : bool; se_cleanup : bool
}.

Definition se_rf (p : session) : Z := se_t0 p + se_xf p + se_dly p + se_skew p.
Definition se_rx_obj (p : session) : Z := se_t0 p + se_ro p + se_skew p.
Definition se_expires_ntp (p : session) : N := (Z.to_N (se_t0 p / 1000000000) + 2208988800 + se_d p)%N.

Definition has_open (toi : N) (outs : list (list action)) : bool :=
  existsb (existsb (fun a => match a with AOpen t _ => (t =? toi)%N | _ => false end)) outs.
Definition has_any (toi : N) (outs : list (list action)) : bool :=
  existsb (existsb (fun a => (action_toi a =? toi)%N)) outs.

Definition P_C19_session (p : session) (outs : list (list action)) : bool :=
  let exp_ns := (se_t0 p / 1000000000 + Z.of_N (se_d p)) * 1000000000 in
  let ra := if se_order p then se_rf p else se_rx_obj p in
  let est := if se_sct p then (se_t0 p + se_xf p) + (ra - se_rf p) else ra in
  let margin := est - exp_ns in
  if negb (se_chk p) || (margin <=? - BAND) then has_open 1 outs
  else if BAND <=? margin then negb (has_any 1 outs)
  else true.

(* the events of such a session, given what the sender puts on the wire: the raw SCT [sct] and the Expires
   string [es] *)
Definition with_cleanup (c : bool) (evs : list event) : list event :=
  if c then flat_map (fun ev => match ev_time ev with Some now => [ev; EvCleanup now] | None => [ev] end) evs
  else evs.

Definition session_events (p : session) (sct : option N) (es : list N) : list event :=
  let f := EvFdtPkt 1 sct 0 1 (Some (es, [1%N])) (se_rf p) in
  let o := [EvObjPkt 1 true (se_rx_obj p); EvObjPkt 1 false (se_rx_obj p + 1000000);
            EvObjPkt 1 false (se_rx_obj p + 2000000)] in
  with_cleanup (se_cleanup p) (if se_order p then o ++ [f] else f :: o).

(* per instance id, either every packet carries a usable sender current time or none does (what a sender with
   one fdt_inband_sct setting produces); the hypothesis under which "the offset of that instance" is the one of
   its last packet *)
Definition sct_valid (sct : option N) : bool := match spec_sct sct with Some _ => true | None => false end.
Definition fdt_keys (evs : list event) : list (N * bool) :=
  flat_map (fun ev => match ev with EvFdtPkt id sct _ _ _ _ => [(id, sct_valid sct)] | _ => [] end) evs.
Definition uniform_sct (evs : list event) : bool :=
  let keys := fdt_keys evs in
  forallb (fun a => forallb (fun b => negb (fst a =? fst b)%N || Bool.eqb (snd a) (snd b)) keys) keys.

(* the same stream seen by a receiver whose clock is [d] later *)
Definition shift_ev (d : Z) (ev : event) : event :=
  match ev with
  | EvFdtPkt id sct idx n c now => EvFdtPkt id sct idx n c (now + d)
  | EvObjPkt toi f now => EvObjPkt toi f (now + d)
  | EvObjEnd toi k => EvObjEnd toi k
  | EvCleanup now => EvCleanup (now + d)
  end.

(* two streams that differ only in what expiry is made of: receiver times, SCT values and Expires strings *)
Definition same_shape (e e' : event) : Prop :=
  match e, e' with
  | EvFdtPkt id _ idx n c _, EvFdtPkt id' _ idx' n' c' _ =>
    id = id' /\ idx = idx' /\ n = n'
    /\ match c, c' with
       | None, None => True
       | Some (_, tois), Some (_, tois') => tois = tois'
       | _, _ => False
       end
  | EvObjPkt toi f _, EvObjPkt toi' f' _ => toi = toi' /\ f = f'
  | EvObjEnd toi k, EvObjEnd toi' k' => toi = toi' /\ k = k'
  | EvCleanup _, EvCleanup _ => True
  | _, _ => False
  end.

(* the range of instants the no-panic theorem covers: receiver clocks within +-2*10^21 ns (about 63 000 years) of
   the Unix epoch, and raw SCT values that fit the 64 bits they have on the wire *)
Definition BOUND : Z := 2000000000000000000000.
Definition time_ok (t : Z) : bool := (- BOUND <=? t) && (t <=? BOUND).
Definition in_range (evs : list event) : bool :=
  forallb (fun ev => match ev_time ev with Some t => time_ok t | None => true end) evs
  && forallb (fun ev => match ev with
                        | EvFdtPkt _ (Some raw) _ _ _ _ => (raw <? 18446744073709551616)%N
                        | _ => true
                        end) evs.

(* guards of the session statement: sender clock after 1970 and, when it is sent in EXT_TIME, before the end of
   NTP era 0 (2036-02-07); Expires representable, receiver instants inside [in_range], and "FDT first" really means the objects come later *)
Definition session_ok (p : session) : bool :=
  (0 <=? se_t0 p) && (0 <=? se_xf p) && (negb (se_sct p) || (se_t0 p + se_xf p <? 2085978496000000000))
  && (se_expires_ntp p <? 4294967296)%N
  && time_ok (se_rf p) && time_ok (se_rx_obj p) && time_ok (se_rx_obj p + 2000000)
  && (se_order p || (se_rf p <=? se_rx_obj p)).

(* with the expiry check disabled expiry is ignored WHATEVER Expires says, also when it does not fit NTP era 0
   (an FDT valid for decades): the guard on Expires of [session_ok] is not needed then *)
Definition session_ok_unchecked (p : session) : bool :=
  negb (se_chk p)
  && (0 <=? se_t0 p) && (0 <=? se_xf p) && (negb (se_sct p) || (se_t0 p + se_xf p <? 2085978496000000000))
  && time_ok (se_rf p) && time_ok (se_rx_obj p) && time_ok (se_rx_obj p + 2000000)
  && (se_order p || (se_rf p <=? se_rx_obj p)).
