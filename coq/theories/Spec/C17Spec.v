(* Executable statement of C17: the receiver's memory ledger (what the model says is held) is
   bounded by configuration, and the measured live heap of the implementation is bounded by the
   ledger (so the ledger is not a fiction). *)
From FluteV Require Import Model.ObjRecv Model.Recv.
Open Scope N_scope.

Definition sumN' (l : list N) : N := fold_right N.add 0 l.
Definition shard_bytes (b : bdec) : N :=
  sumN' (map (fun p => lenN_ (snd p)) (bd_shards b)) + match bd_data b with Some d => lenN_ d | None => 0 end.
Definition cache_bytes (o : objrecv) : N := sumN' (map a_datalen (r_cache o)).
Definition obj_ledger (o : objrecv) : N := cache_bytes o + sumN' (map shard_bytes (r_blocks o)).
Definition obj_items (o : objrecv) : N :=
  1 + lenN_ (r_cache o) + sumN' (map (fun b => 1 + lenN_ (bd_shards b)) (r_blocks o)).
Definition fdt_ledger (f : fdtrecv) : N :=
  lenN_ (fr_data f) + match fr_obj f with Some o => obj_ledger o | None => 0 end.
Definition fdt_items (f : fdtrecv) : N :=
  4 + match fr_obj f with Some o => obj_items o | None => 0 end
  + match fr_inst f with Some i => 2 * lenN_ (fi_files i) | None => 0 end.

Definition recv_ledger (r : recv) : N :=
  sumN' (map (fun p => obj_ledger (snd p)) (rv_objects r))
  + sumN' (map (fun p => fdt_ledger (snd p)) (rv_fdt_receivers r))
  + sumN' (map fdt_ledger (rv_fdt_current r)).
Definition recv_items (r : recv) : N :=
  sumN' (map (fun p => obj_items (snd p)) (rv_objects r))
  + sumN' (map (fun p => fdt_items (snd p)) (rv_fdt_receivers r))
  + sumN' (map fdt_items (rv_fdt_current r))
  + lenN_ (rv_completed r) + lenN_ (rv_error r).

(* FEC decoders held (Reed-Solomon matrices: measured ~13 kB each) *)
Definition obj_decoders (o : objrecv) : N := lenN_ (filter (fun b => bd_alloc b) (r_blocks o)).
Definition recv_decoders (r : recv) : N :=
  sumN' (map (fun p => obj_decoders (snd p)) (rv_objects r))
  + sumN' (map (fun p => match fr_obj (snd p) with Some o => obj_decoders o | None => 0 end) (rv_fdt_receivers r)).

(* the live heap attributable to the receiver (measured with a counting allocator) is covered by
   the ledger: a few times the payload bytes plus a fixed overhead per held item *)
Definition P_C17_heap (r : recv) (heap : Z) : bool :=
  (heap <=? Z.of_N (3 * recv_ledger r + 1024 * recv_items r + 20000 * recv_decoders r + 32768))%Z.

(* the ledger is bounded by configuration: per object, cached packets never exceed the cache size
   by more than one packet, allocated blocks by more than two blocks; the failed list and the list
   of current FDT instances by their configured lengths *)
Definition P_C17_object (maxpkt maxblk : N) (o : objrecv) : bool :=
  (cache_bytes o <=? r_max o + maxpkt) && (r_alloc_size o <=? r_max o + 2 * maxblk).
Definition P_C17_bounds (cfg : rconfig) (maxpkt maxblk : N) (r : recv) : bool :=
  forallb (fun p => P_C17_object maxpkt maxblk (snd p)) (rv_objects r)
  && (lenN_ (rv_error r) <=? cf_max_err cfg)
  && (lenN_ (rv_fdt_current r) <=? 10).

(* the same bound stated from the configuration alone (no model state): every object and FDT
   instance of the session may hold its cache limit plus one packet plus two blocks, a few times
   over for bookkeeping, plus a decoder (Reed-Solomon matrices: measured ~13 kB) per block it may
   have allocated within that limit *)
Definition P_C17_heap_cfg (nobj nfdt cache maxpkt maxblk : N) (heap : Z) : bool :=
  (heap <=? Z.of_N ((nobj + nfdt) * (4 * (cache + maxpkt + 2 * maxblk) + (cache / N.max 1 maxblk + 3) * 20000 + 8192) + 32768))%Z.

(* cleanup after the time-outs: the receiver may keep at most the objects the time-out rule leaves
   (an object is released when no packet of ITS OWN arrived for longer than the object time-out;
   [expected_left] is computed by the model from the idle times measured around the calls) *)
Definition P_C17_cleanup_releases (expected_left impl_left : N) : bool := impl_left <=? expected_left.
