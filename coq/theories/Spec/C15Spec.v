(* Executable statement of C15, evaluated by the extracted driver on the IMPLEMENTATION's
   observations.

   A history is a list of operations (Model.Toi.op is the shared vocabulary) together with what
   was observed after each of them: the value returned, the (object, TOI, TOI field bytes) of
   the object packets sent, and the decimal TOI attributes of the File entries of the FDT.
   The monitor below keeps its own book of which Box<Toi> is alive - a handle until it is
   dropped or given to add_object, an object until it is removed while idle or its transfer has
   ended - with the values the implementation reported, and demands of every allocation

     non-zero,  below 2^width,  different from every value in the book,
     add_object(handle) returns exactly the handle's value,
     every object packet carries exactly its object's TOI (decoded here from the raw field by
       the RFC 5651 rule: right-aligned big-endian, at most 112 bits, whole half-words),
     the FDT lists exactly the objects in it, each by the canonical decimal of its TOI.

   Nothing here uses the allocator model, its masks, its wire functions or flute's parser. *)
From FluteV Require Import Model.Toi.
Open Scope N_scope.

Record mon := mkMon { m_nh : nat; m_no : nat; m_live : list entry }.
Definition mon_init : mon := mkMon 0 0 [].

(* 2^width, written out *)
Definition width_limit (w : toi_max) : N :=
  match w with
  | ToiMax16 => 65536
  | ToiMax32 => 4294967296
  | ToiMax48 => 281474976710656
  | ToiMax64 => 18446744073709551616
  | ToiMax80 => 1208925819614629174706176
  | ToiMax112 => 5192296858534827628530496329220096
  end.

Definition val_taken (live : list entry) (v : N) : bool := existsb (fun e => e_val e =? v) live.

(* the three demands on a freshly allocated value *)
Definition fresh_ok (w : toi_max) (live : list entry) (v : N) : bool :=
  negb (v =? 0) && (v <? width_limit w) && negb (val_taken live v).

(* RFC 5651 3.1: the TOI field is 32*O + 16*H bits, right-aligned big-endian, at most 112 bits *)
Definition be_value (l : list N) : N := fold_left (fun a b => a * 256 + b) l 0.
Definition field_ok (raw : list N) (v : N) : bool :=
  forallb (fun b => b <? 256) raw && Nat.even (length raw) && Nat.leb (length raw) 14
  && (be_value raw =? v).

(* a packet of object [id] must carry the value booked for that object, in the field and as
   flute's own parser reads it *)
Definition pkt_ok (live : list entry) (p : pkt) : bool :=
  let '(id, toi, raw) := p in
  existsb (fun e => is_obj id e && (e_val e =? toi)) live && field_ok raw toi.

(* every object selected by [sel] has been seen on the wire *)
Definition all_seen (sel : entry -> bool) (live : list entry) (l : list pkt) : bool :=
  forallb (fun e => existsb (fun p => Nat.eqb (fst (fst p)) (e_id e)) l) (filter sel live).

(* decimal attribute: digits, most significant first, no sign, no leading zero *)
Definition dec_value (ds : list N) : N := fold_left (fun a d => a * 10 + d) ds 0.
Definition canonical_dec (ds : list N) : bool :=
  forallb (fun d => d <? 10) ds &&
  match ds with
  | [] => false
  | [d] => true
  | d :: _ => negb (d =? 0)
  end.

Fixpoint insert (x : N) (l : list N) : list N :=
  match l with
  | [] => [x]
  | y :: r => if x <=? y then x :: l else y :: insert x r
  end.
Fixpoint isort (l : list N) : list N :=
  match l with [] => [] | x :: r => insert x (isort r) end.
Fixpoint eq_list (a b : list N) : bool :=
  match a, b with
  | [], [] => true
  | x :: a', y :: b' => (x =? y) && eq_list a' b'
  | _, _ => false
  end.

(* the FDT lists exactly the objects that are in it (order is a hash-map accident) *)
Definition fdt_ok (live : list entry) (fdt : list (list N)) : bool :=
  forallb canonical_dec fdt &&
  eq_list (isort (map dec_value fdt)) (isort (map e_val (filter in_fdt live))).

Definition mon_step (w : toi_max) (m : mon) (o : op) (r : result) : option mon :=
  let live := m_live m in
  match o, r with
  | OAlloc, RVal v =>
    if fresh_ok w live v
    then Some (mkMon (S (m_nh m)) (m_no m) (mkEntry KHandle (m_nh m) v :: live))
    else None
  | ODrop i, RNone =>
    Some (mkMon (m_nh m) (m_no m) (filter (fun e => negb (is_handle i e)) live))
  | OAdd None AddOk, RVal v =>
    if fresh_ok w live v
    then Some (mkMon (m_nh m) (S (m_no m)) (mkEntry (KObj Queued) (m_no m) v :: live))
    else None
  | OAdd None _, RErr => Some (mkMon (m_nh m) (S (m_no m)) live)
  | OAdd (Some i) md, _ =>
    match find (is_handle i) live, md, r with
    | None, _, RNone => Some (mkMon (m_nh m) (S (m_no m)) live)
    | Some e, AddOk, RVal v =>
      (* exactly the TOI of the handle *)
      if v =? e_val e
      then Some (mkMon (m_nh m) (S (m_no m))
                       (update (is_handle i) (fun e => mkEntry (KObj Queued) (m_no m) (e_val e)) live))
      else None
    | Some e, AddFailEarly, RErr | Some e, AddFailLate, RErr =>
      Some (mkMon (m_nh m) (S (m_no m)) (filter (fun e => negb (is_handle i e)) live))
    | _, _, _ => None
    end
  | OStart j, RPkts l =>
    if forallb (pkt_ok live) l && all_seen (is_obj_in j Queued) live l
    then Some (mkMon (m_nh m) (m_no m) (update (is_obj_in j Queued) (set_kind (KObj Sending)) live))
    else None
  | OFinish j, RPkts l =>
    if forallb (pkt_ok live) l && all_seen (flying j) live l
    then Some (mkMon (m_nh m) (m_no m) (filter (fun e => negb (flying j e)) live))
    else None
  | ORemove j, RNone =>
    Some (mkMon (m_nh m) (m_no m)
                (update (is_obj_in j Sending) (set_kind (KObj SendingRemoved))
                        (filter (fun e => negb (is_obj_in j Queued e)) live)))
  | OChurn n, RVals vs =>
    if (N.of_nat (length vs) =? n) && forallb (fresh_ok w live) vs then Some m else None
  | _, _ => None    (* includes RPanic / RHang: every operation must succeed *)
  end.

(* what is observed after one operation: its result and the TOI attributes of the FDT *)
Definition obs := (result * list (list N))%type.

Fixpoint mon_run (w : toi_max) (m : mon) (ops : list op) (outs : list obs) : bool :=
  match ops, outs with
  | [], [] => true
  | o :: ops', (r, fdt) :: outs' =>
    match mon_step w m o r with
    | Some m' => fdt_ok (m_live m') fdt && mon_run w m' ops' outs'
    | None => false
    end
  | _, _ => false
  end.

(* C15 on one history *)
Definition P_C15_history (w : toi_max) (ops : list op) (outs : list obs) : bool :=
  mon_run w mon_init ops outs.

(* C15, wire clause alone, on one call of push_lct_header: a TOI below 2^112 must be carried
   exactly (field decoded by the RFC rule, and as flute's parser reads it); larger values are
   outside the 112 bits the LCT header can carry and are not judged here *)
Definition P_C15_wire (toi : N) (raw : list N) (parsed : N) : bool :=
  if toi <? width_limit ToiMax112 then field_ok raw toi && (parsed =? toi) else true.
