(* Executable statement of C08 (and of C20, which compares against the same expectation),
   written against the RFC 5052 partition (Spec/C07Spec.rfc_partition) and the object bytes -
   not against flute's block encoder.  Evaluated by the extracted driver on the packet list the
   IMPLEMENTATION emitted. *)
From FluteV Require Import Model.Partition Model.BlockEnc Spec.C07Spec.
Open Scope N_scope.

Fixpoint eqb_listN (a b : list N) : bool :=
  match a, b with
  | [], [] => true
  | x :: a', y :: b' => (x =? y) && eqb_listN a' b'
  | _, _ => false
  end.

(* byte range of block s and of its symbol i, from the RFC partition *)
Definition blk_off (al as_ nal e s : N) : N := sym_off al as_ nal s * e.
Definition blk_len (al as_ nal l e s : N) : N := block_len_closed al as_ nal l e s.
Definition blk_k (al as_ nal l e s : N) : N := rfc_ceil (blk_len al as_ nal l e s) e.

(* payload must be the slice, optionally zero-padded to e bytes *)
Definition payload_ok (e : N) (slice payload : list N) : bool :=
  eqb_listN (firstn (length slice) payload) slice
  && forallb (fun x => x =? 0) (skipn (length slice) payload)
  && ((lenN payload =? lenN slice) || (lenN payload =? e)).

Fixpoint strictly_increasing (l : list N) : bool :=
  match l with
  | [] => true
  | x :: r => match r with [] => true | y :: _ => (x <? y) && strictly_increasing r end
  end.

Definition seqN (n : N) : list N := map N.of_nat (seq 0 (N.to_nat n)).

(* all packets of block s, in order of emission *)
Definition of_block (s : N) (ps : list pkt) : list pkt := filter (fun p => p_sbn p =? s) ps.

Definition block_ok (c : ecfg) (content : list N) (al as_ nal : N) (complete : bool) (ps : list pkt) (s : N) : bool :=
  let l := c_tlen c in let e := c_e c in
  let k := blk_k al as_ nal l e s in
  let off := blk_off al as_ nal e s in
  let mine := of_block s ps in
  let src := filter (fun p => p_esi p <? k) mine in
  strictly_increasing (map p_esi mine)
  && forallb (fun p => p_k p =? k) mine
  && forallb (fun p => Bool.eqb (p_src p) (p_esi p <? k)) mine
  && (if complete then eqb_listN (map p_esi src) (seqN k)
      else true)
  && forallb (fun p => payload_ok e (sublist (off + p_esi p * e) (N.min (off + (p_esi p + 1) * e) (off + blk_len al as_ nal l e s)) content)
                                  (p_payload p)) src
  && (N.of_nat (length mine - length src) <=? c_parity c).

Definition is_lone_empty (p : pkt) : bool :=
  (p_sbn p =? 0) && (p_esi p =? 0) && p_close p && match p_payload p with [] => true | _ => false end.

Fixpoint last_opt {A} (l : list A) : option A :=
  match l with [] => None | [x] => Some x | _ :: r => last_opt r end.

(* close flag rule for a transfer that was not interrupted *)
Definition close_ok_complete (closable : bool) (ps : list pkt) : bool :=
  let body := removelast ps in
  forallb (fun p => negb (p_close p)) body
  && match last_opt ps with
     | None => true
     | Some p => Bool.eqb (p_close p) closable
     end.

(* [forced_at] = Some i: the i-th read (0-based) was called with force_close_object. *)
Definition P_C08_transfer (c : ecfg) (content : list N) (forced_at : option nat) (ps : list pkt) : bool :=
  let l := c_tlen c in let e := c_e c in
  let '(al, as_, nal, n) := rfc_partition (c_b c) l e in
  if l =? 0 then
    (* empty object: the lone empty packet carrying the close flag and nothing else; no packet
       at all only if the very first read was never made *)
    match ps with
    | [p] => is_lone_empty p && negb (p_src p)
    | _ => false
    end
  else
    forallb (fun p => p_sbn p <? n) ps
    && match forced_at with
       | None =>
         forallb (block_ok c content al as_ nal true ps) (seqN n)
         && close_ok_complete (c_closable c) ps
       | Some i =>
         forallb (block_ok c content al as_ nal false ps) (seqN n)
         && (Nat.leb (length ps) (S i))
         && (if Nat.ltb i (length ps)
             then (* the read that was forced produced the last packet: it carries the flag, none before *)
               forallb (fun p => negb (p_close p)) (firstn i ps)
               && match nth_error ps i with Some p => p_close p | None => false end
             else (* the transfer had ended before the forced read *)
               close_ok_complete (c_closable c) ps)
       end.

(* C20: the packets of a stream source must be those of the buffer source (compared by the
   driver as lists); as a predicate on one stream run it is P_C08_transfer itself. *)
Definition eqb_pkt (a b : pkt) : bool :=
  (p_sbn a =? p_sbn b) && (p_esi a =? p_esi b) && eqb_listN (p_payload a) (p_payload b)
  && Bool.eqb (p_close a) (p_close b) && (p_k a =? p_k b).
Fixpoint eqb_pkts (a b : list pkt) : bool :=
  match a, b with
  | [], [] => true
  | x :: a', y :: b' => eqb_pkt x y && eqb_pkts a' b'
  | _, _ => false
  end.

(* Recorded finding D30 (known_findings.txt): the raptor-code crate cuts a source block into K
   semi-equal symbols instead of E-byte symbols, so when the last block is not a multiple of E
   bytes (and has at least 2 symbols) source payloads are not the E-byte slices.  The class: *)
Definition known_D30 (c : ecfg) : bool :=
  match c_fec c with
  | Raptor => negb (c_tlen c mod c_e c =? 0) && (c_e c <? c_tlen c)
  | _ => false
  end.
