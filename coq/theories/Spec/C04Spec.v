(* C04 - Untrusted input.  The property, as executable predicates over what an observer of the
   receiver sees; nothing here refers to flute's code or to the models of it.

     "every receiver call returns Ok or Err in bounded time without panicking, without arithmetic
      overflow and without allocating beyond the configured limits.  A rejected packet leaves the
      receiver usable: a valid session pushed afterwards is still delivered."

   An observed call ends in one of five ways: it returned Ok, it returned Err, it unwound (panic,
   which is also how an arithmetic overflow shows in a build with overflow checks), it did not return
   within the watchdog, or the process died (allocation beyond the address-space limit, abort). *)
From Coq Require Export List NArith Bool.
Export ListNotations.
Open Scope bool_scope.
Open Scope N_scope.

Inductive outcome := OOk | OErr | OPanic | OHang | OCrash.

Definition P_C04_call (o : outcome) : bool := match o with OOk | OErr => true | _ => false end.
Definition P_C04_calls (l : list outcome) : bool := forallb P_C04_call l.

(* parsing one datagram: the call returns; and since the LCT header starts with a 32-bit word
   followed by a congestion control field of 32*(C+1) bits (RFC 5651, 5.1), nothing shorter than 8
   bytes is an ALC packet - such a datagram must be refused, not accepted and not fatal *)
Definition is_err (o : outcome) : bool := match o with OErr => true | _ => false end.
Definition P_C04_parse (data : list N) (o : outcome) : bool :=
  P_C04_call o && (if N.of_nat (length data) <? 8 then is_err o else true).

(* "without allocating beyond the configured limits", for a receiver with the default limits fed
   n datagrams of [bytes] bytes in total: what stays allocated afterwards is at most a constant, plus
   per datagram the largest block decoder the limits admit (56403 symbol slots of 24 bytes for
   RaptorQ, 1.5 MiB with its bookkeeping; the per-object cache and block limits are the subject of
   C17), plus the bytes themselves a few times over.  A single request far beyond that (the 102 GB
   of D7) does not fit the address-space limit and is observed as OCrash. *)
Definition HEAP_BASE : N := 1048576.
Definition HEAP_PER_DATAGRAM : N := 1572864.
Definition heap_bound (n bytes : N) : N := HEAP_BASE + n * HEAP_PER_DATAGRAM + 4 * bytes.
(* "in bounded time": every single call within this many microseconds (the watchdog, 20 s, is what
   turns a call that never returns into OHang) *)
Definition TIME_BUDGET_US : N := 5000000.

Record case_obs := mk_case {
  co_calls : list outcome;       (* every push / cleanup / drop of the untrusted sequence *)
  co_followup : list outcome;    (* every push of the valid session that follows *)
  co_touched : bool;             (* the untrusted sequence used the follow-up's own TOIs or FDT instance ids *)
  co_delivered : bool;           (* every follow-up object completed, byte-exact *)
  co_heap : N;                   (* bytes still allocated by the receiver after the untrusted sequence *)
  co_n : N;                      (* number of untrusted datagrams *)
  co_bytes : N;                  (* their total length *)
  co_max_us : N                  (* longest single call, microseconds *)
}.

Definition P_C04_usable (c : case_obs) : bool :=
  P_C04_calls (co_followup c) && (co_touched c || co_delivered c).
Definition P_C04_bounded (c : case_obs) : bool :=
  (co_heap c <=? heap_bound (co_n c) (co_bytes c)) && (co_max_us c <=? TIME_BUDGET_US).
Definition P_C04_case (c : case_obs) : bool :=
  P_C04_calls (co_calls c) && P_C04_usable c && P_C04_bounded c.
