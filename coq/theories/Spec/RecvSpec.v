(* Executable statements of C09 (object-writer protocol) and C03 (no silent corruption) over the
   calls one writer received, as recorded by the monitoring writer builder of the harness (or by
   the model's log). *)
From FluteV Require Import Model.ObjRecv.
Open Scope N_scope.

Inductive wcall := CallOpen (ok : bool) | CallWrite (data : list N) (ok : bool)
                 | CallComplete | CallError | CallInterrupted.

Inductive wphase := PhStart | PhOpenFailed | PhOpened (acc : list N) | PhDone.

Fixpoint is_prefix (a b : list N) : bool :=
  match a, b with
  | [], _ => true
  | x :: a', y :: b' => (x =? y) && is_prefix a' b'
  | _ :: _, [] => false
  end.

(* [content] = Some bytes when the object's content is known and the session delivered only
   genuine payload bytes (then writes must form a prefix and complete needs all of it);
   None = payload bytes may have been altered in transit (only the call order is judged). *)
Definition c09_step (content : option (list N)) (ph : wphase) (c : wcall) : option wphase :=
  match ph, c with
  | PhStart, CallOpen true => Some (PhOpened [])
  | PhStart, CallOpen false => Some PhOpenFailed
  | PhOpenFailed, (CallError | CallInterrupted) => Some PhDone
  | PhOpened acc, CallWrite d _ =>
    let acc' := acc ++ d in
    match content with
    | Some ct => if is_prefix acc' ct then Some (PhOpened acc') else None
    | None => Some (PhOpened acc')
    end
  | PhOpened acc, CallComplete =>
    match content with
    | Some ct => if eqb_bytes acc ct then Some PhDone else None
    | None => Some PhDone
    end
  | PhOpened _, (CallError | CallInterrupted) => Some PhDone
  | _, _ => None
  end.

Fixpoint c09_run (content : option (list N)) (ph : wphase) (cs : list wcall) : option wphase :=
  match cs with
  | [] => Some ph
  | c :: r => match c09_step content ph c with Some ph' => c09_run content ph' r | None => None end
  end.

(* [dropped]: the receiver has been dropped, so an opened writer must have got its terminal call *)
Definition P_C09_writer (content : option (list N)) (dropped : bool) (cs : list wcall) : bool :=
  match c09_run content PhStart cs with
  | None => false
  | Some (PhOpened _) | Some PhOpenFailed => negb dropped
  | Some _ => true
  end.

(* C03: whatever happened in transit, a complete means that exactly the sender's bytes were
   written; [guarded] = the bytes were genuine, or an MD5 was announced and checked *)
Definition written (cs : list wcall) : list N :=
  flat_map (fun c => match c with CallWrite d true => d | CallWrite d false => d | _ => [] end) cs.
Definition completed (cs : list wcall) : bool :=
  existsb (fun c => match c with CallComplete => true | _ => false end) cs.
Definition failed (cs : list wcall) : bool :=
  existsb (fun c => match c with CallError | CallInterrupted => true | _ => false end) cs.
Definition P_C03_writer (content : list N) (guarded : bool) (cs : list wcall) : bool :=
  (negb (completed cs) || negb guarded || eqb_bytes (written cs) content)
  && negb (completed cs && failed cs).

(* the calls of one writer in a model log *)
Definition calls_of (w : wid) (log : list wev) : list wcall :=
  flat_map (fun e => match e with
                     | EvOpen w' ok => if wid_eqb w w' then [CallOpen ok] else []
                     | EvWrite w' d ok => if wid_eqb w w' then [CallWrite d ok] else []
                     | EvComplete w' => if wid_eqb w w' then [CallComplete] else []
                     | EvError w' => if wid_eqb w w' then [CallError] else []
                     | EvInterrupted w' => if wid_eqb w w' then [CallInterrupted] else []
                     | EvBuilder _ _ => []
                     end) log.
