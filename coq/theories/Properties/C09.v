(* C09 - Object-writer protocol: open, writes, exactly one terminal call, nothing after. *)
From FluteV Require Import Model.ObjRecv Model.Recv Spec.RecvSpec Proofs.RecvProofs Proofs.C09Full.
Open Scope N_scope.

(* Full statement, proved of the model: for every sequence of receiver events (packets of any
   content and order, cleanups, drop) and every behaviour of the writer builder and the writers
   (oracles in [E]), the calls each writer received form
   open . write* . (complete | error | interrupted)?  - P_C09_writer - and after the receiver is
   dropped every opened writer has its terminal call.  No hypothesis on the history, the
   configuration or the oracles.  (Also evaluated on the implementation's callbacks on every run:
   all histories of the receiver harness x builder/open/write scripts x drop at any point.)
   Proof: Proofs/C09Full.v - object invariant (the phase computed by c09_run over the writer's
   calls matches the object's writer state; a terminated writer's object has left the receiving
   state and holds no cache), frame (calls only go to the object's own writer, ids (toi, n) are
   fresh because n comes from a counter that only grows), lifted to the receiver's object map. *)
Theorem C09_writer_protocol_full :
  forall E parse_fdt cfg evs,
    let '(_, _, c) := recv_run E parse_fdt cfg recv0 evs ctx0 in
    forall w, P_C09_writer None false (calls_of w (c_log c)) = true.
Proof. exact writer_protocol_history. Qed.
Print Assumptions C09_writer_protocol_full.

Theorem C09_drop_terminates_all_full :
  forall E parse_fdt cfg evs,
    let '(_, _, c) := recv_run E parse_fdt cfg recv0 (evs ++ [RvDrop]) ctx0 in
    forall w, P_C09_writer None true (calls_of w (c_log c)) = true.
Proof. exact drop_terminates_all_history. Qed.
Print Assumptions C09_drop_terminates_all_full.

(* object level, the step the history theorem is built from: pushing a packet to / attaching an
   FDT instance to an object that satisfies the invariant extends the log only with calls to the
   object's own writer, accepted by the protocol automaton, and re-establishes the invariant *)
Theorem C09_or_push_preserves : forall E p o c, Pre o c -> ExtP o c (or_push E p o c).
Proof. exact or_push_ext. Qed.
Print Assumptions C09_or_push_preserves.

Theorem C09_or_attach_preserves : forall E id files ioti o c, Pre o c -> ExtA o c (or_attach E id files ioti o c).
Proof. exact or_attach_ext. Qed.
Print Assumptions C09_or_attach_preserves.

(* (1) nothing after the terminal call: an object that has left the receiving state ignores every
   further packet - no callback, no state change *)
Theorem C09_closed_object_ignores_packets : forall E p o c,
  r_state o <> Receiving -> or_push E p o c = (o, c).
Proof. exact closed_object_ignores_packets. Qed.
Print Assumptions C09_closed_object_ignores_packets.

(* (2) complete() / error() issue exactly one terminal call to the object's writer (none if there
   is no writer) and leave the receiving state *)
Theorem C09_complete_is_one_terminal_call : forall o c,
  c_log (snd (complete o c)) =
    c_log c ++ match r_writer o with Some (w, _) => [EvComplete w] | None => [] end
  /\ r_state (fst (complete o c)) = Completed.
Proof. exact complete_log. Qed.
Print Assumptions C09_complete_is_one_terminal_call.

Theorem C09_error_is_one_terminal_call : forall o i c,
  c_log (snd (error o i c)) =
    c_log c ++ match r_writer o with
               | Some (w, _) => [if i then EvInterrupted w else EvError w]
               | None => [] end
  /\ r_state (fst (error o i c)) = (if i then Interrupted else Errored).
Proof. exact error_log. Qed.
Print Assumptions C09_error_is_one_terminal_call.

(* (3) dropping an object (removal from the receiver's map, receiver drop) gives an open writer its
   terminal call and a closed one nothing *)
Theorem C09_drop_terminates : forall o c,
  c_log (or_drop o c) =
    c_log c ++ match r_writer o with
               | Some (w, WOpened) | Some (w, WIdle) => [EvError w]
               | _ => [] end.
Proof. exact drop_terminates. Qed.
Print Assumptions C09_drop_terminates.

(* (4) the protocol automaton accepts nothing after a terminal call *)
Theorem C09_nothing_after_terminal : forall content call, c09_step content PhDone call = None.
Proof. exact nothing_after_terminal. Qed.
Print Assumptions C09_nothing_after_terminal.

Example C09_example_accept :
  P_C09_writer (Some [1;2;3]) true [CallOpen true; CallWrite [1;2] true; CallWrite [3] true; CallComplete] = true
  /\ P_C09_writer None true [CallOpen false; CallError] = true
  /\ P_C09_writer None false [CallOpen true; CallWrite [9] true] = true.
Proof. vm_compute. repeat split. Qed.
Example C09_example_reject :
  P_C09_writer None false [CallOpen false; CallError; CallComplete] = false      (* the repaired defect D19 *)
  /\ P_C09_writer (Some [1;2;3]) false [CallOpen true; CallWrite [1;2] true; CallComplete] = false
  /\ P_C09_writer None true [CallOpen true; CallWrite [9] true] = false
  /\ P_C09_writer None false [CallWrite [9] true] = false.
Proof. vm_compute. repeat split. Qed.
