(* C14 - Timing: start times, carousel gaps and pacing never early; edge cases are safe. *)
From FluteV Require Import Model.SenderCtl Spec.SenderSpec Proofs.SenderProofs Proofs.C14Full.
Open Scope N_scope.

(* History-level statement, unconditional form.  It is FALSE of the model as it stands (see
   C14_timing_full_refuted below): the three predicates look the object up by TOI in the state
   before the read, and the clock handed to read() is whatever the caller passes.  The proved
   theorem is C14_timing, under the premises shown necessary by the Examples.
   (P_C14_start_time / P_C14_pacing / P_C14_carousel_gap are evaluated on the implementation's
   packets against the model state on every run; the carousel clause is known to fail in class
   D23 = carousel with max_transfer_count >= 2, see known_findings.txt.) *)
Definition C14_timing_full : Prop :=
  forall fdt_npk fdt_ok divf ops full dur car sid queues,
    Forall (fun es => match fst es with
                      | TRead now r _ _ =>
                        P_C14_start_time (snd es) now r = true /\ P_C14_pacing (snd es) now r = true
                        /\ (in_D23 (snd es) now r = false -> P_C14_carousel_gap (snd es) now r = true)
                      | _ => True
                      end)
           (model_trace fdt_npk fdt_ok divf (init_st full dur car sid queues) ops).

(* (0) THE HISTORY THEOREM.  Every packet of every history of the sender model respects the start
   time, the pacing schedule and (outside D23) the carousel gap, provided
     - distinct_tois ops  : the TOIs of the accepted adds are pairwise distinct,
     - reads_monotone ops : the instants handed to successive reads never go back. *)
Theorem C14_timing : forall fdt_npk fdt_ok divf ops full dur car sid queues,
  distinct_tois ops -> reads_monotone ops ->
  Forall (fun es => match fst es with
                    | TRead now r _ _ =>
                      P_C14_start_time (snd es) now r = true /\ P_C14_pacing (snd es) now r = true
                      /\ (in_D23 (snd es) now r = false -> P_C14_carousel_gap (snd es) now r = true)
                    | _ => True
                    end)
         (model_trace fdt_npk fdt_ok divf (init_st full dur car sid queues) ops).
Proof. exact C14_timing_history. Qed.
Print Assumptions C14_timing.

(* --- the premises are needed --- *)
Definition c14_div (d : Z) (n : N) : option Z := Some (d / Z.of_N n)%Z.
Definition c14_check (queues : list (N * nat)) (ops : list op) : bool :=
  forallb C14_clause_b
    (model_trace (fun _ => 1%nat) (fun _ => true) c14_div
                 (init_st true 3600000000000 (CDelay 1000000000) 1 queues) ops).

(* a clock that goes back: the object (start time 10) is started at 10, its second packet leaves
   at 5 < 10 (no pacing: nothing holds it back) *)
Example C14_monotone_reads_needed_refuted :
  let od := mk_odesc 1 0 3 3 1 CNone TNone false None [] in
  c14_check [(0, 1%nat)] [OpAdd od (Some 10%Z) true; OpPublish 0; OpRead 10; OpRead 10; OpRead 5] = false.
Proof. vm_compute; reflexivity. Qed.

(* a TOI used again after remove() while the removed object still holds its slot (legal for the
   implementation: only a TOI that is currently in the FDT is refused): the packet of the new object
   is judged against the old one, found first under the same TOI *)
Example C14_distinct_tois_needed_refuted :
  let oa := mk_odesc 1 0 2 2 1 CNone (TDuration 1000) false None [] in
  let ob := mk_odesc 1 0 1 1 1 CNone TNone false None [] in
  c14_check [(0, 2%nat)] [OpAdd oa None true; OpPublish 0; OpRead 0; OpRead 0; OpRemove 1;
                          OpAdd ob None true; OpPublish 1; OpRead 1; OpRead 1] = false.
Proof. vm_compute; reflexivity. Qed.

(* the same with both objects waiting (the implementation debug_asserts against this one) *)
Example C14_distinct_tois_needed_refuted' :
  let ob := mk_odesc 1 0 1 1 1 CNone TNone false None [] in
  c14_check [(0, 1%nat)] [OpAdd ob (Some 100%Z) true; OpAdd ob None true; OpPublish 0; OpRead 0; OpRead 0] = false.
Proof. vm_compute; reflexivity. Qed.

Theorem C14_timing_full_refuted : ~ C14_timing_full.
Proof.
  intros H.
  pose proof (C14_forallb _ (H (fun _ => 1%nat) (fun _ => true) c14_div
     [OpAdd (mk_odesc 1 0 3 3 1 CNone TNone false None []) (Some 10%Z) true; OpPublish 0; OpRead 10; OpRead 10; OpRead 5]
     true 3600000000000%Z (CDelay 1000000000) 1 [(0, 1%nat)])) as E.
  vm_compute in E. discriminate.
Qed.
Print Assumptions C14_timing_full_refuted.

(* (1) a transfer is started only when the configured start time has been reached *)
Theorem C14_eligible_implies_start_time_reached : forall f prio full now,
  should_transfer_now f prio full now = true ->
  match t_start_time (f_t f) with Some stt => (stt <= now)%Z | None => True end.
Proof. exact eligible_implies_start_time_reached. Qed.
Print Assumptions C14_eligible_implies_start_time_reached.

(* (2) once the transfer-count budget is used up, a carousel object restarts only strictly after
   the configured delay since the previous end (interval since the previous start) *)
Theorem C14_eligible_implies_carousel_gap : forall f prio full now,
  should_transfer_now f prio full now = true ->
  o_max (f_o f) <= t_count (f_t f) ->
  match o_car (f_o f) with CDelay d | CInterval d => (0 <= d)%Z | CNone => True end ->
  match o_car (f_o f), t_last_end (f_t f), t_last_start (f_t f) with
  | CDelay d, Some le, Some _ => (d < now - le)%Z
  | CInterval d, Some _, Some ls => (d < now - ls)%Z
  | _, _, _ => True
  end.
Proof. exact eligible_implies_carousel_gap. Qed.
Print Assumptions C14_eligible_implies_carousel_gap.

(* (3) pacing gate: whatever packet a session emits, the object's next-transfer timestamp was due *)
Theorem C14_packet_respects_pacing_gate : forall fdt_npk fdt_ok divf fuel ss now s o ss' s',
  session_run fdt_npk fdt_ok divf fuel ss now s = (o, ss', s') ->
  match o with
  | RObj _ _ | RFdt _ _ =>
    exists id s1, ss_file ss' = Some id
      /\ s' = upd_t s1 id t_tickf
      /\ match t_next_ts (f_t (obj s1 id)) with Some ts => (ts <= now)%Z | None => True end
  | _ => True
  end.
Proof. exact packet_respects_pacing_gate. Qed.
Print Assumptions C14_packet_respects_pacing_gate.

(* (4) degenerate inputs: starting a transfer never panics (empty object, deadline in the past,
   zero duration) as long as Duration::div_f64 is defined for a divisor >= 1 *)
Theorem C14_transfer_start_total : forall divf o now t,
  (forall d n, 1 <= n -> divf d n <> None) -> t_init divf o now t <> None.
Proof. exact t_init_total. Qed.
Print Assumptions C14_transfer_start_total.

Example C14_example_pacing :
  let od := mk_odesc 1 0 2 2 1 CNone (TDuration 1000) false None [] in
  let ops := [OpAdd od None true; OpPublish 0; OpRead 0; OpRead 0; OpRead 0; OpRead 499; OpRead 500] in
  fst (run_ops (fun _ => 1%nat) (fun _ => true) (fun d n => Some (d / Z.of_N n)%Z)
               (init_st true 3600000000000 (CDelay 1000000000) 1 [(0, 1%nat)]) ops)
  = [OutAdd true; OutPublish true; OutRead (RFdt 1 false); OutRead (RObj 1 false); OutRead RNothing;
     OutRead RNothing; OutRead (RObj 1 true)].
Proof. vm_compute. reflexivity. Qed.

(* ===== block: C14Prompt ===== *)
(* Promptness: "each due packet goes out at the first poll at or after its due time when nothing of
   higher priority is pending; degenerate inputs - an empty object, a deadline in the past, a zero
   delay - neither crash nor stall the sender".  Proofs in Proofs/C14Prompt.v.
   Vocabulary: [queue_ready], [ready_in_slot], [should_transfer_now], [tick_due]/[paced] are the
   model's own eligibility and pacing tests (the ones C13_strict_priority and C14_eligible_* use).
   Premises of the history statements: [reach_ok] (C12Quiesce: ascending queue keys, fdt_duration > 0
   and an FDT carousel with a non-negative delay = D42 excluded, adds under TOIs that are neither
   live nor 0, non-negative carousel delays), [divf_total] (Duration::div_f64 defined for a divisor
   >= 1), and for the zero-tick statements [divf_zero] (div_f64 of a zero duration is not positive)
   and reads that never go back in time. *)
From FluteV Require Import Proofs.C13Full Proofs.C12Quiesce Proofs.C14Prompt.
From Coq Require Import Sorted.

(* (P1) one read.  Some queue is ready: the read returns a packet (never "nothing", never a panic,
   never the fuel guard); if it is an object packet the object belongs to a queue of that key or a
   smaller one, and no queue of a smaller key than the object's was ready. *)
Theorem C14_prompt_read : forall fdt_npk fdt_ok divf full dur car sid queues ops now q o s',
  reach_ok fdt_npk fdt_ok divf full dur car sid queues ops -> divf_total divf ->
  let s := snd (run_ops fdt_npk fdt_ok divf (init_st full dur car sid queues) ops) in
  In q (squeues s) -> queue_ready s now q = true -> sender_read fdt_npk fdt_ok divf now s = (o, s') ->
  is_pkt o = true
  /\ forall toi c, o = RObj toi c ->
       exists p, prio_of_toi s toi = Some p /\ p <= q_prio q
                 /\ forall q', In q' (squeues s) -> q_prio q' < p -> queue_ready s now q' = false.
Proof. exact hist_prompt_read. Qed.
Print Assumptions C14_prompt_read.

(* (P2) the same with no FDT instance pending (the run of the FDT session at this instant is silent)
   in FullFDT mode: the packet is the packet [out_of s id c] (= RObj toi c for a file object) of an
   object that holds a slot or waits for one, of the priority of the ready queue or higher, and no
   queue of a smaller key than that object's was ready. *)
Theorem C14_prompt_read_object : forall fdt_npk fdt_ok divf full dur car sid queues ops now q o s' s1,
  reach_ok fdt_npk fdt_ok divf full dur car sid queues ops -> divf_total divf ->
  let s := snd (run_ops fdt_npk fdt_ok divf (init_st full dur car sid queues) ops) in
  In q (squeues s) -> queue_ready s now q = true ->
  run_fdt_session fdt_npk fdt_ok divf now s = (RNothing, s1) -> full_fdt s = true ->
  sender_read fdt_npk fdt_ok divf now s = (o, s') ->
  exists id c, In id (live (all_sessions (squeues s)) s) /\ o = out_of s id c
    /\ o_prio (f_o (obj s id)) <= q_prio q
    /\ forall q', In q' (squeues s) -> q_prio q' < o_prio (f_o (obj s id)) -> queue_ready s now q' = false.
Proof. exact hist_prompt_read_object. Qed.
Print Assumptions C14_prompt_read_object.

(* (P3) a silent read, read backwards: no queue was ready; an object in a slot with a packet left is
   paced into the future; an object that waits and may start waits behind objects paced into the
   future that hold every slot of its queue; afterwards no FDT instance is queued and every object
   still in a slot is paced into the future. *)
Theorem C14_silent_read : forall fdt_npk fdt_ok divf full dur car sid queues ops now s',
  reach_ok fdt_npk fdt_ok divf full dur car sid queues ops ->
  let s := snd (run_ops fdt_npk fdt_ok divf (init_st full dur car sid queues) ops) in
  sender_read fdt_npk fdt_ok divf now s = (RNothing, s') ->
  (forall q, In q (squeues s) -> queue_ready s now q = false)
  /\ (forall q ss id e, In q (squeues s) -> In ss (q_sessions q) -> ss_file ss = Some id -> ss_enc ss = Some e ->
        enc_has_packet e = true -> paced now s id = true)
  /\ (forall q id, In q (squeues s) -> In id (queue s) ->
        should_transfer_now (obj s id) (q_prio q) (full_fdt s) now = true ->
        forall ss, In ss (q_sessions q) ->
          exists id' e, ss_file ss = Some id' /\ ss_enc ss = Some e /\ paced now s id' = true)
  /\ fdtq s' = []
  /\ (forall ss id, In ss (all_sessions (squeues s')) -> ss_file ss = Some id -> paced now s' id = true).
Proof. exact hist_silent_read. Qed.
Print Assumptions C14_silent_read.

(* (P4) the bound.  A slot (position k of the list of all slots) holds an object with a packet that
   is due: every read at that instant returns a packet and after fewer than [MUs now s] reads (the
   packets the sender still owes at that instant: C12 quiescence potential) the read returns the
   packet of that object. *)
Theorem C14_due_packet_goes_out : forall fdt_npk fdt_ok divf full dur car sid queues ops now k id e,
  reach_ok fdt_npk fdt_ok divf full dur car sid queues ops -> divf_total divf ->
  let s := snd (run_ops fdt_npk fdt_ok divf (init_st full dur car sid queues) ops) in
  DueAt now k id e (all_sessions (squeues s)) s ->
  exists n c, (n < MUs fdt_npk now s)%nat
    /\ Forall (fun o => is_pkt o = true) (fst (read_n fdt_npk fdt_ok divf now n s))
    /\ fst (sender_read fdt_npk fdt_ok divf now (snd (read_n fdt_npk fdt_ok divf now n s))) = out_of s id c.
Proof. exact hist_due_packet_goes_out. Qed.
Print Assumptions C14_due_packet_goes_out.

(* (P5) round robin inside one queue (any state that satisfies the ownership invariant INV, the
   queue's slots at positions |Lpre|.. of the slot list): the read of the queue returns a packet;
   it is the due packet of slot j or the round-robin index has moved closer to j, and the distance
   is smaller than the number of slots: at most (slots) reads of the queue. *)
Theorem C14_round_robin : forall fdt_npk fdt_ok divf now Lpre Lpost fs q t o q' t' j id e,
  wfq q -> INV (Lpre ++ q_sessions q ++ Lpost) fs t ->
  read_priority_queue fdt_npk fdt_ok divf q now t = (o, q', t') -> fdtq t' = [] ->
  (j < length (q_sessions q))%nat ->
  DueAt now (length Lpre + j) id e (Lpre ++ q_sessions q ++ Lpost) t ->
  o <> RNothing
  /\ ((exists c, o = out_of t id c)
      \/ (DueAt now (length Lpre + j) id e (Lpre ++ q_sessions q' ++ Lpost) t'
          /\ (rr_dist (q_index q') j (length (q_sessions q)) < rr_dist (q_index q) j (length (q_sessions q)))%nat))
  /\ (rr_dist (q_index q) j (length (q_sessions q)) < length (q_sessions q))%nat.
Proof. exact rr_fairness. Qed.
Print Assumptions C14_round_robin.

(* (P6) degenerate inputs never stall.  After a silent read no slot holds an object that is never
   paced: no target / as fast as possible ([unpaced_target]), or a transfer whose tick is zero
   ([zero_started]: target duration 0, or a deadline not after the start of the transfer). *)
Theorem C14_silent_no_unpaced_held : forall fdt_npk fdt_ok divf full dur car sid queues ops now s',
  reach_ok fdt_npk fdt_ok divf full dur car sid queues ops -> divf_zero divf ->
  reads_monotone (ops ++ [OpRead now]) ->
  let s := snd (run_ops fdt_npk fdt_ok divf (init_st full dur car sid queues) ops) in
  sender_read fdt_npk fdt_ok divf now s = (RNothing, s') ->
  forall ss id, In ss (all_sessions (squeues s')) -> ss_file ss = Some id ->
    ~ unpaced_target (f_o (obj s' id)) /\ ~ zero_started s' id.
Proof. exact hist_silent_no_unpaced_held. Qed.
Print Assumptions C14_silent_no_unpaced_held.

(* (P7) ... and they go through at one instant.  A never-paced object in a slot: the reads at this
   instant return packets (at most MUs), then nothing, and by then a whole transfer of the object
   has ended (total_nb_transfer has gone up: every packet of the transfer was sent, the object has
   left its slot - re-queued for a carousel, dropped when expired). *)
Theorem C14_unpaced_held_completes : forall fdt_npk fdt_ok divf full dur car sid queues ops now ss id,
  reach_ok fdt_npk fdt_ok divf full dur car sid queues ops -> divf_total divf -> divf_zero divf ->
  reads_monotone (ops ++ [OpRead now]) ->
  let s := snd (run_ops fdt_npk fdt_ok divf (init_st full dur car sid queues) ops) in
  In ss (all_sessions (squeues s)) -> ss_file ss = Some id ->
  unpaced_target (f_o (obj s id)) \/ zero_started s id ->
  exists n s1, (n <= MUs fdt_npk now s)%nat
    /\ Forall (fun o => is_pkt o = true) (fst (read_n fdt_npk fdt_ok divf now n s))
    /\ sender_read fdt_npk fdt_ok divf now (snd (read_n fdt_npk fdt_ok divf now n s)) = (RNothing, s1)
    /\ t_total (f_t (obj s id)) < t_total (f_t (obj s1 id)).
Proof. exact hist_unpaced_held_completes. Qed.
Print Assumptions C14_unpaced_held_completes.

(* (P8) the same for an object that waits and may start now (eligibility does not look at the size
   nor at the target: C14_eligibility_ignores_payload): empty content, deadline not after now,
   target duration 0, no target.  Either a whole transfer has ended, or it still waits, may still
   start, and every slot of its queue is held by an object that is paced into the future. *)
Theorem C14_unpaced_waiting_completes : forall fdt_npk fdt_ok divf full dur car sid queues ops now q id,
  reach_ok fdt_npk fdt_ok divf full dur car sid queues ops -> divf_total divf -> divf_zero divf ->
  reads_monotone (ops ++ [OpRead now]) ->
  let s := snd (run_ops fdt_npk fdt_ok divf (init_st full dur car sid queues) ops) in
  In q (squeues s) -> In id (queue s) ->
  should_transfer_now (obj s id) (q_prio q) (full_fdt s) now = true ->
  unpaced_target (f_o (obj s id)) \/ zero_at now (f_o (obj s id)) ->
  exists n s1, (n <= MUs fdt_npk now s)%nat
    /\ Forall (fun o => is_pkt o = true) (fst (read_n fdt_npk fdt_ok divf now n s))
    /\ sender_read fdt_npk fdt_ok divf now (snd (read_n fdt_npk fdt_ok divf now n s)) = (RNothing, s1)
    /\ (t_total (f_t (obj s id)) < t_total (f_t (obj s1 id))
        \/ (In id (queue s1)
            /\ should_transfer_now (obj s1 id) (q_prio q) (full_fdt s1) now = true
            /\ forall q1 ss, In q1 (squeues s1) -> q_prio q1 = q_prio q -> In ss (q_sessions q1) ->
                 exists id' e, ss_file ss = Some id' /\ ss_enc ss = Some e /\ paced now s1 id' = true)).
Proof. exact hist_unpaced_waiting_completes. Qed.
Print Assumptions C14_unpaced_waiting_completes.

Theorem C14_eligibility_ignores_payload : forall o o' pub t prio full now,
  o_prio o' = o_prio o -> o_max o' = o_max o -> o_car o' = o_car o ->
  should_transfer_now (mk_fdesc o' pub t) prio full now = should_transfer_now (mk_fdesc o pub t) prio full now.
Proof. exact stn_payload_indep. Qed.
Print Assumptions C14_eligibility_ignores_payload.

(* a zero carousel delay: the next transfer may start at any instant strictly after the end of the
   previous one *)
Theorem C14_zero_delay_eligible : forall f prio full now le ls,
  o_prio (f_o f) = prio -> (full = true -> f_pub f = true) ->
  match t_start_time (f_t f) with Some stt => (stt <= now)%Z | None => True end ->
  t_transferring (f_t f) = false ->
  o_car (f_o f) = CDelay 0 -> t_last_end (f_t f) = Some le -> t_last_start (f_t f) = Some ls ->
  o_max (f_o f) <= t_count (f_t f) ->
  should_transfer_now f prio full now = (le <? now)%Z.
Proof. exact zero_delay_eligible. Qed.
Print Assumptions C14_zero_delay_eligible.

(* the state-level forms: on every state that satisfies [PInv] = QInv (C12) + "the FDT session holds
   an encoder only together with its instance"; [PInv] holds initially and is kept by every operation *)
Theorem C14_prompt_read_state : forall fdt_npk fdt_ok divf now s q o s',
  PInv s -> divf_total divf -> In q (squeues s) -> queue_ready s now q = true ->
  sender_read fdt_npk fdt_ok divf now s = (o, s') ->
  is_pkt o = true
  /\ forall toi c, o = RObj toi c ->
       exists p, prio_of_toi s toi = Some p /\ p <= q_prio q
                 /\ forall q', In q' (squeues s) -> q_prio q' < p -> queue_ready s now q' = false.
Proof. exact prompt_read. Qed.
Print Assumptions C14_prompt_read_state.

Theorem C14_prompt_invariant_init : forall full dur car sid queues,
  StronglySorted N.lt (map fst queues) -> cfg_ok dur car = true -> PInv (init_st full dur car sid queues).
Proof. exact PInv_init. Qed.
Print Assumptions C14_prompt_invariant_init.

Theorem C14_prompt_invariant_step : forall fdt_npk fdt_ok divf s o,
  PInv s -> op_fresh s o = true -> op_nz o = true -> op_car o = true -> PInv (snd (step fdt_npk fdt_ok divf s o)).
Proof. exact PInv_step. Qed.
Print Assumptions C14_prompt_invariant_step.

(* the zero-tick invariant along a history whose reads never go back *)
Theorem C14_zero_tick_invariant : forall fdt_npk fdt_ok divf ops T s,
  divf_zero divf -> ZInv T s -> mono_ops T ops ->
  ZInv (last_time T ops) (snd (run_ops fdt_npk fdt_ok divf s ops)).
Proof. exact ZInv_run. Qed.
Print Assumptions C14_zero_tick_invariant.

(* ---------- examples: non-vacuity, and why each premise is there ---------- *)
Definition c14p_npk : N -> nat := fun _ => 1%nat.
Definition c14p_ok : N -> bool := fun _ => true.
Definition c14p_init (full : bool) : st := init_st full 3600000000000 (CDelay 1000000000) 1 [(0, 2%nat); (3, 1%nat)].
Definition c14p_state (dvf : Z -> N -> option Z) (full : bool) (ops : list op) : st :=
  snd (run_ops c14p_npk c14p_ok dvf (c14p_init full) ops).
Definition c14p_outs (dvf : Z -> N -> option Z) (full : bool) (ops : list op) : list opout :=
  fst (run_ops c14p_npk c14p_ok dvf (c14p_init full) ops).
Definition c14p_obj : odesc := mk_odesc 1 0 2 2 1 CNone TNone false None [].

Example C14_prompt_premises_hold :
  reach_ok c14p_npk c14p_ok c14_div true 3600000000000 (CDelay 1000000000) 1 [(0, 2%nat); (3, 1%nat)]
           [OpAdd c14p_obj None true; OpPublish 0; OpRead 0]
  /\ divf_total c14_div /\ divf_zero c14_div.
Proof. exact ex_premises. Qed.

(* the FDT has gone out, queue 0 is ready, the FDT session is idle, FullFDT: the read returns the
   object's packet; MUs = 2 packets owed *)
Example C14_prompt_example :
  let s := c14p_state c14_div true [OpAdd c14p_obj None true; OpPublish 0; OpRead 0] in
  (map (queue_ready s 0) (squeues s), fst (run_fdt_session c14p_npk c14p_ok c14_div 0 s), full_fdt s,
   fst (sender_read c14p_npk c14p_ok c14_div 0 s), MUs c14p_npk 0 s)
  = ([true; false], RNothing, true, RObj 1 false, 2%nat).
Proof. vm_compute. reflexivity. Qed.

(* Duration::div_f64 undefined (divf_total dropped): the ready queue makes the read panic *)
Example C14_prompt_divf_total_needed_refuted :
  let dnone : Z -> N -> option Z := fun _ _ => None in
  let s := c14p_state dnone true [OpAdd (mk_odesc 1 0 2 2 1 CNone (TDuration 1000) false None []) None true; OpPublish 0; OpRead 0] in
  (map (queue_ready s 0) (squeues s), is_pkt (fst (sender_read c14p_npk c14p_ok dnone 0 s))) = ([true; false], false).
Proof. vm_compute. reflexivity. Qed.

(* (P2) without "FullFDT": in ObjectsBeingTransferred mode starting the transfer publishes an FDT
   instance first; the read returns that FDT packet, the object's packet comes with the next read *)
Example C14_prompt_object_full_mode_needed_refuted :
  let s := c14p_state c14_div false [OpAdd c14p_obj None true; OpRead 10] in
  (map (queue_ready s 10) (squeues s), fst (run_fdt_session c14p_npk c14p_ok c14_div 10 s), full_fdt s,
   fst (sender_read c14p_npk c14p_ok c14_div 10 s))
  = ([true; false], RNothing, false, RFdt 2 false).
Proof. vm_compute. reflexivity. Qed.

(* (P2) without "FDT session idle": the pending FDT instance goes first *)
Example C14_prompt_object_fdt_idle_needed_refuted :
  let s := c14p_state c14_div true [OpAdd c14p_obj None true; OpPublish 0] in
  (map (queue_ready s 0) (squeues s), fst (run_fdt_session c14p_npk c14p_ok c14_div 0 s),
   fst (sender_read c14p_npk c14p_ok c14_div 0 s))
  = ([true; false], RFdt 1 false, RFdt 1 false).
Proof. vm_compute. reflexivity. Qed.

(* round robin between the two slots of queue 0, then the lower priority *)
Example C14_prompt_example_round_robin :
  c14p_outs c14_div true [OpAdd (mk_odesc 7 3 1 1 1 CNone TNone false None []) None true; OpAdd c14p_obj None true;
                          OpAdd (mk_odesc 2 0 2 2 1 CNone TNone false None []) None true; OpPublish 0;
                          OpRead 0; OpRead 0; OpRead 0; OpRead 0; OpRead 0; OpRead 0; OpRead 0]
  = [OutAdd true; OutAdd true; OutAdd true; OutPublish true; OutRead (RFdt 1 false);
     OutRead (RObj 1 false); OutRead (RObj 2 false); OutRead (RObj 1 true); OutRead (RObj 2 true);
     OutRead (RObj 7 true); OutRead RNothing].
Proof. vm_compute. reflexivity. Qed.

(* degenerate inputs: (a) an empty object is one packet with the close flag, then the object is gone *)
Example C14_degenerate_empty_object :
  c14p_outs c14_div true [OpAdd (mk_odesc 1 0 0 0 1 CNone TNone false None []) None true; OpPublish 0;
                          OpRead 0; OpRead 0; OpRead 0]
  = [OutAdd true; OutPublish true; OutRead (RFdt 1 false); OutRead (RObj 1 true); OutRead RNothing].
Proof. vm_compute. reflexivity. Qed.

(* (b) a deadline in the past: all the packets at the first instant *)
Example C14_degenerate_deadline_in_the_past :
  c14p_outs c14_div true [OpAdd (mk_odesc 1 0 3 3 1 CNone (TTime 5) false None []) None true; OpPublish 10;
                          OpRead 10; OpRead 10; OpRead 10; OpRead 10; OpRead 10]
  = [OutAdd true; OutPublish true; OutRead (RFdt 1 false); OutRead (RObj 1 false); OutRead (RObj 1 false);
     OutRead (RObj 1 true); OutRead RNothing].
Proof. vm_compute. reflexivity. Qed.

(* (c) a zero target duration: the same *)
Example C14_degenerate_zero_duration :
  c14p_outs c14_div true [OpAdd (mk_odesc 1 0 3 3 1 CNone (TDuration 0) false None []) None true; OpPublish 10;
                          OpRead 10; OpRead 10; OpRead 10; OpRead 10; OpRead 10]
  = [OutAdd true; OutPublish true; OutRead (RFdt 1 false); OutRead (RObj 1 false); OutRead (RObj 1 false);
     OutRead (RObj 1 true); OutRead RNothing].
Proof. vm_compute. reflexivity. Qed.

(* (c) a zero carousel delay: one transfer per instant (the gap is strict), never a stall *)
Example C14_degenerate_zero_carousel_delay :
  c14p_outs c14_div true [OpAdd (mk_odesc 1 0 1 1 1 (CDelay 0) TNone false None []) None true; OpPublish 10;
                          OpRead 10; OpRead 10; OpRead 10; OpRead 11; OpRead 11; OpRead 12]
  = [OutAdd true; OutPublish true; OutRead (RFdt 1 false); OutRead (RObj 1 false); OutRead RNothing;
     OutRead (RObj 1 false); OutRead RNothing; OutRead (RObj 1 false)].
Proof. vm_compute. reflexivity. Qed.

(* (P6)-(P8) without [divf_zero]: were div_f64 of a zero duration positive (5 here) the zero-duration
   object would be held back although its target says "now" *)
Example C14_zero_tick_divf_zero_needed_refuted :
  let d5 : Z -> N -> option Z := fun d n => if (d =? 0)%Z then Some 5%Z else Some (d / Z.of_N n)%Z in
  c14p_outs d5 true [OpAdd (mk_odesc 1 0 3 3 1 CNone (TDuration 0) false None []) None true; OpPublish 10;
                     OpRead 10; OpRead 10; OpRead 10; OpRead 15]
  = [OutAdd true; OutPublish true; OutRead (RFdt 1 false); OutRead (RObj 1 false); OutRead RNothing;
     OutRead (RObj 1 false)].
Proof. vm_compute. reflexivity. Qed.

(* (P6)-(P8) without monotone reads: a clock that goes back holds the zero-duration object back *)
Example C14_zero_tick_monotone_reads_needed_refuted :
  c14p_outs c14_div true [OpAdd (mk_odesc 1 0 3 3 1 CNone (TDuration 0) false None []) None true; OpPublish 10;
                          OpRead 10; OpRead 10; OpRead 5]
  = [OutAdd true; OutPublish true; OutRead (RFdt 1 false); OutRead (RObj 1 false); OutRead RNothing].
Proof. vm_compute. reflexivity. Qed.
(* ===== end block: C14Prompt ===== *)
