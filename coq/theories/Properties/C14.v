(* C14 - Timing: start times, carousel gaps and pacing never early; edge cases are safe. *)
From FluteV Require Import Model.SenderCtl Spec.SenderSpec Proofs.SenderProofs Proofs.C14Full.
Open Scope N_scope.

(* History-level statement, unconditional form.  It is FALSE of the model as it stands (see
   C14_timing_full_refuted below): the three predicates look the object up by TOI in the state
   before the read, and the clock handed to read() is whatever the caller passes.  The proved
   theorem is C14_timing, under the premises shown necessary by the Examples.
   (P_C14_start_time / P_C14_pacing / P_C14_carousel_gap are evaluated on the implementation's
   packets against the model state on every run; the carousel clause is known to fail in class
   D23 = carousel with max_transfer_count >= 2, see known_findings.txt.) *)
Definition C14_timing_full : Prop :=
  forall fdt_npk fdt_ok divf ops full dur car sid queues,
    Forall (fun es => match fst es with
                      | TRead now r _ _ =>
                        P_C14_start_time (snd es) now r = true /\ P_C14_pacing (snd es) now r = true
                        /\ (in_D23 (snd es) now r = false -> P_C14_carousel_gap (snd es) now r = true)
                      | _ => True
                      end)
           (model_trace fdt_npk fdt_ok divf (init_st full dur car sid queues) ops).

(* (0) THE HISTORY THEOREM.  Every packet of every history of the sender model respects the start
   time, the pacing schedule and (outside D23) the carousel gap, provided
     - distinct_tois ops  : the TOIs of the accepted adds are pairwise distinct,
     - reads_monotone ops : the instants handed to successive reads never go back. *)
Theorem C14_timing : forall fdt_npk fdt_ok divf ops full dur car sid queues,
  distinct_tois ops -> reads_monotone ops ->
  Forall (fun es => match fst es with
                    | TRead now r _ _ =>
                      P_C14_start_time (snd es) now r = true /\ P_C14_pacing (snd es) now r = true
                      /\ (in_D23 (snd es) now r = false -> P_C14_carousel_gap (snd es) now r = true)
                    | _ => True
                    end)
         (model_trace fdt_npk fdt_ok divf (init_st full dur car sid queues) ops).
Proof. exact C14_timing_history. Qed.
Print Assumptions C14_timing.

(* --- the premises are needed --- *)
Definition c14_div (d : Z) (n : N) : option Z := Some (d / Z.of_N n)%Z.
Definition c14_check (queues : list (N * nat)) (ops : list op) : bool :=
  forallb C14_clause_b
    (model_trace (fun _ => 1%nat) (fun _ => true) c14_div
                 (init_st true 3600000000000 (CDelay 1000000000) 1 queues) ops).

(* a clock that goes back: the object (start time 10) is started at 10, its second packet leaves
   at 5 < 10 (no pacing: nothing holds it back) *)
Example C14_monotone_reads_needed_refuted :
  let od := mk_odesc 1 0 3 3 1 CNone TNone false None [] in
  c14_check [(0, 1%nat)] [OpAdd od (Some 10%Z) true; OpPublish 0; OpRead 10; OpRead 10; OpRead 5] = false.
Proof. vm_compute; reflexivity. Qed.

(* a TOI used again after remove() while the removed object still holds its slot (legal for the
   implementation: only a TOI that is currently in the FDT is refused): the packet of the new object
   is judged against the old one, found first under the same TOI *)
Example C14_distinct_tois_needed_refuted :
  let oa := mk_odesc 1 0 2 2 1 CNone (TDuration 1000) false None [] in
  let ob := mk_odesc 1 0 1 1 1 CNone TNone false None [] in
  c14_check [(0, 2%nat)] [OpAdd oa None true; OpPublish 0; OpRead 0; OpRead 0; OpRemove 1;
                          OpAdd ob None true; OpPublish 1; OpRead 1; OpRead 1] = false.
Proof. vm_compute; reflexivity. Qed.

(* the same with both objects waiting (the implementation debug_asserts against this one) *)
Example C14_distinct_tois_needed_refuted' :
  let ob := mk_odesc 1 0 1 1 1 CNone TNone false None [] in
  c14_check [(0, 1%nat)] [OpAdd ob (Some 100%Z) true; OpAdd ob None true; OpPublish 0; OpRead 0; OpRead 0] = false.
Proof. vm_compute; reflexivity. Qed.

Theorem C14_timing_full_refuted : ~ C14_timing_full.
Proof.
  intros H.
  pose proof (C14_forallb _ (H (fun _ => 1%nat) (fun _ => true) c14_div
     [OpAdd (mk_odesc 1 0 3 3 1 CNone TNone false None []) (Some 10%Z) true; OpPublish 0; OpRead 10; OpRead 10; OpRead 5]
     true 3600000000000%Z (CDelay 1000000000) 1 [(0, 1%nat)])) as E.
  vm_compute in E. discriminate.
Qed.
Print Assumptions C14_timing_full_refuted.

(* (1) a transfer is started only when the configured start time has been reached *)
Theorem C14_eligible_implies_start_time_reached : forall f prio full now,
  should_transfer_now f prio full now = true ->
  match t_start_time (f_t f) with Some stt => (stt <= now)%Z | None => True end.
Proof. exact eligible_implies_start_time_reached. Qed.
Print Assumptions C14_eligible_implies_start_time_reached.

(* (2) once the transfer-count budget is used up, a carousel object restarts only strictly after
   the configured delay since the previous end (interval since the previous start) *)
Theorem C14_eligible_implies_carousel_gap : forall f prio full now,
  should_transfer_now f prio full now = true ->
  o_max (f_o f) <= t_count (f_t f) ->
  match o_car (f_o f) with CDelay d | CInterval d => (0 <= d)%Z | CNone => True end ->
  match o_car (f_o f), t_last_end (f_t f), t_last_start (f_t f) with
  | CDelay d, Some le, Some _ => (d < now - le)%Z
  | CInterval d, Some _, Some ls => (d < now - ls)%Z
  | _, _, _ => True
  end.
Proof. exact eligible_implies_carousel_gap. Qed.
Print Assumptions C14_eligible_implies_carousel_gap.

(* (3) pacing gate: whatever packet a session emits, the object's next-transfer timestamp was due *)
Theorem C14_packet_respects_pacing_gate : forall fdt_npk fdt_ok divf fuel ss now s o ss' s',
  session_run fdt_npk fdt_ok divf fuel ss now s = (o, ss', s') ->
  match o with
  | RObj _ _ | RFdt _ _ =>
    exists id s1, ss_file ss' = Some id
      /\ s' = upd_t s1 id t_tickf
      /\ match t_next_ts (f_t (obj s1 id)) with Some ts => (ts <= now)%Z | None => True end
  | _ => True
  end.
Proof. exact packet_respects_pacing_gate. Qed.
Print Assumptions C14_packet_respects_pacing_gate.

(* (4) degenerate inputs: starting a transfer never panics (empty object, deadline in the past,
   zero duration) as long as Duration::div_f64 is defined for a divisor >= 1 *)
Theorem C14_transfer_start_total : forall divf o now t,
  (forall d n, 1 <= n -> divf d n <> None) -> t_init divf o now t <> None.
Proof. exact t_init_total. Qed.
Print Assumptions C14_transfer_start_total.

Example C14_example_pacing :
  let od := mk_odesc 1 0 2 2 1 CNone (TDuration 1000) false None [] in
  let ops := [OpAdd od None true; OpPublish 0; OpRead 0; OpRead 0; OpRead 0; OpRead 499; OpRead 500] in
  fst (run_ops (fun _ => 1%nat) (fun _ => true) (fun d n => Some (d / Z.of_N n)%Z)
               (init_st true 3600000000000 (CDelay 1000000000) 1 [(0, 1%nat)]) ops)
  = [OutAdd true; OutPublish true; OutRead (RFdt 1 false); OutRead (RObj 1 false); OutRead RNothing;
     OutRead RNothing; OutRead (RObj 1 true)].
Proof. vm_compute. reflexivity. Qed.
