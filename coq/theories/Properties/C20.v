(* C20 - Object sources interchangeable: packets depend on the bytes, not on how they are read. *)
From FluteV Require Import Model.Partition Model.BlockEnc Model.StreamPos Proofs.BlockEncProofs Proofs.C20Transfers.
Open Scope N_scope.

(* For every FEC oracle, every configuration with E, B > 0, every content and EVERY read
   schedule whose reads return at least one byte until EOF (one byte at a time, random chunk
   sizes, BufReader-like, ...), the blocks built from the stream are the blocks built from the
   buffer; the packet sequence (enc_run) is a function of the block list only, so the packets
   are identical.  A new BlockEncoder is created for every transfer and seeks the stream to 0
   (BlockEncoder::new), so every transfer re-reads the source from its start. *)
Theorem C20_chunking_independent : forall rep raptor_src c content reads,
  0 < c_e c -> 0 < c_b c -> c_tlen c = lenN content ->
  Forall (fun r => 0 < r) reads ->
  blocks_of_stream rep raptor_src c content reads = blocks_of_buffer rep raptor_src c content.
Proof. exact chunking_independent_proof. Qed.
Print Assumptions C20_chunking_independent.

Theorem C20_same_packets : forall rep raptor_src c content reads fuel forces,
  0 < c_e c -> 0 < c_b c -> c_tlen c = lenN content ->
  Forall (fun r => 0 < r) reads ->
  enc_run fuel c forces (est_init (blocks_of_stream rep raptor_src c content reads))
  = enc_run fuel c forces (est_init (blocks_of_buffer rep raptor_src c content)).
Proof. intros. rewrite chunking_independent_proof by assumption. reflexivity. Qed.
Print Assumptions C20_same_packets.

(* the read loop itself: any schedule of positive reads yields min(want, remaining) bytes *)
Theorem C20_read_fill : forall fuel want rest reads,
  (N.to_nat want < fuel)%nat -> Forall (fun r => 0 < r) reads ->
  exists reads',
    read_fill fuel want rest reads =
      (firstn (N.to_nat (N.min want (lenN rest))) rest,
       skipn (N.to_nat (N.min want (lenN rest))) rest, reads')
    /\ Forall (fun r => 0 < r) reads'.
Proof. exact read_fill_spec. Qed.
Print Assumptions C20_read_fill.

Example C20_example_one_byte_reads :
  let c := mk_ecfg NoCode 4 2 0 2 true 20 true in
  let content := [1;2;3;4;5;6;7;8;9;10;11;12;13;14;15;16;17;18;19;20] in
  blocks_of_stream (fun _ _ _ _ _ => []) (fun _ _ => None) c content (repeat 3 40)
  = blocks_of_buffer (fun _ _ _ _ _ => []) (fun _ _ => None) c content
  /\ length (blocks_of_buffer (fun _ _ _ _ _ => []) (fun _ _ => None) c content) = 3%nat.
Proof. vm_compute. split; reflexivity. Qed.

(* ---- last clause: every repeated transfer re-reads the source from its start ----
   Model.StreamPos makes the stream's position explicit: a transfer is BlockEncoder::new's
   seek to 0 followed by the block reads.  For every number of transfers, WHATEVER position
   the stream is found at before each of them (left by the previous transfer, by the
   application, by the length probe) and whatever positive read schedule each transfer sees,
   every transfer builds exactly the blocks of the buffer source. *)
Theorem C20_every_transfer_rereads : forall rep raptor_src c bytes (tr : list (N * list N)),
  0 < c_e c -> 0 < c_b c -> c_tlen c = lenN bytes ->
  Forall (fun pr => Forall (fun r => 0 < r) (snd pr)) tr ->
  transfers_blocks rep raptor_src true c bytes tr
  = repeat (blocks_of_buffer rep raptor_src c bytes) (length tr).
Proof. exact every_transfer_rereads_proof. Qed.
Print Assumptions C20_every_transfer_rereads.

Theorem C20_transfers_position_independent : forall rep raptor_src c bytes tr1 tr2,
  0 < c_e c -> 0 < c_b c -> c_tlen c = lenN bytes ->
  Forall (fun pr => Forall (fun r => 0 < r) (snd pr)) tr1 ->
  Forall (fun pr => Forall (fun r => 0 < r) (snd pr)) tr2 ->
  length tr1 = length tr2 ->
  transfers_blocks rep raptor_src true c bytes tr1 = transfers_blocks rep raptor_src true c bytes tr2.
Proof. exact transfers_position_independent. Qed.
Print Assumptions C20_transfers_position_independent.

(* non-vacuity, and the seek is what the theorem rests on: with the seek three transfers that
   find the stream at 0, at its end and in its middle give three times the buffer's 3 blocks;
   WITHOUT it (seek = false) the second builds nothing and the third starts mid-object. *)
Example C20_example_three_transfers :
  let c := mk_ecfg NoCode 4 2 0 2 true 20 true in
  let bytes := [1;2;3;4;5;6;7;8;9;10;11;12;13;14;15;16;17;18;19;20] in
  let rep := fun _ _ _ _ _ => @nil (list N) in let rs := fun (_ : list N) (_ : N) => @None (list (list N)) in
  let tr := [(0, repeat 3 40); (20, [7; 1; 100]); (9, [])] in
  transfers_blocks rep rs true c bytes tr = repeat (blocks_of_buffer rep rs c bytes) 3
  /\ length (blocks_of_buffer rep rs c bytes) = 3%nat
  /\ nth 1 (transfers_blocks rep rs false c bytes tr) [] = []
  /\ nth 2 (transfers_blocks rep rs false c bytes tr) [] <> blocks_of_buffer rep rs c bytes.
Proof. vm_compute. repeat split; try reflexivity. discriminate. Qed.
