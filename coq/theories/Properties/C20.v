(* C20 - Object sources interchangeable: packets depend on the bytes, not on how they are read. *)
From FluteV Require Import Model.Partition Model.BlockEnc Proofs.BlockEncProofs.
Open Scope N_scope.

(* For every FEC oracle, every configuration with E, B > 0, every content and EVERY read
   schedule whose reads return at least one byte until EOF (one byte at a time, random chunk
   sizes, BufReader-like, ...), the blocks built from the stream are the blocks built from the
   buffer; the packet sequence (enc_run) is a function of the block list only, so the packets
   are identical.  A new BlockEncoder is created for every transfer and seeks the stream to 0
   (BlockEncoder::new), so every transfer re-reads the source from its start. *)
Theorem C20_chunking_independent : forall rep raptor_src c content reads,
  0 < c_e c -> 0 < c_b c -> c_tlen c = lenN content ->
  Forall (fun r => 0 < r) reads ->
  blocks_of_stream rep raptor_src c content reads = blocks_of_buffer rep raptor_src c content.
Proof. exact chunking_independent_proof. Qed.
Print Assumptions C20_chunking_independent.

Theorem C20_same_packets : forall rep raptor_src c content reads fuel forces,
  0 < c_e c -> 0 < c_b c -> c_tlen c = lenN content ->
  Forall (fun r => 0 < r) reads ->
  enc_run fuel c forces (est_init (blocks_of_stream rep raptor_src c content reads))
  = enc_run fuel c forces (est_init (blocks_of_buffer rep raptor_src c content)).
Proof. intros. rewrite chunking_independent_proof by assumption. reflexivity. Qed.
Print Assumptions C20_same_packets.

(* the read loop itself: any schedule of positive reads yields min(want, remaining) bytes *)
Theorem C20_read_fill : forall fuel want rest reads,
  (N.to_nat want < fuel)%nat -> Forall (fun r => 0 < r) reads ->
  exists reads',
    read_fill fuel want rest reads =
      (firstn (N.to_nat (N.min want (lenN rest))) rest,
       skipn (N.to_nat (N.min want (lenN rest))) rest, reads')
    /\ Forall (fun r => 0 < r) reads'.
Proof. exact read_fill_spec. Qed.
Print Assumptions C20_read_fill.

Example C20_example_one_byte_reads :
  let c := mk_ecfg NoCode 4 2 0 2 true 20 true in
  let content := [1;2;3;4;5;6;7;8;9;10;11;12;13;14;15;16;17;18;19;20] in
  blocks_of_stream (fun _ _ _ _ _ => []) (fun _ _ => None) c content (repeat 3 40)
  = blocks_of_buffer (fun _ _ _ _ _ => []) (fun _ _ => None) c content
  /\ length (blocks_of_buffer (fun _ _ _ _ _ => []) (fun _ _ => None) c content) = 3%nat.
Proof. vm_compute. split; reflexivity. Qed.
