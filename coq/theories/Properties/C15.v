(* C15 - TOI allocation: non-zero, within configured width, unique while live, wire-exact.
   This file holds only the property theorems (each closed by [exact]), their
   [Print Assumptions], and non-vacuity examples.

   The model (Model/Toi.v) is that of the code WITH fixes/D14-toi112-mask.patch: before it,
   ToiMax112 was not masked (see the D14 examples at the end).

   Clause "TOI handles and the sender can be moved and used across threads": Send is a fact of
   rustc's type checker, not of an executable model.  It is checked by compilation of
   harness/src/c15.rs (assert_send::<Sender>(), assert_send::<Box<Toi>>()) and exercised by the
   histories run on, and dropped from, other threads; it is NOT proved here.

   Capacity precondition (explicit in every statement): the allocation loop of
   toiallocator.rs:80-91 needs a free value; with [n] values reserved it finds one within
   n+2 candidates provided n + 2 < 2^width.  The bound is tight: with 2^width - 2 values
   reserved the call that hands out the last free value never returns (probe on the real code,
   16 bit: the 65535th allocate_toi spins for ever with the allocator's mutex held; the 65534
   before it agree with the model).  Exhaustion is outside the statement of C15; it is recorded
   as an observation, not as a finding of this property. *)
From FluteV Require Import Model.Toi Spec.C15Spec Proofs.ToiProofs.
Open Scope N_scope.

(* (1) alloc_inv holds initially for EVERY initial value - Some 0, Some n for any n (also
   beyond the width or beyond 2^112), and None with any random draw:
   the next candidate is in 1 .. 2^width-1 and nothing is reserved. *)
Theorem C15_alloc_inv_initial : forall w init rnd,
  let a := alloc_new w init rnd in
  1 <= a_next a < 2 ^ width_bits w /\ a_reserved a = [] /\ a_width a = w /\ ainv a.
Proof. exact alloc_inv_initial. Qed.
Print Assumptions C15_alloc_inv_initial.

(* (2) alloc_fresh + alloc_loop_terminates: under the invariant and the capacity precondition
   allocate neither panics (assert!, u128 overflow of toi+1) nor loops; the value is non-zero,
   fits the configured width, is not reserved; it becomes reserved and the invariant is kept
   (so the next candidate is again free, non-zero and within the width - also across
   wrap-around). *)
Theorem C15_allocate_fresh : forall a,
  ainv a -> N.of_nat (length (a_reserved a)) + 2 < 2 ^ width_bits (a_width a) ->
  exists a', allocate a = Ok (a_next a, a')
    /\ a_next a <> 0 /\ a_next a < 2 ^ width_bits (a_width a)
    /\ ~ In (a_next a) (a_reserved a)
    /\ a_reserved a' = a_next a :: a_reserved a
    /\ ainv a'.
Proof. exact allocate_fresh. Qed.
Print Assumptions C15_allocate_fresh.

(* (3) release (Drop for Toi): the debug_assert never fires for a reserved value, the value
   and only the value leaves the reserved set, the invariant is kept. *)
Theorem C15_release_reusable : forall a v,
  ainv a -> In v (a_reserved a) ->
  exists a', release a v = Some a' /\ ainv a'
    /\ ~ In v (a_reserved a')
    /\ (forall x, x <> v -> (In x (a_reserved a') <-> In x (a_reserved a))).
Proof. exact release_reusable. Qed.
Print Assumptions C15_release_reusable.

(* (4) alloc_unique_live: after EVERY history of allocate / drop / add_object (with or without
   handle, accepted or refused) / start / finish / remove / churn that respects the capacity
   precondition, from every initial configuration: no operation panicked or hung, the values
   of all live boxes (handles not yet dropped, objects not yet released - including objects
   removed while being sent) are pairwise distinct, non-zero, within the width, and are
   exactly the allocator's reserved set. *)
Theorem C15_unique_live : forall c ops,
  within_capacity c (sender_new c) ops ->
  exists s', state_after c (sender_new c) ops = Some s'
    /\ NoDup (live_vals s')
    /\ (forall v, In v (live_vals s') -> v <> 0 /\ v < 2 ^ width_bits (c_width c))
    /\ live_vals s' = a_reserved (s_alloc s').
Proof. exact unique_live. Qed.
Print Assumptions C15_unique_live.

(* the invariant behind (4), for use in (5)-(6): it holds in every reachable state *)
Theorem C15_invariant_reachable : forall c ops,
  within_capacity c (sender_new c) ops ->
  exists s', state_after c (sender_new c) ops = Some s' /\ sinv c s'.
Proof. exact invariant_reachable. Qed.
Print Assumptions C15_invariant_reachable.

(* (5) every TOI handed out - by allocate_toi or implicitly by add_object - is non-zero,
   within the width and different from every TOI currently live. *)
Theorem C15_allocation_is_fresh : forall c s o v,
  sinv c s -> cap c s ->
  snd (step c s o) = RVal v -> grows o = 1%nat ->
  v <> 0 /\ v < 2 ^ width_bits (c_width c) /\ ~ In v (live_vals s)
  /\ live_vals (fst (step c s o)) = v :: live_vals s.
Proof. exact allocation_is_fresh. Qed.
Print Assumptions C15_allocation_is_fresh.

(* (6) release_before_reuse: a TOI leaves the live set (and only then can be handed out
   again, by (5)) only through an operation that releases its owner: drop of the handle,
   add_object refusing the object that holds the handle, end of the object's transfer, or
   remove_object of an object that is not being sent. *)
Theorem C15_reusable_only_after_release : forall c s o v,
  sinv c s -> cap c s ->
  In v (live_vals s) -> ~ In v (live_vals (fst (step c s o))) ->
  exists e, In e (s_live s) /\ e_val e = v /\ releases o e = true.
Proof. exact leaves_only_by_release. Qed.
Print Assumptions C15_reusable_only_after_release.

(* (7) toi_wire_exact: a TOI below 2^112 - every allocated one is, by (4) - passes through the
   TOI field width selection of push_lct_header unharmed for every TSI (the field, decoded
   as parse_lct_header does, is the value; it has at most 14 bytes, whole half-words), and its
   FDT attribute text reads back as the value and is canonical decimal. *)
Theorem C15_toi_wire_exact : forall v tsi,
  v < 2 ^ 112 ->
  be_decode (toi_field_bytes v (h_of_tsi tsi)) = v
  /\ field_ok (toi_field_bytes v (h_of_tsi tsi)) v = true
  /\ dec_value (to_decimal v) = v
  /\ canonical_dec (to_decimal v) = true.
Proof. exact toi_wire_exact. Qed.
Print Assumptions C15_toi_wire_exact.

(* (8) the executable predicates evaluated by the check on the implementation's observations
   hold of the model for every history within capacity (so "implementation = model" on a
   history implies the predicate on the implementation's observations). *)
Theorem C15_spec_history_capacity_holds : forall c ops,
  within_capacity c (sender_new c) ops ->
  P_C15_history (c_width c) ops (map render_out (run c (sender_new c) ops)) = true.
Proof. exact spec_history_capacity. Qed.
Print Assumptions C15_spec_history_capacity_holds.

(* the same with a guard that can be read off the input: fewer than 2^width - 2 operations
   that keep a TOI (a churn of any length keeps none) *)
Theorem C15_spec_history_holds : forall c ops,
  N.of_nat (total_grows ops) + 2 < width_limit (c_width c) ->
  P_C15_history (c_width c) ops (map render_out (run c (sender_new c) ops)) = true.
Proof. exact spec_history. Qed.
Print Assumptions C15_spec_history_holds.

Theorem C15_spec_wire_holds : forall toi tsi,
  P_C15_wire toi (toi_field_bytes toi (h_of_tsi tsi))
             (be_decode (toi_field_bytes toi (h_of_tsi tsi))) = true.
Proof. exact spec_wire. Qed.
Print Assumptions C15_spec_wire_holds.

(* ---------------- non-vacuity ---------------- *)

Definition c16 (init : option N) := mkConfig ToiMax16 init 0 1.
Definition c112 (init : option N) := mkConfig ToiMax112 init 0 65536.

(* a history across the wrap-around: 16 bit, initial value 0xFFFE *)
Definition ops_wrap := [OAlloc; OAlloc; OAlloc; OAdd None AddOk; OAdd (Some 1%nat) AddOk;
                        OStart 1%nat; ORemove 1%nat; OAlloc; OFinish 0%nat; OAlloc; ODrop 0%nat; OAlloc].
Example C15_example_wrap_values :
  map fst (run (c16 (Some 65534)) (sender_new (c16 (Some 65534))) ops_wrap)
  = [RVal 65534; RVal 65535; RVal 1; RVal 2; RVal 65535;
     RPkts [(1%nat, 65535, [255; 255])]; RNone; RVal 3;
     RPkts [(0%nat, 2, [0; 2]); (1%nat, 65535, [255; 255])]; RVal 4; RNone; RVal 5].
Proof. vm_compute. reflexivity. Qed.
Example C15_example_wrap_capacity : within_capacity (c16 (Some 65534)) (sender_new (c16 (Some 65534))) ops_wrap.
Proof. vm_compute. repeat split; reflexivity. Qed.
Example C15_example_wrap_spec :
  P_C15_history ToiMax16 ops_wrap (map render_out (run (c16 (Some 65534)) (sender_new (c16 (Some 65534))) ops_wrap)) = true.
Proof. vm_compute. reflexivity. Qed.

(* a full cycle of the 16-bit space with two values held: they are skipped, the released one is
   handed out again *)
Definition ops_cycle := [OAlloc; OAlloc; OAlloc; ODrop 1%nat; OChurn 65531; OAlloc; OAlloc; OAlloc].
Example C15_example_cycle :
  let outs := map fst (run (c16 (Some 1)) (sender_new (c16 (Some 1))) ops_cycle) in
  nth 5 outs RNone = RVal 65535 /\ nth 6 outs RNone = RVal 2 /\ nth 7 outs RNone = RVal 4
  /\ P_C15_history ToiMax16 ops_cycle (map render_out (run (c16 (Some 1)) (sender_new (c16 (Some 1))) ops_cycle)) = true.
Proof. vm_compute. repeat split; reflexivity. Qed.

(* the hypotheses of (2), (5), (6) are satisfiable; the random default (None) with a draw of 128 bits *)
Example C15_example_hypotheses :
  let c := c112 None in
  let c' := mkConfig ToiMax112 None (2 ^ 128 - 1) 1 in
  sinv c (sender_new c) /\ cap c (sender_new c)
  /\ map fst (run c' (sender_new c') [OAlloc; OAdd None AddOk; OStart 0%nat])
     = [RVal (2 ^ 112 - 1); RVal 1; RPkts [(0%nat, 1, [0; 1])]].
Proof.
  split; [apply sender_new_inv|]. split; [vm_compute; reflexivity|]. vm_compute. reflexivity.
Qed.

(* a 112-bit value uses all 14 bytes; with a TSI that needs no half-word a 32-bit one uses 4 *)
Example C15_example_wire :
  toi_field_bytes (2 ^ 112 - 1) 0 = repeat 255 14 /\ toi_field_bytes (2 ^ 16) 0 = [0; 1; 0; 0]
  /\ toi_field_bytes (2 ^ 16) 1 = [0; 0; 0; 1; 0; 0] /\ to_decimal 65535 = [6; 5; 5; 3; 5].
Proof. vm_compute. repeat split; reflexivity. Qed.

(* the predicate is not trivially true: a duplicate of a live value, a zero, a value beyond the
   width and a wrong wire TOI are rejected *)
Example C15_example_predicate_rejects :
  P_C15_history ToiMax16 [OAlloc; OAlloc] [(RVal 7, []); (RVal 7, [])] = false
  /\ P_C15_history ToiMax16 [OAlloc] [(RVal 0, [])] = false
  /\ P_C15_history ToiMax16 [OAlloc] [(RVal 65536, [])] = false
  /\ P_C15_history ToiMax16 [OAlloc; ODrop 0%nat; OAlloc] [(RVal 7, []); (RNone, []); (RVal 7, [])] = true
  /\ P_C15_history ToiMax16 [OAdd None AddOk; OStart 0%nat]
       [(RVal 7, [[7]]); (RPkts [(0%nat, 0, [])], [[7]])] = false
  /\ P_C15_history ToiMax16 [OAdd None AddOk] [(RVal 7, [[0; 7]])] = false.
Proof. vm_compute. repeat split; reflexivity. Qed.

(* D14, for the record: what the unmasked ToiMax112 of the unrepaired code did.  2^112 (or a
   random u128) was handed out as it was, although the LCT header cannot carry it: the width
   selection then writes no TOI bytes at all (or only the half-word forced by the TSI), and
   u128::MAX made [toi + 1] overflow.  The repaired [to_max_length] maps both into range. *)
Example C15_D14_record :
  toi_field_bytes (2 ^ 112) 0 = [] /\ toi_field_bytes (2 ^ 112 + 5) 1 = [0; 5]
  /\ checked_add1 (2 ^ 128 - 1) = None
  /\ to_max_length (2 ^ 112) ToiMax112 = 0 /\ to_max_length (2 ^ 128 - 1) ToiMax112 = 2 ^ 112 - 1.
Proof. vm_compute. repeat split; reflexivity. Qed.
