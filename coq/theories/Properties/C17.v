(* C17 - Receiver memory is bounded by configuration, not by traffic. *)
From FluteV Require Import Model.ObjRecv Model.Recv Spec.RecvSpec Spec.C17Spec Proofs.RecvProofs Proofs.C17Full.
Open Scope N_scope.

(* Full statement, proved: in every state reachable by any event sequence with bounded inputs,
   P_C17_bounds holds (per object: cached packets <= cache size + one packet, allocated blocks <=
   cache size + two blocks; failed list <= max_objects_error; current FDT instances <= 10).
   Bounded inputs (C17_inputs_bounded, Proofs/C17Full.v): every pushed datagram of an object other
   than the FDT is at most maxpkt bytes long; every OTI carried by such a datagram or announced
   by an FDT instance (the parse_fdt oracle) has B * E <= maxblk; for FEC 129, whose block length
   is read from each packet, source block length field * E <= maxblk.
   P_C17_heap / P_C17_heap_cfg tie the ledger to the measured live heap of the implementation
   (the heap itself is measured, not proved). *)
Theorem C17_bounds_full :
  forall E parse_fdt cfg evs maxpkt maxblk,
    C17_inputs_bounded parse_fdt evs maxpkt maxblk ->
    let '(_, r, _) := recv_run E parse_fdt cfg recv0 evs ctx0 in
    P_C17_bounds cfg maxpkt maxblk r = true.
Proof. exact C17_bounds_proved. Qed.
Print Assumptions C17_bounds_full.

(* the same after every prefix of the history: every reachable state *)
Theorem C17_bounds_every_state :
  forall E parse_fdt cfg evs maxpkt maxblk n,
    C17_inputs_bounded parse_fdt evs maxpkt maxblk ->
    let '(_, r, _) := recv_run E parse_fdt cfg recv0 (firstn n evs) ctx0 in
    P_C17_bounds cfg maxpkt maxblk r = true.
Proof. exact C17_bounds_every_prefix. Qed.
Print Assumptions C17_bounds_every_state.

(* object level: the invariant behind it (exact block accounting, partition bound, well-formed
   cached packets; since D47 also, under the hypothesis fec_out_ok E on the decoder oracle, what the block
   decoders hold: HB, see C17_held_bytes_bounded_by_accounted) is preserved by ObjectReceiver::push and attach_fdt *)
Theorem C17_object_push : forall E maxpkt maxblk smax p o c,
  G E maxpkt maxblk smax o -> pkt_ok maxpkt maxblk smax p = true -> G E maxpkt maxblk smax (fst (or_push E p o c)).
Proof. exact or_push_G. Qed.
Print Assumptions C17_object_push.
Theorem C17_object_bounds : forall E maxpkt maxblk smax o,
  G E maxpkt maxblk smax o -> P_C17_object maxpkt maxblk o = true.
Proof. exact G_bounds. Qed.
Theorem C17_object_invariant_statement : forall E maxpkt maxblk smax o,
  G E maxpkt maxblk smax o <-> cache_ok maxpkt o /\ W maxblk smax o /\ (fec_out_ok E -> HB maxblk o).
Proof. intros. reflexivity. Qed.
Print Assumptions C17_object_bounds.

(* the hypotheses are needed (the former placeholder premise "True" is refuted by each of these):
   a datagram longer than maxpkt overflows the cache bound *)
Example C17_unbounded_datagram_refuted :
  P_C17_bounds (c17_ex_cfg 16) 8 1024 (c17_ex_final 16 [RvPush c17_ex_pkt_plain 0%Z]) = false.
Proof. vm_compute; reflexivity. Qed.
(* an OTI with B * E > maxblk: the first block alone (63488 bytes) exceeds cache + 2 * maxblk *)
Example C17_unbounded_oti_refuted :
  P_C17_bounds (c17_ex_cfg 64) 64 1024 (c17_ex_final 64 [RvPush c17_ex_pkt_oti 0%Z]) = false.
Proof. vm_compute; reflexivity. Qed.
(* FEC 129: B * E = 4096 <= maxblk, but the block is sized from the source block length field
   of the packet (200 symbols = 204800 bytes), which is not checked against B *)
Example C17_fec129_block_length_refuted :
  P_C17_bounds (c17_ex_cfg 64) 64 4096 (c17_ex_final 64 [RvPush c17_ex_pkt_us 0%Z]) = false
  /\ map (fun q => r_alloc_size (snd q)) (rv_objects (c17_ex_final 64 [RvPush c17_ex_pkt_us 0%Z])) = [204800].
Proof. vm_compute; split; reflexivity. Qed.
(* the premise is satisfiable: the same OTI with maxblk = B * E *)
Example C17_inputs_bounded_example :
  C17_inputs_bounded c17_ex_nofdt [RvPush c17_ex_pkt_oti 0%Z; RvPush c17_ex_pkt_plain 1%Z] 64 65536.
Proof. exists 0. split; [vm_compute; reflexivity|intros d i H; discriminate H]. Qed.

(* (1) cache_bounded: for every object state satisfying the invariant, every packet of datagram
   length <= M and every behaviour of the writer oracles, after ObjectReceiver::push the size
   counter is exact and the cached bytes are at most the configured cache size plus M *)
Theorem C17_cache_bounded_push : forall E M p o c,
  cache_ok M o -> a_datalen p <= M -> cache_ok M (fst (or_push E p o c)).
Proof. exact or_push_cache_bounded. Qed.
Print Assumptions C17_cache_bounded_push.

(* (2) attaching an FDT instance never adds to the cache *)
Theorem C17_cache_bounded_attach : forall E M id files ioti o c,
  cache_ok M o -> cache_ok M (snd (fst (or_attach E id files ioti o c))).
Proof. exact or_attach_cache_bounded. Qed.
Print Assumptions C17_cache_bounded_attach.

(* (3) a new object satisfies the invariant *)
Theorem C17_cache_ok_new : forall M toi mx, cache_ok M (or_new toi mx).
Proof. exact cache_ok_new. Qed.
Print Assumptions C17_cache_ok_new.

(* (4) flushing, completing and failing only keep or clear the cache (frame) *)
Theorem C17_push_to_block_frame : forall E p o c,
  cache_keep_or_clear o (res_obj (fst (push_to_block E p o c))).
Proof. exact ckc_push_to_block. Qed.
Print Assumptions C17_push_to_block_frame.

(* (5) error_list_bounded: the collection of failed objects is trimmed to max_objects_error *)
Theorem C17_error_list_bounded : forall cfg fuel r c,
  (length (rv_error r) <= fuel + N.to_nat (cf_max_err cfg))%nat ->
  (length (rv_error (fst (gc_error cfg fuel r c))) <= N.to_nat (cf_max_err cfg))%nat.
Proof. exact gc_error_bound. Qed.
Print Assumptions C17_error_list_bounded.

Example C17_example_invariant_nontrivial :
  let p := mk_apkt 5 false false None None None None 0 [0;0;0;1] [1;2;3;4;5;6;7;8] 40 in
  let E := mk_env true false (fun _ _ => WStore) (fun _ => true) (fun _ _ => true)
                  (fun _ _ _ _ _ _ _ => None) (fun l => l) (fun _ l _ => Some l) in
  let o1 := fst (or_push E p (or_new 5 64) ctx0) in
  let o2 := fst (or_push E p o1 ctx0) in
  let o3 := fst (or_push E p o2 ctx0) in
  cache_bytes o1 = 40 /\ cache_bytes o2 = 80 /\ r_state o2 = Receiving
  /\ r_state o3 = Errored /\ cache_bytes o3 = 0.
Proof. vm_compute. repeat split. Qed.

(* ===== block: C17Cleanup ===== *)
(* The cleanup clause ("after the object and session timeouts have elapsed a cleanup releases
   everything associated with stalled objects, unfinished FDT instances and idle sessions"), the
   abandon rule of the packet cache stated exactly, and the honest reading of "bounded by
   configuration".  The wall-clock time-outs are inputs of the model: RvCleanup now expired
   expired_fdt names the TOIs / FDT instance ids whose time-out has elapsed. *)
From FluteV Require Import Proofs.C17Cleanup.
From FluteV Require Proofs.C09Full Proofs.RecvTotalProofs.

(* (G1) the state after a cleanup, exactly, for EVERY state r (reachable or not):
   objects: those not named, unchanged, in the same order; completed list, current FDT instances,
   close flag: untouched; failed list: minus the named TOIs that were in the map; FDT receivers:
   expiry flag refreshed, then only Complete ones and un-named Receiving ones are kept *)
Theorem C17_cleanup_exact : forall E parse_fdt cfg r c now expired expired_fdt,
  snd (fst (recv_step E parse_fdt cfg r (RvCleanup now expired expired_fdt) c)) = cleanup_result now expired expired_fdt r
  /\ fst (fst (recv_step E parse_fdt cfg r (RvCleanup now expired expired_fdt) c)) = POk.
Proof. exact cleanup_state. Qed.
Print Assumptions C17_cleanup_exact.

(* (a) no object named by [expired] remains; the model exempts NO object (whatever its state, with
   or without FDT, with or without an open writer) *)
Theorem C17_cleanup_releases_objects : forall now expired expired_fdt r,
  (forall q, In q (rv_objects (cleanup_result now expired expired_fdt r)) -> memN (fst q) expired = false)
  /\ (forall toi, memN toi expired = true -> get_obj (cleanup_result now expired expired_fdt r) toi = None).
Proof. exact cleanup_releases_objects_both. Qed.
Print Assumptions C17_cleanup_releases_objects.

(* (b) FDT receivers: whatever remains is Complete, or Receiving and not named - whatever
   cf_exp_check says (D17, C17d); it is a receiver of the state before, same key *)
Theorem C17_cleanup_releases_fdt : forall now expired expired_fdt r q,
  In q (rv_fdt_receivers (cleanup_result now expired expired_fdt r)) ->
  (fr_state (snd q) = FComplete \/ (fr_state (snd q) = FReceiving /\ memN (fst q) expired_fdt = false))
  /\ exists q0, In q0 (rv_fdt_receivers r) /\ q = (fst q0, fr_update_expired (snd q0) now) /\ fr_state (snd q0) = fr_state (snd q).
Proof. exact cleanup_releases_fdt_both. Qed.
Print Assumptions C17_cleanup_releases_fdt.

(* (c) the ledger, the item count and the decoder count do not grow *)
Theorem C17_cleanup_ledger : forall now expired expired_fdt r,
  recv_ledger (cleanup_result now expired expired_fdt r) <= recv_ledger r
  /\ recv_items (cleanup_result now expired expired_fdt r) <= recv_items r
  /\ recv_decoders (cleanup_result now expired expired_fdt r) <= recv_decoders r.
Proof. exact cleanup_ledger_le. Qed.
Print Assumptions C17_cleanup_ledger.

(* (d) frame: everything that is not named is untouched *)
Theorem C17_cleanup_frame : forall now expired expired_fdt r,
  let r' := cleanup_result now expired expired_fdt r in
  rv_objects r' = filter (fun q => negb (memN (fst q) expired)) (rv_objects r)
  /\ (forall q, In q (rv_objects r) -> memN (fst q) expired = false -> In q (rv_objects r'))
  /\ (forall toi, memN toi expired = false -> get_obj r' toi = get_obj r toi)
  /\ rv_completed r' = rv_completed r /\ rv_fdt_current r' = rv_fdt_current r /\ rv_closed r' = rv_closed r
  /\ (forall t, In t (rv_error r') <-> In t (rv_error r) /\ ~ (In t expired /\ In t (map fst (rv_objects r)))).
Proof. exact cleanup_frame. Qed.
Print Assumptions C17_cleanup_frame.
Theorem C17_cleanup_fdt_unnamed_kept : forall now expired expired_fdt r q,
  In q (rv_fdt_receivers r) -> fr_state (snd q) = FReceiving -> memN (fst q) expired_fdt = false ->
  In q (rv_fdt_receivers (cleanup_result now expired expired_fdt r)).
Proof. exact cleanup_fdt_unnamed_kept. Qed.
Print Assumptions C17_cleanup_fdt_unnamed_kept.

(* (d) writers: a cleanup calls nothing but error() on writers of released objects ... *)
Theorem C17_cleanup_calls : forall E parse_fdt cfg r c now expired expired_fdt,
  exists ext, c_log (snd (recv_step E parse_fdt cfg r (RvCleanup now expired expired_fdt) c)) = c_log c ++ ext
              /\ Forall (released_writer_ev (rv_objects r) expired) ext.
Proof. exact cleanup_calls_only_released. Qed.
Print Assumptions C17_cleanup_calls.
(* ... and in every reachable state every released object whose writer was opened gets its
   terminal call (open ... error: the C09 automaton is in PhDone) *)
Theorem C17_cleanup_terminal_calls : forall E parse_fdt cfg evs,
  let '(_, r, c) := recv_run E parse_fdt cfg recv0 evs ctx0 in
  forall now expired expired_fdt k o w,
    In (k, o) (rv_objects r) -> memN k expired = true -> r_writer o = Some (w, WOpened) ->
    C09Full.runw w (c_log (snd (recv_step E parse_fdt cfg r (RvCleanup now expired expired_fdt) c))) = Some PhDone.
Proof. exact cleanup_terminal_calls_history. Qed.
Print Assumptions C17_cleanup_terminal_calls.

(* (e) every reachable state: when the time-out of every object and of every unfinished FDT
   instance has elapsed, the cleanup leaves no object and no FDT receiver; what remains held is
   the (at most 10) current FDT instances, which no time-out releases *)
Theorem C17_cleanup_everything : forall E parse_fdt cfg evs,
  let '(_, r, c) := recv_run E parse_fdt cfg recv0 evs ctx0 in
  forall now expired expired_fdt,
    (forall q, In q (rv_objects r) -> memN (fst q) expired = true) ->
    (forall q, In q (rv_fdt_receivers r) -> fr_state (snd q) = FReceiving -> memN (fst q) expired_fdt = true) ->
    let r' := snd (fst (recv_step E parse_fdt cfg r (RvCleanup now expired expired_fdt) c)) in
    rv_objects r' = [] /\ rv_fdt_receivers r' = []
    /\ rv_fdt_current r' = rv_fdt_current r /\ (length (rv_fdt_current r) <= 10)%nat
    /\ recv_ledger r' = sumN' (map fdt_ledger (rv_fdt_current r)).
Proof. exact cleanup_all_reachable. Qed.
Print Assumptions C17_cleanup_everything.

(* every reachable state, no premise on the inputs: every object's limit is the configured cache
   size; FDT receivers are filed under their own id and are Receiving or Expired *)
Theorem C17_reachable_invariants : forall E parse_fdt cfg evs,
  let '(_, r, _) := recv_run E parse_fdt cfg recv0 evs ctx0 in
  Forall (fun q => max_is_cfg cfg (snd q)) (rv_objects r) /\ FI r.
Proof. exact reachable_invariants. Qed.
Print Assumptions C17_reachable_invariants.

(* (G2) the abandon rule of the packet cache, exactly.  One push on an object without OTI by a
   packet without OTI: refused - the object abandoned - iff the counter has ALREADY reached the
   limit; the symbol is not looked at *)
Theorem C17_cache_rule_one_push : forall E p o c,
  r_state o = Receiving -> r_oti o = None -> a_oti p = None ->
  or_push E p o c =
  if r_max o <=? r_cache_size o then error (RecvTotalProofs.or_push_pre p o) false c
  else (cache_put p (RecvTotalProofs.or_push_pre p o), c).
Proof. exact or_push_nooti. Qed.
Print Assumptions C17_cache_rule_one_push.
(* a run p1..pk: abandoned (Errored, cache and blocks released) by the packet [abandon_at] finds,
   otherwise everything is cached and counted by a_datalen *)
Theorem C17_cache_abandon_rule : forall E ps o c,
  r_state o = Receiving -> r_oti o = None -> Forall (fun p => a_oti p = None) ps ->
  let o' := fst (push_all E ps o c) in
  match abandon_at (r_max o) (r_cache_size o) ps with
  | None => r_state o' = Receiving /\ r_oti o' = None /\ r_cache o' = r_cache o ++ ps
            /\ r_cache_size o' = r_cache_size o + bytes_of ps /\ r_max o' = r_max o
  | Some j => r_state o' = Errored /\ r_cache o' = [] /\ r_cache_size o' = 0 /\ r_blocks o' = [] /\ r_max o' = r_max o
  end.
Proof. exact cache_abandon_rule. Qed.
Print Assumptions C17_cache_abandon_rule.
(* [abandon_at] is the FIRST packet before which the cached bytes already reach the limit *)
Theorem C17_abandon_at_first : forall ps mx sz j,
  abandon_at mx sz ps = Some j <->
  (j < length ps)%nat /\ mx <= sz + bytes_of (firstn j ps)
  /\ forall i, (i < j)%nat -> sz + bytes_of (firstn i ps) < mx.
Proof. exact abandon_at_some. Qed.
Print Assumptions C17_abandon_at_first.
Theorem C17_abandon_at_never : forall ps mx sz,
  abandon_at mx sz ps = None <-> forall i, (i < length ps)%nat -> sz + bytes_of (firstn i ps) < mx.
Proof. exact abandon_at_none. Qed.
Print Assumptions C17_abandon_at_never.
(* so the cached bytes exceed the limit by less than the last datagram cached *)
Theorem C17_cache_exceeds_by_less_than_one_datagram : forall E ps p o c,
  r_state o = Receiving -> r_oti o = None -> Forall (fun p => a_oti p = None) (ps ++ [p]) ->
  r_cache_size o < r_max o \/ ps <> [] ->
  let o' := fst (push_all E (ps ++ [p]) o c) in
  r_state o' = Receiving -> r_cache_size o' < r_max o + a_datalen p.
Proof. exact cache_exceeds_by_less_than_last_datagram. Qed.
Print Assumptions C17_cache_exceeds_by_less_than_one_datagram.
(* the NUMBER of cached packets is bounded under the premise that every datagram is at least m > 0
   bytes long (on the wire: the LCT header) ... *)
Theorem C17_cache_packet_count : forall E m ps o c,
  r_state o = Receiving -> r_oti o = None -> r_cache o = [] -> r_cache_size o = 0 ->
  Forall (fun p => a_oti p = None) ps -> Forall (fun p => m <= a_datalen p) ps -> 0 < m ->
  let o' := fst (push_all E ps o c) in
  lenN_ (r_cache o') * m < r_max o + m.
Proof. exact cache_packet_count_bounded. Qed.
Print Assumptions C17_cache_packet_count.
(* ... and not without it: the model does not know that a_datalen > 0 *)
Theorem C17_cache_packet_count_needs_premise : forall E p toi mx c n,
  a_oti p = None -> a_datalen p = 0 -> 0 < mx ->
  r_state (fst (push_all E (repeat p n) (or_new toi mx) c)) = Receiving
  /\ r_cache (fst (push_all E (repeat p n) (or_new toi mx) c)) = repeat p n.
Proof. exact cache_packet_count_unbounded_if_zero_length. Qed.
Print Assumptions C17_cache_packet_count_needs_premise.
(* receiver level: the abandoned object leaves the map and is counted in the failed list, which
   is trimmed to cf_max_err by forgetting the smallest TOIs first *)
Theorem C17_abandoned_object_counted : forall E cfg p now r c o,
  existsb (N.eqb (a_toi p)) (rv_completed r) = false -> existsb (N.eqb (a_toi p)) (rv_error r) = false ->
  get_obj r (a_toi p) = Some o -> r_state o = Receiving -> r_oti o = None -> a_oti p = None ->
  r_max o <= r_cache_size o ->
  let r' := snd (fst (push_obj E cfg p now r c)) in
  let l := insert_sorted (a_toi p) (rv_error r) in
  get_obj r' (a_toi p) = None
  /\ rv_error r' = skipn (length l - N.to_nat (cf_max_err cfg)) l
  /\ (length (rv_error r') <= N.to_nat (cf_max_err cfg))%nat.
Proof. exact push_obj_abandons. Qed.
Print Assumptions C17_abandoned_object_counted.

(* (G3) memory bounded by configuration, the part that is proved: the bytes the receiver ACCOUNTS
   (cached datagrams + declared lengths of the allocated blocks) are at most
   (objects in flight) * (2 * cache + maxpkt + 2 * maxblk); the failed list and the current FDT
   instances are bounded by configuration alone.  The number of objects in flight (and of FDT
   receivers) is NOT bounded by configuration: it is bounded by the traffic (distinct TOIs / FDT
   instance ids) and released by the time-outs (C17_cleanup_everything). *)
Theorem C17_memory_bounded_by_configuration_partial : forall E parse_fdt cfg evs maxpkt maxblk,
  C17_inputs_bounded parse_fdt evs maxpkt maxblk ->
  let '(_, r, _) := recv_run E parse_fdt cfg recv0 evs ctx0 in
  recv_accounted r <= lenN_ (rv_objects r) * per_object_bound cfg maxpkt maxblk
  /\ lenN_ (rv_error r) <= cf_max_err cfg
  /\ lenN_ (rv_fdt_current r) <= 10.
Proof. exact memory_bounded_partial. Qed.
Print Assumptions C17_memory_bounded_by_configuration_partial.
(* D47.  The full reading (bytes HELD, recv_ledger, bounded the same way) was FALSE of the model before the repair
   of D47: a block decoder kept every symbol as received, whatever its length, while the receiver accounts k * E
   bytes for the block.  BlockDecoder::push now discards a symbol longer than E.  What is true now, for the objects in
   flight, under C17_inputs_bounded and the hypothesis on the decoder ORACLE of the model
     fec_out_ok E := forall toi f sbn k e size sh d, e_fec E toi f sbn k e size sh = Some d -> lenN_ d <= k * e
   (a decoder returns at most k * E bytes: reed_solomon_erasure / raptorq k shards of E bytes, raptor_code the block
   length it was created with; No-Code needs no oracle):
   per block decoder of an object announced with [oti]:
     ACCOUNTED  bd_size b <= NOMINAL block size bd_k b * E <= maxblk
                (r_alloc_size is the sum of bd_size over the blocks of an object that is Receiving);
     HELD       shard_bytes b <= (max_syms oti k + k) * E: at most max_syms stored symbols of at most E bytes and a
                decoded block of at most k * E bytes, where max_syms is
                  No-Code       k              (ESI < k, first copy wins)                       -> 2 * k * E
                  Reed-Solomon  k + parity     (ESI < k + parity <= 256)                        -> (2k + parity) * E
                  RaptorQ       2^24           (every new ESI of the 24-bit field is kept until the decoder answers)
                  Raptor        2^16           (16-bit ESI; a short symbol is padded to ceil(block length / k) <= E);
                a deallocated decoder holds nothing; in terms of maxblk: held_mult * maxblk with held_mult = 2 / 257 /
                2^24 + 1 / 2^16 + 1;
   an object has at most 4097 block decoders.
   HELD is NOT a multiple of ACCOUNTED: the last block of an object is accounted with its length, which may be as
   small as 1 byte, while its symbols may have E bytes each (C17_held_exceeds_accounted_short_block); the relation goes
   through the nominal size k * E. *)
Theorem C17_held_bytes_bounded_by_accounted : forall E parse_fdt cfg evs maxpkt maxblk,
  C17_inputs_bounded parse_fdt evs maxpkt maxblk -> fec_out_ok E ->
  let '(_, r, _) := recv_run E parse_fdt cfg recv0 evs ctx0 in
  forall q, In q (rv_objects r) ->
    let o := snd q in
    (r_state o = Receiving -> r_alloc_size o = sumN' (map bd_size (r_blocks o)))
    /\ match r_oti o with
       | None => r_blocks o = []
       | Some oti =>
         (length (r_blocks o) <= 4097)%nat
         /\ forall b, In b (r_blocks o) ->
              bd_size b <= bd_k b * ro_e oti /\ bd_k b * ro_e oti <= maxblk
              /\ shard_bytes b <= (max_syms oti (bd_k b) + bd_k b) * ro_e oti
              /\ (bd_alloc b = false -> shard_bytes b = 0)
              /\ shard_bytes b <= held_mult (ro_fec oti) * maxblk
       end.
Proof. exact held_bytes_bounded_by_accounted. Qed.
Print Assumptions C17_held_bytes_bounded_by_accounted.

Theorem C17_held_statements : forall oti k f,
  max_syms oti k = match ro_fec oti with
                   | FNoCode => k | FRS28 | FRS28US => k + ro_parity oti
                   | FRaptorQ => 16777216 | FRaptor => 65536 | FRS2M => 0 end
  /\ held_mult f = match f with FNoCode => 2 | FRS28 | FRS28US => 257 | FRaptorQ => 16777217 | FRaptor => 65537 | FRS2M => 1 end
  /\ (forall o, obj_ledger o = cache_bytes o + blocks_held o)
  /\ (forall o, blocks_held o = sumN' (map shard_bytes (r_blocks o)))
  /\ (forall cfg maxpkt maxblk, per_object_held_bound cfg maxpkt maxblk = cf_max_cache cfg + maxpkt + 4097 * (16777217 * maxblk)).
Proof. intros. repeat split; destruct (ro_fec oti); reflexivity. Qed.

(* per object: the block decoders hold at most 4097 * (multiple of the object's scheme) * maxblk bytes *)
Theorem C17_blocks_held_bounded : forall E parse_fdt cfg evs maxpkt maxblk,
  C17_inputs_bounded parse_fdt evs maxpkt maxblk -> fec_out_ok E ->
  let '(_, r, _) := recv_run E parse_fdt cfg recv0 evs ctx0 in
  forall q, In q (rv_objects r) -> blocks_held (snd q) <= 4097 * (obj_held_mult (snd q) * maxblk).
Proof. exact blocks_held_bounded. Qed.
Print Assumptions C17_blocks_held_bounded.

(* (G3) memory bounded by configuration, THE OBJECT PART of the ledger: the bytes HELD for the objects in flight
   (cached datagrams + what their block decoders hold) are at most
   (objects in flight) * (cache + maxpkt + 4097 * 16777217 * maxblk).  Not bounded by configuration: the number of
   objects in flight and of FDT receivers (they follow the traffic: C17_objects_follow_traffic,
   C17_fdt_receivers_follow_traffic) and the FDT part of the ledger (an FDT receiver obeys its own limit of 1 MiB,
   not cf_max_cache, and TOI 0 is not constrained by C17_inputs_bounded: C17_fdt_part_not_bounded_by_configuration) *)
Theorem C17_memory_bounded_by_configuration : forall E parse_fdt cfg evs maxpkt maxblk,
  C17_inputs_bounded parse_fdt evs maxpkt maxblk -> fec_out_ok E ->
  let '(_, r, _) := recv_run E parse_fdt cfg recv0 evs ctx0 in
  sumN' (map (fun q => obj_ledger (snd q)) (rv_objects r)) <= lenN_ (rv_objects r) * per_object_held_bound cfg maxpkt maxblk
  /\ lenN_ (rv_error r) <= cf_max_err cfg
  /\ lenN_ (rv_fdt_current r) <= 10.
Proof. exact memory_bounded_by_configuration. Qed.
Print Assumptions C17_memory_bounded_by_configuration.

(* the scenario that refuted the full reading before D47 (63 datagrams of 1424 bytes carrying 1400-byte "symbols" for
   an object announced with E = 1, 64 bytes accounted): the 63 symbols are now discarded, the block is left empty *)
Example C17_long_symbols_now_discarded :
  P_C17_bounds (c17_ex_cfg 64) 1500 64 c17_long_symbol_final = true
  /\ recv_accounted c17_long_symbol_final = 64 /\ recv_ledger c17_long_symbol_final = 0
  /\ map (fun q => map (fun b => (bd_alloc b, bd_size b, length (bd_shards b))) (r_blocks (snd q))) (rv_objects c17_long_symbol_final)
     = [[(true, 64, 0%nat)]]
  /\ (recv_ledger c17_long_symbol_final <=? 11 * per_object_bound (c17_ex_cfg 64) 1500 64) = true.
Proof. vm_compute. repeat split. Qed.

(* HELD is not a multiple of ACCOUNTED: a 1-byte No-Code object announced with E = 1000 (one block of k = 1 symbol,
   accounted with its length 1): a 1000-byte symbol is kept (it is not longer than E) and, without FDT, the decoded
   block stays in memory too: 2000 bytes held = 2 * k * E, 1 byte accounted *)
Example C17_held_exceeds_accounted_short_block :
  let r := snd (fst (recv_run c17_ex_env c17_ex_nofdt (c17_ex_cfg 64) recv0
                       [RvPush (mk_apkt 5 false false None (Some (mk_roti FNoCode 1000 64 0 None, 1)) None None 0
                                        [0; 0; 0; 0] (repeat 7 1000) 1024) 0%Z] ctx0)) in
  recv_accounted r = 1 /\ recv_ledger r = 2000
  /\ map (fun q => map (fun b => (bd_size b, bd_k b, shard_bytes b)) (r_blocks (snd q))) (rv_objects r) = [[(1, 1, 2000)]].
Proof. vm_compute. repeat split. Qed.

(* what remains unbounded by the configuration: the full ledger, by its FDT part (memory_bounded_full: recv_ledger <=
   (objects + FDT receivers + 10) * (2 * cache + maxpkt + 2 * maxblk) for bounded inputs and a bounded decoder).  One
   half-received FDT instance announced with E = 1400, 15 of its 20 symbols: 21000 bytes held by an FDT receiver whose
   only limit is its own 1 MiB, against 11 * 1756 *)
Definition C17_memory_bounded_by_configuration_full : Prop := memory_bounded_full.
Theorem C17_fdt_part_not_bounded_by_configuration : ~ C17_memory_bounded_by_configuration_full.
Proof. exact memory_bounded_full_refuted. Qed.
Print Assumptions C17_fdt_part_not_bounded_by_configuration.
Example C17_fdt_receiver_own_limit :
  let r := snd (fst (recv_run c17_ex_env c17_ex_nofdt (c17_ex_cfg 64) recv0 c17_big_fdt_evs ctx0)) in
  lenN_ (rv_objects r) = 0 /\ lenN_ (rv_fdt_receivers r) = 1 /\ recv_ledger r = 21000
  /\ 11 * per_object_bound (c17_ex_cfg 64) 1500 64 = 19316.
Proof. vm_compute. repeat split. Qed.
(* the number of FDT receivers follows the traffic: 30 half-received instances with distinct ids, 30 receivers *)
Example C17_fdt_receivers_follow_traffic :
  let r := snd (fst (recv_run c17_ex_env c17_ex_nofdt (c17_ex_cfg 64) recv0 (c17_many_fdt 30) ctx0)) in
  lenN_ (rv_fdt_receivers r) = 30 /\ lenN_ (rv_objects r) = 0 /\ recv_ledger r = 120.
Proof. vm_compute. repeat split. Qed.

(* ---- non-vacuity ---- *)
(* the cleanup of a state with an announced object (TOI 5, writer open), an unannounced one (TOI 6,
   two cached datagrams) and two half-received FDT instances (2, 3); with and without the expiry
   check: naming TOI 5 (and 7, unknown) and instance 2 releases exactly these, the writer of TOI 5
   gets error() *)
Example C17_cleanup_example : forall check,
  let r := snd (fst (c17c_run check)) in
  let x := c17c_after check [5; 7] [2] in
  map fst (rv_objects r) = [5; 6] /\ map fst (rv_fdt_receivers r) = [2; 3] /\ recv_ledger r = 88
  /\ map fst (rv_objects (snd (fst x))) = [6] /\ map fst (rv_fdt_receivers (snd (fst x))) = [3]
  /\ recv_ledger (snd (fst x)) = 80
  /\ c_log (snd x) = [EvBuilder 5 WStore; EvOpen (5, 0%nat) true; EvError (5, 0%nat)]
  /\ C09Full.runw (5, 0%nat) (c_log (snd x)) = Some PhDone.
Proof. intros [|]; vm_compute; repeat split. Qed.
Example C17_cleanup_everything_example : forall check,
  let x := c17c_after check [5; 6] [2; 3] in
  rv_objects (snd (fst x)) = [] /\ rv_fdt_receivers (snd (fst x)) = [] /\ map fr_id (rv_fdt_current (snd (fst x))) = [1]
  /\ recv_ledger (snd (fst x)) = 4.
Proof. intros [|]; vm_compute; repeat split. Qed.
(* datagrams with an EMPTY symbol count with their whole length: limit 64, 40-byte datagrams:
   the third one finds 80 >= 64 cached and abandons the object *)
Example C17_empty_symbols_count :
  let p := c17c_empty_symbol_pkt in
  abandon_at 64 0 [p; p; p] = Some 2%nat
  /\ cache_bytes (fst (push_all c17_ex_env [p; p] (or_new 5 64) ctx0)) = 80
  /\ r_state (fst (push_all c17_ex_env [p; p] (or_new 5 64) ctx0)) = Receiving
  /\ r_state (fst (push_all c17_ex_env [p; p; p] (or_new 5 64) ctx0)) = Errored
  /\ r_cache (fst (push_all c17_ex_env [p; p; p] (or_new 5 64) ctx0)) = [].
Proof. vm_compute. repeat split. Qed.
(* a limit of 0 caches nothing: the first datagram without OTI abandons the object *)
Example C17_zero_limit : r_state (fst (push_all c17_ex_env [c17c_empty_symbol_pkt] (or_new 5 0) ctx0)) = Errored.
Proof. vm_compute. reflexivity. Qed.
(* the number of objects in flight follows the traffic: 50 TOIs, 50 objects, each within its bound *)
Example C17_objects_follow_traffic :
  let r := snd (fst (recv_run c17_ex_env c17_ex_nofdt (c17_ex_cfg 64) recv0 (c17_many_tois 50) ctx0)) in
  lenN_ (rv_objects r) = 50 /\ recv_ledger r = 1400 /\ P_C17_bounds (c17_ex_cfg 64) 64 1024 r = true.
Proof. vm_compute. repeat split. Qed.
(* ===== end block: C17Cleanup ===== *)
