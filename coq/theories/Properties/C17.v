(* C17 - Receiver memory is bounded by configuration, not by traffic. *)
From FluteV Require Import Model.ObjRecv Model.Recv Spec.RecvSpec Spec.C17Spec Proofs.RecvProofs.
Open Scope N_scope.

(* Full statement (kept visible): in every state reachable by any event sequence, P_C17_bounds
   holds (per object: cached packets <= cache size + one packet, allocated blocks <= cache size +
   two blocks; failed list <= max_objects_error; current FDT instances <= 10).  Evaluated on the
   model state after every event of every run together with P_C17_heap / P_C17_heap_cfg, which tie
   the ledger to the measured live heap of the implementation (the heap itself is measured, not
   proved).  Proved below at the level of one object and of the failed list - partial. *)
Definition C17_bounds_full : Prop :=
  forall E parse_fdt cfg evs maxpkt maxblk,
    (* every pushed datagram is at most maxpkt long, every block at most maxblk *) True ->
    let '(_, r, _) := recv_run E parse_fdt cfg recv0 evs ctx0 in
    P_C17_bounds cfg maxpkt maxblk r = true.

(* (1) cache_bounded: for every object state satisfying the invariant, every packet of datagram
   length <= M and every behaviour of the writer oracles, after ObjectReceiver::push the size
   counter is exact and the cached bytes are at most the configured cache size plus M *)
Theorem C17_cache_bounded_push : forall E M p o c,
  cache_ok M o -> a_datalen p <= M -> cache_ok M (fst (or_push E p o c)).
Proof. exact or_push_cache_bounded. Qed.
Print Assumptions C17_cache_bounded_push.

(* (2) attaching an FDT instance never adds to the cache *)
Theorem C17_cache_bounded_attach : forall E M id files ioti o c,
  cache_ok M o -> cache_ok M (snd (fst (or_attach E id files ioti o c))).
Proof. exact or_attach_cache_bounded. Qed.
Print Assumptions C17_cache_bounded_attach.

(* (3) a new object satisfies the invariant *)
Theorem C17_cache_ok_new : forall M toi mx, cache_ok M (or_new toi mx).
Proof. exact cache_ok_new. Qed.
Print Assumptions C17_cache_ok_new.

(* (4) flushing, completing and failing only keep or clear the cache (frame) *)
Theorem C17_push_to_block_frame : forall E p o c,
  cache_keep_or_clear o (res_obj (fst (push_to_block E p o c))).
Proof. exact ckc_push_to_block. Qed.
Print Assumptions C17_push_to_block_frame.

(* (5) error_list_bounded: the collection of failed objects is trimmed to max_objects_error *)
Theorem C17_error_list_bounded : forall cfg fuel r c,
  (length (rv_error r) <= fuel + N.to_nat (cf_max_err cfg))%nat ->
  (length (rv_error (fst (gc_error cfg fuel r c))) <= N.to_nat (cf_max_err cfg))%nat.
Proof. exact gc_error_bound. Qed.
Print Assumptions C17_error_list_bounded.

Example C17_example_invariant_nontrivial :
  let p := mk_apkt 5 false false None None None None 0 [0;0;0;1] [1;2;3;4;5;6;7;8] 40 in
  let E := mk_env true false (fun _ _ => WStore) (fun _ => true) (fun _ _ => true)
                  (fun _ _ _ _ _ _ _ => None) (fun l => l) (fun _ l _ => Some l) in
  let o1 := fst (or_push E p (or_new 5 64) ctx0) in
  let o2 := fst (or_push E p o1 ctx0) in
  let o3 := fst (or_push E p o2 ctx0) in
  cache_bytes o1 = 40 /\ cache_bytes o2 = 80 /\ r_state o2 = Receiving
  /\ r_state o3 = Errored /\ cache_bytes o3 = 0.
Proof. vm_compute. repeat split. Qed.
