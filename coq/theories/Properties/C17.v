(* C17 - Receiver memory is bounded by configuration, not by traffic. *)
From FluteV Require Import Model.ObjRecv Model.Recv Spec.RecvSpec Spec.C17Spec Proofs.RecvProofs Proofs.C17Full.
Open Scope N_scope.

(* Full statement, proved: in every state reachable by any event sequence with bounded inputs,
   P_C17_bounds holds (per object: cached packets <= cache size + one packet, allocated blocks <=
   cache size + two blocks; failed list <= max_objects_error; current FDT instances <= 10).
   Bounded inputs (C17_inputs_bounded, Proofs/C17Full.v): every pushed datagram of an object other
   than the FDT is at most maxpkt bytes long; every OTI carried by such a datagram or announced
   by an FDT instance (the parse_fdt oracle) has B * E <= maxblk; for FEC 129, whose block length
   is read from each packet, source block length field * E <= maxblk.
   P_C17_heap / P_C17_heap_cfg tie the ledger to the measured live heap of the implementation
   (the heap itself is measured, not proved). *)
Theorem C17_bounds_full :
  forall E parse_fdt cfg evs maxpkt maxblk,
    C17_inputs_bounded parse_fdt evs maxpkt maxblk ->
    let '(_, r, _) := recv_run E parse_fdt cfg recv0 evs ctx0 in
    P_C17_bounds cfg maxpkt maxblk r = true.
Proof. exact C17_bounds_proved. Qed.
Print Assumptions C17_bounds_full.

(* the same after every prefix of the history: every reachable state *)
Theorem C17_bounds_every_state :
  forall E parse_fdt cfg evs maxpkt maxblk n,
    C17_inputs_bounded parse_fdt evs maxpkt maxblk ->
    let '(_, r, _) := recv_run E parse_fdt cfg recv0 (firstn n evs) ctx0 in
    P_C17_bounds cfg maxpkt maxblk r = true.
Proof. exact C17_bounds_every_prefix. Qed.
Print Assumptions C17_bounds_every_state.

(* object level: the invariant behind it (exact block accounting, partition bound, well-formed
   cached packets) is preserved by ObjectReceiver::push and attach_fdt *)
Theorem C17_object_push : forall E maxpkt maxblk smax p o c,
  G maxpkt maxblk smax o -> pkt_ok maxpkt maxblk smax p = true -> G maxpkt maxblk smax (fst (or_push E p o c)).
Proof. exact or_push_G. Qed.
Print Assumptions C17_object_push.
Theorem C17_object_bounds : forall maxpkt maxblk smax o,
  G maxpkt maxblk smax o -> P_C17_object maxpkt maxblk o = true.
Proof. exact G_bounds. Qed.
Print Assumptions C17_object_bounds.

(* the hypotheses are needed (the former placeholder premise "True" is refuted by each of these):
   a datagram longer than maxpkt overflows the cache bound *)
Example C17_unbounded_datagram_refuted :
  P_C17_bounds (c17_ex_cfg 16) 8 1024 (c17_ex_final 16 [RvPush c17_ex_pkt_plain 0%Z]) = false.
Proof. vm_compute; reflexivity. Qed.
(* an OTI with B * E > maxblk: the first block alone (63488 bytes) exceeds cache + 2 * maxblk *)
Example C17_unbounded_oti_refuted :
  P_C17_bounds (c17_ex_cfg 64) 64 1024 (c17_ex_final 64 [RvPush c17_ex_pkt_oti 0%Z]) = false.
Proof. vm_compute; reflexivity. Qed.
(* FEC 129: B * E = 4096 <= maxblk, but the block is sized from the source block length field
   of the packet (200 symbols = 204800 bytes), which is not checked against B *)
Example C17_fec129_block_length_refuted :
  P_C17_bounds (c17_ex_cfg 64) 64 4096 (c17_ex_final 64 [RvPush c17_ex_pkt_us 0%Z]) = false
  /\ map (fun q => r_alloc_size (snd q)) (rv_objects (c17_ex_final 64 [RvPush c17_ex_pkt_us 0%Z])) = [204800].
Proof. vm_compute; split; reflexivity. Qed.
(* the premise is satisfiable: the same OTI with maxblk = B * E *)
Example C17_inputs_bounded_example :
  C17_inputs_bounded c17_ex_nofdt [RvPush c17_ex_pkt_oti 0%Z; RvPush c17_ex_pkt_plain 1%Z] 64 65536.
Proof. exists 0. split; [vm_compute; reflexivity|intros d i H; discriminate H]. Qed.

(* (1) cache_bounded: for every object state satisfying the invariant, every packet of datagram
   length <= M and every behaviour of the writer oracles, after ObjectReceiver::push the size
   counter is exact and the cached bytes are at most the configured cache size plus M *)
Theorem C17_cache_bounded_push : forall E M p o c,
  cache_ok M o -> a_datalen p <= M -> cache_ok M (fst (or_push E p o c)).
Proof. exact or_push_cache_bounded. Qed.
Print Assumptions C17_cache_bounded_push.

(* (2) attaching an FDT instance never adds to the cache *)
Theorem C17_cache_bounded_attach : forall E M id files ioti o c,
  cache_ok M o -> cache_ok M (snd (fst (or_attach E id files ioti o c))).
Proof. exact or_attach_cache_bounded. Qed.
Print Assumptions C17_cache_bounded_attach.

(* (3) a new object satisfies the invariant *)
Theorem C17_cache_ok_new : forall M toi mx, cache_ok M (or_new toi mx).
Proof. exact cache_ok_new. Qed.
Print Assumptions C17_cache_ok_new.

(* (4) flushing, completing and failing only keep or clear the cache (frame) *)
Theorem C17_push_to_block_frame : forall E p o c,
  cache_keep_or_clear o (res_obj (fst (push_to_block E p o c))).
Proof. exact ckc_push_to_block. Qed.
Print Assumptions C17_push_to_block_frame.

(* (5) error_list_bounded: the collection of failed objects is trimmed to max_objects_error *)
Theorem C17_error_list_bounded : forall cfg fuel r c,
  (length (rv_error r) <= fuel + N.to_nat (cf_max_err cfg))%nat ->
  (length (rv_error (fst (gc_error cfg fuel r c))) <= N.to_nat (cf_max_err cfg))%nat.
Proof. exact gc_error_bound. Qed.
Print Assumptions C17_error_list_bounded.

Example C17_example_invariant_nontrivial :
  let p := mk_apkt 5 false false None None None None 0 [0;0;0;1] [1;2;3;4;5;6;7;8] 40 in
  let E := mk_env true false (fun _ _ => WStore) (fun _ => true) (fun _ _ => true)
                  (fun _ _ _ _ _ _ _ => None) (fun l => l) (fun _ l _ => Some l) in
  let o1 := fst (or_push E p (or_new 5 64) ctx0) in
  let o2 := fst (or_push E p o1 ctx0) in
  let o3 := fst (or_push E p o2 ctx0) in
  cache_bytes o1 = 40 /\ cache_bytes o2 = 80 /\ r_state o2 = Receiving
  /\ r_state o3 = Errored /\ cache_bytes o3 = 0.
Proof. vm_compute. repeat split. Qed.
