(* C07 - Block partitioning equals RFC 5052 s9.1 for all (L, E, B); both ends agree.
   This file holds only the property theorems (each closed by [exact]), their
   [Print Assumptions], and non-vacuity examples. *)
From FluteV Require Import Model.Partition Spec.C07Spec Proofs.PartitionProofs.
Open Scope N_scope.

(* (1) For every b, e > 0 and every l the computed partition is that of RFC 5052 9.1:
   T = ceil(l/e), N = ceil(T/b), A_large = ceil(T/N), A_small = floor(T/N),
   nb_large = T - A_small*N; ceil/floor are characterised independently (least / greatest
   integer), not by the division flute uses. *)
Theorem C07_partition_matches_rfc5052 : forall b l e, 0 < b -> 0 < e ->
  rfc5052_partition b l e (block_partitioning b l e).
Proof. exact partition_matches_rfc5052_proof. Qed.
Print Assumptions C07_partition_matches_rfc5052.

Theorem C07_partition_zero_length : forall b e, block_partitioning b 0 e = (0, 0, 0, 0).
Proof. exact partition_zero_length. Qed.
Print Assumptions C07_partition_zero_length.

(* (2) the blocks cover exactly T symbols, none above b, sizes differ by at most one *)
Theorem C07_partition_covers : forall b l e, 0 < b -> 0 < e -> 0 < l ->
  let '(al, as_, nal, n) := block_partitioning b l e in
  partition_ok b (div_ceil l e) al as_ nal n /\ n = div_ceil (div_ceil l e) b.
Proof. exact partition_covers_proof. Qed.
Print Assumptions C07_partition_covers.

(* (3) the receiver's block byte lengths (block_length for sbn = 0..n-1) are all defined
   (no subtraction underflow), sum to l, only the last block is short (and non-empty), and
   they equal the sender's running slices of the content. *)
Theorem C07_block_lengths_and_both_ends_agree : forall b l e, 0 < b -> 0 < e -> 0 < l ->
  let '(al, as_, nal, n) := block_partitioning b l e in
  exists lens,
    receiver_lengths (N.to_nat n) al as_ nal l e 0 = map Some lens
    /\ sender_slices (N.to_nat n) al as_ nal e l 0 0 = lens
    /\ last_short_only al as_ nal n l e lens.
Proof. exact block_lengths_proof. Qed.
Print Assumptions C07_block_lengths_and_both_ends_agree.

(* (4) the receiver's reconstruction of B from Z = number of source blocks (RaptorQ/Raptor
   scheme specific information) yields the same partition *)
Theorem C07_raptor_B_reconstruction : forall b l e, 0 < b -> 0 < e -> 0 < l ->
  let '(_, _, _, n) := block_partitioning b l e in
  block_partitioning (reconstructed_b n l e) l e = block_partitioning b l e.
Proof. exact raptor_reconstruction_proof. Qed.
Print Assumptions C07_raptor_B_reconstruction.

(* (5) with u64 arithmetic no intermediate computation overflows for l < 2^48, e < 2^16
   (any b): the checked-arithmetic versions return exactly the unbounded results. *)
Theorem C07_no_u64_overflow : forall b l e, 0 < b -> 0 < e -> 0 < l -> l < 2 ^ 48 -> e < 2 ^ 16 ->
  block_partitioning64 b l e = Some (block_partitioning b l e)
  /\ let '(al, as_, nal, n) := block_partitioning b l e in
     forall s, s < n ->
       block_length64 al as_ nal l e s = block_length al as_ nal l e s
       /\ block_length al as_ nal l e s <> None.
Proof. exact no_u64_overflow_proof. Qed.
Print Assumptions C07_no_u64_overflow.

(* (6) the executable predicates which the check evaluates on the implementation's outputs
   hold of the model for every input (so "implementation = model" on an input implies the
   predicate on the implementation's output for that input) *)
Theorem C07_spec_partition_holds : forall b l e,
  P_C07_partition b l e (block_partitioning b l e) = true.
Proof. exact spec_partition_holds. Qed.
Print Assumptions C07_spec_partition_holds.

Theorem C07_spec_block_length_holds : forall b l e s,
  P_C07_block_length b l e s
    (let '(al, as_, nal, _) := block_partitioning b l e in block_length al as_ nal l e s) = true.
Proof. exact spec_block_length_holds. Qed.
Print Assumptions C07_spec_block_length_holds.

(* non-vacuity: concrete instances with unequal blocks *)
Example C07_example_partition : block_partitioning 3 20 4 = (3, 2, 1, 2).
Proof. vm_compute. reflexivity. Qed.
Example C07_example_lengths :
  receiver_lengths 2 3 2 1 20 4 0 = [Some 12; Some 8] /\ sender_slices 2 3 2 1 4 20 0 0 = [12; 8].
Proof. vm_compute. split; reflexivity. Qed.
Example C07_example_short_last :
  let '(al, as_, nal, n) := block_partitioning 4 37 3 in
  receiver_lengths (N.to_nat n) al as_ nal 37 3 0 = [Some 12; Some 9; Some 9; Some 7].
Proof. vm_compute. reflexivity. Qed.
