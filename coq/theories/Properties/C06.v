(* C06 - ALC/LCT wire format: round-trips and matches an independent RFC implementation.
   Only the property theorems (each closed by [exact]), their [Print Assumptions], and
   non-vacuity examples.  The RFC side (layout figures, RFC encoder [rfc_alc_encode], RFC decoder
   [rfc_alc_decode], predicates P_C06_xxx) is Spec/C06Spec.v and uses none of the model's functions;
   the flute side is Model/{Lct,Ntp,Alc}.v. *)
From FluteV Require Import Model.Bytes Model.AlcTypes Model.Lct Model.Ntp Model.Alc Spec.C06Spec
     Proofs.BytesProofs Proofs.LctProofs Proofs.AlcProofs.
Open Scope N_scope.

(* (0) the generic figure interpreter round-trips: reading a packed figure against its width list
   returns the field values, for every list of fields that fit and fill whole bytes *)
Theorem C06_pack_unpack_roundtrip : forall fs, all_fit fs = true -> bits_of fs mod 8 = 0 ->
  unpack (map snd fs) (pack fs) = map fst fs.
Proof. exact unpack_pack. Qed.
Print Assumptions C06_pack_unpack_roundtrip.

(* (1) LCT header: what push_lct_header writes is the RFC 5651 figure for the flags (C,S,O,H) it
   selects, those widths hold the values, and HDR_LEN is the length of the fixed part.
   All CCI < 2^128, TSI < 2^48, TOI < 2^112. *)
Theorem C06_lct_push_is_rfc5651 : forall data psi cci tsi toi cp co cs c s o h,
  cci < 2 ^ 128 -> tsi < 2 ^ 48 -> toi < 2 ^ 112 -> psi < 4 -> cp < 256 ->
  lct_flags cci tsi toi = (c, s, o, h) ->
  let x := flute_rfc_lct psi cci tsi toi cp co cs c s o h in
  push_lct_header data psi cci tsi toi cp co cs = data ++ rfc5651_encode x
  /\ all_fit (rfc5651_layout x) = true
  /\ r_hdr_len x = rfc5651_fixed_words x.
Proof. exact lct_push_is_rfc5651_proof. Qed.
Print Assumptions C06_lct_push_is_rfc5651.

(* (2) every RFC 5651 header - any (C,S,O,H) whose fields hold the values (wider than necessary
   included), version 1 or 2, any PSI / reserved bits, any HDR_LEN covering the fixed part and
   inside the datagram, followed by anything - is parsed to the same values *)
Theorem C06_lct_parse_accepts_rfc5651 : forall x rest,
  all_fit (rfc5651_layout x) = true -> (r_v x = 1 \/ r_v x = 2) ->
  rfc5651_fixed_words x <= r_hdr_len x ->
  r_hdr_len x * 4 <= lenN (rfc5651_encode x ++ rest) ->
  parse_lct_header (rfc5651_encode x ++ rest) =
    Ok {| lh_len := r_hdr_len x * 4; lh_cci := r_cci x; lh_tsi := r_tsi x; lh_toi := r_toi x;
          lh_cp := r_cp x; lh_close_object := negb (r_b x =? 0);
          lh_close_session := negb (r_a x =? 0);
          lh_ext_offset := rfc5651_fixed_words x * 4 |}.
Proof. exact lct_parse_accepts_rfc5651_proof. Qed.
Print Assumptions C06_lct_parse_accepts_rfc5651.

(* the transcribed figure is self-consistent: the RFC decoder inverts the RFC encoder *)
Theorem C06_rfc5651_decode_encode : forall x rest, all_fit (rfc5651_layout x) = true ->
  rfc5651_decode (rfc5651_encode x ++ rest) = Some (x, rest).
Proof. exact rfc5651_decode_encode. Qed.
Print Assumptions C06_rfc5651_decode_encode.

(* (3) header extension walk: for every sequence of well-formed extensions (HET < 128 with
   1 <= HEL <= 255 words, HET >= 128 one word) get_ext returns the first one with the requested
   HET and steps over all others.  False of the unfixed code (D3, below). *)
Theorem C06_ext_walk_skips_unknown : forall hdr es payload lct ext,
  forallb wf_ext es = true ->
  lh_ext_offset lct = lenN hdr ->
  lh_len lct = lenN hdr + lenN (concat (map ext_bytes es)) ->
  get_ext (hdr ++ concat (map ext_bytes es) ++ payload) lct ext
  = Ok (option_map ext_bytes (find_ext ext es)).
Proof. exact ext_walk_skips_unknown_proof. Qed.
Print Assumptions C06_ext_walk_skips_unknown.

Theorem C06_D03_ext_walk_refuted_unfixed :
  forallb wf_ext d3_witness = true
  /\ get_ext_walk hel_bytes_u8 300 (concat (map ext_bytes d3_witness)) 64
     <> Ok (option_map ext_bytes (find_ext 64 d3_witness))
  /\ get_ext_walk hel_bytes 300 (concat (map ext_bytes d3_witness)) 64
     = Ok (option_map ext_bytes (find_ext 64 d3_witness)).
Proof. exact ext_walk_refuted_unfixed. Qed.
Print Assumptions C06_D03_ext_walk_refuted_unfixed.

(* (4) sender current time: every instant from 1970 to the end of NTP era 0 (any nanosecond)
   comes back exactly, truncated to the microsecond.  False of the unfixed code (D21, below). *)
Theorem C06_ext_time_roundtrip : forall t, time_in_era t ->
  exists ntp, system_time_to_ntp t = Ok ntp /\ ntp_to_system_time ntp = Ok (Z.to_N t / 1000).
Proof. exact ntp_roundtrip_proof. Qed.
Print Assumptions C06_ext_time_roundtrip.

Theorem C06_D21_time_roundtrip_refuted_unfixed :
  time_in_era 1000 /\
  (match system_time_to_ntp_unfixed 1000 with Ok ntp => ntp_to_system_time ntp | _ => Err end) = Ok 0.
Proof. exact ntp_roundtrip_refuted_unfixed. Qed.
Print Assumptions C06_D21_time_roundtrip_refuted_unfixed.

(* (5) EXT_FDT, EXT_CENC, EXT_TIME as written are the RFC figures ... *)
Theorem C06_ext_fdt_cenc_time_build_is_rfc :
  (forall data v id, v < 16 -> id < 2 ^ 20 ->
     push_fdt data v id = push_ext data (ext_bytes (x_fdt v id)) 1)
  /\ (forall data cenc, cenc < 256 ->
     push_cenc data cenc = push_ext data (ext_bytes (x_cenc cenc 0)) 1)
  /\ (forall data now, time_in_era now ->
     push_sct data now = push_ext data (ext_bytes (x_time (flute_time now))) 3).
Proof. exact (conj push_fdt_is_rfc (conj push_cenc_is_rfc push_sct_is_rfc)). Qed.
Print Assumptions C06_ext_fdt_cenc_time_build_is_rfc.

(* ... and on EVERY well-formed extension (whatever its content) the parser reads what the RFC
   decoder reads: instance id and version, content encoding (if one of the four), SCT in us *)
Theorem C06_ext_fdt_cenc_time_parse_agrees :
  (forall het c, wf_ext (XFix het c) = true ->
     parse_ext_fdt (ext_bytes (XFix het c)) = Ok (dec_fdt (XFix het c)))
  /\ (forall het c, wf_ext (XFix het c) = true ->
     exists v, dec_cenc (XFix het c) = Some v
               /\ model_cenc (ext_bytes (XFix het c)) = if v <=? 3 then Some v else None)
  /\ (forall het hel c hi lo, wf_ext (XVar het hel c) = true ->
     dec_time (XVar het hel c) = Some (hi, lo) ->
     parse_sct (ext_bytes (XVar het hel c))
     = match ntp_us (hi, lo) with Some us => Ok (Some us) | None => Err end).
Proof. exact (conj parse_ext_fdt_agrees (conj parse_cenc_agrees parse_sct_agrees)). Qed.
Print Assumptions C06_ext_fdt_cenc_time_parse_agrees.

(* (6) FEC OTI (EXT_FTI), five schemes (FEC ids 0, 2, 5, 6, 129; Raptor = recorded finding D32,
   see below): what add_fti writes is the scheme's RFC figure for
   every Oti / transfer length whose values fit the figure's fields (L < 2^48, or 2^40 for RaptorQ;
   B + parity <= 255 / 65535; E, Z, N, Al within their widths) *)
Theorem C06_fti_build_is_rfc : forall data o L v, o_fec o <> Raptor ->
  fti_of_oti o L = Some v -> all_fit (fti_layout v) = true ->
  add_fti data o L = push_ext data (ext_bytes (x_fti v)) ((16 + bits_of (fti_layout v)) / 32).
Proof. exact add_fti_is_rfc. Qed.
Print Assumptions C06_fti_build_is_rfc.

(* on EVERY well-formed EXT_FTI the parser of each scheme yields exactly the RFC decoder's values *)
Theorem C06_fti_parse_agrees_with_rfc : forall f hel c, f <> Raptor -> wf_ext (XVar 64 hel c) = true ->
  parse_fti f (ext_bytes (XVar 64 hel c))
  = match dec_fti (fec_code f) (XVar 64 hel c) with Some v => model_of_fti v | None => Err end.
Proof. exact parse_fti_agrees. Qed.
Print Assumptions C06_fti_parse_agrees_with_rfc.

Theorem C06_fti_rfc_roundtrip : forall v, all_fit (fti_layout v) = true ->
  wf_ext (x_fti v) = true /\ dec_fti (fti_cp v) (x_fti v) = Some v.
Proof. exact x_fti_props. Qed.
Print Assumptions C06_fti_rfc_roundtrip.

(* D32 (recorded): for FEC id 1 (Raptor) the code writes and reads the RFC 6330-style figure
   F(40) Reserved(8) T(16) Z(16) N(8) Al(8) padding(16), not RFC 5053 3.2.2/3.2.3
   F(48) Reserved(16) T(16) Z(16) N(8) Al(8).  What holds of the code as it is: *)
Theorem C06_D32_raptor_fti_parse_reads_flute_figure : forall hel c, wf_ext (XVar 64 hel c) = true ->
  parse_fti_raptor (ext_bytes (XVar 64 hel c))
  = match dec_raptor_flute (XVar 64 hel c) with Some x => model_of_raptor_flute x | None => Err end.
Proof. exact parse_fti_raptor_agrees_flute. Qed.
Print Assumptions C06_D32_raptor_fti_parse_reads_flute_figure.

Theorem C06_D32_raptor_fti_build_writes_flute_figure : forall data o L z n al,
  o_ss o = Some (SSRaptor z n al) ->
  all_fit (flute_raptor_layout L 0 (o_E o) z n al 0) = true ->
  add_fti_raptor data o L
  = push_ext data (ext_bytes (XVar 64 4 (pack (flute_raptor_layout L 0 (o_E o) z n al 0)))) 4.
Proof. exact add_fti_raptor_is_flute_figure. Qed.
Print Assumptions C06_D32_raptor_fti_build_writes_flute_figure.

(* flute-to-flute the Raptor FTI round-trips for L < 2^40 *)
Theorem C06_D32_raptor_fti_self_roundtrip : forall data o L z n al,
  o_ss o = Some (SSRaptor z n al) ->
  L < 2 ^ 40 -> o_E o < 2 ^ 16 -> z < 2 ^ 16 -> n < 2 ^ 8 -> al < 2 ^ 8 ->
  exists ext, add_fti_raptor data o L = push_ext data ext 4
              /\ parse_fti_raptor ext = model_of_raptor_flute (L, o_E o, z, n, al).
Proof. exact raptor_fti_self_roundtrip. Qed.
Print Assumptions C06_D32_raptor_fti_self_roundtrip.

(* the RFC 5053 figure is read differently *)
Theorem C06_D32_raptor_fti_witness :
  let v := FtiRaptor 1000 0 16 2 1 4 in
  wf_ext (x_fti v) = true /\ dec_fti 1 (x_fti v) = Some v /\ fti_acceptable v = true
  /\ parse_fti_raptor (ext_bytes (x_fti v)) <> model_of_fti v.
Proof. exact raptor_fti_d32_witness. Qed.
Print Assumptions C06_D32_raptor_fti_witness.

(* (7) FEC payload ids, all six schemes, over each scheme's SBN / ESI range *)
Theorem C06_payload_id_build_is_rfc : forall o p fs,
  pid_fields (fec_code (o_fec o)) (oti_m o) (k_sbn p) (k_esi p) (k_source_block_length p) = Some fs ->
  all_fit fs = true ->
  (match o_fec o with RS2m => k_esi p < 256 | _ => True end) ->
  add_fec_payload_id o p = Ok (pack fs).
Proof. exact add_pid_is_rfc. Qed.
Print Assumptions C06_payload_id_build_is_rfc.

Theorem C06_payload_id_parse_agrees_with_rfc : forall o pid ws,
  Forall (fun b => b < 256) pid ->
  pid_widths (fec_code (o_fec o)) (rs2m_m o) = Some ws ->
  length pid = pid_bytes (fec_code (o_fec o)) ->
  get_fec_payload_id o pid
  = match dec_pid (fec_code (o_fec o)) (rs2m_m o) pid with Some r => Ok r | None => Err end.
Proof. exact get_pid_agrees. Qed.
Print Assumptions C06_payload_id_parse_agrees_with_rfc.

Theorem C06_payload_id_rfc_roundtrip : forall cp m sbn esi sbl fs,
  pid_fields cp m sbn esi sbl = Some fs -> all_fit fs = true ->
  dec_pid cp m (pack fs) = Some (sbn, esi, if cp =? 129 then Some sbl else None).
Proof. exact dec_pid_pack. Qed.
Print Assumptions C06_payload_id_rfc_roundtrip.

(* (8) whole packets, sender side: for every input in the property's ranges new_alc_pkt returns
   exactly the RFC encoder's bytes for the packet carrying the input's values, and that packet is
   well formed *)
Theorem C06_new_alc_pkt_is_rfc : forall o cci tsi p prof now c s o' h v fs,
  known_d32_build o p = false ->
  in_range o cci tsi p now v fs ->
  lct_flags cci tsi (k_toi p) = (c, s, o', h) ->
  new_alc_pkt o cci tsi p prof now = Ok (rfc_alc_encode (flute_pkt o cci tsi p prof now c s o' h v fs))
  /\ wf_pkt (flute_pkt o cci tsi p prof now c s o' h v fs) = true.
Proof. exact new_alc_pkt_is_rfc. Qed.
Print Assumptions C06_new_alc_pkt_is_rfc.

Theorem C06_build_in_range_spec : forall o cci tsi p now, build_in_range o cci tsi p now = true ->
  exists v fs, in_range o cci tsi p now v fs.
Proof. exact build_in_range_spec. Qed.
Print Assumptions C06_build_in_range_spec.

(* the RFC decoder inverts the RFC encoder on every well-formed packet (any extension list) *)
Theorem C06_rfc_decode_encode : forall m p, wf_pkt p = true ->
  rfc_alc_decode m (rfc_alc_encode p)
  = Some (rfc_values m (rp_lct p) (rp_exts p) (pack (rp_pid p) ++ rp_payload p)).
Proof. exact rfc_decode_encode. Qed.
Print Assumptions C06_rfc_decode_encode.

(* (9) the executable predicates evaluated by the check on the IMPLEMENTATION's outputs hold of the
   model for EVERY input outside the recorded class Known_D32 (the packet carries an EXT_FTI of
   FEC Encoding ID 1); the other guards are inside the predicates, see [build_in_range], [wf_pkt],
   [parse_demand].  Shape: forall x, ~ Known_D32 x -> P x. *)
Theorem C06_spec_build_holds : forall o cci tsi p prof now, known_d32_build o p = false ->
  P_C06_build o cci tsi p prof now (new_alc_pkt o cci tsi p prof now) = true.
Proof. exact spec_build_holds. Qed.
Print Assumptions C06_spec_build_holds.

Theorem C06_spec_parse_holds : forall m p, known_d32_parse p = false ->
  P_C06_parse m p (observe_parse m (rfc_alc_encode p)) = true.
Proof. exact spec_parse_holds. Qed.
Print Assumptions C06_spec_parse_holds.

Theorem C06_spec_lct_holds : forall psi cci tsi toi cp co cs,
  P_C06_lct psi cci tsi toi cp co cs (push_lct_header [] psi cci tsi toi cp co cs) = true.
Proof. exact spec_lct_holds. Qed.
Print Assumptions C06_spec_lct_holds.

Theorem C06_spec_ntp_holds : forall t, P_C06_ntp t (system_time_to_ntp t) = true.
Proof. exact spec_ntp_holds. Qed.
Print Assumptions C06_spec_ntp_holds.

(* (10) round trip: what the sender builds for an in-range input is parsed by the receiver side to
   the values of the RFC packet carrying the input's values *)
Theorem C06_alc_pkt_roundtrip : forall m o cci tsi p prof now c s o' h v fs,
  known_d32_build o p = false ->
  in_range o cci tsi p now v fs ->
  lct_flags cci tsi (k_toi p) = (c, s, o', h) ->
  exists bytes, new_alc_pkt o cci tsi p prof now = Ok bytes
                /\ P_C06_parse m (flute_pkt o cci tsi p prof now c s o' h v fs) (observe_parse m bytes) = true
                /\ P_C06_build o cci tsi p prof now (Ok bytes) = true.
Proof. exact alc_pkt_roundtrip_proof. Qed.
Print Assumptions C06_alc_pkt_roundtrip.

(* ---------- non-vacuity ---------- *)
Definition ex_oti : oti :=
  {| o_fec := RaptorQ; o_inst := 0; o_B := 64; o_E := 1400; o_parity := 4;
     o_ss := Some (SSRaptorQ 3 1 4); o_inband_fti := true |}.
Definition ex_pkt : pkt :=
  {| k_payload := [104; 105]; k_transfer_length := 1099511627775; k_esi := 16777215; k_sbn := 255;
     k_toi := 0; k_fdt_id := Some 1048575; k_cenc := 3; k_inband_cenc := false; k_close_object := true;
     k_source_block_length := 64; k_sct := true |}.
Definition ex_now : Z := 2085978495999999999%Z.   (* the last nanosecond of NTP era 0 *)

Example C06_example_build_in_range :
  build_in_range ex_oti (2 ^ 128 - 1) (2 ^ 48 - 1) ex_pkt ex_now = true.
Proof. vm_compute. reflexivity. Qed.

Example C06_example_time_in_era : time_in_era ex_now.
Proof. split; [discriminate|vm_compute; reflexivity]. Qed.

(* a full concrete round trip: built, RFC-decoded, parsed back; SCT to the microsecond *)
Example C06_example_roundtrip :
  match new_alc_pkt ex_oti (2 ^ 128 - 1) (2 ^ 48 - 1) ex_pkt RFC6726 ex_now with
  | Ok bytes =>
    match rfc_alc_decode 8 bytes, observe_parse 8 bytes with
    | Some av, Ok o =>
      av_fdt av = Some (2, 1048575) /\ av_cenc av = Some 3
      /\ omap ntp_us (av_sct av) = Some 2085978495999999
      /\ av_fti av = Some (FtiRaptorQ 1099511627775 0 1400 3 1 4 0)
      /\ av_pid av = Some (255, 16777215, None) /\ av_payload av = [104; 105]
      /\ po_tsi o = 2 ^ 48 - 1 /\ po_cci o = 2 ^ 128 - 1 /\ po_fdt o = Some (2, 1048575)
      /\ po_sct o = Ok (Some 2085978495999999) /\ po_pid o = Ok (255, 16777215, None)
    | _, _ => False
    end
  | _ => False
  end.
Proof. vm_compute. repeat split; reflexivity. Qed.

(* a packet of an independent implementation: widest classes, version 2, PSI and reserved bits
   set, an unknown 255-word extension and an unknown fixed extension before EXT_FTI and EXT_TIME *)
Definition ex_rfc_pkt : rfc_pkt :=
  mk_rfc_pkt {| r_v := 2; r_c := 3; r_psi := 3; r_s := 1; r_o := 3; r_h := 1; r_res := 3; r_a := 1; r_b := 0;
                r_hdr_len := 0; r_cp := 5; r_cci := 7; r_tsi := 2 ^ 48 - 1; r_toi := 2 ^ 112 - 1 |}
             [XVar 99 229 (repeat 1 914); XFix 200 [1; 2; 3]; x_fti (FtiRS28 (2 ^ 48 - 1) 65535 200 255);
              x_time {| te_shi := true; te_slo := true; te_ert := true; te_slc := false; te_res := 5; te_pi := 9;
                        te_hi := 4294967295; te_lo := 4294967295; te_ertv := 77; te_slcv := 0 |}]
             [(16777215, 24); (255, 8)] [1; 2; 3].

Example C06_example_parse_demand : wf_pkt ex_rfc_pkt && parse_demand 8 ex_rfc_pkt = true.
Proof. vm_compute. reflexivity. Qed.

Example C06_example_parse :
  match observe_parse 8 (rfc_alc_encode ex_rfc_pkt) with
  | Ok o => po_toi o = 2 ^ 112 - 1 /\ po_tsi o = 2 ^ 48 - 1 /\ po_cs o = true
            /\ option_map ob_L (po_fti o) = Some (2 ^ 48 - 1) /\ option_map ob_parity (po_fti o) = Some 55
            /\ po_sct o = Ok (Some 2085978495999999) /\ po_pid o = Ok (16777215, 255, None)
  | _ => False
  end.
Proof. vm_compute. repeat split; reflexivity. Qed.

(* D32: on a concrete Raptor packet with in-band FTI the RFC predicates fail, in both directions *)
Definition d32_oti : oti :=
  {| o_fec := Raptor; o_inst := 0; o_B := 8; o_E := 16; o_parity := 0;
     o_ss := Some (SSRaptor 2 1 4); o_inband_fti := true |}.
Definition d32_pkt : pkt :=
  {| k_payload := [170]; k_transfer_length := 1000; k_esi := 0; k_sbn := 0; k_toi := 1; k_fdt_id := None;
     k_cenc := 0; k_inband_cenc := false; k_close_object := false; k_source_block_length := 0; k_sct := false |}.
Definition d32_rfc_pkt : rfc_pkt :=
  mk_rfc_pkt {| r_v := 1; r_c := 0; r_psi := 0; r_s := 0; r_o := 0; r_h := 1; r_res := 0; r_a := 0; r_b := 0;
                r_hdr_len := 0; r_cp := 1; r_cci := 0; r_tsi := 1; r_toi := 1 |}
             [x_fti (FtiRaptor 1000 0 16 2 1 4)] [(0, 16); (0, 16)] [].

Example D32_witness :
  known_d32_build d32_oti d32_pkt = true /\ build_in_range d32_oti 0 1 d32_pkt 0 = true
  /\ P_C06_build d32_oti 0 1 d32_pkt RFC6726 0 (new_alc_pkt d32_oti 0 1 d32_pkt RFC6726 0) = false
  /\ known_d32_parse d32_rfc_pkt = true /\ wf_pkt d32_rfc_pkt && parse_demand 8 d32_rfc_pkt = true
  /\ P_C06_parse 8 d32_rfc_pkt (observe_parse 8 (rfc_alc_encode d32_rfc_pkt)) = false.
Proof. vm_compute. repeat split; reflexivity. Qed.
