(* C13 - Scheduling: strict queue priority, bounded file multiplexing, block interleaving. *)
From FluteV Require Import Model.SenderCtl Model.BlockEnc Spec.SenderSpec Proofs.SenderProofs Proofs.BlockEncProofs.
Open Scope N_scope.

(* Full statement (kept visible; P_C13_priority is evaluated on the implementation's packets
   against the model state before each read on every run - partial as a theorem):
   for every reachable state s and instant, if sender_read returns an object packet of priority p
   then no queue of smaller key is ready in s. *)
Definition C13_strict_priority_full : Prop :=
  forall fdt_npk fdt_ok divf ops full dur car sid queues,
    Forall (fun es => match fst es with TRead now r _ _ => P_C13_priority (snd es) now r = true | _ => True end)
           (model_trace fdt_npk fdt_ok divf (init_st full dur car sid queues) ops).

(* (1) queues are served in ascending key order and the first queue that has a packet wins *)
Theorem C13_first_queue_wins : forall fdt_npk fdt_ok divf q r done now s o q1 s1,
  read_priority_queue fdt_npk fdt_ok divf q now s = (o, q1, s1) -> o <> RNothing ->
  read_queues fdt_npk fdt_ok divf done (q :: r) now s = (o, done ++ q1 :: r, s1).
Proof. exact read_queues_first_wins. Qed.
Print Assumptions C13_first_queue_wins.

(* (2) bounded multiplexing: reading never changes the number of transmission slots of a queue
   (= max(1, multiplex_files), one object per slot) *)
Theorem C13_slots_constant : forall fdt_npk fdt_ok divf todo done now s o qs s',
  read_queues fdt_npk fdt_ok divf done todo now s = (o, qs, s') ->
  map (fun q => (q_prio q, length (q_sessions q))) qs
  = map (fun q => (q_prio q, length (q_sessions q))) (done ++ todo).
Proof. exact read_queues_slots. Qed.
Print Assumptions C13_slots_constant.

(* (2b) FIFO admission within a queue: the object a queue starts is the first ready object of the
   waiting list (objects are appended when added and when a carousel transfer ends); nothing ahead
   of it is ready for this queue, and the rest of the list keeps its order.  The same statement is
   evaluated on the implementation's start/stop events on every run (P_C13_events), together with
   the multiplex bound counted over the objects in transmission. *)
Theorem C13_fifo_admission : forall fdt_npk fdt_ok divf prio now s id s',
  get_next_file_transfer fdt_npk fdt_ok divf prio now s = ROk _ (Some id, s') ->
  exists ahead rest,
    queue s = ahead ++ id :: rest /\ queue s' = ahead ++ rest
    /\ should_transfer_now (obj s id) prio (full_fdt s) now = true
    /\ forall y, In y ahead -> should_transfer_now (obj s y) prio (full_fdt s) now = false.
Proof. exact fifo_admission. Qed.
Print Assumptions C13_fifo_admission.

(* (3) block interleaving inside one object (from the BlockEncoder model): one scheduler step
   touches exactly one block of the window; blocks enter the window in list (= SBN) order and
   the window never holds more than interleave_blocks blocks (refill) *)
Theorem C13_window_refill : forall w fuel win fut win' fut',
  refill w win fut fuel = (win', fut') ->
  win' ++ map to_wb fut' = win ++ map to_wb fut
  /\ ((length fut < fuel)%nat -> (1 <= w)%nat -> win' = [] -> fut' = []).
Proof. exact refill_spec. Qed.
Print Assumptions C13_window_refill.

Example C13_example_priority :
  let hi := mk_odesc 1 0 1 1 1 CNone TNone false None [] in
  let lo := mk_odesc 2 3 1 1 1 CNone TNone false None [] in
  let ops := [OpAdd lo None true; OpAdd hi None true; OpPublish 0; OpRead 0; OpRead 0; OpRead 0] in
  fst (run_ops (fun _ => 1%nat) (fun _ => true) (fun d n => Some (d / Z.of_N n)%Z)
               (init_st true 3600000000000 (CDelay 1000000000) 1 [(0, 1%nat); (3, 1%nat)]) ops)
  = [OutAdd true; OutAdd true; OutPublish true; OutRead (RFdt 1 false); OutRead (RObj 1 true); OutRead (RObj 2 true)].
Proof. vm_compute. reflexivity. Qed.
