(* C13 - Scheduling: strict queue priority, bounded file multiplexing, block interleaving. *)
From FluteV Require Import Model.SenderCtl Model.BlockEnc Spec.SenderSpec Proofs.SenderProofs Proofs.BlockEncProofs
     Proofs.C13Full.
From Coq Require Import Sorted.
Open Scope N_scope.

(* ---------- history level ----------
   Unconditional statement (kept visible): on every run from [init_st], whenever a read returns an
   object packet of priority p no queue of smaller key is ready in the state before the read.
   It is FALSE of the model as it stands ([C13_strict_priority_full_refuted]): the list of queues handed to
   [init_st] need not be sorted, and [prio_of_toi] resolves a TOI to the wrong object when an
   object is added under the TOI of an object the sender still holds in a transmission slot. *)
Definition C13_strict_priority_full : Prop :=
  forall fdt_npk fdt_ok divf ops full dur car sid queues,
    Forall (fun es => match fst es with TRead now r _ _ => P_C13_priority (snd es) now r = true | _ => True end)
           (model_trace fdt_npk fdt_ok divf (init_st full dur car sid queues) ops).

Theorem C13_strict_priority_full_refuted : ~ C13_strict_priority_full.
Proof. exact strict_priority_unconditional_false. Qed.
Print Assumptions C13_strict_priority_full_refuted.

(* (H1) strict priority along every run, under the two side conditions real configurations satisfy:
   the priority queues are kept by ascending, distinct key (a BTreeMap in the implementation), and
   no object is added under the TOI of an object that still holds a transmission slot or waits for
   one ([ops_fresh]: checked on the run; the TOI allocator hands a TOI out again only after its
   previous holder has been dropped). *)
Theorem C13_strict_priority : forall fdt_npk fdt_ok divf ops full dur car sid queues,
  StronglySorted N.lt (map fst queues) ->
  ops_fresh fdt_npk fdt_ok divf (init_st full dur car sid queues) ops = true ->
  Forall (fun es => match fst es with TRead now r _ _ => P_C13_priority (snd es) now r = true | _ => True end)
         (model_trace fdt_npk fdt_ok divf (init_st full dur car sid queues) ops).
Proof. exact strict_priority_from_init. Qed.
Print Assumptions C13_strict_priority.

(* the same on any state that satisfies the invariant [Inv] (established by [init_st]: [Inv_init],
   preserved by every operation: [Inv_step]) *)
Theorem C13_strict_priority_read : forall fdt_npk fdt_ok divf now s o s',
  Inv s -> sender_read fdt_npk fdt_ok divf now s = (o, s') -> P_C13_priority s now o = true.
Proof. exact priority_read. Qed.
Print Assumptions C13_strict_priority_read.

Theorem C13_invariant_init : forall full dur car sid queues,
  StronglySorted N.lt (map fst queues) -> Inv (init_st full dur car sid queues).
Proof. exact Inv_init. Qed.
Print Assumptions C13_invariant_init.

Theorem C13_invariant_step : forall fdt_npk fdt_ok divf s o,
  Inv s -> op_fresh s o = true -> Inv (snd (step fdt_npk fdt_ok divf s o)).
Proof. exact Inv_step. Qed.
Print Assumptions C13_invariant_step.

(* (H2) the model's own start/stop events pass the event predicate the checker evaluates on the
   implementation (FIFO admission within a queue; at most max(1, multiplex_files) objects of a
   queue in transmission), on every state that satisfies [Inv] and holds no object under TOI 0
   ([NZs]; TOI 0 is the FDT: its end of transfer is not reported as an event) *)
Theorem C13_events_read : forall fdt_npk fdt_ok divf s now,
  Inv s -> NZs s ->
  let '(o, s') := sender_read fdt_npk fdt_ok divf now (clear_log s) in
  P_C13_events fdt_npk fdt_ok divf s now (evlog s') = C13ok.
Proof. exact events_read_clear. Qed.
Print Assumptions C13_events_read.

Theorem C13_events_read_append : forall fdt_npk fdt_ok divf now s o s',
  Inv s -> NZs s -> sender_read fdt_npk fdt_ok divf now s = (o, s') ->
  exists evs, evlog s' = evlog s ++ evs /\ P_C13_events fdt_npk fdt_ok divf s now evs = C13ok.
Proof. exact events_read. Qed.
Print Assumptions C13_events_read_append.

(* every reachable state qualifies *)
Theorem C13_events_reachable : forall fdt_npk fdt_ok divf ops full dur car sid queues now,
  StronglySorted N.lt (map fst queues) ->
  ops_fresh fdt_npk fdt_ok divf (init_st full dur car sid queues) ops = true ->
  ops_nz ops = true ->
  let s := snd (run_ops fdt_npk fdt_ok divf (init_st full dur car sid queues) ops) in
  let '(o, s') := sender_read fdt_npk fdt_ok divf now (clear_log s) in
  P_C13_events fdt_npk fdt_ok divf s now (evlog s') = C13ok.
Proof. exact events_read_reachable. Qed.
Print Assumptions C13_events_reachable.

(* non-vacuity: the scenario of [C13_example_priority] meets the side conditions, and its reads start
   and stop transfers *)
Example C13_side_conditions_hold :
  let hi := mk_odesc 1 0 1 1 1 CNone TNone false None [] in
  let lo := mk_odesc 2 3 1 1 1 CNone TNone false None [] in
  let i := init_st true 3600000000000 (CDelay 1000000000) 1 [(0, 1%nat); (3, 1%nat)] in
  let ops := [OpAdd lo None true; OpAdd hi None true; OpPublish 0; OpRead 0; OpRead 0] in
  let s := snd (run_ops cex_npk cex_ok cex_div i ops) in
  let evs := evlog (snd (sender_read cex_npk cex_ok cex_div 0 (clear_log s))) in
  (ops_fresh cex_npk cex_ok cex_div i ops, ops_nz ops, evs, P_C13_events cex_npk cex_ok cex_div s 0 evs)
  = (true, true, [EvStop 1; EvStart 2], C13ok).
Proof. vm_compute. reflexivity. Qed.

(* ---------- why each side condition is needed ---------- *)
Definition x_run (i : st) (ops : list op) : st := snd (run_ops cex_npk cex_ok cex_div i ops).
Definition x_read (s : st) : rout := fst (sender_read cex_npk cex_ok cex_div 0 s).
Definition x_events (s : st) : list event := evlog (snd (sender_read cex_npk cex_ok cex_div 0 (clear_log s))).

(* queues not sorted: queue 3 is visited before queue 0 *)
Example C13_priority_unsorted_refuted :
  let lo := mk_odesc 2 3 1 1 1 CNone TNone false None [] in
  let hi := mk_odesc 1 0 1 1 1 CNone TNone false None [] in
  let i := init_st true 3600000000000 (CDelay 1000000000) 1 [(3, 1%nat); (0, 1%nat)] in
  let ops := [OpAdd lo None true; OpAdd hi None true; OpPublish 0; OpRead 0] in
  let s := x_run i ops in
  (x_read s, P_C13_priority s 0 (x_read s), ops_fresh cex_npk cex_ok cex_div i ops) = (RObj 2 true, false, true).
Proof. vm_compute. reflexivity. Qed.

(* an object added under the TOI of an object that still holds a slot (sorted queues) *)
Example C13_priority_reused_toi_refuted :
  let s := x_run cex_init (firstn 8 cex_ops) in
  (x_read s, P_C13_priority s 0 (x_read s), ops_fresh cex_npk cex_ok cex_div cex_init cex_ops) = (RObj 5 true, false, false).
Proof. vm_compute. reflexivity. Qed.

(* two waiting objects under one TOI: the event predicate replays the start on the wrong one *)
Example C13_events_reused_toi_refuted :
  let z := mk_odesc 9 1 1 1 1 CNone TNone false None [] in
  let x := mk_odesc 2 1 1 1 1 CNone TNone false None [] in
  let y := mk_odesc 2 0 1 1 1 CNone TNone false None [] in
  let i := init_st true 3600000000000 (CDelay 1000000000) 1 [(0, 1%nat); (1, 1%nat)] in
  let ops := [OpAdd z None true; OpAdd x None true; OpAdd y None true; OpPublish 0; OpRead 0] in
  let s := x_run i ops in
  (x_read s, x_events s, P_C13_events cex_npk cex_ok cex_div s 0 (x_events s),
   ops_fresh cex_npk cex_ok cex_div i ops, ops_nz ops)
  = (RObj 2 true, [EvStart 2], C13fifo, false, true).
Proof. vm_compute. reflexivity. Qed.

(* an object under TOI 0: its end of transfer is not reported, the replay keeps it in transmission *)
Example C13_events_toi0_refuted :
  let x := mk_odesc 0 0 1 1 1 CNone TNone false None [] in
  let y := mk_odesc 2 0 1 1 1 CNone TNone false None [] in
  let i := init_st true 3600000000000 (CDelay 1000000000) 1 [(0, 1%nat)] in
  let ops := [OpAdd x None true; OpAdd y None true; OpPublish 0; OpRead 0; OpRead 0] in
  let s := x_run i ops in
  (x_read s, x_events s, P_C13_events cex_npk cex_ok cex_div s 0 (x_events s),
   ops_fresh cex_npk cex_ok cex_div i ops, ops_nz ops)
  = (RObj 2 true, [EvStart 2], C13multiplex, true, false).
Proof. vm_compute. reflexivity. Qed.

(* (1) queues are served in ascending key order and the first queue that has a packet wins *)
Theorem C13_first_queue_wins : forall fdt_npk fdt_ok divf q r done now s o q1 s1,
  read_priority_queue fdt_npk fdt_ok divf q now s = (o, q1, s1) -> o <> RNothing ->
  read_queues fdt_npk fdt_ok divf done (q :: r) now s = (o, done ++ q1 :: r, s1).
Proof. exact read_queues_first_wins. Qed.
Print Assumptions C13_first_queue_wins.

(* (2) bounded multiplexing: reading never changes the number of transmission slots of a queue
   (= max(1, multiplex_files), one object per slot) *)
Theorem C13_slots_constant : forall fdt_npk fdt_ok divf todo done now s o qs s',
  read_queues fdt_npk fdt_ok divf done todo now s = (o, qs, s') ->
  map (fun q => (q_prio q, length (q_sessions q))) qs
  = map (fun q => (q_prio q, length (q_sessions q))) (done ++ todo).
Proof. exact read_queues_slots. Qed.
Print Assumptions C13_slots_constant.

(* (2b) FIFO admission within a queue: the object a queue starts is the first ready object of the
   waiting list (objects are appended when added and when a carousel transfer ends); nothing ahead
   of it is ready for this queue, and the rest of the list keeps its order.  The same statement is
   evaluated on the implementation's start/stop events on every run (P_C13_events), together with
   the multiplex bound counted over the objects in transmission. *)
Theorem C13_fifo_admission : forall fdt_npk fdt_ok divf prio now s id s',
  get_next_file_transfer fdt_npk fdt_ok divf prio now s = ROk _ (Some id, s') ->
  exists ahead rest,
    queue s = ahead ++ id :: rest /\ queue s' = ahead ++ rest
    /\ should_transfer_now (obj s id) prio (full_fdt s) now = true
    /\ forall y, In y ahead -> should_transfer_now (obj s y) prio (full_fdt s) now = false.
Proof. exact fifo_admission. Qed.
Print Assumptions C13_fifo_admission.

(* (3) block interleaving inside one object (from the BlockEncoder model): one scheduler step
   touches exactly one block of the window; blocks enter the window in list (= SBN) order and
   the window never holds more than interleave_blocks blocks (refill) *)
Theorem C13_window_refill : forall w fuel win fut win' fut',
  refill w win fut fuel = (win', fut') ->
  win' ++ map to_wb fut' = win ++ map to_wb fut
  /\ ((length fut < fuel)%nat -> (1 <= w)%nat -> win' = [] -> fut' = []).
Proof. exact refill_spec. Qed.
Print Assumptions C13_window_refill.

Example C13_example_priority :
  let hi := mk_odesc 1 0 1 1 1 CNone TNone false None [] in
  let lo := mk_odesc 2 3 1 1 1 CNone TNone false None [] in
  let ops := [OpAdd lo None true; OpAdd hi None true; OpPublish 0; OpRead 0; OpRead 0; OpRead 0] in
  fst (run_ops (fun _ => 1%nat) (fun _ => true) (fun d n => Some (d / Z.of_N n)%Z)
               (init_st true 3600000000000 (CDelay 1000000000) 1 [(0, 1%nat); (3, 1%nat)]) ops)
  = [OutAdd true; OutAdd true; OutPublish true; OutRead (RFdt 1 false); OutRead (RObj 1 true); OutRead (RObj 2 true)].
Proof. vm_compute. reflexivity. Qed.
