(* C05 - the filesystem writer never touches anything outside its destination directory.
   This file holds only the property theorems (each closed by [exact]), their
   [Print Assumptions], and non-vacuity examples.

   Everything is stated for the code WITH fixes/D11-fs-writer-confine-destination.patch
   ([map_path]); the mapping as found ([map_path_unfixed]) escapes - see the D11 examples.
   In every theorem [u] ranges over ALL outcomes of url::Url::parse (any path string, any error
   kind): nothing about the URL parser is assumed.  [cwd] is the list of names of the
   process' current directory; [walk cwd (components x)] is where the path string x leads
   (no symbolic links - those are outside the property).
   [fs_confined_statement] is defined in Spec/C05Spec.v; [S_], [dest0] = "/o1/o2/dest", [pre_dirs0]
   (the directories /, /o1, /o1/o2, /o1/o2/dest) and [env_ok] are notations for the examples
   (Proofs/PathProofs.v). *)
From FluteV Require Import Model.Path Spec.C05Spec Proofs.PathProofs.
From Coq Require Import String.
Open Scope N_scope.

(* (1) fs_confined.  Whenever open() computes a destination path p for a Content-Location,
   p leads - from any current directory - strictly below the place the destination
   directory leads to, through a non-empty list of plain names (non-empty, not "." or "..",
   without '/'). *)
Theorem C05_fs_confined : fs_confined_statement map_path.
Proof. exact map_path_walk_proof. Qed.
Print Assumptions C05_fs_confined.

(* (1') the same on std::path components (dest = "" is refused by ObjectWriterFSBuilder::new) *)
Theorem C05_fs_confined_components : forall dest loc u p,
  dest <> [] -> map_path dest loc u = Some p ->
  exists names, names <> [] /\ Forall normal_name names /\
                components p = components dest ++ map Normal names.
Proof. exact map_path_components_proof. Qed.
Print Assumptions C05_fs_confined_components.

(* (2) fs_unmappable_fails.  A location that is not mapped makes every open() return an error
   without any file-system call, and whatever else is called on that writer (write, complete,
   error, interrupted, in any order and number) performs no file-system call either. *)
Theorem C05_fs_unmappable_fails : forall dest loc u,
  map_path dest loc u = None ->
  (forall s e, wstep (map_path dest loc u) s (Open e) = (s, [], RErr)) /\
  (forall ops, wrun (map_path dest loc u) winit ops = []).
Proof. exact unmappable_fails_proof. Qed.
Print Assumptions C05_fs_unmappable_fails.

(* (2') exactly which locations are refused: URL errors other than the two "relative" ones
   (as before the fix) and paths whose relative part has a root, a ".." or no name at all *)
Theorem C05_refused_iff : forall dest loc u,
  map_path dest loc u = None <->
  match content_location_path loc u with
  | None => True
  | Some cp => rel_ok (strip_slash cp) = false
  end.
Proof. exact map_path_none_iff. Qed.
Print Assumptions C05_refused_iff.

(* (2'') the fix only refuses: whatever it maps, the code as found mapped to the same path *)
Theorem C05_fix_conservative : forall dest loc u p,
  map_path dest loc u = Some p -> map_path_unfixed dest loc u = Some p.
Proof. exact map_path_conservative. Qed.
Print Assumptions C05_fix_conservative.

(* (3) the writer object is confined: for every destination directory, Content-Location, URL
   parser outcome, every sequence of calls (open/write/complete/error/interrupted, any
   order, any length) and every outcome of the file-system calls, each effect - File::create,
   data reaching the file, remove_file - is on a path strictly inside the destination
   directory, and every directory create_dir_all may have to create (one that does not exist
   yet) is strictly inside it.  Premises: the current directory and the directories walked
   through to reach [dest] exist (ObjectWriterFSBuilder::new checked dest.is_dir()). *)
Theorem C05_writer_confined : forall cwd dest loc u pre_dirs ops,
  pmem cwd pre_dirs = true -> dest_exists cwd dest pre_dirs = true ->
  Forall (effect_confined cwd (walk cwd (components dest)) pre_dirs)
         (wrun (map_path dest loc u) winit ops).
Proof. exact writer_confined_proof. Qed.
Print Assumptions C05_writer_confined.

(* (4) fs_remove_is_created: the only path ever removed is one this writer created before
   (any mapping function, any call sequence) *)
Theorem C05_remove_only_created : forall mp ops l1 p l2,
  wrun mp winit ops = l1 ++ ERemove p :: l2 -> In (ECreate p) l1.
Proof. exact remove_only_created_proof. Qed.
Print Assumptions C05_remove_only_created.

(* (5) the executable predicates which the check evaluates on the OBSERVED changes of the
   file tree hold of the changes predicted by the model, for every input *)
Theorem C05_spec_confined_holds : forall cwd pre_dirs pre_files dest loc u ops,
  pmem cwd pre_dirs = true -> dest_exists cwd dest pre_dirs = true ->
  P_C05_confined (walk cwd (components dest))
    (predict cwd pre_dirs pre_files (wrun (map_path dest loc u) winit ops)) = true.
Proof. exact spec_confined_holds_proof. Qed.
Print Assumptions C05_spec_confined_holds.

Theorem C05_spec_complete_holds : forall cwd pre_dirs pre_files dest loc u ops,
  protocol_ok ops = true ->
  P_C05_complete_stored (walk cwd (components dest)) (completes (map_path dest loc u) ops)
    (predict cwd pre_dirs pre_files (wrun (map_path dest loc u) winit ops)) = true.
Proof. exact spec_complete_holds_proof. Qed.
Print Assumptions C05_spec_complete_holds.

Theorem C05_spec_failed_holds : forall cwd pre_dirs pre_files mp ops,
  protocol_ok ops = true ->
  P_C05_failed_leaves_no_file (completes mp ops)
    (predict cwd pre_dirs pre_files (wrun mp winit ops)) = true.
Proof. exact spec_failed_holds_proof. Qed.
Print Assumptions C05_spec_failed_holds.

(* ---------------------------------------------------------------- D11: the code as found escapes *)
Open Scope string_scope.
Example C05_D11_opaque_path :
  map_path_unfixed dest0 (S_ "a:../../x") (UrlOk (S_ "../../x")) = Some (S_ "/o1/o2/dest/../../x")
  /\ walk [] (components (S_ "/o1/o2/dest/../../x")) = [S_ "o1"; S_ "x"]
  /\ map_path dest0 (S_ "a:../../x") (UrlOk (S_ "../../x")) = None.
Proof. vm_compute. repeat split. Qed.
Example C05_D11_relative_dotdot :
  map_path_unfixed dest0 (S_ "../x") UrlRelativeWithoutBase = Some (S_ "/o1/o2/dest/../x")
  /\ walk [] (components (S_ "/o1/o2/dest/../x")) = [S_ "o1"; S_ "o2"; S_ "x"]
  /\ map_path dest0 (S_ "../x") UrlRelativeWithoutBase = None.
Proof. vm_compute. repeat split. Qed.
Example C05_D11_double_slash :
  map_path_unfixed dest0 (S_ "//abs/x") UrlRelativeWithoutBase = Some (S_ "/abs/x")
  /\ map_path dest0 (S_ "//abs/x") UrlRelativeWithoutBase = None.
Proof. vm_compute. repeat split. Qed.
Example C05_D11_authority_double_slash :
  map_path_unfixed dest0 (S_ "x://h//abs/x") (UrlOk (S_ "//abs/x")) = Some (S_ "/abs/x")
  /\ map_path dest0 (S_ "x://h//abs/x") (UrlOk (S_ "//abs/x")) = None.
Proof. vm_compute. repeat split. Qed.
(* the full statement is false of the code as found *)
Theorem C05_D11_unfixed_refuted : ~ fs_confined_statement map_path_unfixed.
Proof. exact unfixed_refuted_proof. Qed.
Print Assumptions C05_D11_unfixed_refuted.

(* ---------------------------------------------------------------- non-vacuity *)
Example C05_example_mapped :
  map_path dest0 (S_ "file:///a/b") (UrlOk (S_ "/a/b")) = Some (S_ "/o1/o2/dest/a/b")
  /\ map_path (S_ "dest/") (S_ "./a b") UrlRelativeWithoutBase = Some (S_ "dest/./a b")
  /\ components (S_ "dest/./a b") = [Normal (S_ "dest"); Normal (S_ "a b")]
  /\ map_path (S_ "..") (S_ "x:%2e%2e/y") (UrlOk (S_ "%2e%2e/y")) = Some (S_ "../%2e%2e/y")
  /\ walk [S_ "o1"; S_ "dest"; S_ "sub"] (components (S_ "../%2e%2e/y")) = [S_ "o1"; S_ "dest"; S_ "%2e%2e"; S_ "y"].
Proof. vm_compute. repeat split. Qed.

Example C05_example_refused :
  map_path dest0 (S_ "file:///") (UrlOk (S_ "/")) = None
  /\ map_path dest0 (S_ "") UrlRelativeWithoutBase = None
  /\ map_path dest0 (S_ "a/../b") UrlRelativeWithoutBase = None
  /\ map_path dest0 (S_ "http://[") UrlOtherError = None.
Proof. vm_compute. repeat split. Qed.

Example C05_example_premises :
  pmem [] pre_dirs0 = true /\ dest_exists [] dest0 pre_dirs0 = true
  /\ pmem [S_ "o1"; S_ "o2"] pre_dirs0 = true /\ dest_exists [S_ "o1"; S_ "o2"] (S_ "./dest") pre_dirs0 = true.
Proof. vm_compute. repeat split. Qed.

(* a complete delivery and an interrupted one: effects, predicted changes, predicates *)
Example C05_example_complete :
  let mp := map_path dest0 (S_ "file:///a/b") (UrlOk (S_ "/a/b")) in
  let ops := [Open env_ok; Write true; Write true; Complete] in
  protocol_ok ops = true /\ completes mp ops = true
  /\ wrun mp winit ops =
       [EMkdirAll [RootDir; Normal (S_ "o1"); Normal (S_ "o2"); Normal (S_ "dest"); Normal (S_ "a")];
        ECreate (S_ "/o1/o2/dest/a/b"); EWrite (S_ "/o1/o2/dest/a/b"); EWrite (S_ "/o1/o2/dest/a/b");
        EWrite (S_ "/o1/o2/dest/a/b")]
  /\ predict [] pre_dirs0 [] (wrun mp winit ops) =
       [(0, [S_ "o1"; S_ "o2"; S_ "dest"; S_ "a"]); (1, [S_ "o1"; S_ "o2"; S_ "dest"; S_ "a"; S_ "b"])].
Proof. vm_compute. repeat split. Qed.

Example C05_example_interrupted :
  let mp := map_path dest0 (S_ "keep") UrlRelativeWithoutBase in
  let ops := [Open env_ok; Write true; Interrupted] in
  protocol_ok ops = true /\ completes mp ops = false
  /\ wrun mp winit ops =
       [EMkdirAll [RootDir; Normal (S_ "o1"); Normal (S_ "o2"); Normal (S_ "dest")];
        ECreate (S_ "/o1/o2/dest/keep"); EWrite (S_ "/o1/o2/dest/keep"); EWrite (S_ "/o1/o2/dest/keep");
        ERemove (S_ "/o1/o2/dest/keep")]
  /\ predict [] pre_dirs0 [[S_ "o1"; S_ "o2"; S_ "dest"; S_ "keep"]] (wrun mp winit ops) =
       [(2, [S_ "o1"; S_ "o2"; S_ "dest"; S_ "keep"]); (2, [S_ "o1"; S_ "o2"; S_ "dest"; S_ "keep"])].
Proof. vm_compute. repeat split. Qed.

(* the predicates are not trivially true: the changes observed for D11 are rejected *)
Example C05_example_predicates_reject :
  P_C05_confined [S_ "o1"; S_ "o2"; S_ "dest"] [(1, [S_ "o1"; S_ "x"])] = false
  /\ P_C05_confined [S_ "o1"; S_ "o2"; S_ "dest"] [(0, [S_ "o1"; S_ "o2"; S_ "dest"])] = false
  /\ P_C05_complete_stored [S_ "o1"; S_ "o2"; S_ "dest"] true [(0, [S_ "o1"; S_ "o2"; S_ "dest"; S_ "a"])] = false
  /\ P_C05_failed_leaves_no_file false [(1, [S_ "o1"; S_ "o2"; S_ "dest"; S_ "a"])] = false.
Proof. vm_compute. repeat split. Qed.
