(* C12 - Transfer lifecycle: exact transfer counts, removal semantics, reads terminate. *)
From FluteV Require Import Model.SenderCtl Spec.SenderSpec Proofs.SenderProofs.
Open Scope N_scope.

(* Full statement (kept visible; evaluated on the implementation's traces as P_C12_wire and
   P_C12_counter on every run; proved so far through the mechanisms below - partial):
   every run of the model satisfies P_C12_wire (never more than max_transfer_count transfers of a
   non-carousel object; after removal at most the rest of the current transfer, or one flagged
   packet) and P_C12_counter after every operation, and at a fixed instant repeated reads
   reach "nothing to send" after finitely many packets. *)
Definition C12_lifecycle_full : Prop :=
  forall fdt_npk fdt_ok divf ops full dur car sid queues,
    let tr := model_trace fdt_npk fdt_ok divf (init_st full dur car sid queues) ops in
    P_C12_wire (map fst tr) = true.

(* (1) one transfer of an object of n encoding symbols is exactly max(1,n) packets, the close
   flag on the last one iff this is the object's last transfer; then the encoder is drained *)
Theorem C12_transfer_is_exactly_its_packets : forall n closable fuel, (S n < fuel)%nat ->
  drain fuel (mk_enc n 0 false closable) =
  match n with O => [true] | S m => repeat false m ++ [closable] end.
Proof. exact drain_fresh. Qed.
Print Assumptions C12_transfer_is_exactly_its_packets.

(* (2) a forced read (object removed and stoppable) emits at most one packet, carrying the close
   flag, and nothing afterwards *)
Theorem C12_forced_read_once : forall e, e_stopped e = false ->
  match enc_read true e with
  | (Some c, e') => c = true /\ enc_read true e' = (None, e') /\ enc_read false e' = (None, e')
  | (None, e') => e_stopped e' = true
  end.
Proof. exact forced_read_once. Qed.
Print Assumptions C12_forced_read_once.

(* (3) the counters: each completed transfer adds exactly one to both counters, and an object is
   finished (leaves the FDT instead of being queued again) iff it has no carousel and its
   configured number of transfers is reached *)
Theorem C12_done_counts : forall now t,
  t_count (t_done now t) = t_count t + 1 /\ t_total (t_done now t) = t_total t + 1
  /\ t_transferring (t_done now t) = false.
Proof. exact done_counts. Qed.
Print Assumptions C12_done_counts.

Theorem C12_expired_iff : forall f,
  is_expired f = true <-> (o_max (f_o f) <= t_count (f_t f) /\ o_car (f_o f) = CNone).
Proof. exact expired_iff. Qed.
Print Assumptions C12_expired_iff.

(* non-vacuity: max_transfer_count 2 -> exactly two transfers, flag at the end of the second, gone *)
Example C12_example :
  let od := mk_odesc 1 0 2 2 2 CNone TNone false None [] in
  let ops := [OpAdd od None true; OpPublish 0; OpRead 0; OpRead 0; OpRead 0; OpRead 0; OpRead 0; OpRead 0] in
  let r := run_ops (fun _ => 1%nat) (fun _ => true) (fun d n => Some (d / Z.of_N n)%Z)
               (init_st true 3600000000000 (CDelay 1000000000) 1 [(0, 1%nat)]) ops in
  fst r = [OutAdd true; OutPublish true; OutRead (RFdt 1 false);
           OutRead (RObj 1 false); OutRead (RObj 1 false); OutRead (RObj 1 false); OutRead (RObj 1 true);
           OutRead RNothing]
  /\ files_view (snd r) = [].
Proof. vm_compute. split; reflexivity. Qed.
