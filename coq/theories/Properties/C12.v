(* C12 - Transfer lifecycle: exact transfer counts, removal semantics, reads terminate. *)
From FluteV Require Import Model.SenderCtl Spec.SenderSpec Proofs.SenderProofs Proofs.C12Full.
Open Scope N_scope.

(* ---------------------------------------------------------------------------------------------
   History level.  The unconditional statement "every run of the model satisfies P_C12_wire" is
   FALSE of the model; two independent counterexamples, each closed by computation:
   (a) two accepted adds with the same TOI (the model's OpAdd takes the TOI from its caller; the
       real TOI allocator keeps live TOIs distinct): the packets of the first object are charged
       to the most recent object with that TOI;
   (b) a non-carousel object configured with max_transfer_count = 0 is transferred once
       (should_transfer_now returns true when the count is not below the maximum and there is
       no carousel; is_expired removes it only after that transfer) - also true of the Rust code
       (filedesc.rs should_transfer_now / is_expired).
   Under the premise c12_adds_okb / ops_adds_okb (accepted adds have pairwise distinct TOIs, and
   max_transfer_count >= 1 unless carousel) the statement is proved for every run. *)
Definition C12_lifecycle_unconditional : Prop :=
  forall fdt_npk fdt_ok divf ops full dur car sid queues,
    let tr := model_trace fdt_npk fdt_ok divf (init_st full dur car sid queues) ops in
    P_C12_wire (map fst tr) = true.

Definition c12_ex_run (ops : list op) : list (tev * st) :=
  model_trace (fun _ => 1%nat) (fun _ => true) (fun d n => Some (d / Z.of_N n)%Z)
              (init_st true 3600000000000 (CDelay 1000000000) 1 [(0, 1%nat)]) ops.
Definition c12_ex_final (ops : list op) : st :=
  snd (run_ops (fun _ => 1%nat) (fun _ => true) (fun d n => Some (d / Z.of_N n)%Z)
               (init_st true 3600000000000 (CDelay 1000000000) 1 [(0, 1%nat)]) ops).

(* (a) add TOI 1 (3 packets, 1 transfer), add TOI 1 again (1 packet, 1 transfer), publish, 4 reads:
   FDT, then 3 packets RObj 1 - the second exceeds the budget of the most recent object with TOI 1 *)
Example C12_wire_refuted_duplicate_toi :
  let odA := mk_odesc 1 0 3 3 1 CNone TNone false None [] in
  let odB := mk_odesc 1 0 1 1 1 CNone TNone false None [] in
  let ops := [OpAdd odA None true; OpAdd odB None true; OpPublish 0; OpRead 0; OpRead 0; OpRead 0; OpRead 0] in
  P_C12_wire (map fst (c12_ex_run ops)) = false /\ ops_adds_okb (fun _ => true) [] ops = false.
Proof. vm_compute. split; reflexivity. Qed.

(* (b) add TOI 1 with max_transfer_count = 0 (2 packets, no carousel), publish, reads:
   FDT, RObj 1, RObj 1, nothing - two packets of an object allowed none *)
Example C12_wire_refuted_max_transfer_count_0 :
  let od := mk_odesc 1 0 2 2 0 CNone TNone false None [] in
  let ops := [OpAdd od None true; OpPublish 0; OpRead 0; OpRead 0; OpRead 0; OpRead 0] in
  P_C12_wire (map fst (c12_ex_run ops)) = false
  /\ map fst (c12_ex_run ops) =
     [TAdd od None true; TPublish 0 true; TRead 0 (RFdt 1 false) 1 (Some [1]);
      TRead 0 (RObj 1 false) 0 None; TRead 0 (RObj 1 false) 0 None; TRead 0 RNothing 0 None]
  /\ ops_adds_okb (fun _ => true) [] ops = false.
Proof. vm_compute. repeat split; reflexivity. Qed.

Theorem C12_lifecycle_unconditional_refuted : ~ C12_lifecycle_unconditional.
Proof. exact C12_unconditional_false. Qed.
Print Assumptions C12_lifecycle_unconditional_refuted.

(* the proved statement; premise on the trace (exactly the accepted adds) *)
Theorem C12_lifecycle_full :
  forall fdt_npk fdt_ok divf ops full dur car sid queues,
    let tr := model_trace fdt_npk fdt_ok divf (init_st full dur car sid queues) ops in
    c12_adds_okb (fun _ => true) [] (map fst tr) = true ->
    P_C12_wire (map fst tr) = true.
Proof. exact C12_wire_holds. Qed.
Print Assumptions C12_lifecycle_full.

(* the same with the premise on the operations (every OpAdd marked acceptable) *)
Theorem C12_lifecycle_full_ops :
  forall fdt_npk fdt_ok divf ops full dur car sid queues,
    ops_adds_okb (fun _ => true) [] ops = true ->
    P_C12_wire (map fst (model_trace fdt_npk fdt_ok divf (init_st full dur car sid queues) ops)) = true.
Proof. exact C12_wire_holds_ops. Qed.
Print Assumptions C12_lifecycle_full_ops.

(* the counters: after every run (ops is arbitrary, so after every operation) every object of the
   FDT view has total <= whole transfers on the wire <= total + 1, and a listed non-carousel
   object has total < max.  Additional premise Pcnt on the accepted adds: TOI <> 0 (TOI 0 is the
   FDT's; transfer_done never re-queues nor removes a TOI-0 object) and no FDT instance id (an
   object carrying one is sent as RFdt packets, invisible to the object monitor).  Both are
   needed: examples below. *)
Theorem C12_counter_full :
  forall fdt_npk fdt_ok divf ops full dur car sid queues,
    let s0 := init_st full dur car sid queues in
    let tr := model_trace fdt_npk fdt_ok divf s0 ops in
    c12_adds_okb Pcnt [] (map fst tr) = true ->
    P_C12_counter (c12_objs [] (map fst tr)) (files_view (snd (run_ops fdt_npk fdt_ok divf s0 ops))) = true.
Proof. exact C12_counter_holds. Qed.
Print Assumptions C12_counter_full.

Theorem C12_counter_full_ops :
  forall fdt_npk fdt_ok divf ops full dur car sid queues,
    let s0 := init_st full dur car sid queues in
    ops_adds_okb Pcnt [] ops = true ->
    P_C12_counter (c12_objs [] (map fst (model_trace fdt_npk fdt_ok divf s0 ops)))
                  (files_view (snd (run_ops fdt_npk fdt_ok divf s0 ops))) = true.
Proof. exact C12_counter_holds_ops. Qed.
Print Assumptions C12_counter_full_ops.

(* an object added with TOI 0 (max 1): after its only transfer it stays listed with total = max *)
Example C12_counter_refuted_toi_0 :
  let od := mk_odesc 0 0 1 1 1 CNone TNone false None [] in
  let ops := [OpAdd od None true; OpPublish 0; OpRead 0; OpRead 0; OpRead 0] in
  P_C12_counter (c12_objs [] (map fst (c12_ex_run ops))) (files_view (c12_ex_final ops)) = false
  /\ files_view (c12_ex_final ops) = [(0, 1)]
  /\ P_C12_wire (map fst (c12_ex_run ops)) = true.
Proof. vm_compute. repeat split; reflexivity. Qed.

(* an object added with an FDT instance id: its packets leave as RFdt 7, the counter says 1, the
   object monitor saw none *)
Example C12_counter_refuted_fdt_id :
  let od := mk_odesc 1 0 1 1 2 CNone TNone false (Some 7) [] in
  let ops := [OpAdd od None true; OpPublish 0; OpRead 0; OpRead 0; OpRead 0] in
  P_C12_counter (c12_objs [] (map fst (c12_ex_run ops))) (files_view (c12_ex_final ops)) = false
  /\ files_view (c12_ex_final ops) = [(1, 1)]
  /\ P_C12_wire (map fst (c12_ex_run ops)) = true.
Proof. vm_compute. repeat split; reflexivity. Qed.

(* non-vacuity of the premises: the run of C12_example below satisfies them *)
Example C12_premises_satisfiable :
  let od := mk_odesc 1 0 2 2 2 CNone TNone false None [] in
  let ops := [OpAdd od None true; OpPublish 0; OpRead 0; OpRead 0; OpRead 0; OpRead 0; OpRead 0; OpRead 0] in
  ops_adds_okb Pcnt [] ops = true /\ c12_adds_okb Pcnt [] (map fst (c12_ex_run ops)) = true
  /\ P_C12_wire (map fst (c12_ex_run ops)) = true
  /\ P_C12_counter (c12_objs [] (map fst (c12_ex_run ops))) (files_view (c12_ex_final ops)) = true.
Proof. vm_compute. repeat split; reflexivity. Qed.

(* (1) one transfer of an object of n encoding symbols is exactly max(1,n) packets, the close
   flag on the last one iff this is the object's last transfer; then the encoder is drained *)
Theorem C12_transfer_is_exactly_its_packets : forall n closable fuel, (S n < fuel)%nat ->
  drain fuel (mk_enc n 0 false closable) =
  match n with O => [true] | S m => repeat false m ++ [closable] end.
Proof. exact drain_fresh. Qed.
Print Assumptions C12_transfer_is_exactly_its_packets.

(* (2) a forced read (object removed and stoppable) emits at most one packet, carrying the close
   flag, and nothing afterwards *)
Theorem C12_forced_read_once : forall e, e_stopped e = false ->
  match enc_read true e with
  | (Some c, e') => c = true /\ enc_read true e' = (None, e') /\ enc_read false e' = (None, e')
  | (None, e') => e_stopped e' = true
  end.
Proof. exact forced_read_once. Qed.
Print Assumptions C12_forced_read_once.

(* (3) the counters: each completed transfer adds exactly one to both counters, and an object is
   finished (leaves the FDT instead of being queued again) iff it has no carousel and its
   configured number of transfers is reached *)
Theorem C12_done_counts : forall now t,
  t_count (t_done now t) = t_count t + 1 /\ t_total (t_done now t) = t_total t + 1
  /\ t_transferring (t_done now t) = false.
Proof. exact done_counts. Qed.
Print Assumptions C12_done_counts.

Theorem C12_expired_iff : forall f,
  is_expired f = true <-> (o_max (f_o f) <= t_count (f_t f) /\ o_car (f_o f) = CNone).
Proof. exact expired_iff. Qed.
Print Assumptions C12_expired_iff.

(* non-vacuity: max_transfer_count 2 -> exactly two transfers, flag at the end of the second, gone *)
Example C12_example :
  let od := mk_odesc 1 0 2 2 2 CNone TNone false None [] in
  let ops := [OpAdd od None true; OpPublish 0; OpRead 0; OpRead 0; OpRead 0; OpRead 0; OpRead 0; OpRead 0] in
  let r := run_ops (fun _ => 1%nat) (fun _ => true) (fun d n => Some (d / Z.of_N n)%Z)
               (init_st true 3600000000000 (CDelay 1000000000) 1 [(0, 1%nat)]) ops in
  fst r = [OutAdd true; OutPublish true; OutRead (RFdt 1 false);
           OutRead (RObj 1 false); OutRead (RObj 1 false); OutRead (RObj 1 false); OutRead (RObj 1 true);
           OutRead RNothing]
  /\ files_view (snd r) = [].
Proof. vm_compute. split; reflexivity. Qed.
