(* C12 - Transfer lifecycle: exact transfer counts, removal semantics, reads terminate. *)
From FluteV Require Import Model.SenderCtl Spec.SenderSpec Proofs.SenderProofs Proofs.C12Full.
Open Scope N_scope.

(* ---------------------------------------------------------------------------------------------
   History level.  The unconditional statement "every run of the model satisfies P_C12_wire" is
   FALSE of the model; two independent counterexamples, each closed by computation:
   (a) two accepted adds with the same TOI (the model's OpAdd takes the TOI from its caller; the
       real TOI allocator keeps live TOIs distinct): the packets of the first object are charged
       to the most recent object with that TOI;
   (b) a non-carousel object configured with max_transfer_count = 0 is transferred once
       (should_transfer_now returns true when the count is not below the maximum and there is
       no carousel; is_expired removes it only after that transfer) - also true of the Rust code
       (filedesc.rs should_transfer_now / is_expired).
   Under the premise c12_adds_okb / ops_adds_okb (accepted adds have pairwise distinct TOIs, and
   max_transfer_count >= 1 unless carousel) the statement is proved for every run. *)
Definition C12_lifecycle_unconditional : Prop :=
  forall fdt_npk fdt_ok divf ops full dur car sid queues,
    let tr := model_trace fdt_npk fdt_ok divf (init_st full dur car sid queues) ops in
    P_C12_wire (map fst tr) = true.

Definition c12_ex_run (ops : list op) : list (tev * st) :=
  model_trace (fun _ => 1%nat) (fun _ => true) (fun d n => Some (d / Z.of_N n)%Z)
              (init_st true 3600000000000 (CDelay 1000000000) 1 [(0, 1%nat)]) ops.
Definition c12_ex_final (ops : list op) : st :=
  snd (run_ops (fun _ => 1%nat) (fun _ => true) (fun d n => Some (d / Z.of_N n)%Z)
               (init_st true 3600000000000 (CDelay 1000000000) 1 [(0, 1%nat)]) ops).

(* (a) add TOI 1 (3 packets, 1 transfer), add TOI 1 again (1 packet, 1 transfer), publish, 4 reads:
   FDT, then 3 packets RObj 1 - the second exceeds the budget of the most recent object with TOI 1 *)
Example C12_wire_refuted_duplicate_toi :
  let odA := mk_odesc 1 0 3 3 1 CNone TNone false None [] in
  let odB := mk_odesc 1 0 1 1 1 CNone TNone false None [] in
  let ops := [OpAdd odA None true; OpAdd odB None true; OpPublish 0; OpRead 0; OpRead 0; OpRead 0; OpRead 0] in
  P_C12_wire (map fst (c12_ex_run ops)) = false /\ ops_adds_okb (fun _ => true) [] ops = false.
Proof. vm_compute. split; reflexivity. Qed.

(* (b) add TOI 1 with max_transfer_count = 0 (2 packets, no carousel), publish, reads:
   FDT, RObj 1, RObj 1, nothing - two packets of an object allowed none *)
Example C12_wire_refuted_max_transfer_count_0 :
  let od := mk_odesc 1 0 2 2 0 CNone TNone false None [] in
  let ops := [OpAdd od None true; OpPublish 0; OpRead 0; OpRead 0; OpRead 0; OpRead 0] in
  P_C12_wire (map fst (c12_ex_run ops)) = false
  /\ map fst (c12_ex_run ops) =
     [TAdd od None true; TPublish 0 true; TRead 0 (RFdt 1 false) 1 (Some [1]);
      TRead 0 (RObj 1 false) 0 None; TRead 0 (RObj 1 false) 0 None; TRead 0 RNothing 0 None]
  /\ ops_adds_okb (fun _ => true) [] ops = false.
Proof. vm_compute. repeat split; reflexivity. Qed.

Theorem C12_lifecycle_unconditional_refuted : ~ C12_lifecycle_unconditional.
Proof. exact C12_unconditional_false. Qed.
Print Assumptions C12_lifecycle_unconditional_refuted.

(* the proved statement; premise on the trace (exactly the accepted adds) *)
Theorem C12_lifecycle_full :
  forall fdt_npk fdt_ok divf ops full dur car sid queues,
    let tr := model_trace fdt_npk fdt_ok divf (init_st full dur car sid queues) ops in
    c12_adds_okb (fun _ => true) [] (map fst tr) = true ->
    P_C12_wire (map fst tr) = true.
Proof. exact C12_wire_holds. Qed.
Print Assumptions C12_lifecycle_full.

(* the same with the premise on the operations (every OpAdd marked acceptable) *)
Theorem C12_lifecycle_full_ops :
  forall fdt_npk fdt_ok divf ops full dur car sid queues,
    ops_adds_okb (fun _ => true) [] ops = true ->
    P_C12_wire (map fst (model_trace fdt_npk fdt_ok divf (init_st full dur car sid queues) ops)) = true.
Proof. exact C12_wire_holds_ops. Qed.
Print Assumptions C12_lifecycle_full_ops.

(* the counters: after every run (ops is arbitrary, so after every operation) every object of the
   FDT view has total <= whole transfers on the wire <= total + 1, and a listed non-carousel
   object has total < max.  Additional premise Pcnt on the accepted adds: TOI <> 0 (TOI 0 is the
   FDT's; transfer_done never re-queues nor removes a TOI-0 object) and no FDT instance id (an
   object carrying one is sent as RFdt packets, invisible to the object monitor).  Both are
   needed: examples below. *)
Theorem C12_counter_full :
  forall fdt_npk fdt_ok divf ops full dur car sid queues,
    let s0 := init_st full dur car sid queues in
    let tr := model_trace fdt_npk fdt_ok divf s0 ops in
    c12_adds_okb Pcnt [] (map fst tr) = true ->
    P_C12_counter (c12_objs [] (map fst tr)) (files_view (snd (run_ops fdt_npk fdt_ok divf s0 ops))) = true.
Proof. exact C12_counter_holds. Qed.
Print Assumptions C12_counter_full.

Theorem C12_counter_full_ops :
  forall fdt_npk fdt_ok divf ops full dur car sid queues,
    let s0 := init_st full dur car sid queues in
    ops_adds_okb Pcnt [] ops = true ->
    P_C12_counter (c12_objs [] (map fst (model_trace fdt_npk fdt_ok divf s0 ops)))
                  (files_view (snd (run_ops fdt_npk fdt_ok divf s0 ops))) = true.
Proof. exact C12_counter_holds_ops. Qed.
Print Assumptions C12_counter_full_ops.

(* an object added with TOI 0 (max 1): after its only transfer it stays listed with total = max *)
Example C12_counter_refuted_toi_0 :
  let od := mk_odesc 0 0 1 1 1 CNone TNone false None [] in
  let ops := [OpAdd od None true; OpPublish 0; OpRead 0; OpRead 0; OpRead 0] in
  P_C12_counter (c12_objs [] (map fst (c12_ex_run ops))) (files_view (c12_ex_final ops)) = false
  /\ files_view (c12_ex_final ops) = [(0, 1)]
  /\ P_C12_wire (map fst (c12_ex_run ops)) = true.
Proof. vm_compute. repeat split; reflexivity. Qed.

(* an object added with an FDT instance id: its packets leave as RFdt 7, the counter says 1, the
   object monitor saw none *)
Example C12_counter_refuted_fdt_id :
  let od := mk_odesc 1 0 1 1 2 CNone TNone false (Some 7) [] in
  let ops := [OpAdd od None true; OpPublish 0; OpRead 0; OpRead 0; OpRead 0] in
  P_C12_counter (c12_objs [] (map fst (c12_ex_run ops))) (files_view (c12_ex_final ops)) = false
  /\ files_view (c12_ex_final ops) = [(1, 1)]
  /\ P_C12_wire (map fst (c12_ex_run ops)) = true.
Proof. vm_compute. repeat split; reflexivity. Qed.

(* non-vacuity of the premises: the run of C12_example below satisfies them *)
Example C12_premises_satisfiable :
  let od := mk_odesc 1 0 2 2 2 CNone TNone false None [] in
  let ops := [OpAdd od None true; OpPublish 0; OpRead 0; OpRead 0; OpRead 0; OpRead 0; OpRead 0; OpRead 0] in
  ops_adds_okb Pcnt [] ops = true /\ c12_adds_okb Pcnt [] (map fst (c12_ex_run ops)) = true
  /\ P_C12_wire (map fst (c12_ex_run ops)) = true
  /\ P_C12_counter (c12_objs [] (map fst (c12_ex_run ops))) (files_view (c12_ex_final ops)) = true.
Proof. vm_compute. repeat split; reflexivity. Qed.

(* (1) one transfer of an object of n encoding symbols is exactly max(1,n) packets, the close
   flag on the last one iff this is the object's last transfer; then the encoder is drained *)
Theorem C12_transfer_is_exactly_its_packets : forall n closable fuel, (S n < fuel)%nat ->
  drain fuel (mk_enc n 0 false closable) =
  match n with O => [true] | S m => repeat false m ++ [closable] end.
Proof. exact drain_fresh. Qed.
Print Assumptions C12_transfer_is_exactly_its_packets.

(* (2) a forced read (object removed and stoppable) emits at most one packet, carrying the close
   flag, and nothing afterwards *)
Theorem C12_forced_read_once : forall e, e_stopped e = false ->
  match enc_read true e with
  | (Some c, e') => c = true /\ enc_read true e' = (None, e') /\ enc_read false e' = (None, e')
  | (None, e') => e_stopped e' = true
  end.
Proof. exact forced_read_once. Qed.
Print Assumptions C12_forced_read_once.

(* (3) the counters: each completed transfer adds exactly one to both counters, and an object is
   finished (leaves the FDT instead of being queued again) iff it has no carousel and its
   configured number of transfers is reached *)
Theorem C12_done_counts : forall now t,
  t_count (t_done now t) = t_count t + 1 /\ t_total (t_done now t) = t_total t + 1
  /\ t_transferring (t_done now t) = false.
Proof. exact done_counts. Qed.
Print Assumptions C12_done_counts.

Theorem C12_expired_iff : forall f,
  is_expired f = true <-> (o_max (f_o f) <= t_count (f_t f) /\ o_car (f_o f) = CNone).
Proof. exact expired_iff. Qed.
Print Assumptions C12_expired_iff.

(* non-vacuity: max_transfer_count 2 -> exactly two transfers, flag at the end of the second, gone *)
Example C12_example :
  let od := mk_odesc 1 0 2 2 2 CNone TNone false None [] in
  let ops := [OpAdd od None true; OpPublish 0; OpRead 0; OpRead 0; OpRead 0; OpRead 0; OpRead 0; OpRead 0] in
  let r := run_ops (fun _ => 1%nat) (fun _ => true) (fun d n => Some (d / Z.of_N n)%Z)
               (init_st true 3600000000000 (CDelay 1000000000) 1 [(0, 1%nat)]) ops in
  fst r = [OutAdd true; OutPublish true; OutRead (RFdt 1 false);
           OutRead (RObj 1 false); OutRead (RObj 1 false); OutRead (RObj 1 false); OutRead (RObj 1 true);
           OutRead RNothing]
  /\ files_view (snd r) = [].
Proof. vm_compute. split; reflexivity. Qed.

(* ---------------------------------------------------------------------------------------------
   Quiescence (last sentence of C12): "at any fixed instant repeated reads return 'nothing to send'
   after finitely many packets, and once no object remains only FDT packets are ever produced".
   [MUs fdt_npk now s] is an explicit bound: packets the encoders in the slots still hold, plus
   (transfers that can still start at [now]) x (packets of one transfer) for every object in a
   slot, in the waiting list, for the current and the queued FDT instances, plus the packets of the
   FDT instances that can still be published at [now] (one per start of a file transfer unless
   FullFDT, one for expiry).  Premises [reach_ok]: those of C13 (ascending queue keys, [ops_fresh],
   [ops_nz]) and three that the unconditional statement needs - each is refuted below without it:
   [cfg_ok]: fdt_duration > 0, the FDT carousel is not CNone and its delay is >= 0;
   [ops_car]: carousel delays of accepted adds are >= 0 (Rust Durations are; the model uses Z). *)
From FluteV Require Import Proofs.C13Full Proofs.C12Quiesce.
From Coq Require Import Sorted.

(* the bound without [cfg_ok], and without [ops_car]: both FALSE of the model (closed by computation
   on the runs of examples (a) and (c) below: 5 packets against a bound of 1, 8 against 2) *)
Theorem C12_quiesce_bound_without_cfg_refuted : ~ packets_bounded_without_cfg.
Proof. exact packets_bounded_without_cfg_false. Qed.
Print Assumptions C12_quiesce_bound_without_cfg_refuted.

Theorem C12_quiesce_bound_without_car_refuted : ~ packets_bounded_without_car.
Proof. exact packets_bounded_without_car_false. Qed.
Print Assumptions C12_quiesce_bound_without_car_refuted.

(* the streams below do not stop at all: 200 reads at one instant, 200 packets; after every packet
   the state has the shape it had one read earlier (same session contents, FDT instance id and
   object index one higher in (a) and (b); identical times and count, only t_total one higher, in (c)), so the next read
   takes the same branch *)
Definition quiet_within (k : nat) (now : Z) (s : st) : bool :=
  negb (all_pkt (fst (read_n cex_npk cex_ok cex_div now k s))).

(* (a) fdt_duration = 0 (a legal value of the Rust configuration): every time the FDT session is
   free the FDT "will expire" (duration <= elapsed, 0 <= 0), a new instance is published and sent:
   RFdt 1, RFdt 2, ... at the same instant, for ever - each read republishes because last_publish =
   now still satisfies 0 <= now - last_publish; file objects are never served *)
Example C12_quiesce_refuted_fdt_duration_0 :
  let s := init_st true 0 (CDelay 1000000000) 1 [(0, 1%nat)] in
  quiet_within 200 0 s = false
  /\ fst (read_n cex_npk cex_ok cex_div 0 4 s) = [RFdt 1 false; RFdt 2 false; RFdt 3 false; RFdt 4 false]
  /\ cfg_ok 0 (CDelay 1000000000) = false.
Proof. vm_compute. repeat split; reflexivity. Qed.

(* (b) FDT carousel CNone (not expressible in Rust: carousel_mode is not optional for the FDT): the
   instance expires after its only transfer, current_fdt_transfer = None makes the FDT "expire",
   a new instance is published at once *)
Example C12_quiesce_refuted_fdt_carousel_none :
  let s := init_st true 3600000000000 CNone 1 [(0, 1%nat)] in
  quiet_within 200 0 s = false
  /\ fst (read_n cex_npk cex_ok cex_div 0 4 s) = [RFdt 1 true; RFdt 2 true; RFdt 3 true; RFdt 4 true]
  /\ cfg_ok 3600000000000 CNone = false.
Proof. vm_compute. repeat split; reflexivity. Qed.

(* (c) a negative carousel delay (not a Rust Duration): d < max 0 (now - last_end) holds at the
   instant the transfer ended, the carousel restarts for ever *)
Example C12_quiesce_refuted_negative_delay :
  let od := mk_odesc 1 0 1 1 1 (CDelay (-1)) TNone false None [] in
  let ops := [OpAdd od None true] in
  let i := init_st true 3600000000000 (CDelay 1000000000) 1 [(0, 1%nat)] in
  let s := snd (run_ops cex_npk cex_ok cex_div i ops) in
  quiet_within 200 0 s = false
  /\ fst (read_n cex_npk cex_ok cex_div 0 4 s) = [RFdt 1 false; RObj 1 false; RObj 1 false; RObj 1 false]
  /\ (ops_fresh cex_npk cex_ok cex_div i ops, ops_nz ops, cfg_ok 3600000000000 (CDelay 1000000000), ops_car ops)
     = (true, true, true, false).
Proof. vm_compute. repeat split; reflexivity. Qed.

(* (d) [ops_nz] (no add under TOI 0, premise of C13) is needed for the bound, not for silence: the
   end of the transfer of a non-carousel object with TOI 0 clears current_fdt_transfer
   (transfer_done, TOI-0 branch), so the FDT is republished once more: 5 packets, bound 4 *)
Example C12_quiesce_bound_needs_nz :
  let i := init_st true 3600000000000 (CDelay 1000000000) 1 [(0, 2%nat)] in
  let ops := [OpAdd (mk_odesc 0 0 1 1 1 CNone TNone false None []) None true;
              OpAdd (mk_odesc 3 0 1 1 2 (CDelay 0) TNone false None []) None true] in
  let s := snd (run_ops cex_npk cex_ok cex_div i ops) in
  (MUs cex_npk 0 s, fst (read_n cex_npk cex_ok cex_div 0 7 s), ops_nz ops, ops_fresh cex_npk cex_ok cex_div i ops, ops_car ops)
  = (4%nat, [RFdt 1 false; RObj 0 true; RObj 3 false; RObj 3 false; RFdt 2 false; RNothing; RNothing], false, true, true).
Proof. vm_compute. reflexivity. Qed.

(* Q1 (a): at any instant and for any number of reads, at most MUs packets *)
Theorem C12_quiesce_packets_bounded : forall fdt_npk fdt_ok divf full dur car sid queues ops now k,
  reach_ok fdt_npk fdt_ok divf full dur car sid queues ops ->
  let s := snd (run_ops fdt_npk fdt_ok divf (init_st full dur car sid queues) ops) in
  (pkt_count (fst (read_n fdt_npk fdt_ok divf now k s)) <= MUs fdt_npk now s)%nat.
Proof. exact quiesce_packets_bounded. Qed.
Print Assumptions C12_quiesce_packets_bounded.

(* Q1 (b): n <= MUs reads that return a packet, then a read that returns RNothing (or RPanic, the
   panic of Duration::div_f64); after RNothing every further read at that instant returns RNothing
   and leaves the whole state unchanged *)
Theorem C12_quiesce_reads : forall fdt_npk fdt_ok divf full dur car sid queues ops now,
  reach_ok fdt_npk fdt_ok divf full dur car sid queues ops ->
  let s := snd (run_ops fdt_npk fdt_ok divf (init_st full dur car sid queues) ops) in
  exists n, (n <= MUs fdt_npk now s)%nat
    /\ Forall (fun o => is_pkt o = true) (fst (read_n fdt_npk fdt_ok divf now n s))
    /\ let (o, s1) := sender_read fdt_npk fdt_ok divf now (snd (read_n fdt_npk fdt_ok divf now n s)) in
       (o = RNothing \/ o = RPanic)
       /\ (o = RNothing -> forall k, read_n fdt_npk fdt_ok divf now k s1 = (repeat RNothing k, s1)).
Proof. exact quiesce_reads. Qed.
Print Assumptions C12_quiesce_reads.

(* Q1 (c): idempotence of a silent read at a fixed instant: the state is a fixed point *)
Theorem C12_quiesce_silent_read_idempotent : forall fdt_npk fdt_ok divf full dur car sid queues ops now s1,
  reach_ok fdt_npk fdt_ok divf full dur car sid queues ops ->
  let s := snd (run_ops fdt_npk fdt_ok divf (init_st full dur car sid queues) ops) in
  sender_read fdt_npk fdt_ok divf now s = (RNothing, s1) ->
  sender_read fdt_npk fdt_ok divf now s1 = (RNothing, s1).
Proof. exact quiesce_silent_read_idempotent. Qed.
Print Assumptions C12_quiesce_silent_read_idempotent.

(* Q1 (d): one read: the bound does not grow, a packet lowers it; RFuel (fuel of the session loop)
   never occurs; RPanic does not occur when div_f64 is defined for >= 1 packet *)
Theorem C12_quiesce_read_step : forall fdt_npk fdt_ok divf full dur car sid queues ops now o s',
  reach_ok fdt_npk fdt_ok divf full dur car sid queues ops ->
  let s := snd (run_ops fdt_npk fdt_ok divf (init_st full dur car sid queues) ops) in
  sender_read fdt_npk fdt_ok divf now s = (o, s') ->
  (MUs fdt_npk now s' <= MUs fdt_npk now s)%nat
  /\ (is_pkt o = true -> (S (MUs fdt_npk now s') <= MUs fdt_npk now s)%nat)
  /\ o <> RFuel
  /\ ((forall d n, 1 <= n -> divf d n <> None) -> o <> RPanic).
Proof. exact quiesce_read_step. Qed.
Print Assumptions C12_quiesce_read_step.

(* the same for any state that satisfies the invariant (init_st establishes it, every operation
   that passes op_fresh / op_nz / op_car preserves it) *)
Theorem C12_quiesce_invariant_read : forall fdt_npk fdt_ok divf now s o s',
  QInv s -> sender_read fdt_npk fdt_ok divf now s = (o, s') ->
  QInv s' /\ (MUs fdt_npk now s' <= MUs fdt_npk now s)%nat
  /\ (is_pkt o = true -> (S (MUs fdt_npk now s') <= MUs fdt_npk now s)%nat) /\ o <> RFuel.
Proof. exact read_mu. Qed.
Print Assumptions C12_quiesce_invariant_read.

(* Q2: Fdt.files empty and no session holds a file object: as long as no add is accepted, no
   operation returns an object packet (reads return RNothing, RFdt, or RPanic/never RFuel) *)
Theorem C12_only_fdt_when_no_object : forall fdt_npk fdt_ok divf full dur car sid queues ops more,
  reach_ok fdt_npk fdt_ok divf full dur car sid queues ops ->
  let s := snd (run_ops fdt_npk fdt_ok divf (init_st full dur car sid queues) ops) in
  files s = [] -> slot_ids (all_sessions (squeues s)) = [] ->
  forallb op_no_add more = true ->
  Forall out_not_obj (fst (run_ops fdt_npk fdt_ok divf s more)).
Proof. exact only_fdt_when_no_object. Qed.
Print Assumptions C12_only_fdt_when_no_object.

(* non-vacuity.  ObjectsBeingTransferred mode, FDT carousel delay 0, two slots; object 1: carousel
   delay 0, one packet; object 2: two transfers of two packets.  At instant 0: bound 9, exactly 9
   packets (FDT 1 by expiry, FDT 2 and 3 by the two starts, FDT 4 by the second start of object 2),
   then silence and a fixed point; object 2 is gone, object 1 waits for its carousel.  At instant 5
   (the delay 0 has elapsed): bound 3 = the FDT carousel, the republication by the restart of
   object 1, object 1; then silence again. *)
Example C12_quiesce_example :
  let i := init_st false 3600000000000 (CDelay 0) 1 [(0, 2%nat)] in
  let odA := mk_odesc 1 0 1 1 1 (CDelay 0) TNone false None [] in
  let odB := mk_odesc 2 0 2 2 2 CNone TNone false None [] in
  let ops := [OpAdd odA None true; OpAdd odB None true] in
  let s := snd (run_ops cex_npk cex_ok cex_div i ops) in
  let s9 := snd (read_n cex_npk cex_ok cex_div 0 9 s) in
  let s10 := snd (read_n cex_npk cex_ok cex_div 0 10 s) in
  (ops_fresh cex_npk cex_ok cex_div i ops, ops_nz ops, ops_car ops, cfg_ok 3600000000000 (CDelay 0)) = (true, true, true, true)
  /\ MUs cex_npk 0 s = 9%nat
  /\ fst (read_n cex_npk cex_ok cex_div 0 12 s) =
     [RFdt 1 false; RFdt 2 false; RFdt 3 false; RObj 1 false; RObj 2 false; RObj 2 false;
      RFdt 4 false; RObj 2 false; RObj 2 true; RNothing; RNothing; RNothing]
  /\ MUs cex_npk 0 s9 = 0%nat
  /\ sender_read cex_npk cex_ok cex_div 0 s10 = (RNothing, s10)
  /\ files_view s10 = [(1, 1)]
  /\ MUs cex_npk 5 s10 = 3%nat
  /\ fst (read_n cex_npk cex_ok cex_div 5 5 s10) = [RFdt 4 false; RFdt 5 false; RObj 1 false; RNothing; RNothing].
Proof. vm_compute. repeat split; reflexivity. Qed.

Example C12_quiesce_example_premises :
  reach_ok cex_npk cex_ok cex_div false 3600000000000 (CDelay 0) 1 [(0, 2%nat)]
           [OpAdd (mk_odesc 1 0 1 1 1 (CDelay 0) TNone false None []) None true;
            OpAdd (mk_odesc 2 0 2 2 2 CNone TNone false None []) None true].
Proof. split; [repeat constructor|]. vm_compute. repeat split; reflexivity. Qed.

(* Q2 non-vacuity: FullFDT, one object of one transfer; after it is gone: FDT carousel only *)
Example C12_only_fdt_example :
  let i := init_st true 3600000000000 (CDelay 1000000000) 1 [(0, 1%nat)] in
  let od := mk_odesc 1 0 2 2 1 CNone TNone false None [] in
  let ops := [OpAdd od None true; OpPublish 0; OpRead 0; OpRead 0; OpRead 0; OpRead 0] in
  let s := snd (run_ops cex_npk cex_ok cex_div i ops) in
  let more := [OpRead 0; OpRead 2000000000; OpRemove 1; OpPublish 2000000000; OpRead 2000000000;
               OpRead 2000000000; OpRead 4000000000; OpAdd od None false; OpRead 4000000000] in
  (files s, slots_empty s, forallb op_no_add more) = ([], true, true)
  /\ fst (run_ops cex_npk cex_ok cex_div s more) =
     [OutRead RNothing; OutRead (RFdt 1 false); OutRemove false; OutPublish true; OutRead (RFdt 2 false);
      OutRead RNothing; OutRead (RFdt 2 false); OutAdd false; OutRead RNothing].
Proof. vm_compute. repeat split; reflexivity. Qed.

From FluteV Require Import Proofs.C12CloseFlag.
(* ===== block: C12CloseFlag ===== *)
(* C08/C12, the close-object flag over every operation history: an object packet carries the flag
   only if the object was removed before, or the object is empty (its lone packet), or the object
   has no carousel and the packet is the last one of its last transfer (packets on the wire =
   max_transfer_count x packets per transfer).  Proved for every run of the model under the premises
   of C12_lifecycle_full, unchanged (accepted adds: pairwise distinct TOIs, max_transfer_count >= 1
   unless carousel); no counterexample was found, none of the premises had to be extended.
   A carousel object with max_transfer_count = 0 is inside the domain and is never flagged. *)
Theorem C12_close_flag_full :
  forall fdt_npk fdt_ok divf ops full dur car sid queues,
    let tr := model_trace fdt_npk fdt_ok divf (init_st full dur car sid queues) ops in
    c12_adds_okb (fun _ => true) [] (map fst tr) = true ->
    P_C12_close_flag (map fst tr) = true.
Proof. exact C12_close_flag_holds. Qed.
Print Assumptions C12_close_flag_full.

Theorem C12_close_flag_full_ops :
  forall fdt_npk fdt_ok divf ops full dur car sid queues,
    ops_adds_okb (fun _ => true) [] ops = true ->
    P_C12_close_flag (map fst (model_trace fdt_npk fdt_ok divf (init_st full dur car sid queues) ops)) = true.
Proof. exact C12_close_flag_holds_ops. Qed.
Print Assumptions C12_close_flag_full_ops.

Definition c12_objpk (tr : list tev) : list (N * bool) :=
  flat_map (fun e => match e with TRead _ (RObj t c) _ _ => [(t, c)] | _ => [] end) tr.

(* non-vacuity: TOI 1 = 2 packets x 2 transfers, no carousel: the flag on its 4th packet only;
   TOI 2 = carousel object with max_transfer_count 0 (1 packet per turn): never flagged, also not on
   the turns after TOI 1 is gone; TOI 3 = 3 packets, allow_stop, removed after its first packet: the
   one packet sent after the removal is flagged.  The premises hold and the monitor accepts. *)
Example C12_close_flag_example :
  let odA := mk_odesc 1 0 2 2 2 CNone TNone false None [] in
  let odC := mk_odesc 2 0 1 1 0 (CDelay 0) TNone false None [] in
  let odR := mk_odesc 3 0 3 3 1 CNone TNone true None [] in
  let ops := [OpAdd odA None true; OpAdd odC None true; OpPublish 0; OpRead 0; OpRead 0; OpRead 0;
              OpRead 1; OpRead 1; OpRead 2; OpRead 2; OpRead 3; OpRead 4; OpRead 4;
              OpAdd odR None true; OpPublish 5; OpRead 5; OpRead 5; OpRead 5; OpRemove 3; OpRead 5;
              OpRead 6; OpRead 6; OpRead 7] in
  c12_objpk (map fst (c12_ex_run ops)) =
    [(1, false); (1, false); (2, false); (1, false); (1, true); (2, false); (2, false);
     (2, false); (3, false); (3, true); (2, false); (2, false)]
  /\ P_C12_close_flag (map fst (c12_ex_run ops)) = true
  /\ ops_adds_okb (fun _ => true) [] ops = true.
Proof. vm_compute. repeat split; reflexivity. Qed.

(* the monitor is not trivially true: a flag in the middle of a transfer, a flag at the end of a
   transfer that is not the last one, and a flag on a carousel object are all rejected *)
Example C12_close_flag_monitor_rejects :
  let odA := mk_odesc 1 0 2 2 2 CNone TNone false None [] in
  let odC := mk_odesc 2 0 1 1 0 (CDelay 0) TNone false None [] in
  P_C12_close_flag [TAdd odA None true; TRead 0 (RObj 1 true) 0 None] = false
  /\ P_C12_close_flag [TAdd odA None true; TRead 0 (RObj 1 false) 0 None; TRead 0 (RObj 1 true) 0 None] = false
  /\ P_C12_close_flag [TAdd odC None true; TRead 0 (RObj 2 true) 0 None] = false
  /\ P_C12_close_flag [TAdd odA None true; TRead 0 (RObj 1 false) 0 None; TRead 0 (RObj 1 false) 0 None;
                       TRead 0 (RObj 1 false) 0 None; TRead 0 (RObj 1 true) 0 None] = true.
Proof. vm_compute. repeat split; reflexivity. Qed.
(* ===== end block: C12CloseFlag ===== *)

(* ===== block: FdtClose (encoder-level half of P_C08_fdt_close_flag) =====
   An encoder that is not closable (a transfer that is not the last one: every transfer of a carousel
   object, hence of an FDT instance) and is never forced never sets the close-object flag on a
   non-empty object, however many reads are made.  The session-level half - the FDT session never
   forces (must_stop is false for it) and FDT instances are carousel objects with at least one
   packet - is evaluated on every run by P_C08_fdt_close_flag over the implementation's trace. *)
From FluteV Require Import Proofs.FdtClose.
Theorem C12_unforced_nonclosable_encoder_never_flags : forall n e,
  e_closable e = false -> ((0 < e_left e)%nat \/ e_sent e <> 0) ->
  Forall (fun c => c = false) (fst (enc_reads n e)).
Proof. intros n e Hc Hn. exact (proj1 (unforced_nonclosable_never_flags n e (conj Hc Hn))). Qed.
Print Assumptions C12_unforced_nonclosable_encoder_never_flags.

(* non-vacuity: a 3-packet non-closable transfer gives three unflagged packets and then nothing;
   both premises are needed: a closable one flags its last packet, an empty object its lone packet *)
Example C12_example_encoder_flags :
  fst (enc_reads 5 (mk_enc 3 0 false false)) = [false; false; false]
  /\ fst (enc_reads 5 (mk_enc 3 0 false true)) = [false; false; true]
  /\ fst (enc_reads 5 (mk_enc 0 0 false false)) = [true].
Proof. vm_compute. repeat split; reflexivity. Qed.
(* ===== end block: FdtClose ===== *)
