(* C18 - Multi-session demultiplexing, TSI filtering and session listener events.
   This file holds only the property theorems (each closed by [exact]), their
   [Print Assumptions], and non-vacuity examples.

   The multi-receiver model (Model/Multi.v) is generic in the per-session machine
   (R, P, O, pkt_tsi, pkt_close, rinit, rpush, rcleanup, rdrop): every theorem below is
   quantified over it.  [mlife st ops] = all events of the operations [ops] followed by the
   drop of the receiver; [None] = arithmetic overflow of a u64 counter (excluded for fewer
   than 2^64 operations by C18_no_overflow). *)
From FluteV Require Import Model.TsiFilter Model.Multi Spec.C18Spec Proofs.MultiProofs.
Open Scope N_scope.

(* (1) TSI filter = reference counting with SATURATING counts (a remove of something that is
   not listened to is a no-op): after any history of add/remove listen operations the
   filter accepts (ep, tsi) iff ep is listened for all TSIs, or (ep, tsi) or
   (ep without source, tsi) has been added more often than removed.  No overflow. *)
Theorem C18_filter_refcount : forall ops : list FOp,
  N.of_nat (length ops) <= u64_max ->
  exists f, tf_run ops = Some f /\ forall ep tsi, tf_is_valid f ep tsi = accepts ops ep tsi.
Proof. exact filter_refcount_proof. Qed.
Print Assumptions C18_filter_refcount.

(* (2) a packet is processed iff filtering is off or the filter (by its history so far)
   accepts it; whole runs of any operations; the run does not overflow *)
Theorem C18_filter_iff_processed :
  forall (R P O : Type) (pkt_tsi : P -> N) (pkt_close : P -> bool) (rinit : Key -> R)
         (rpush : R -> P -> Z -> R * O) (rcleanup : R -> Z -> R * O) (rdrop : R -> O)
         (en : bool) (to : option Z) (ops : list (Op P)),
  N.of_nat (length ops) <= u64_max ->
  exists st steps,
    mrun R P O pkt_tsi pkt_close rinit rpush rcleanup rdrop (minit en to) ops = Some (st, steps)
    /\ run_processed ops steps = expected_processed pkt_tsi en [] ops.
Proof. exact filter_iff_processed_proof. Qed.
Print Assumptions C18_filter_iff_processed.

Theorem C18_no_overflow :
  forall (R P O : Type) (pkt_tsi : P -> N) (pkt_close : P -> bool) (rinit : Key -> R)
         (rpush : R -> P -> Z -> R * O) (rcleanup : R -> Z -> R * O) (rdrop : R -> O)
         (en : bool) (to : option Z) (ops : list (Op P)),
  N.of_nat (length ops) <= u64_max ->
  mlife R P O pkt_tsi pkt_close rinit rpush rcleanup rdrop (minit en to) ops <> None.
Proof. exact no_panic_proof. Qed.
Print Assumptions C18_no_overflow.

(* (3) demultiplexing isolation, for any set [sel] of session keys and any operation list:
   everything the selected sessions emit (results, writer callbacks, destructor output) and
   everything listeners are told about them is what the run over the selected packets alone
   (with the same non-packet operations) gives. *)
Theorem C18_demux_isolation :
  forall (R P O : Type) (pkt_tsi : P -> N) (pkt_close : P -> bool) (rinit : Key -> R)
         (rpush : R -> P -> Z -> R * O) (rcleanup : R -> Z -> R * O) (rdrop : R -> O)
         (sel : Key -> bool) (en : bool) (to : option Z) (ops : list (Op P)),
  mlife R P O pkt_tsi pkt_close rinit rpush rcleanup rdrop (minit en to)
        (filter (op_sel pkt_tsi sel) ops)
  = option_map (filter (ev_sel sel))
      (mlife R P O pkt_tsi pkt_close rinit rpush rcleanup rdrop (minit en to) ops).
Proof. exact demux_isolation_proof. Qed.
Print Assumptions C18_demux_isolation.

(* (3') the same for every interleaving: [s] = the stream of session k (with any global
   operations), [rest] = packets of any number of other sessions; every merge of the two *)
Theorem C18_demux_every_interleaving :
  forall (R P O : Type) (pkt_tsi : P -> N) (pkt_close : P -> bool) (rinit : Key -> R)
         (rpush : R -> P -> Z -> R * O) (rcleanup : R -> Z -> R * O) (rdrop : R -> O)
         (en : bool) (to : option Z) (k : Key) (s rest ops : list (Op P)),
  merge s rest ops ->
  Forall (fun op => op_sel pkt_tsi (is_key k) op = true) s ->
  Forall (fun op => op_sel pkt_tsi (is_key k) op = false) rest ->
  mlife R P O pkt_tsi pkt_close rinit rpush rcleanup rdrop (minit en to) s
  = option_map (filter (ev_sel (is_key k)))
      (mlife R P O pkt_tsi pkt_close rinit rpush rcleanup rdrop (minit en to) ops).
Proof. exact demux_interleaving_proof. Qed.
Print Assumptions C18_demux_every_interleaving.

(* (4) routing by (endpoint, TSI) only: a packet produces events of its own key only and
   leaves every other session untouched *)
Theorem C18_push_touches_own_key_only :
  forall (R P O : Type) (pkt_tsi : P -> N) (pkt_close : P -> bool) (rinit : Key -> R)
         (rpush : R -> P -> Z -> R * O) (rdrop : R -> O)
         (st : MState R) (ep : Endpoint) (p : P) (now tnow : Z),
  Forall (fun e : Ev O => ev_sel (key_eqb (ep, pkt_tsi p)) e = true)
         (snd (mpush R P O pkt_tsi pkt_close rinit rpush rdrop st ep (Some p) now tnow))
  /\ forall k', k' <> (ep, pkt_tsi p) ->
       am_get key_eqb (m_sess (fst (mpush R P O pkt_tsi pkt_close rinit rpush rdrop st ep (Some p) now tnow))) k'
       = am_get key_eqb (m_sess st) k'.
Proof. exact push_touches_own_key_only_proof. Qed.
Print Assumptions C18_push_touches_own_key_only.

(* (5) writer callbacks carry the session's own endpoint and TSI.  The part of this clause
   that lives inside Receiver / ObjectReceiver (they pass self.endpoint, self.tsi) is the
   hypothesis on the session machine ([own]); what is proved is the multi-receiver's part:
   the machine stored under key k is always one that was created by rinit k and was only
   ever fed by the multi-receiver under that key, so everything attributed to k carries k. *)
Theorem C18_spec_writer_args_holds :
  forall (R P O : Type) (pkt_tsi : P -> N) (pkt_close : P -> bool) (rinit : Key -> R)
         (rpush : R -> P -> Z -> R * O) (rcleanup : R -> Z -> R * O) (rdrop : R -> O)
         (args : O -> list Key) (own : Key -> R -> Prop),
  (forall k, own k (rinit k)) ->
  (forall k r p now, own k r ->
     own k (fst (rpush r p now)) /\ P_C18_writer_args k (args (snd (rpush r p now))) = true) ->
  (forall k r now, own k r ->
     own k (fst (rcleanup r now)) /\ P_C18_writer_args k (args (snd (rcleanup r now))) = true) ->
  (forall k r, own k r -> P_C18_writer_args k (args (rdrop r)) = true) ->
  forall (en : bool) (to : option Z) (ops : list (Op P)) (evs : list (Ev O)),
  mlife R P O pkt_tsi pkt_close rinit rpush rcleanup rdrop (minit en to) ops = Some evs ->
  forall k o, In (EvOut k o) evs \/ In (EvEnd k o) evs -> P_C18_writer_args k (args o) = true.
Proof. exact spec_writer_args_holds. Qed.
Print Assumptions C18_spec_writer_args_holds.

(* (6) listener events.  For a listener l that is registered in a reachable state st0 and
   not removed afterwards, and every key k: what l is told about k until after the drop
   of the receiver is exactly the life of the session objects of k (open = Receiver::new,
   closed = its destruction, one for one, same order) ... *)
Theorem C18_listener_sees_session_life :
  forall (R P O : Type) (pkt_tsi : P -> N) (pkt_close : P -> bool) (rinit : Key -> R)
         (rpush : R -> P -> Z -> R * O) (rcleanup : R -> Z -> R * O) (rdrop : R -> O)
         (en : bool) (to : option Z) (pre : list (Op P)) (st0 : MState R)
         (steps0 : list (list (Ev O))) (ops : list (Op P)) (evs : list (Ev O)) (l : N) (k : Key),
  mrun R P O pkt_tsi pkt_close rinit rpush rcleanup rdrop (minit en to) pre = Some (st0, steps0) ->
  In l (m_listeners st0) ->
  forallb (not_remove l) ops = true ->
  mlife R P O pkt_tsi pkt_close rinit rpush rcleanup rdrop st0 ops = Some evs ->
  lk_trace l k evs = life_trace k evs.
Proof. exact listener_sees_session_life. Qed.
Print Assumptions C18_listener_sees_session_life.

(* ... and, when no session of k exists at registration, it is a word of (open closed)^*:
   never a close without an open, exactly one close per session end whatever ended it
   (close-session packet, expiry at cleanup, drop of the receiver). *)
Theorem C18_spec_listener_holds :
  forall (R P O : Type) (pkt_tsi : P -> N) (pkt_close : P -> bool) (rinit : Key -> R)
         (rpush : R -> P -> Z -> R * O) (rcleanup : R -> Z -> R * O) (rdrop : R -> O)
         (en : bool) (to : option Z) (pre : list (Op P)) (st0 : MState R)
         (steps0 : list (list (Ev O))) (ops : list (Op P)) (evs : list (Ev O)) (l : N) (k : Key),
  mrun R P O pkt_tsi pkt_close rinit rpush rcleanup rdrop (minit en to) pre = Some (st0, steps0) ->
  In l (m_listeners st0) ->
  live st0 k = false ->
  forallb (not_remove l) ops = true ->
  mlife R P O pkt_tsi pkt_close rinit rpush rcleanup rdrop st0 ops = Some evs ->
  P_C18_listener_trace (lk_trace l k evs) = true.
Proof. exact spec_listener_holds. Qed.
Print Assumptions C18_spec_listener_holds.

(* a listener registered while a session of k exists sees (closed open)* closed or the
   like: alternating from its first event on *)
Theorem C18_spec_listener_late_holds :
  forall (R P O : Type) (pkt_tsi : P -> N) (pkt_close : P -> bool) (rinit : Key -> R)
         (rpush : R -> P -> Z -> R * O) (rcleanup : R -> Z -> R * O) (rdrop : R -> O)
         (en : bool) (to : option Z) (pre : list (Op P)) (st0 : MState R)
         (steps0 : list (list (Ev O))) (ops : list (Op P)) (evs : list (Ev O)) (l : N) (k : Key),
  mrun R P O pkt_tsi pkt_close rinit rpush rcleanup rdrop (minit en to) pre = Some (st0, steps0) ->
  In l (m_listeners st0) ->
  forallb (not_remove l) ops = true ->
  mlife R P O pkt_tsi pkt_close rinit rpush rcleanup rdrop st0 ops = Some evs ->
  P_C18_listener_late_trace (lk_trace l k evs) = true.
Proof. exact spec_listener_late_holds. Qed.
Print Assumptions C18_spec_listener_late_holds.

(* (7) the executable predicates evaluated by the check on the implementation's
   observations hold of the model for every input *)
Theorem C18_spec_filter_holds : forall ops : list FOp,
  N.of_nat (length ops) <= u64_max ->
  forall ep tsi, match tf_run ops with
                 | Some f => P_C18_filter ops ep tsi (tf_is_valid f ep tsi) = true
                 | None => False
                 end.
Proof. exact spec_filter_holds. Qed.
Print Assumptions C18_spec_filter_holds.

Theorem C18_spec_processed_holds :
  forall (R P O : Type) (pkt_tsi : P -> N) (pkt_close : P -> bool) (rinit : Key -> R)
         (rpush : R -> P -> Z -> R * O) (rcleanup : R -> Z -> R * O) (rdrop : R -> O)
         (en : bool) (to : option Z) (ops : list (Op P)) (st : MState R) (steps : list (list (Ev O))),
  N.of_nat (length ops) <= u64_max ->
  mrun R P O pkt_tsi pkt_close rinit rpush rcleanup rdrop (minit en to) ops = Some (st, steps) ->
  P_C18_processed pkt_tsi en ops (run_processed ops steps) = true.
Proof. exact spec_processed_holds. Qed.
Print Assumptions C18_spec_processed_holds.

Theorem C18_spec_isolation_holds :
  forall (R P O : Type) (pkt_tsi : P -> N) (pkt_close : P -> bool) (rinit : Key -> R)
         (rpush : R -> P -> Z -> R * O) (rcleanup : R -> Z -> R * O) (rdrop : R -> O)
         (oeqb : O -> O -> bool) (en : bool) (to : option Z) (ops : list (Op P)) (k : Key)
         (ls : list N) (inter alone : list (Ev O)),
  (forall o, oeqb o o = true) ->
  mlife R P O pkt_tsi pkt_close rinit rpush rcleanup rdrop (minit en to) ops = Some inter ->
  mlife R P O pkt_tsi pkt_close rinit rpush rcleanup rdrop (minit en to)
        (filter (op_sel pkt_tsi (is_key k)) ops) = Some alone ->
  P_C18_isolation oeqb k ls inter alone = true.
Proof. exact spec_isolation_holds. Qed.
Print Assumptions C18_spec_isolation_holds.

(* ---------------------------------------------------------------------------------- *)
(* non-vacuity: a concrete session machine that reports its own key with everything it
   emits, concrete endpoints, concrete runs                                             *)

Definition xR := (Key * N)%type.          (* own key, packets seen *)
Definition xP := (N * bool * N)%type.     (* tsi, close-session flag, packet id *)
Definition xO := list Key.                (* (endpoint, tsi) arguments of the callbacks *)
Definition x_tsi (p : xP) : N := fst (fst p).
Definition x_close (p : xP) : bool := snd (fst p).
Definition x_init (k : Key) : xR := (k, 0).
Definition x_push (r : xR) (p : xP) (now : Z) : xR * xO := ((fst r, snd r + 1), [fst r]).
Definition x_cleanup (r : xR) (now : Z) : xR * xO := (r, []).
Definition x_drop (r : xR) : xO := [fst r].
Definition x_life := mlife xR xP xO x_tsi x_close x_init x_push x_cleanup x_drop.
Definition x_run := mrun xR xP xO x_tsi x_close x_init x_push x_cleanup x_drop.

Definition epA := mkEp (Some 7) 1 3000.        (* source 7 -> group 1 : 3000 *)
Definition epA0 := mkEp None 1 3000.           (* any source -> group 1 : 3000 *)
Definition epB := mkEp (Some 7) 2 3000.

(* saturating: two removes after one add do not eat the next add; wildcard source *)
Example C18_example_filter_saturating :
  let ops := [FAdd epA 5; FRemove epA 5; FRemove epA 5; FAdd epA 5] in
  option_map (fun f => tf_is_valid f epA 5) (tf_run ops) = Some true /\ accepts ops epA 5 = true.
Proof. vm_compute. split; reflexivity. Qed.
Example C18_example_filter_wildcard :
  let ops := [FAdd epA0 5; FAdd epA0 5; FRemove epA0 5] in
  option_map (fun f => (tf_is_valid f epA 5, tf_is_valid f epA 6, tf_is_valid f epB 5)) (tf_run ops)
  = Some (true, false, false)
  /\ option_map (fun f => tf_is_valid f epA 5) (tf_run (ops ++ [FRemove epA0 5])) = Some false.
Proof. vm_compute. split; reflexivity. Qed.
Example C18_example_filter_all_tsi_is_exact_endpoint :
  option_map (fun f => (tf_is_valid f epA0 9, tf_is_valid f epA 9)) (tf_run [FAddAll epA0])
  = Some (true, false).
Proof. vm_compute. reflexivity. Qed.

(* two sessions with the same TSI on two endpoints and a third with another TSI,
   interleaved, a close-session packet in the middle, an expiry, then the drop *)
Definition x_ops : list (Op xP) :=
  [OAddListener;
   OPush epA (Some (5, false, 1)) 0%Z 0%Z; OPush epB (Some (5, false, 2)) 0%Z 1%Z;
   OPush epA (Some (6, false, 3)) 0%Z 2%Z; OPush epA (Some (5, false, 4)) 0%Z 3%Z;
   OPush epB (Some (5, true, 5)) 0%Z 4%Z; OPush epB (Some (5, false, 6)) 0%Z 5%Z;
   OCleanup 0%Z (fun k => if key_eqb k (epA, 6) then 100%Z else 10%Z);
   OPush epA (Some (6, false, 7)) 0%Z 101%Z].

Example C18_example_isolation :
  x_life (minit false (Some 50%Z)) (filter (op_sel x_tsi (is_key (epB, 5))) x_ops)
  = option_map (filter (ev_sel (is_key (epB, 5)))) (x_life (minit false (Some 50%Z)) x_ops)
  /\ option_map (out_trace (epB, 5)) (x_life (minit false (Some 50%Z)) x_ops)
     = Some [[(epB, 5)]; [(epB, 5)]; [(epB, 5)]; [(epB, 5)]; []; [(epB, 5)]].
Proof. vm_compute. split; reflexivity. Qed.

Example C18_example_listener_traces :
  option_map (fun evs => (lk_trace 0 (epB, 5) evs, lk_trace 0 (epA, 6) evs, lk_trace 0 (epA, 5) evs))
             (x_life (minit false (Some 50%Z)) x_ops)
  = Some ([true; false; true; false], [true; false; true; false], [true; false]).
Proof. vm_compute. reflexivity. Qed.

(* the hypotheses of C18_spec_listener_holds are satisfiable *)
Example C18_example_listener_hyps :
  exists st0 steps0, x_run (minit false None) [OAddListener] = Some (st0, steps0)
    /\ In 0 (m_listeners st0) /\ live st0 (epA, 5) = false
    /\ forallb (not_remove 0) x_ops = true /\ x_life st0 x_ops <> None.
Proof. eexists _, _. split; [vm_compute; reflexivity|]. vm_compute. repeat split; auto; discriminate. Qed.

(* the hypotheses of C18_spec_writer_args_holds are satisfiable (own k r := fst r = k) *)
Example C18_example_writer_args_hyps :
  (forall k, fst (x_init k) = k)
  /\ (forall k r p now, fst r = k ->
        fst (fst (x_push r p now)) = k /\ P_C18_writer_args k (snd (x_push r p now)) = true)
  /\ (forall k r now, fst r = k ->
        fst (fst (x_cleanup r now)) = k /\ P_C18_writer_args k (snd (x_cleanup r now)) = true)
  /\ (forall k r, fst r = k -> P_C18_writer_args k (x_drop r) = true).
Proof.
  repeat split; intros; subst; cbn; auto; rewrite key_eqb_refl; reflexivity.
Qed.

(* interleaving hypothesis is satisfiable *)
Example C18_example_merge :
  merge [OPush epA (Some (5, false, 1)) 0%Z 0%Z; OPush epA (Some (5, false, 4)) 0%Z 3%Z]
        [OPush epB (Some (5, false, 2)) 0%Z 1%Z]
        [OPush epA (Some (5, false, 1)) 0%Z 0%Z; OPush epB (Some (5, false, 2)) 0%Z 1%Z;
         OPush epA (Some (5, false, 4)) 0%Z 3%Z : Op xP].
Proof. repeat constructor. Qed.

(* D24 (cleanup as found: two evaluations of is_expired): a session whose idle time
   crosses the time-out between the two evaluations is destroyed without on_session_closed;
   the same readings through the fixed cleanup give open, closed. *)
Definition d24_state : MState xR :=
  fst (mpush xR xP xO x_tsi x_close x_init x_push x_drop
         (mkM [] tf_new false (Some 10%Z) [0] 1) epA (Some (5, false, 1)) 0%Z 0%Z).
Example C18_D24_witness_unfixed_cleanup :
  let evs := snd (mcleanup_unfixed xR xO x_cleanup x_drop d24_state 0%Z (fun _ => 10%Z) (fun _ => 11%Z)) in
  lk_trace 0 (epA, 5) evs = [] /\ life_trace (epA, 5) evs = [false].
Proof. vm_compute. split; reflexivity. Qed.
Example C18_D24_fixed_cleanup :
  let evs := snd (mcleanup xR xO x_cleanup x_drop d24_state 0%Z (fun _ => 11%Z)) in
  lk_trace 0 (epA, 5) evs = [false] /\ life_trace (epA, 5) evs = [false].
Proof. vm_compute. split; reflexivity. Qed.
