(* C10 - FDT instances list exactly the announced objects, survive XML, fresh id/expiry.
   Models: Model/Xml.v (reference XML printer/parser = the independent parser of the property),
   Model/FdtInst.v (content of an instance; code with fixes/D18 and fixes/D31), Model/SenderCtl.v
   (which objects, which id, when republished).  Spec: Spec/C10Spec.v. *)
From FluteV Require Import Model.Partition Model.Ntp Proofs.AlcProofs.
From FluteV Require Import Model.Xml Model.SenderCtl Model.FdtInst Model.FdtRecv Spec.C10Spec.
From FluteV Require Import Proofs.XmlProofs Proofs.FdtProofs.
Open Scope char_scope.
Open Scope bool_scope.
Open Scope N_scope.

(* ---------------------------------------------------------------- XML *)
(* (xml_roundtrip) the reference parser reads back every abstract instance from its reference
   printing - for ALL byte strings in every attribute and text: quotes, ampersand, angle brackets,
   control characters, non-ASCII bytes, any length *)
Theorem C10_xml_roundtrip : forall x, parse_fdt (print_fdt x) = Some x.
Proof. exact xml_roundtrip. Qed.
Print Assumptions C10_xml_roundtrip.

(* the escaping flute's serializer applies (only ampersand, angle brackets, double quote) is
   read back exactly by the reference parser as long as no string contains a byte below 0x20
   (TAB/LF/CR written raw are normalised by an XML parser, other control bytes are not XML) *)
Theorem C10_xml_roundtrip_flute_escaping :
  forall x, xfdt_ok printable x = true -> parse_fdt (print_fdt_with esc_raw x) = Some x.
Proof. exact xml_roundtrip_raw. Qed.
Print Assumptions C10_xml_roundtrip_flute_escaping.

(* ---------------------------------------------------------------- content *)
(* (fdt_entry_fields, as C10_spec_*_holds) for every configuration, publication instant (1970 ..
   2036) and list of object descriptions that FileDesc::new accepts: the document the model emits
   is read by the independent parser as exactly what the sender was given - TOI, location, lengths,
   type, encoding, MD5, the OTI the object is sent with (per-object override, session default,
   RaptorQ / Raptor Z of the object), cache directive, ETag, groups, Expires, Complete, FullFDT *)
Theorem C10_spec_instance_holds : forall cfg complete now ms,
  time_in_era now -> Forall (meta_ok cfg now) ms ->
  P_C10_instance cfg complete now ms (fdt_xml cfg complete now ms) = true.
Proof. exact spec_instance_holds. Qed.
Print Assumptions C10_spec_instance_holds.

(* the same with the escaping flute's serializer applies, outside the recorded class D38 (some
   metadata string contains a byte below 0x20: TAB / LF / CR are normalised away by an XML parser,
   the other control bytes are not XML at all) *)
Definition Known_D38 (cfg : fdt_cfg) (ms : list fmeta) : Prop := in_D38 cfg ms = true.

Theorem C10_spec_instance_holds_flute_escaping : forall cfg complete now ms,
  ~ Known_D38 cfg ms -> time_in_era now -> Forall (meta_ok cfg now) ms ->
  P_C10_instance cfg complete now ms (print_fdt_with esc_raw (get_fdt_instance cfg complete now ms)) = true.
Proof. exact spec_instance_holds_outside_D38. Qed.
Print Assumptions C10_spec_instance_holds_flute_escaping.

(* (fdt_expires_value) Expires = floor(NTP seconds of the publication instant) + validity in seconds *)
Theorem C10_fdt_expires_value : forall cfg complete now ms, time_in_era now ->
  xi_expires (get_fdt_instance cfg complete now ms)
  = dec (Z.to_N (now / 1000000000) + 2208988800 + Z.to_N (c_dur cfg / 1000000000)).
Proof. exact fdt_expires_value. Qed.
Print Assumptions C10_fdt_expires_value.

(* (receiver_meta_from_fdt) flute's receiver (model of fdtinstance.rs get_oti / cache control /
   expiration and objectreceiver.rs attach_fdt + create_meta, base64 decoded by a Gallina decoder
   proved inverse to the encoder), reading the instance the model emits for an object that carries
   neither in-band FTI nor CENC, hands the writer builder exactly what the sender was given:
   location, lengths, type, cache directive (or the FDT expiry as a hint), instance + file groups,
   MD5, the OTI in use, encoding, ETag *)
Theorem C10_receiver_meta_from_fdt : forall cfg complete now ms m,
  time_in_era now -> spec_expires now (c_dur cfg) < 4294967296 ->
  meta_ok cfg now m -> oti_wf (c_oti cfg) -> oti_wf (the_oti (c_oti cfg) m) ->
  m_clen m < U64 -> m_tlen m < U64 ->
  exists r, recv_meta b64_decode (get_fdt_instance cfg complete now ms) (to_file_xml (used_oti cfg m) m now) = MOk r
            /\ P_C10_meta cfg false now m r = true.
Proof. exact (receiver_meta_from_fdt b64_decode b64_decode_b64). Qed.
Print Assumptions C10_receiver_meta_from_fdt.

(* ---------------------------------------------------------------- which objects *)
(* (fdt_lists_exactly_announced, mechanism) a successful publication appends ONE instance: it
   carries the next id, lists every object of the FDT (FullFDT) / the objects of the FDT in
   transmission (ObjectsBeingTransferred), becomes the reference for the republication clock
   and does not change the set of announced objects *)
Theorem C10_fdt_lists_exactly_announced : forall fdt_npk fdt_ok now s,
  fdt_ok (fdtid s) = true ->
  instances (snd (publish fdt_npk fdt_ok now s)) = instances s ++ [(fdtid s, listed_tois s)]
  /\ last_publish (snd (publish fdt_npk fdt_ok now s)) = Some now
  /\ files (snd (publish fdt_npk fdt_ok now s)) = files s
  /\ (full_fdt s = true -> listed_tois s = map (toi_of s) (files s))
  /\ (full_fdt s = false ->
      listed_tois s = map (toi_of s) (filter (fun id => t_transferring (f_t (obj s id))) (files s))).
Proof. exact publish_lists_exactly. Qed.
Print Assumptions C10_fdt_lists_exactly_announced.

(* (fdt_lists_exactly_announced, history) for EVERY history of add / publish / remove / trigger /
   set_complete / read operations (objects with distinct non-zero TOIs, max_transfer_count >= 1):
   the FDT holds only added objects, and an added object is in it iff no remove_object call took
   it out and it is not finished (transfer count reached max_transfer_count, no carousel) *)
Theorem C10_files_added_not_removed_not_finished :
  forall fdt_npk fdt_ok divf full dur car sid queues ops outs s,
  Forall op_ok ops -> NoDup (flat_map add_toi ops) ->
  run_ops fdt_npk fdt_ok divf (init_st full dur car sid queues) ops = (outs, s) ->
  (forall id, In id (files s) -> is_obj s id)
  /\ forall id, is_obj s id ->
       (In id (files s) <->
        ~ In id (removed_ids fdt_npk fdt_ok divf (init_st full dur car sid queues) ops)
        /\ is_expired (obj s id) = false).
Proof. exact files_added_not_removed_not_finished. Qed.
Print Assumptions C10_files_added_not_removed_not_finished.

(* ---------------------------------------------------------------- instance ids *)
(* (fdt_id_sequence) for every history and every start id below 2^20: the k-th instance ever
   published carries (start + k) mod 2^20, the next one (start + number published) mod 2^20 *)
Theorem C10_fdt_id_sequence : forall fdt_npk fdt_ok divf full dur car sid queues ops outs s,
  sid < TWO20 -> Forall op_wf ops ->
  run_ops fdt_npk fdt_ok divf (init_st full dur car sid queues) ops = (outs, s) ->
  map fst (instances s) = map (fun k => (sid + N.of_nat k) mod TWO20) (seq 0 (List.length (instances s)))
  /\ fdtid s = (sid + N.of_nat (List.length (instances s))) mod TWO20.
Proof. exact fdt_id_sequence. Qed.
Print Assumptions C10_fdt_id_sequence.

(* (fdt_id_unique_in_window) in that sequence, two publications fewer than 2^20 apart never
   carry the same id *)
Theorem C10_fdt_id_unique_in_window : forall sid n i j,
  (i < j)%nat -> (j < n)%nat -> N.of_nat (j - i) < TWO20 ->
  nth i (map (fun k => (sid + N.of_nat k) mod TWO20) (seq 0 n)) 0
  <> nth j (map (fun k => (sid + N.of_nat k) mod TWO20) (seq 0 n)) 0.
Proof. exact seq_ids_window. Qed.
Print Assumptions C10_fdt_id_unique_in_window.

(* the executable predicates the driver evaluates on the implementation's ids hold of the model *)
Theorem C10_spec_ids_holds : forall fdt_npk fdt_ok divf full dur car sid queues ops outs s w,
  sid < TWO20 -> Forall op_wf ops -> N.of_nat w < TWO20 ->
  run_ops fdt_npk fdt_ok divf (init_st full dur car sid queues) ops = (outs, s) ->
  P_C10_ids sid (map fst (instances s)) = true /\ P_C10_window w (map fst (instances s)) = true.
Proof. exact spec_ids_holds. Qed.
Print Assumptions C10_spec_ids_holds.

(* ---------------------------------------------------------------- superseded before expiry *)
Definition Known_D22 (x : repub) : Prop := in_D22 x = true.

(* (fdt_superseded_before_expiry) an instance published at lp with validity d, no successor queued;
   the FDT session is polled at t_prev (republication test negative) and next at t.  Outside D22
   (poll gap + sub-second parts of lp and d below the margin 5 s / 1 s / 0) t is strictly before
   the instant the instance expires ... *)
Theorem C10_fdt_superseded_before_expiry : forall s x,
  ~ Known_D22 x ->
  last_publish s = Some (rp_lp x) -> fdt_duration s = rp_d x -> fdtq s = [] -> cur_fdt s <> None ->
  (0 <= rp_lp x)%Z -> (0 <= rp_d x)%Z -> (rp_prev x <= rp_t x)%Z ->
  current_fdt_will_expire (rp_prev x) s = false ->
  P_C10_superseded x = true.
Proof. exact superseded_outside_D22. Qed.
Print Assumptions C10_fdt_superseded_before_expiry.

(* ... the test fires at the latest once the whole validity has elapsed ... *)
Theorem C10_republish_test_fires : forall t s lp,
  last_publish s = Some lp -> fdtq s = [] -> (lp + fdt_duration s <= t)%Z -> (0 < fdt_duration s)%Z ->
  current_fdt_will_expire t s = true.
Proof. exact will_expire_eventually. Qed.
Print Assumptions C10_republish_test_fires.

(* ... and the poll at which it fires creates the successor: next id, the objects announced in
   the current state, publication instant = that poll *)
Theorem C10_republish_creates_successor : forall fdt_npk fdt_ok divf now s o s',
  fdt_ok (fdtid s) = true ->
  match cur_fdt s with Some c => t_transferring (f_t (obj s c)) = false | None => True end ->
  current_fdt_will_expire now s = true ->
  get_next_fdt_transfer fdt_npk fdt_ok divf now s = ROk _ (o, s') ->
  instances s' = instances s ++ [(fdtid s, listed_tois s)] /\ last_publish s' = Some now.
Proof. exact republish_mechanism. Qed.
Print Assumptions C10_republish_creates_successor.

(* ---------------------------------------------------------------- non-vacuity / witnesses *)


(* an instance whose strings need every kind of escaping *)
Definition ex_file : xfile :=
  mk_xfile (lit "http://h/a%20b?x=1&y=2") (lit "1") (Some (lit "40")) None
           (Some (lit "te""xt/<pl>&ain;'")) None None
           (mk_xoti (Some (lit "6")) None None None None (Some (lit "AQABBA==")))
           (Some (chr 9 :: chr 10 :: chr 13 :: chr 1 :: chr 195 :: chr 169 :: lit " ]]> "))
           (Some (XExpires (lit "3908988810"))) [lit "a&b"; []; lit " sp "].
Definition ex_inst : xfdt :=
  mk_xfdt (lit "3908988805") None (Some (lit "true")) empty_xoti [ex_file; ex_file] [lit "G<1>"; []].

Example C10_example_roundtrip : parse_fdt (print_fdt ex_inst) = Some ex_inst.
Proof. vm_compute. reflexivity. Qed.

(* flute's escaping loses the TAB/LF/CR of that ETag (they come back as spaces) *)
Example C10_example_raw_escaping_alters_control_chars :
  xfdt_ok printable ex_inst = false
  /\ parse_fdt (print_fdt_with esc_raw
        (mk_xfdt (lit "1") None None empty_xoti [] [chr 13 :: lit "x"])) = Some (mk_xfdt (lit "1") None None empty_xoti [] [chr 10 :: lit "x"]).
Proof. vm_compute. split; reflexivity. Qed.

(* documents that are not well-formed are refused *)
Example C10_example_malformed :
  parse_fdt (lit "<FDT-Instance Expires=""1""><File TOI=""1"" Content-Location=""a""></FDT-Instance>") = None
  /\ parse_fdt (lit "<FDT-Instance Expires=""1"" Expires=""2""/>") = None
  /\ parse_fdt (lit "<FDT-Instance Expires=""a<b""/>") = None
  /\ parse_fdt (lit "<FDT-Instance Expires=""1&unknown;""/>") = None
  /\ parse_fdt (lit "<FDT-Instance Expires=""1""/><x/>") = None
  /\ parse_fdt (lit "<FDT-Instance Expires=""1""/>") = Some (mk_xfdt (lit "1") None None empty_xoti [] []).
Proof. vm_compute. repeat split; reflexivity. Qed.

(* a session and two objects: RaptorQ override with groups, and a plain object *)
Definition ex_session : oti := mk_oti 0 0 64 1400 0 SchNone.
Definition ex_cfg : fdt_cfg := mk_fdt_cfg ex_session (Some [lit "G1"]) true 5000000000.
Definition ex_now : Z := 1700000000700000000.
Definition ex_m1 : fmeta :=
  mk_fmeta 1 (lit "file:///a") 40 40 (lit "a/b") 0 (Some (lit "md5")) (Some (mk_oti 1 0 4 16 2 (SchRaptor 0 1 4)))
           (Some (CCExpires 10000000000)) (Some (lit """e""")) (Some [lit "g<>"]).
Definition ex_m2 : fmeta := mk_fmeta 2 (lit "file:///b") 100 24 (lit "t") 3 None None (Some CCNoCache) None None.

Example C10_example_instance :
  time_in_era ex_now /\ Forall (meta_ok ex_cfg ex_now) [ex_m1; ex_m2]
  /\ P_C10_instance ex_cfg false ex_now [ex_m1; ex_m2] (fdt_xml ex_cfg false ex_now [ex_m1; ex_m2]) = true
  /\ xi_expires (get_fdt_instance ex_cfg false ex_now [ex_m1; ex_m2]) = lit "3908988805".
Proof.
  split; [split; vm_compute; [discriminate|reflexivity]|].
  split; [repeat constructor; vm_compute; try discriminate; try reflexivity; try (intros H; discriminate)|].
  vm_compute. split; reflexivity.
Qed.

(* the receiver's reading of that instance: Raptor object announced with its own Z = 1 *)
Example C10_example_receiver :
  oti_wf (c_oti ex_cfg) /\ oti_wf (the_oti (c_oti ex_cfg) ex_m1)
  /\ match recv_meta b64_decode (get_fdt_instance ex_cfg false ex_now [ex_m1; ex_m2])
                     (to_file_xml (used_oti ex_cfg ex_m1) ex_m1 ex_now) with
     | MOk r => P_C10_meta ex_cfg false ex_now ex_m1 r
                && match r_oti r with Some o => scheme_eqb (sch o) (SchRaptor 1 1 4) | None => false end
     | _ => false
     end = true.
Proof. split; [|split]; vm_compute; repeat split; try discriminate; reflexivity. Qed.

(* D18 and D31 on the model of the code before the fixes: the per-object group is missing, and a
   Raptor object (one source block) is announced with Z = 0 instead of Z = 1 *)
Example C10_D18_D31_witness :
  P_C10_content ex_cfg false ex_now [ex_m2] (get_fdt_instance_unfixed ex_cfg false ex_now [ex_m2]) = true
  /\ P_C10_content ex_cfg false ex_now [ex_m1] (get_fdt_instance_unfixed ex_cfg false ex_now [ex_m1]) = false
  /\ xf_groups (to_file_xml_unfixed (used_oti ex_cfg ex_m1) ex_m1 ex_now) = []
  /\ xo_ssi (xf_oti (to_file_xml_unfixed (used_oti ex_cfg ex_m1) ex_m1 ex_now)) = Some (lit "AAABBA==")
  /\ xo_ssi (xf_oti (to_file_xml (used_oti ex_cfg ex_m1) ex_m1 ex_now)) = Some (lit "AAEBBA==").
Proof. vm_compute. repeat split; reflexivity. Qed.

(* D38: a Content-Type with a TAB written with flute's escaping comes back with a space *)
Example C10_D38_witness :
  let m := mk_fmeta 2 (lit "file:///b") 100 24 (chr 9 :: lit "t") 0 None None None None None in
  Known_D38 ex_cfg [m]
  /\ P_C10_instance ex_cfg false ex_now [m] (print_fdt_with esc_raw (get_fdt_instance ex_cfg false ex_now [m])) = false
  /\ P_C10_instance ex_cfg false ex_now [m] (fdt_xml ex_cfg false ex_now [m]) = true.
Proof. vm_compute. repeat split; reflexivity. Qed.

(* ids across the wrap, and the FDT after add / publish / transfer / remove *)
Example C10_example_ids_and_files :
  let od1 := mk_odesc 1 0 1 1 1 CNone TNone false None [] in
  let od2 := mk_odesc 2 0 1 1 1 CNone TNone false None [] in
  let ops := [OpAdd od1 None true; OpAdd od2 None true; OpPublish 0; OpRead 0; OpRead 0; OpRead 0;
              OpPublish 1; OpRemove 2; OpPublish 2] in
  let s := snd (run_ops (fun _ => 1%nat) (fun _ => true) (fun d n => Some (d / Z.of_N n)%Z)
                        (init_st true 3600000000000 (CDelay 1000000000) 1048575 [(0, 1%nat)]) ops) in
  instances s = [(1048575, [1; 2]); (0, [2]); (1, [])]
  /\ files s = []
  /\ removed_ids (fun _ => 1%nat) (fun _ => true) (fun d n => Some (d / Z.of_N n)%Z)
                 (init_st true 3600000000000 (CDelay 1000000000) 1048575 [(0, 1%nat)]) ops = [1%nat]
  /\ Forall op_ok ops /\ NoDup (flat_map add_toi ops).
Proof.
  vm_compute. repeat split; try reflexivity.
  - repeat constructor; vm_compute; try discriminate; try reflexivity.
  - repeat constructor; cbn; intuition discriminate.
Qed.

(* D22: validity 5 s (margin 0), published at X.7 s: the test is negative at X+4.9 s and the next
   poll (X+5.7 s) is after Expires = X+5 s; the premises of the theorem other than the class hold *)
Definition ex_state (dur lp : Z) : st :=
  mk_st [dummy_f] [] [] [] (Some 0%nat) false 2 (Some lp) true dur (CDelay 1000000000)
        (mk_session 0 true None None) [] [].

Example C10_D22_witness :
  let x := mk_repub 1700000000700000000 5000000000 1700000004900000000 1700000005700000000 in
  let s := ex_state 5000000000 1700000000700000000 in
  Known_D22 x /\ P_C10_superseded x = false
  /\ last_publish s = Some (rp_lp x) /\ fdt_duration s = rp_d x /\ fdtq s = [] /\ cur_fdt s <> None
  /\ current_fdt_will_expire (rp_prev x) s = false /\ current_fdt_will_expire (rp_t x) s = true.
Proof. vm_compute. repeat split; try reflexivity. discriminate. Qed.

(* outside D22: validity 40 s (margin 5 s), published at X.2 s, polled every 0.5 s *)
Example C10_example_superseded :
  let x := mk_repub 1700000000200000000 40000000000 1700000035000000000 1700000035500000000 in
  let s := ex_state 40000000000 1700000000200000000 in
  ~ Known_D22 x /\ P_C10_superseded x = true
  /\ current_fdt_will_expire (rp_prev x) s = false /\ current_fdt_will_expire (rp_t x) s = true.
Proof. vm_compute. repeat split; try reflexivity. discriminate. Qed.

(* ---- the premises of the remaining theorems are satisfiable ---- *)
Definition ex_divf : Z -> N -> option Z := fun d n => Some (d / Z.of_N n)%Z.

Example C10_example_premises :
  (* C10_xml_roundtrip_flute_escaping, C10_spec_instance_holds_flute_escaping *)
  xfdt_ok printable (get_fdt_instance ex_cfg false ex_now [ex_m1; ex_m2]) = true
  /\ ~ Known_D38 ex_cfg [ex_m1; ex_m2]
  (* C10_receiver_meta_from_fdt *)
  /\ spec_expires ex_now (c_dur ex_cfg) < 4294967296 /\ m_clen ex_m1 < U64 /\ m_tlen ex_m1 < U64
  (* C10_fdt_id_sequence / C10_spec_ids_holds *)
  /\ Forall op_wf [OpAdd (mk_odesc 1 0 1 1 1 CNone TNone false None []) None true; OpPublish 0; OpRead 0]
  (* C10_fdt_superseded_before_expiry, C10_republish_test_fires, C10_republish_creates_successor *)
  /\ (let s := ex_state 40000000000 1700000000200000000 in
      last_publish s = Some 1700000000200000000%Z /\ fdtq s = [] /\ cur_fdt s <> None
      /\ current_fdt_will_expire 1700000040200000000 s = true
      /\ match get_next_fdt_transfer (fun _ => 1%nat) (fun _ => true) ex_divf 1700000035500000000 s with
         | ROk _ (Some _, s') => List.length (instances s') =? 1 | _ => false
         end%nat = true).
Proof.
  split; [vm_compute; reflexivity|]. split; [vm_compute; discriminate|].
  split; [vm_compute; reflexivity|]. split; [vm_compute; reflexivity|]. split; [vm_compute; reflexivity|].
  split; [repeat constructor|]. vm_compute. repeat split; try reflexivity. discriminate.
Qed.
