(* C19 - FDT expiry: delivery only through an FDT unexpired on the sender's clock.
   Only the property theorems (each closed by [exact]), their [Print Assumptions], and non-vacuity examples.
   Model: Model/Expiry.v (tools/mod.rs NTP conversions, fdtreceiver.rs offset estimate and expiry decision,
   receiver.rs FDT list / object creation / attach as a state machine over the events
   FDT packet, object packet, object end, cleanup).  Spec: Spec/C19Spec.v. *)
From FluteV Require Import Model.Expiry Spec.C19Spec Proofs.ExpiryProofs.
Open Scope Z_scope.

(* ---------------------------------------------------------------- 1. the clock-offset estimate *)
(* The (late flag, magnitude) pair kept by the FDT receiver is the signed difference: the estimated sender
   time at receiver instant [now] is  now - (rx - sct). *)
Theorem C19_offset_is_signed_difference : forall fr now rx res t,
  fr_off fr = Some (offset_of rx res) -> get_server_time fr now = Some t -> t = now - (rx - res).
Proof. exact offset_is_signed_difference. Qed.
Print Assumptions C19_offset_is_signed_difference.

(* Skew invariance of the decision: shifting the receiver clock by any d (packet reception and evaluation
   instant alike) leaves "expired" unchanged when the instance carried a sender current time. *)
Theorem C19_skew_invariant_decision : forall fr fr' d now rx res b b',
  fr_off fr = Some (offset_of rx res) -> fr_off fr' = Some (offset_of (rx + d) res) ->
  fr_expires fr' = fr_expires fr ->
  is_expired fr now = Some b -> is_expired fr' (now + d) = Some b' -> b = b'.
Proof. exact skew_invariant_decision. Qed.
Print Assumptions C19_skew_invariant_decision.

(* Without the extension the receiver's own clock is compared, strictly, with Expires. *)
Theorem C19_no_sct_uses_own_clock : forall fr now e,
  fr_off fr = None -> fr_expires fr = Some e -> is_expired fr now = Some (e <? now).
Proof. exact no_sct_uses_own_clock. Qed.
Print Assumptions C19_no_sct_uses_own_clock.

(* Expires is read as 32-bit NTP seconds, the sender current time as a 64-bit NTP timestamp at microsecond
   resolution: the model's (= flute's) conversions agree with the independent ones of the spec, and the
   sender-side conversion followed by the receiver-side one loses less than 2 microseconds. *)
Theorem C19_conversions : forall es raw,
  expires_of es = spec_expires_ns es /\ ntp_to_system_time raw = spec_sct_ns raw.
Proof. exact p_conversions. Qed.
Print Assumptions C19_conversions.

Theorem C19_ntp_roundtrip : forall t raw, 0 <= t < 2085978496000000000 -> system_time_to_ntp t = Some raw ->
  (raw < TWO64)%N /\ exists res, ntp_to_system_time raw = Some res /\ t - 2000 < res <= t.
Proof. exact ntp_roundtrip. Qed.
Print Assumptions C19_ntp_roundtrip.

(* ---------------------------------------------------------------- 2. whole runs of the receiver *)
(* Skew invariance of the outcome: for every receiver clock offset d : Z and every event stream in which every
   FDT packet carries a usable sender current time, the writer callbacks of the stream received by a clock that
   is d later are the same, event by event (for both settings of the check, as long as neither run panics;
   theorem 7 gives the range in which none does). *)
Theorem C19_skew_invariant_run : forall cfg d evs o1 o2, all_sct evs = true ->
  outputs cfg evs = Some o1 -> outputs cfg (map (shift_ev d) evs) = Some o2 -> o1 = o2.
Proof. exact skew_invariant_run. Qed.
Print Assumptions C19_skew_invariant_run.

(* With expiry checking disabled expiry is ignored: the receiver never panics and its callbacks do not depend
   on receiver times, SCT values or Expires strings at all. *)
Theorem C19_check_disabled_ignores_expiry : forall once evs evs', Forall2 same_shape evs evs' ->
  exists o, outputs (mkCfg false once) evs = Some o /\ outputs (mkCfg false once) evs' = Some o.
Proof. exact check_disabled_ignores_expiry. Qed.
Print Assumptions C19_check_disabled_ignores_expiry.

(* (a) delivery only through an unexpired instance, exact (no band) and naming the instance: for every event
   stream (any length, any interleaving, several instances, re-receptions, cleanups, objects ending and
   restarting) whose instances are uniform in SCT presence, every writer the model opens during event k for
   object toi through instance id is justified by an FDT packet of instance id received up to event k that lists
   toi and whose Expires is not before the estimate  now_k - (rx - sct)  (own clock when no SCT) - or by any
   packet listing toi when the check is off. *)
Theorem C19_delivery_only_through_unexpired : forall chk once evs outs,
  outputs (mkCfg chk once) evs = Some outs -> uniform_sct evs = true ->
  sound_from chk 0 true [] evs outs = true.
Proof. exact p_delivery_only_through_unexpired. Qed.
Print Assumptions C19_delivery_only_through_unexpired.

(* the same, spelled out for one callback *)
Theorem C19_delivery_only_through_unexpired_explicit : forall chk once evs outs k acts toi id,
  outputs (mkCfg chk once) evs = Some outs -> uniform_sct evs = true ->
  nth_error outs k = Some acts -> In (AOpen toi id) acts ->
  exists ev now, nth_error evs k = Some ev /\ ev_time ev = Some now
    /\ exists pkt, In pkt (firstn (S k) evs) /\ pkt_justifies chk 0 now toi (Some id) pkt = true.
Proof. exact p_delivery_only_through_unexpired_explicit. Qed.
Print Assumptions C19_delivery_only_through_unexpired_explicit.

(* (b) an object announced only by expired instances is neither completed nor reported failed: if at every
   event instant of the stream every FDT packet listing toi is expired by its estimate, the model produces no
   callback at all for toi - no writer, hence no complete, error or interrupted. *)
Theorem C19_expired_only_silent : forall once evs outs toi,
  outputs (mkCfg true once) evs = Some outs -> uniform_sct evs = true ->
  (forall ev now pkt, In ev evs -> ev_time ev = Some now -> In pkt evs ->
                      pkt_justifies true 0 now toi None pkt = false) ->
  forall acts a, In acts outs -> In a acts -> action_toi a <> toi.
Proof. exact p_expired_only_silent. Qed.
Print Assumptions C19_expired_only_silent.

(* 7. inside the stated range (receiver clocks within +-2*10^21 ns of the epoch, 64-bit SCT) nothing panics:
   neither SystemTime +- Duration nor the chrono conversion of the "already expired" log line *)
Theorem C19_no_panic_in_range : forall cfg evs, in_range evs = true -> exists o, outputs cfg evs = Some o.
Proof. exact no_panic_in_range. Qed.
Print Assumptions C19_no_panic_in_range.

(* ---------------------------------------------------------------- 3. the executable predicates hold of the model *)
(* "implementation = model on an input" therefore implies the predicate on the implementation's output *)
Theorem C19_spec_sound_holds : forall cfg evs outs,
  outputs cfg evs = Some outs -> uniform_sct evs = true -> P_C19_sound (c_check cfg) evs outs = true.
Proof. exact p_spec_sound_holds. Qed.
Print Assumptions C19_spec_sound_holds.

Theorem C19_spec_silent_holds : forall cfg evs outs,
  outputs cfg evs = Some outs -> uniform_sct evs = true -> P_C19_silent (c_check cfg) evs outs = true.
Proof. exact p_spec_silent_holds. Qed.
Print Assumptions C19_spec_silent_holds.

Theorem C19_spec_same_holds : forall cfg d evs o1 o2, all_sct evs = true ->
  outputs cfg evs = Some o1 -> outputs cfg (map (shift_ev d) evs) = Some o2 -> P_C19_same o1 o2 = true.
Proof. exact p_spec_same_holds. Qed.
Print Assumptions C19_spec_same_holds.

Theorem C19_spec_same_disabled_holds : forall once evs evs' o1 o2, Forall2 same_shape evs evs' ->
  outputs (mkCfg false once) evs = Some o1 -> outputs (mkCfg false once) evs' = Some o2 -> P_C19_same o1 o2 = true.
Proof. exact p_spec_same_disabled_holds. Qed.
Print Assumptions C19_spec_same_disabled_holds.

(* (d) one session in physical terms: for every FDT duration, publication instant, sending instant, transit
   delay, object arrival, receiver clock skew (any Z inside the range), SCT on/off, check on/off, objects before
   or after the FDT, cleanup or not: the object is opened when the check is off or the estimate at the attach
   instant is 2 s or more before Expires, and sees no callback when the check is on and the estimate is 2 s or
   more after Expires.  [sct] / [es] are what a sender puts on the wire for that session. *)
Theorem C19_spec_session_holds : forall p sct es,
  session_ok p = true ->
  (if se_sct p then exists raw, sct = Some raw /\ system_time_to_ntp (se_t0 p + se_xf p) = Some raw
   else sct = None) ->
  parse_u32 es = Some (se_expires_ntp p) ->
  exists outs, outputs (mkCfg (se_chk p) true) (session_events p sct es) = Some outs
               /\ P_C19_session p outs = true.
Proof. exact session_closed_form. Qed.
Print Assumptions C19_spec_session_holds.

(* ---------------------------------------------------------------- non-vacuity *)
(* an FDT (id 7, Expires "3999000060" = 2026-09-21T..., TOIs 1 and 2) with SCT, received by a clock that is
   30 years fast; object 1 arrives 10 s later (delivered), object 2 arrives 100 s later (expired: silent) *)
Definition ex_exp : list N := [51; 57; 57; 57; 48; 48; 48; 48; 54; 48]%N.        (* "3999000060" *)
Definition ex_sct : N := (3999000000 * 4294967296 + 2147483648)%N.                (* sender clock: 60 s before *)
Definition ex_skew : Z := 946707779000000000.
Definition ex_rx : Z := (3999000000 - 2208988800) * 1000000000 + 500040000 + ex_skew.
Definition ex_evs : list event :=
  [EvFdtPkt 7 (Some ex_sct) 0 1 (Some (ex_exp, [1; 2]%N)) ex_rx;
   EvObjPkt 1 true (ex_rx + 10000000000);
   EvObjPkt 1 false (ex_rx + 10001000000);
   EvObjEnd 1 (Done true);
   EvCleanup (ex_rx + 50000000000);
   EvObjPkt 2 true (ex_rx + 100000000000)].

Example C19_example_run :
  outputs (mkCfg true true) ex_evs = Some [[]; [AOpen 1 7]; []; [AEnd 1]; []; []]
  /\ uniform_sct ex_evs = true /\ all_sct ex_evs = true /\ in_range ex_evs = true.
Proof. vm_compute. repeat split; reflexivity. Qed.

(* the same stream under a clock 60 years slower gives the same callbacks; without the check object 2 is
   delivered as well *)
Example C19_example_skew :
  outputs (mkCfg true true) (map (shift_ev (-1893415558000000000)) ex_evs) = outputs (mkCfg true true) ex_evs
  /\ outputs (mkCfg false true) ex_evs = Some [[]; [AOpen 1 7]; []; [AEnd 1]; []; [AOpen 2 7]].
Proof. vm_compute. split; reflexivity. Qed.

(* the hypothesis of (b) is satisfiable: TOI 2 is announced only by an instance that is expired at every
   event instant at which it could be attached, and TOI 1 is not *)
Example C19_example_silent :
  forallb (fun ev => match ev_time ev with
                     | Some now => forallb (fun pkt => negb (pkt_justifies true 0 now 2 None pkt)) (skipn 4 ex_evs)
                     | None => true end) (skipn 4 ex_evs) = true
  /\ justified true 0 ex_evs (ex_rx + 10000000000) 1 (Some 7%N) = true.
Proof. vm_compute. split; reflexivity. Qed.

(* without SCT the skewed receiver clock decides: the same FDT is expired on arrival *)
Example C19_example_no_sct :
  outputs (mkCfg true true)
    [EvFdtPkt 7 None 0 1 (Some (ex_exp, [1; 2]%N)) ex_rx; EvObjPkt 1 true (ex_rx + 1000)] = Some [[]; []].
Proof. vm_compute. reflexivity. Qed.

(* a panic outside the range: receiver clock beyond what chrono represents, FDT already expired *)
Example C19_example_panic :
  outputs (mkCfg true true) [EvFdtPkt 7 None 0 1 (Some (ex_exp, [1]%N)) 8210266876800000000000] = None.
Proof. vm_compute. reflexivity. Qed.

(* a session satisfying the guards of (d): duration 60 s, FDT sent 63 s after publication (3 s late), skew
   +30 years, SCT on: expired, silent; and its conversions *)
Definition ex_session : session :=
  mkSession 60 1790000000123456789 63000000000 40000000 65000000000 ex_skew true true true true.
Example C19_example_session :
  session_ok ex_session = true
  /\ system_time_to_ntp (se_t0 ex_session + se_xf ex_session) = Some 17175526384183463931%N
  /\ parse_u32 [51; 57; 57; 56; 57; 56; 56; 56; 54; 48]%N = Some (se_expires_ntp ex_session)
  /\ outputs (mkCfg true true)
       (session_events ex_session (Some 17175526384183463931%N) [51; 57; 57; 56; 57; 56; 56; 56; 54; 48]%N)
     = Some [[]; []; []; []; []; []; []; []].
Proof. vm_compute. repeat split; reflexivity. Qed.

Example C19_example_conversions :
  ntp_to_system_time ex_sct = Some 1790011200500000000
  /\ expires_of ex_exp = Some 1790011260000000000
  /\ expires_of [97; 98]%N = None /\ expires_of [52; 50; 57; 52; 57; 54; 55; 50; 57; 54]%N = None.
Proof. vm_compute. repeat split; reflexivity. Qed.
