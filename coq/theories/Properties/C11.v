(* C11 - Announce before send: no object packet precedes a complete FDT listing it. *)
From FluteV Require Import Model.SenderCtl Spec.SenderSpec Proofs.SenderProofs Proofs.C11Full.
Open Scope N_scope.

(* The statement over every operation history: the trace predicate P_C11 - every object packet is
   preceded by all packets of one FDT instance listing its TOI, and no object packet interrupts an
   instance - holds of every run of the model.  Evaluated on the implementation's trace on every run.

   As first written (no condition on the operations) the statement is FALSE of the model, for a
   reason that is an artefact of the model's vocabulary, not of the implementation: the model's
   object record has a field o_fdtid (set by Fdt::publish for FDT instances) and OpAdd accepts any
   record; an added object carrying Some id is emitted as "FDT packets" and confuses the monitor. *)
Definition C11_announce_before_send_full : Prop :=
  forall fdt_npk divf ops full dur car sid queues,
    (forall id, (1 <= fdt_npk id)%nat) ->
    P_C11 (map fst (model_trace fdt_npk (fun _ => true) divf (init_st full dur car sid queues) ops)) = true.

Example C11_announce_before_send_full_refuted :
  let odA := mk_odesc 1 0 1 1 1 CNone TNone false (Some 7) [] in   (* a "user object" with an FDT id *)
  let odB := mk_odesc 2 0 1 1 1 CNone TNone false None [] in
  let ops := [OpAdd odA None true; OpAdd odB None true; OpRead 0; OpRead 0; OpRead 0; OpRead 0] in
  P_C11 (map fst (model_trace (fun _ => 2%nat) (fun _ => true) (fun d n => Some (d / Z.of_N n)%Z)
                    (init_st true 3600000000000 (CDelay 1000000000) 1 [(0, 1%nat)]) ops)) = false.
Proof. vm_compute. reflexivity. Qed.

(* The theorem: for every history whose accepted add_object operations describe user objects
   (user_opb: o_fdtid = None - the only descriptions the API can produce), in both publish modes,
   when publishing never fails (D27). *)
Theorem C11_announce_before_send :
  forall fdt_npk divf ops full dur car sid queues,
    (forall id, (1 <= fdt_npk id)%nat) ->
    forallb user_opb ops = true ->
    P_C11 (map fst (model_trace fdt_npk (fun _ => true) divf (init_st full dur car sid queues) ops)) = true.
Proof. exact c11_announce_before_send. Qed.
Print Assumptions C11_announce_before_send.

(* FullFDT mode: publish may fail at any time (arbitrary oracle fdt_ok); a failing publish never
   leads to an unannounced object *)
Theorem C11_announce_before_send_failing_publish_fullfdt :
  forall fdt_npk fdt_ok divf ops dur car sid queues,
    (forall id, (1 <= fdt_npk id)%nat) ->
    forallb user_opb ops = true ->
    P_C11 (map fst (model_trace fdt_npk fdt_ok divf (init_st true dur car sid queues) ops)) = true.
Proof. exact c11_announce_before_send_fullfdt_any_publish. Qed.
Print Assumptions C11_announce_before_send_failing_publish_fullfdt.

(* ObjectsBeingTransferred mode: get_next_file_transfer publishes right after starting the
   transfer and drops the error (fdt.rs: self.publish(now).ok()); when that publish fails the
   object is sent although no FDT instance lists it.  Here instance 1 (published by the first read,
   listing nothing) succeeds, instance 2 (the one that would list TOI 2) fails:
   trace = [add ok; RFdt 1 (complete, listing []); RObj 2 !!; nothing]. *)
Example C11_failing_publish_objects_mode_refuted :
  let odB := mk_odesc 2 0 1 1 1 CNone TNone false None [] in
  let ops := [OpAdd odB None true; OpRead 0; OpRead 0; OpRead 0] in
  forallb user_opb ops = true /\
  fst (run_ops (fun _ => 1%nat) (fun id => id =? 1) (fun d n => Some (d / Z.of_N n)%Z)
         (init_st false 3600000000000 (CDelay 1000000000) 1 [(0, 1%nat)]) ops)
  = [OutAdd true; OutRead (RFdt 1 false); OutRead (RObj 2 true); OutRead RNothing] /\
  P_C11 (map fst (model_trace (fun _ => 1%nat) (fun id => id =? 1) (fun d n => Some (d / Z.of_N n)%Z)
                    (init_st false 3600000000000 (CDelay 1000000000) 1 [(0, 1%nat)]) ops)) = false.
Proof. vm_compute. repeat split; reflexivity. Qed.

(* (1) a file session never emits an object packet while an FDT instance is queued *)
Theorem C11_file_session_blocked_by_pending_fdt : forall fdt_npk fdt_ok divf fuel ss now s o ss' s',
  ss_fdt_only ss = false ->
  session_run fdt_npk fdt_ok divf fuel ss now s = (o, ss', s') ->
  (forall toi c, o = RObj toi c -> fdtq s' = []) /\ ss_fdt_only ss' = false.
Proof. exact file_session_blocked_by_pending_fdt. Qed.
Print Assumptions C11_file_session_blocked_by_pending_fdt.

(* (2) in full-FDT mode an object that was added but not yet published is never started; whatever
   is started was eligible (priority, start time, carousel gap) at that instant *)
Theorem C11_unpublished_never_started : forall fdt_npk fdt_ok divf prio now s id s',
  get_next_file_transfer fdt_npk fdt_ok divf prio now s = ROk _ (Some id, s') ->
  In id (queue s)
  /\ should_transfer_now (obj s id) prio (full_fdt s) now = true
  /\ (full_fdt s = true -> f_pub (obj s id) = true).
Proof. exact unpublished_never_started. Qed.
Print Assumptions C11_unpublished_never_started.

(* (3) Sender::read serves the FDT session before any object queue: whenever the FDT session has
   a packet, that packet is what read returns *)
Theorem C11_read_serves_fdt_first : forall fdt_npk fdt_ok divf now s o s1,
  run_fdt_session fdt_npk fdt_ok divf now s = (o, s1) -> o <> RNothing ->
  sender_read fdt_npk fdt_ok divf now s = (o, s1).
Proof. exact read_serves_fdt_first. Qed.
Print Assumptions C11_read_serves_fdt_first.

(* non-vacuity: full-FDT mode: the first read publishes an instance by itself (none exists yet);
   the object is only sent after the complete instances *)
Example C11_example :
  let od := mk_odesc 1 0 2 2 1 CNone TNone false None [] in
  let ops := [OpAdd od None true; OpRead 0; OpPublish 0; OpRead 0; OpRead 0; OpRead 0; OpRead 0] in
  fst (run_ops (fun _ => 1%nat) (fun _ => true) (fun d n => Some (d / Z.of_N n)%Z)
               (init_st true 3600000000000 (CDelay 1000000000) 1 [(0, 1%nat)]) ops)
  = [OutAdd true; OutRead (RFdt 1 false); OutPublish true; OutRead (RFdt 2 false);
     OutRead (RObj 1 false); OutRead (RObj 1 true); OutRead RNothing].
Proof. vm_compute. reflexivity. Qed.

Example C11_example_predicate :
  let od := mk_odesc 1 0 2 2 1 CNone TNone false None [] in
  let ops := [OpAdd od None true; OpRead 0; OpPublish 0; OpRead 0; OpRead 0; OpRead 0; OpRead 0] in
  P_C11 (map fst (model_trace (fun _ => 1%nat) (fun _ => true) (fun d n => Some (d / Z.of_N n)%Z)
                    (init_st true 3600000000000 (CDelay 1000000000) 1 [(0, 1%nat)]) ops)) = true
  /\ P_C11 [TRead 0 (RObj 1 false) 0 None] = false.
Proof. vm_compute. split; reflexivity. Qed.
