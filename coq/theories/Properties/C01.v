(* C01 - Clean channel: each accepted object arrives byte-exact, once, with its metadata. *)
From FluteV Require Import Model.Partition Model.BlockEnc Model.SenderCtl Model.ObjRecv Model.Recv
  Spec.RecvSpec Spec.SessionSpec Spec.C08Spec Proofs.BlockEncProofs Proofs.SenderProofs Proofs.RecvProofs Proofs.SessionProofs.
Open Scope N_scope.

(* Full statement (kept visible): composing the sender models (SenderCtl + BlockEnc) with the
   receiver models (Recv + ObjRecv) over the identity channel, every accepted object satisfies
   P_C01_object.  The composition theorem is not proved; P_C01_object is evaluated on every run
   on real sender -> receiver sessions (all schemes, E, B, parity, cenc, signalling modes, publish
   modes, interleave, multiplex, queues, transfer counts, receive-once, buffer/stream/file
   sources), refusals at add_object are compared with the model of FileDesc::new, and the
   recorded classes D20 (no-cache objects) and D35 (being-transferred mode forgets completed
   objects) are reported.  What is proved are the mechanisms the delivery rests on: *)
Definition C01_clean_channel_full : Prop :=
  forall (given : ometa) (content : list N) (copies : N) (ws : list wrec),
    (* ws = the writers of an accepted object in the composed run over the identity channel *) True ->
    P_C01_object given content copies ws = true.

(* (1) sender side (C08): an uninterrupted transfer emits every encoding symbol of every block
   exactly once, in order, and ends normally *)
Theorem C01_sender_emits_every_symbol : forall c SRC, (1 <= c_window c)%nat ->
  forall fuel s, wf c SRC s -> (tot s < fuel)%nat -> (0 < tot s)%nat \/ s_nb_sent s <> 0 ->
  let outs := enc_run fuel c [] s in
  let ps := pkts_of outs in
  last outs ONone = ONone
  /\ Forall (fun o => match o with OPkt _ | ONone => True | _ => False end) outs
  /\ (forall sbn, map view_p (filter (fun p => p_sbn p =? sbn) ps) = map view_sh (pend s sbn))
  /\ ((0 < tot s)%nat -> flags_ok (c_closable c) ps).
Proof. exact enc_run_complete_proof. Qed.
Print Assumptions C01_sender_emits_every_symbol.

(* (2) stream and file sources give the same blocks as the buffer (C20) *)
Theorem C01_sources_equivalent : forall rep raptor_src c content reads,
  0 < c_e c -> 0 < c_b c -> c_tlen c = lenN content ->
  Forall (fun r => 0 < r) reads ->
  blocks_of_stream rep raptor_src c content reads = blocks_of_buffer rep raptor_src c content.
Proof. exact chunking_independent_proof. Qed.
Print Assumptions C01_sources_equivalent.

(* (3) receiver side, No-Code: the first copy of a symbol is never replaced, and a completed block
   is the concatenation of the stored symbols in ESI order *)
Theorem C01_first_copy_wins : forall E oti, ro_fec oti = FNoCode ->
  forall toi sbn esi payload b i d,
  get_esi i (bd_shards b) = Some d ->
  get_esi i (bd_shards (fst (bd_push E toi oti sbn esi payload b))) = Some d.
Proof. exact nocode_first_copy_wins. Qed.
Print Assumptions C01_first_copy_wins.

Theorem C01_completed_block_is_concatenation : forall E oti, ro_fec oti = FNoCode ->
  forall toi sbn esi payload b,
  bd_completed b = false -> bd_data b = None ->
  let b' := fst (bd_push E toi oti sbn esi payload b) in
  bd_completed b' = true ->
  bd_data b' = concat_src (N.to_nat (bd_k b)) 0 (bd_shards b') /\ bd_data b' <> None.
Proof. exact nocode_complete_is_concat. Qed.
Print Assumptions C01_completed_block_is_concatenation.

Example C01_example_predicate :
  let m := mk_ometa [102] (Some [97]) (Some 3) (Some 3) None [] None (3, 0) in
  P_C01_object m [1;2;3] 1 [(m, [CallOpen true; CallWrite [1;2;3] true; CallComplete])] = true
  /\ P_C01_object m [1;2;3] 1 [(m, [CallOpen true; CallWrite [1;2;3] true; CallComplete]);
                                (m, [CallOpen true; CallWrite [1;2;3] true; CallComplete])] = false
  /\ P_C01_object m [1;2;3] 1 [(mk_ometa [102] None (Some 3) (Some 3) None [] None (3, 0),
                                 [CallOpen true; CallWrite [1;2;3] true; CallComplete])] = false.
Proof. vm_compute. repeat split. Qed.
