(* C01 - Clean channel: each accepted object arrives byte-exact, once, with its metadata. *)
From FluteV Require Import Model.Partition Model.BlockEnc Model.SenderCtl Model.ObjRecv Model.Recv
  Spec.RecvSpec Spec.SessionSpec Spec.C07Spec Spec.C08Spec Proofs.BlockEncProofs Proofs.SenderProofs Proofs.RecvProofs Proofs.SessionProofs
  Proofs.C08Full Proofs.C02Full Proofs.C01Full Proofs.C01Esi.
Open Scope N_scope.

(* Object-level composition theorem, PROVED for the No-Code scheme without content encoding
   (Proofs/C01Full.v): the sender model (Model/BlockEnc.v: Block::new_from_buffer + BlockEncoder::read) and
   the object-receiver model (Model/ObjRecv.v) over the identity channel.
   Sender: any configuration FileDesc::new accepts (filedesc_accepts) with the No-Code scheme, any window
   (interleave_blocks) >= 1, any non-empty buffer content of the announced length, either build profile,
   last transfer (close-object flag on the last packet) or not.  ALL packets of one uninterrupted transfer
   (enc_run until "nothing to send") are put on the wire by [to_apkt toi] - payload id = ((sbn & 0xFFFF) << 16)
   | (esi & 0xFFFF) big endian as AlcNoCode::add_fec_payload_id writes it, B flag = close flag, codepoint 0,
   no EXT_FTI - and fed in order to a fresh object receiver for [toi] that has the FDT entry attached
   ([receive]; the entry carries an OTI with the sender's scheme, E and B, the transfer length, the MD5).
   Premises about the environment, those of C02_nocode_recoverable_delivers: the builder stores the object,
   open() and every write() succeed, the MD5 is absent or matches, L <= max_size_allocated, at most 4097
   source blocks.  Premise about the wire: E < 2^16 (a u16 in the implementation).  That every ESI fits its
   16-bit field (nocode_esi_fits: the large blocks of the partition have at most 65536 symbols) is no longer
   a premise: since the fix D39 it follows from filedesc_accepts (C01_accepts_esi_fits below,
   Proofs/C01Esi.v; before the fix FALSE configurations were accepted, see C01_esi_wraps_refuted).
   Conclusion: the object is Completed; the writer's log is exactly: builder, open, writes whose concatenation
   is [content], one complete (ShapeDone); hence complete_exact, the executable C01 predicate with one
   completed copy (the metadata are not modelled at this level: [m] is whatever the session level handed
   to the writer) and the C02/C16 predicate.
   Not covered: the other FEC schemes (decoders are oracles), content encodings, the empty object (C08 (4) and
   C02Full.empty_object_behaviour), and the session level above or_attach (FDT transmission and parsing,
   metadata, several objects, receive-once bookkeeping: evaluated on every run by P_C01_object on real
   sender -> receiver sessions; classes D20 and D35 are recorded there). *)
Theorem C01_clean_channel_nocode :
  forall rep raptor_src c content oti E toi max fid files inst md5,
  c_fec c = NoCode -> filedesc_accepts c = true -> c_tlen c = lenN content -> 0 < c_tlen c ->
  (1 <= c_window c)%nat ->
  c_e c < 65536 ->
  oti_matches c oti -> fdt_entry_for files inst toi oti (c_tlen c) md5 ->
  writer_accepts E toi -> writes_succeed E toi -> md5_good E content md5 ->
  c_tlen c <= max -> nb_blocks_of oti (c_tlen c) <= 4097 ->
  let blocks := blocks_of_buffer rep raptor_src c content in
  let ps := pkts_of (enc_run (S (S (total_shards blocks))) c [] (est_init blocks)) in
  let (o, cx) := receive E fid files inst toi max (map (to_apkt toi) ps) in
  r_state o = Completed
  /\ ShapeDone content (toi, 0%nat) toi cx
  /\ forall m, complete_exact content (m, calls_of (toi, 0%nat) (c_log cx)) = true
               /\ P_C01_object m content 1 [(m, calls_of (toi, 0%nat) (c_log cx))] = true
               /\ P_C02_object true content [(m, calls_of (toi, 0%nat) (c_log cx))] = true.
Proof. exact clean_channel_delivered'. Qed.
Print Assumptions C01_clean_channel_nocode.

(* the same after any genuine packets without the close-object flag (any order, any duplication; e.g. what
   is left of earlier transfers of the object): [delivered] is the conclusion above, [wire_pkts] the list
   map (to_apkt toi) ps above *)
Theorem C01_clean_channel_nocode_after_earlier_packets :
  forall rep raptor_src c content oti E toi max fid files inst md5,
  c_fec c = NoCode -> filedesc_accepts c = true -> c_tlen c = lenN content -> 0 < c_tlen c ->
  (1 <= c_window c)%nat ->
  c_e c < 65536 ->
  oti_matches c oti -> fdt_entry_for files inst toi oti (c_tlen c) md5 ->
  writer_accepts E toi -> writes_succeed E toi -> md5_good E content md5 ->
  c_tlen c <= max -> nb_blocks_of oti (c_tlen c) <= 4097 ->
  forall pre, Forall (fun q => genuine_pkt oti content q = true) pre ->
              Forall (fun q => a_close_obj q = false) pre ->
  delivered E fid files inst toi max content (pre ++ wire_pkts rep raptor_src c content toi).
Proof. exact prefix_then_transfer_delivered'. Qed.
Print Assumptions C01_clean_channel_nocode_after_earlier_packets.

(* the bridge between the two models: what the sender model emits satisfies, besides P_C08_transfer, the
   No-Code strengthening P_C08_nocode_exact (no repair symbol, no padded symbol: P_C08_transfer tolerates
   both, the premise genuine_pkt of C02/C03 neither), whatever the build profile ... *)
Theorem C01_sender_nocode_exact : forall rep raptor_src c content,
  c_fec c = NoCode -> 0 < c_tlen c ->
  filedesc_accepts c = true -> c_tlen c = lenN content -> (1 <= c_window c)%nat ->
  let blocks := blocks_of_buffer rep raptor_src c content in
  let ps := pkts_of (enc_run (S (S (total_shards blocks))) c [] (est_init blocks)) in
  P_C08_transfer c content None ps = true /\ P_C08_nocode_exact c content ps = true.
Proof. exact nocode_transfer_full. Qed.
Print Assumptions C01_sender_nocode_exact.

(* ... and any packet list satisfying the two predicates is mapped by the wire bridge to packets that are
   genuine for the receiver, with the same (sbn, esi) and close flags, covering every source symbol *)
Theorem C01_wire_bridge : forall c content oti toi al as_ nal n,
  c_fec c = NoCode -> filedesc_accepts c = true -> c_tlen c = lenN content -> 0 < c_tlen c ->
  oti_matches c oti ->
  block_partitioning (c_b c) (c_tlen c) (c_e c) = (al, as_, nal, n) ->
  forall ps, P_C08_transfer c content None ps = true -> P_C08_nocode_exact c content ps = true ->
  (Forall (fun q => genuine_pkt oti content q = true) (map (to_apkt toi) ps)
   /\ map pid_of (map (to_apkt toi) ps) = map (fun p => (p_sbn p, p_esi p)) ps
   /\ map a_close_obj (map (to_apkt toi) ps) = map p_close ps)
  /\ (forall s i, s < n -> i < nominal_syms al as_ nal s -> In (s, i) (map (fun p => (p_sbn p, p_esi p)) ps))
  /\ exists body lst, ps = body ++ [lst] /\ Forall (fun p => p_close p = false) body /\ p_close lst = c_closable c.
Proof. exact wire_bridge'. Qed.
Print Assumptions C01_wire_bridge.

(* every ESI of an accepted non-empty No-Code object fits the 16-bit field (D39 fixed): FileDesc::new checks
   every block length that exists; without large blocks (nb_a_large = 0) a_large = a_small *)
Theorem C01_accepts_esi_fits : forall c,
  c_fec c = NoCode -> filedesc_accepts c = true -> 0 < c_tlen c -> nocode_esi_fits c = true.
Proof. exact accepts_esi_fits. Qed.
Print Assumptions C01_accepts_esi_fits.

(* the former premise nocode_esi_fits (D39): E = 1, B = 65537, L = 65537 was accepted by FileDesc::new until the fix
   (it is now refused: first conjunct); the
   symbol with ESI 65536 goes out with payload id 00 00 00 00 = (sbn 0, esi 0), and no packet list whatsoever
   put on the wire by to_apkt is recoverable for the receiver *)
Example C01_esi_wraps_refuted :
  filedesc_accepts wrap_cfg = false /\ oti_matches wrap_cfg wrap_oti
  /\ block_partitioning (c_b wrap_cfg) (c_tlen wrap_cfg) (c_e wrap_cfg) = (65537, 65537, 0, 1)
  /\ nocode_esi_fits wrap_cfg = false
  /\ (let p := mk_pkt 0 65536 [9] true 65537 true in
      pid_of (to_apkt 7 p) = (0, 0) /\ a_pidbytes (to_apkt 7 p) = [0; 0; 0; 0])
  /\ forall toi ps, recoverable wrap_oti 65537 (map (to_apkt toi) ps) = false.
Proof. exact esi_wraps_refuted. Qed.

(* non-vacuity: the 5-byte object of C02 (E = 2, B = 2, two blocks, last symbol short) sent with two
   interleaved blocks by a debug-profile sender, last transfer (true) and intermediate transfer (false):
   the packets, their wire image, the delivery computed by the models, and the theorem applied *)
Example C01_example_wire :
  map (fun p => (p_sbn p, p_esi p, p_payload p, p_close p)) (transfer_pkts no_rep no_rsrc (ex_cfg true) ex_content)
  = [(0, 0, [1; 2], false); (1, 0, [5], false); (0, 1, [3; 4], true)]
  /\ map a_pidbytes (wire_pkts no_rep no_rsrc (ex_cfg true) ex_content 7) = [[0; 0; 0; 0]; [0; 1; 0; 0]; [0; 0; 0; 1]]
  /\ summary 7 (receive env_ok 1 ex_files None 7 1000 (wire_pkts no_rep no_rsrc (ex_cfg true) ex_content 7))
     = (Completed, [CallOpen true; CallWrite [1; 2; 3; 4] true; CallWrite [5] true; CallComplete])
  /\ summary 7 (receive env_ok 1 ex_files None 7 1000 (wire_pkts no_rep no_rsrc (ex_cfg false) ex_content 7))
     = (Completed, [CallOpen true; CallWrite [1; 2; 3; 4] true; CallWrite [5] true; CallComplete]).
Proof. vm_compute. repeat split. Qed.

Example C01_example_by_theorem : forall closable,
  delivered env_ok 1 ex_files None 7 1000 ex_content (wire_pkts no_rep no_rsrc (ex_cfg closable) ex_content 7).
Proof. exact ex_clean_channel_by_theorem. Qed.

(* The mechanisms the delivery rests on, also for the other schemes: *)
(* (1) sender side (C08): an uninterrupted transfer emits every encoding symbol of every block
   exactly once, in order, and ends normally *)
Theorem C01_sender_emits_every_symbol : forall c SRC, (1 <= c_window c)%nat ->
  forall fuel s, wf c SRC s -> (tot s < fuel)%nat -> (0 < tot s)%nat \/ s_nb_sent s <> 0 ->
  let outs := enc_run fuel c [] s in
  let ps := pkts_of outs in
  last outs ONone = ONone
  /\ Forall (fun o => match o with OPkt _ | ONone => True | _ => False end) outs
  /\ (forall sbn, map view_p (filter (fun p => p_sbn p =? sbn) ps) = map view_sh (pend s sbn))
  /\ ((0 < tot s)%nat -> flags_ok (c_closable c) ps).
Proof. exact enc_run_complete_proof. Qed.
Print Assumptions C01_sender_emits_every_symbol.

(* (2) stream and file sources give the same blocks as the buffer (C20) *)
Theorem C01_sources_equivalent : forall rep raptor_src c content reads,
  0 < c_e c -> 0 < c_b c -> c_tlen c = lenN content ->
  Forall (fun r => 0 < r) reads ->
  blocks_of_stream rep raptor_src c content reads = blocks_of_buffer rep raptor_src c content.
Proof. exact chunking_independent_proof. Qed.
Print Assumptions C01_sources_equivalent.

(* (3) receiver side, No-Code: the first copy of a symbol is never replaced, and a completed block
   is the concatenation of the stored symbols in ESI order *)
Theorem C01_first_copy_wins : forall E oti, ro_fec oti = FNoCode ->
  forall toi sbn esi payload b i d,
  get_esi i (bd_shards b) = Some d ->
  get_esi i (bd_shards (fst (bd_push E toi oti sbn esi payload b))) = Some d.
Proof. exact nocode_first_copy_wins. Qed.
Print Assumptions C01_first_copy_wins.

Theorem C01_completed_block_is_concatenation : forall E oti, ro_fec oti = FNoCode ->
  forall toi sbn esi payload b,
  bd_completed b = false -> bd_data b = None ->
  let b' := fst (bd_push E toi oti sbn esi payload b) in
  bd_completed b' = true ->
  bd_data b' = concat_src (N.to_nat (bd_k b)) 0 (bd_shards b') /\ bd_data b' <> None.
Proof. exact nocode_complete_is_concat. Qed.
Print Assumptions C01_completed_block_is_concatenation.

Example C01_example_predicate :
  let m := mk_ometa [102] (Some [97]) (Some 3) (Some 3) None [] None (3, 0) in
  P_C01_object m [1;2;3] 1 [(m, [CallOpen true; CallWrite [1;2;3] true; CallComplete])] = true
  /\ P_C01_object m [1;2;3] 1 [(m, [CallOpen true; CallWrite [1;2;3] true; CallComplete]);
                                (m, [CallOpen true; CallWrite [1;2;3] true; CallComplete])] = false
  /\ P_C01_object m [1;2;3] 1 [(mk_ometa [102] None (Some 3) (Some 3) None [] None (3, 0),
                                 [CallOpen true; CallWrite [1;2;3] true; CallComplete])] = false.
Proof. vm_compute. repeat split. Qed.
