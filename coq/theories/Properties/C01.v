(* C01 - Clean channel: each accepted object arrives byte-exact, once, with its metadata. *)
From FluteV Require Import Model.Partition Model.BlockEnc Model.SenderCtl Model.ObjRecv Model.Recv
  Spec.RecvSpec Spec.SessionSpec Spec.C07Spec Spec.C08Spec Proofs.BlockEncProofs Proofs.SenderProofs Proofs.RecvProofs Proofs.SessionProofs
  Proofs.C08Full Proofs.C02Full Proofs.C01Full Proofs.C01Esi.
Open Scope N_scope.

(* Object-level composition theorem, PROVED for the No-Code scheme without content encoding
   (Proofs/C01Full.v): the sender model (Model/BlockEnc.v: Block::new_from_buffer + BlockEncoder::read) and
   the object-receiver model (Model/ObjRecv.v) over the identity channel.
   Sender: any configuration FileDesc::new accepts (filedesc_accepts) with the No-Code scheme, any window
   (interleave_blocks) >= 1, any non-empty buffer content of the announced length, either build profile,
   last transfer (close-object flag on the last packet) or not.  ALL packets of one uninterrupted transfer
   (enc_run until "nothing to send") are put on the wire by [to_apkt toi] - payload id = ((sbn & 0xFFFF) << 16)
   | (esi & 0xFFFF) big endian as AlcNoCode::add_fec_payload_id writes it, B flag = close flag, codepoint 0,
   no EXT_FTI - and fed in order to a fresh object receiver for [toi] that has the FDT entry attached
   ([receive]; the entry carries an OTI with the sender's scheme, E and B, the transfer length, the MD5).
   Premises about the environment, those of C02_nocode_recoverable_delivers: the builder stores the object,
   open() and every write() succeed, the MD5 is absent or matches, L <= max_size_allocated, at most 4097
   source blocks.  Premise about the wire: E < 2^16 (a u16 in the implementation).  That every ESI fits its
   16-bit field (nocode_esi_fits: the large blocks of the partition have at most 65536 symbols) is no longer
   a premise: since the fix D39 it follows from filedesc_accepts (C01_accepts_esi_fits below,
   Proofs/C01Esi.v; before the fix FALSE configurations were accepted, see C01_esi_wraps_refuted).
   Conclusion: the object is Completed; the writer's log is exactly: builder, open, writes whose concatenation
   is [content], one complete (ShapeDone); hence complete_exact, the executable C01 predicate with one
   completed copy (the metadata are not modelled at this level: [m] is whatever the session level handed
   to the writer) and the C02/C16 predicate.
   Not covered: the other FEC schemes (decoders are oracles), content encodings, the empty object (C08 (4) and
   C02Full.empty_object_behaviour), and the session level above or_attach (FDT transmission and parsing,
   metadata, several objects, receive-once bookkeeping: evaluated on every run by P_C01_object on real
   sender -> receiver sessions; classes D20 and D35 are recorded there). *)
Theorem C01_clean_channel_nocode :
  forall rep raptor_src c content oti E toi max fid files inst md5,
  c_fec c = NoCode -> filedesc_accepts c = true -> c_tlen c = lenN content -> 0 < c_tlen c ->
  (1 <= c_window c)%nat ->
  c_e c < 65536 ->
  oti_matches c oti -> fdt_entry_for files inst toi oti (c_tlen c) md5 ->
  writer_accepts E toi -> writes_succeed E toi -> md5_good E content md5 ->
  c_tlen c <= max -> nb_blocks_of oti (c_tlen c) <= 4097 ->
  let blocks := blocks_of_buffer rep raptor_src c content in
  let ps := pkts_of (enc_run (S (S (total_shards blocks))) c [] (est_init blocks)) in
  let (o, cx) := receive E fid files inst toi max (map (to_apkt toi) ps) in
  r_state o = Completed
  /\ ShapeDone content (toi, 0%nat) toi cx
  /\ forall m, complete_exact content (m, calls_of (toi, 0%nat) (c_log cx)) = true
               /\ P_C01_object m content 1 [(m, calls_of (toi, 0%nat) (c_log cx))] = true
               /\ P_C02_object true content [(m, calls_of (toi, 0%nat) (c_log cx))] = true.
Proof. exact clean_channel_delivered'. Qed.
Print Assumptions C01_clean_channel_nocode.

(* the same after any genuine packets without the close-object flag (any order, any duplication; e.g. what
   is left of earlier transfers of the object): [delivered] is the conclusion above, [wire_pkts] the list
   map (to_apkt toi) ps above *)
Theorem C01_clean_channel_nocode_after_earlier_packets :
  forall rep raptor_src c content oti E toi max fid files inst md5,
  c_fec c = NoCode -> filedesc_accepts c = true -> c_tlen c = lenN content -> 0 < c_tlen c ->
  (1 <= c_window c)%nat ->
  c_e c < 65536 ->
  oti_matches c oti -> fdt_entry_for files inst toi oti (c_tlen c) md5 ->
  writer_accepts E toi -> writes_succeed E toi -> md5_good E content md5 ->
  c_tlen c <= max -> nb_blocks_of oti (c_tlen c) <= 4097 ->
  forall pre, Forall (fun q => genuine_pkt oti content q = true) pre ->
              Forall (fun q => a_close_obj q = false) pre ->
  delivered E fid files inst toi max content (pre ++ wire_pkts rep raptor_src c content toi).
Proof. exact prefix_then_transfer_delivered'. Qed.
Print Assumptions C01_clean_channel_nocode_after_earlier_packets.

(* the bridge between the two models: what the sender model emits satisfies, besides P_C08_transfer, the
   No-Code strengthening P_C08_nocode_exact (no repair symbol, no padded symbol: P_C08_transfer tolerates
   both, the premise genuine_pkt of C02/C03 neither), whatever the build profile ... *)
Theorem C01_sender_nocode_exact : forall rep raptor_src c content,
  c_fec c = NoCode -> 0 < c_tlen c ->
  filedesc_accepts c = true -> c_tlen c = lenN content -> (1 <= c_window c)%nat ->
  let blocks := blocks_of_buffer rep raptor_src c content in
  let ps := pkts_of (enc_run (S (S (total_shards blocks))) c [] (est_init blocks)) in
  P_C08_transfer c content None ps = true /\ P_C08_nocode_exact c content ps = true.
Proof. exact nocode_transfer_full. Qed.
Print Assumptions C01_sender_nocode_exact.

(* ... and any packet list satisfying the two predicates is mapped by the wire bridge to packets that are
   genuine for the receiver, with the same (sbn, esi) and close flags, covering every source symbol *)
Theorem C01_wire_bridge : forall c content oti toi al as_ nal n,
  c_fec c = NoCode -> filedesc_accepts c = true -> c_tlen c = lenN content -> 0 < c_tlen c ->
  oti_matches c oti ->
  block_partitioning (c_b c) (c_tlen c) (c_e c) = (al, as_, nal, n) ->
  forall ps, P_C08_transfer c content None ps = true -> P_C08_nocode_exact c content ps = true ->
  (Forall (fun q => genuine_pkt oti content q = true) (map (to_apkt toi) ps)
   /\ map pid_of (map (to_apkt toi) ps) = map (fun p => (p_sbn p, p_esi p)) ps
   /\ map a_close_obj (map (to_apkt toi) ps) = map p_close ps)
  /\ (forall s i, s < n -> i < nominal_syms al as_ nal s -> In (s, i) (map (fun p => (p_sbn p, p_esi p)) ps))
  /\ exists body lst, ps = body ++ [lst] /\ Forall (fun p => p_close p = false) body /\ p_close lst = c_closable c.
Proof. exact wire_bridge'. Qed.
Print Assumptions C01_wire_bridge.

(* every ESI of an accepted non-empty No-Code object fits the 16-bit field (D39 fixed): FileDesc::new checks
   every block length that exists; without large blocks (nb_a_large = 0) a_large = a_small *)
Theorem C01_accepts_esi_fits : forall c,
  c_fec c = NoCode -> filedesc_accepts c = true -> 0 < c_tlen c -> nocode_esi_fits c = true.
Proof. exact accepts_esi_fits. Qed.
Print Assumptions C01_accepts_esi_fits.

(* the former premise nocode_esi_fits (D39): E = 1, B = 65537, L = 65537 was accepted by FileDesc::new until the fix
   (it is now refused: first conjunct); the
   symbol with ESI 65536 goes out with payload id 00 00 00 00 = (sbn 0, esi 0), and no packet list whatsoever
   put on the wire by to_apkt is recoverable for the receiver *)
Example C01_esi_wraps_refuted :
  filedesc_accepts wrap_cfg = false /\ oti_matches wrap_cfg wrap_oti
  /\ block_partitioning (c_b wrap_cfg) (c_tlen wrap_cfg) (c_e wrap_cfg) = (65537, 65537, 0, 1)
  /\ nocode_esi_fits wrap_cfg = false
  /\ (let p := mk_pkt 0 65536 [9] true 65537 true in
      pid_of (to_apkt 7 p) = (0, 0) /\ a_pidbytes (to_apkt 7 p) = [0; 0; 0; 0])
  /\ forall toi ps, recoverable wrap_oti 65537 (map (to_apkt toi) ps) = false.
Proof. exact esi_wraps_refuted. Qed.

(* non-vacuity: the 5-byte object of C02 (E = 2, B = 2, two blocks, last symbol short) sent with two
   interleaved blocks by a debug-profile sender, last transfer (true) and intermediate transfer (false):
   the packets, their wire image, the delivery computed by the models, and the theorem applied *)
Example C01_example_wire :
  map (fun p => (p_sbn p, p_esi p, p_payload p, p_close p)) (transfer_pkts no_rep no_rsrc (ex_cfg true) ex_content)
  = [(0, 0, [1; 2], false); (1, 0, [5], false); (0, 1, [3; 4], true)]
  /\ map a_pidbytes (wire_pkts no_rep no_rsrc (ex_cfg true) ex_content 7) = [[0; 0; 0; 0]; [0; 1; 0; 0]; [0; 0; 0; 1]]
  /\ summary 7 (receive env_ok 1 ex_files None 7 1000 (wire_pkts no_rep no_rsrc (ex_cfg true) ex_content 7))
     = (Completed, [CallOpen true; CallWrite [1; 2; 3; 4] true; CallWrite [5] true; CallComplete])
  /\ summary 7 (receive env_ok 1 ex_files None 7 1000 (wire_pkts no_rep no_rsrc (ex_cfg false) ex_content 7))
     = (Completed, [CallOpen true; CallWrite [1; 2; 3; 4] true; CallWrite [5] true; CallComplete]).
Proof. vm_compute. repeat split. Qed.

Example C01_example_by_theorem : forall closable,
  delivered env_ok 1 ex_files None 7 1000 ex_content (wire_pkts no_rep no_rsrc (ex_cfg closable) ex_content 7).
Proof. exact ex_clean_channel_by_theorem. Qed.

(* The mechanisms the delivery rests on, also for the other schemes: *)
(* (1) sender side (C08): an uninterrupted transfer emits every encoding symbol of every block
   exactly once, in order, and ends normally *)
Theorem C01_sender_emits_every_symbol : forall c SRC, (1 <= c_window c)%nat ->
  forall fuel s, wf c SRC s -> (tot s < fuel)%nat -> (0 < tot s)%nat \/ s_nb_sent s <> 0 ->
  let outs := enc_run fuel c [] s in
  let ps := pkts_of outs in
  last outs ONone = ONone
  /\ Forall (fun o => match o with OPkt _ | ONone => True | _ => False end) outs
  /\ (forall sbn, map view_p (filter (fun p => p_sbn p =? sbn) ps) = map view_sh (pend s sbn))
  /\ ((0 < tot s)%nat -> flags_ok (c_closable c) ps).
Proof. exact enc_run_complete_proof. Qed.
Print Assumptions C01_sender_emits_every_symbol.

(* (2) stream and file sources give the same blocks as the buffer (C20) *)
Theorem C01_sources_equivalent : forall rep raptor_src c content reads,
  0 < c_e c -> 0 < c_b c -> c_tlen c = lenN content ->
  Forall (fun r => 0 < r) reads ->
  blocks_of_stream rep raptor_src c content reads = blocks_of_buffer rep raptor_src c content.
Proof. exact chunking_independent_proof. Qed.
Print Assumptions C01_sources_equivalent.

(* (3) receiver side, No-Code: the first copy of a symbol is never replaced, and a completed block
   is the concatenation of the stored symbols in ESI order *)
Theorem C01_first_copy_wins : forall E oti, ro_fec oti = FNoCode ->
  forall toi sbn esi payload b i d,
  get_esi i (bd_shards b) = Some d ->
  get_esi i (bd_shards (fst (bd_push E toi oti sbn esi payload b))) = Some d.
Proof. exact nocode_first_copy_wins. Qed.
Print Assumptions C01_first_copy_wins.

Theorem C01_completed_block_is_concatenation : forall E oti, ro_fec oti = FNoCode ->
  forall toi sbn esi payload b,
  bd_completed b = false -> bd_data b = None ->
  let b' := fst (bd_push E toi oti sbn esi payload b) in
  bd_completed b' = true ->
  bd_data b' = concat_src (N.to_nat (bd_k b)) 0 (bd_shards b') /\ bd_data b' <> None.
Proof. exact nocode_complete_is_concat. Qed.
Print Assumptions C01_completed_block_is_concatenation.

Example C01_example_predicate :
  let m := mk_ometa [102] (Some [97]) (Some 3) (Some 3) None [] None (3, 0) in
  P_C01_object m [1;2;3] 1 [(m, [CallOpen true; CallWrite [1;2;3] true; CallComplete])] = true
  /\ P_C01_object m [1;2;3] 1 [(m, [CallOpen true; CallWrite [1;2;3] true; CallComplete]);
                                (m, [CallOpen true; CallWrite [1;2;3] true; CallComplete])] = false
  /\ P_C01_object m [1;2;3] 1 [(mk_ometa [102] None (Some 3) (Some 3) None [] None (3, 0),
                                 [CallOpen true; CallWrite [1;2;3] true; CallComplete])] = false.
Proof. vm_compute. repeat split. Qed.

(* ---------------- the session level: Proofs/C01Session.v ----------------
   Composition of four proved developments for ONE accepted non-empty No-Code object in a No-Code session:
   (a) the sender's data plane (above: [wire_pkts] = the packets of one uninterrupted transfer on the wire);
   (b) the sender's FDT content (C10: Model/FdtInst.v [fdt_xml], the document printed by the reference printer);
   (c) the receiver as a whole (C02_session_fdt_first_delivers: Model/Recv.v recv_run from recv0 / ctx0);
   (d) the receiver's FDT oracle parse_fdt of Model/Recv.v INSTANTIATED by the function [fdt_oracle] = reference XML
       parser (Model/Xml.v, inverse of the printer: C10_xml_roundtrip) followed by the extraction of Model/FdtRecv.v
       (FdtInstance / File accessors, attach_fdt) into the receiver model's fdtinst: per File element the TOI (only
       its canonical decimal text denotes a TOI, as get_file compares strings), content encoding, the file's own OTI,
       File::get_transfer_length (Transfer-Length, else Content-Length, else 0), Content-MD5 text, Content-Length,
       cache_control == NoCache; the instance OTI; Expires in ns.  An attribute that does not deserialize fails
       the whole parse, as FdtInstance::parse does.
   Sender ([sender_ok], unfolded in C01_session_statements): session OTI and the object's OTI (per-object override or
   session default) are No-Code OTIs as oti.rs builds them (oti_wf), session B > 0, no content encoding, FileDesc::new
   accepts the object (filedesc_accepts of its data-plane configuration [obj_ecfg]), Transfer-Length = |content| > 0,
   TOI <> 0, Content-Length a u64, publication instant [now] in the NTP era with Expires < 2^32, cache directive
   times in the era (meta_ok of C10).  The FDT instance is what the sender model publishes for the object: [fdt_doc]
   = the bytes of fdt_xml cfg complete now [m]; it fits one packet ([doc_fits]: |d| <= E of the session, <= 1 MiB)
   and travels as [sess_fdt_pkt]: TOI 0, EXT_FDT id, EXT_FTI (session OTI, |d|), no EXT_CENC, EXT_TIME sct or none.
   The object's packets [obj_wire] are the wire image of one uninterrupted transfer (any window >= 1, last transfer
   or not, either build profile), with EXT_FTI on every packet (fti = true, Oti::inband_fti) or on none.
   Receiver ([receiver_ok]): the premises of C02_nocode_recoverable_delivers (builder stores, open and writes succeed,
   MD5 absent or matching, L <= max cache, <= 4097 blocks) and the instance is not expired on arrival: no expiry
   check, or (EXT_TIME of the FDT packet, else the receiver's clock) <= Expires  [C01_session_expired_refuted].
   Conclusion ([session_meta_delivered], unfolded in C01_session_statements):
   - session_delivered (C02): the calls of the object's writer (toi,0) are open(ok) . write* . complete with the
     written bytes = content; with receive-once and no Cache-Control:no-cache the whole log is builder/open/writes/
     complete, the object has left rv_objects, rv_completed = [toi];
   - the reference parser reads from the document exactly the instance the sender model built, and the oracle
     returns [sess_inst]: ONE entry with the object's TOI, cenc null, the per-object OTI if configured,
     Transfer-Length, Content-MD5, Content-Length, the no-cache flag; the session OTI; Expires - every field the
     receiver model (fdtfile: ff_toi ff_cenc ff_oti ff_tlen ff_md5 ff_clen ff_nocache) carries equals what the
     sender was given;
   - METADATA: the receiver model's log records the builder call without its argument (EvBuilder toi ans), so the
     ObjectMetadata handed to the writer builder is taken from the model of attach_fdt + create_meta
     (FdtRecv.recv_meta) applied to THAT parsed instance and the object's File element: it succeeds with [rm], and
     P_C10_meta: rm equals what the sender was given in content location, content length, transfer length,
     content type, cache directive (or the FDT expiry as a hint), session groups ++ object groups, MD5, the OTI in
     use, content encoding, ETag - all ten fields of ObjectMetadata; hence, in the vocabulary of the executable
     predicate, P_C01_object given content 1 [(rm, calls)] = true: one completed copy, byte-exact, with the given
     metadata.
   Not covered: an FDT instance of more than one packet or listing several objects, the other FEC schemes, content
   encodings, the empty object, loss/reordering at session level (C02), flute's own XML serializer/deserializer
   (quick-xml/serde: validated per instance by C10 on every run; D38 strings are outside). *)
From FluteV Require Import Model.Xml Model.FdtInst Model.FdtRecv Spec.C10Spec Proofs.AlcProofs Proofs.FdtProofs
  Proofs.C02Session Proofs.C01Session.

Theorem C01_session_clean_channel_nocode :
  forall rep raptor_src cfg complete now m content E rcfg nowr id sct,
  sender_ok cfg now m content -> doc_fits cfg complete now m -> receiver_ok E rcfg nowr sct cfg now m content ->
  forall (window : nat) (closable debug fti : bool), (1 <= window)%nat ->
  let '(_, r, cx) := recv_run E fdt_oracle rcfg recv0
                       (map (fun p => RvPush p nowr)
                            (sess_fdt_pkt cfg complete now m id sct
                             :: obj_wire rep raptor_src cfg m window closable debug content fti)) ctx0 in
  session_meta_delivered cfg complete now m content rcfg r cx.
Proof. exact session_clean_channel. Qed.
Print Assumptions C01_session_clean_channel_nocode.

(* the vocabulary of the theorem, unfolded once *)
Theorem C01_session_statements : forall cfg complete now m content E rcfg nowr sct r cx,
  (sender_ok cfg now m content <->
   fec_id (c_oti cfg) = 0 /\ oti_wf (c_oti cfg) /\ 0 < max_sbl (c_oti cfg)
   /\ fec_id (the_oti (c_oti cfg) m) = 0 /\ oti_wf (the_oti (c_oti cfg) m) /\ m_cenc m = 0
   /\ filedesc_accepts (mk_ecfg NoCode (esl (the_oti (c_oti cfg) m)) (max_sbl (the_oti (c_oti cfg) m))
                                (parity (the_oti (c_oti cfg) m)) 1 false (FdtInst.m_tlen m) false) = true
   /\ FdtInst.m_tlen m = lenN content /\ 0 < FdtInst.m_tlen m /\ m_toi m <> 0 /\ FdtInst.m_clen m < 18446744073709551616
   /\ time_in_era now /\ spec_expires now (c_dur cfg) < 4294967296 /\ meta_ok cfg now m)
  /\ (doc_fits cfg complete now m <->
      lenN_ (bytes_of_str (fdt_xml cfg complete now [m])) <= esl (c_oti cfg)
      /\ lenN_ (bytes_of_str (fdt_xml cfg complete now [m])) <= 1048576)
  /\ (receiver_ok E rcfg nowr sct cfg now m content <->
      writer_accepts E (m_toi m) /\ writes_succeed E (m_toi m)
      /\ md5_good E content (option_map bytes_of_str (FdtInst.m_md5 m))
      /\ lenN_ content <= cf_max_cache rcfg
      /\ nb_blocks_of (mk_roti FNoCode (esl (the_oti (c_oti cfg) m)) (max_sbl (the_oti (c_oti cfg) m))
                               (parity (the_oti (c_oti cfg) m)) None) (lenN_ content) <= 4097
      /\ (cf_exp_check rcfg = false
          \/ (match sct with Some t => t | None => nowr end
              <= Z.of_N ((spec_expires now (c_dur cfg) - 2208988800) * 1000000) * 1000)%Z))
  /\ (session_meta_delivered cfg complete now m content rcfg r cx <->
      session_delivered rcfg (sess_inst cfg now m) content (m_toi m) r cx
      /\ Xml.parse_fdt (str_of_bytes (fdt_doc cfg complete now m)) = Some (get_fdt_instance cfg complete now [m])
      /\ fdt_oracle (fdt_doc cfg complete now m) = Some (sess_inst cfg now m)
      /\ exists rm,
           recv_meta b64_decode (get_fdt_instance cfg complete now [m]) (to_file_xml (used_oti cfg m) m now) = MOk rm
           /\ P_C10_meta cfg false now m rm = true
           /\ ometa_of_rmeta rm = ometa_given cfg now m
           /\ P_C01_object (ometa_given cfg now m) content 1
                           [(ometa_of_rmeta rm, calls_of (m_toi m, 0%nat) (c_log cx))] = true).
Proof. exact session_statements. Qed.
Print Assumptions C01_session_statements.

(* the oracle on its own: from the printed bytes of ANY abstract instance it returns the extraction of that
   instance; and for EVERY parsed instance and File element for which flute's attach_fdt + create_meta
   (FdtRecv.recv_meta) yields the metadata r, the oracle's entry exists and agrees with r on transfer length,
   content length, MD5, content encoding, no-cache flag and the resolved OTI (file OTI, else instance OTI) *)
Theorem C01_oracle_reads_printed_instance : forall x, fdt_oracle (bytes_of_str (print_fdt x)) = inst_of_xfdt x.
Proof. exact oracle_printed. Qed.
Print Assumptions C01_oracle_reads_printed_instance.

Theorem C01_oracle_entry_agrees_with_writer_meta : forall i f r io,
  recv_meta b64_decode i f = MOk r -> oti_field (xi_oti i) = Some io ->
  exists ff, file_entry (expiration_us (xi_expires i)) f = Some ff
    /\ ff_toi ff = toi_of_str (xf_toi f)
    /\ ff_cenc ff = cenc_of_N (FdtRecv.r_cenc r)
    /\ FdtRecv.r_tlen r = Some (ff_tlen ff)
    /\ ff_clen ff = FdtRecv.r_clen r
    /\ ff_md5 ff = option_map bytes_of_str (FdtRecv.r_md5 r)
    /\ ff_nocache ff = match FdtRecv.r_cache r with RNoCache => true | _ => false end
    /\ match ff_oti ff with Some x => Some x | None => io end
       = match FdtRecv.r_oti r with Some o => roti_of o | None => None end.
Proof. exact entry_agrees_with_recv_meta. Qed.
Print Assumptions C01_oracle_entry_agrees_with_writer_meta.

(* non-vacuity: session OTI No-Code E = 1400 B = 64, groups [G1], FullFDT, validity 3600 s; the 5-byte object of
   C01_example_wire as TOI 7 with its own OTI (E = 2, B = 2), location with an ampersand, type, MD5, ETag with
   quotes, group "g<1>", Cache-Control Expires.  The document is real XML from the printer (it starts "<?xml",
   fits 1400 bytes); the oracle parses it to [sess_inst]; FDT packet + the three packets of the transfer (last
   transfer without EXT_FTI / carousel with EXT_FTI): every packet accepted, TOI 7 in rv_completed, the log is
   the delivery; and the metadata computed from the parsed document equals what was given *)
Example C01_session_example :
  (lenN_ exs_doc <=? 1400) = true
  /\ firstn 5 exs_doc = [60; 63; 120; 109; 108]
  /\ fdt_oracle exs_doc = Some (sess_inst exs_cfg exs_now exs_m)
  /\ exs_run (exs_pf :: exs_wire true) = ([POk; POk; POk; POk], [], [7], [], exs_log)
  /\ exs_run (exs_pf :: map (add_fti ex_oti 5) (exs_wire false)) = ([POk; POk; POk; POk], [], [7], [], exs_log)
  /\ match Xml.parse_fdt (str_of_bytes exs_doc) with
     | Some x => match xi_files x with
                 | [f] => match recv_meta b64_decode x f with
                          | MOk rm => P_C10_meta exs_cfg false exs_now exs_m rm
                                      && meta_eqb (ometa_given exs_cfg exs_now exs_m) (ometa_of_rmeta rm)
                          | _ => false
                          end
                 | _ => false
                 end
     | None => false
     end = true.
Proof. vm_compute. repeat split. Qed.

(* the premises are satisfiable: the same session by the theorem, last transfer or not, with or without EXT_FTI *)
Example C01_session_example_by_theorem : forall closable fti,
  let '(_, r, cx) := recv_run exs_env fdt_oracle exs_rcfg recv0
                       (map (fun p => RvPush p exs_nowr)
                            (sess_fdt_pkt exs_cfg false exs_now exs_m 1 exs_sct
                             :: obj_wire no_rep no_rsrc exs_cfg exs_m 2 closable true ex_content fti)) ctx0 in
  session_meta_delivered exs_cfg false exs_now exs_m ex_content exs_rcfg r cx.
Proof. exact exs_by_theorem. Qed.

(* the expiry premise is needed, with the real document: expiry check on, no EXT_TIME, the receiver's clock one
   second past Expires: the instance is never attached, the packets stay cached, nothing is delivered; with
   EXT_TIME before Expires the same packets at the same receiver time are delivered *)
Example C01_session_expired_refuted :
  exs_run_at 1700003601000000000%Z (fdt_pkt 1 (nocode_roti exs_session) None exs_doc :: exs_wire true)
  = ([POk; POk; POk; POk], [7], [], [], [])
  /\ exs_run_at 1700003601000000000%Z (exs_pf :: exs_wire true) = ([POk; POk; POk; POk], [], [7], [], exs_log).
Proof. exact exs_expired_refuted. Qed.

From FluteV Require Import Proofs.C02RS Proofs.C02SessionRS Proofs.C01RS.
(* ===== block: C01RS ===== *)
(* ---------------- Reed-Solomon GF(2^8): FEC 5 (RS28) and FEC 129 (RS28US), Proofs/C01RS.v ----------------
   The object-level composition theorem above, PROVED for the two Reed-Solomon schemes.
   Sender: any configuration FileDesc::new accepts with FEC 5 or 129 (is_rs; filedesc_accepts: parity >= 1,
   k + parity <= 256 for every block that exists), any window >= 1, any non-empty buffer content of the announced length,
   either build profile, last transfer or not.  The parity shards of a block are those of the repair oracle
   [rep fec sbn block_bytes k parity] of Model/BlockEnc.v, which gives at most [parity] shards (rep_len_ok; the premise
   of C08_transfer_full with equality).  ALL packets of one uninterrupted transfer - source AND repair symbols,
   interleaved by the window - are put on the wire by [to_apkt_rs]: FEC 5: ((sbn & 0xFFFFFF) << 8) | (esi & 0xFF),
   codepoint 5 (alcrs28.rs); FEC 129: sbn u32, source block length (= k of the block, pkt.source_block_length) u16, esi
   u16, codepoint 129 (alcrs28underspecified.rs); B flag = close flag; no EXT_FTI.
   Receiver: a fresh object receiver with the FDT entry attached, whose OTI carries the sender's scheme, E, B and
   parity (oti_matches_rs).  The decoder is the ORACLE e_fec of the environment; its hypothesis rs_oracle_mds (C02,
   Proofs/C02RS.v: called for a block with at least k genuine symbols it returns the zero-padded block) is taken for
   [rx_rep rep c content] = the receiver-side view of the SENDER's encoder: the repair symbol (sbn, esi) is the
   (esi - k)-th parity shard [rep] produced for block sbn.  Memory: rs_mem_need oti L <= max_size_allocated, i.e. L
   for FEC 5 and L rounded up to a whole number of symbols for FEC 129 [C01_rs129_clean_channel_limit_refuted];
   at most 4097 blocks; E < 2^16; the other environment premises of the No-Code theorem.
   rs_rep_sym_ok rep c content (new with the repair of D47: BlockDecoder::push discards a symbol longer than E): every
   parity shard the encoder oracle produces for a block of this object has at most E bytes (reed_solomon_erasure:
   exactly E); it gives rs_rep_sized for rx_rep, the premise of C02_rs_recoverable_delivers.
   Conclusion: as for No-Code.  In this in-order run the oracle is in fact never needed (every source symbol arrives:
   the model reassembles the block itself); it is needed for the statements after earlier packets / late join (C16).
   What had to agree between the two models and does (proved, not assumed):
   - padding: the sender zero-pads the last source symbol of a block to E (Block::new_from_buffer / create_shards), the
     receiver's notion of the genuine source symbol is symbol j of the object zero-padded to a whole number of
     symbols: C01_rs_source_symbol_is_padded_slice;
   - the source block length field of FEC 129 = k of the block = what the receiver's partition gives (sbl_okb);
   - repair symbols get the ESIs k .. k + parity - 1, all below 256; block numbers fit 24 / 32 bits
     (n <= max_source_blocks_number) - C01_sender_rs_exact, C01_wire_bridge_rs. *)
Theorem C01_clean_channel_rs :
  forall rep raptor_src c content oti E toi max fid files inst md5,
  is_rs (c_fec c) = true -> filedesc_accepts c = true -> c_tlen c = lenN content -> 0 < c_tlen c ->
  (1 <= c_window c)%nat -> rep_len_ok rep -> rs_rep_sym_ok rep c content ->
  c_e c < 65536 ->
  oti_matches_rs c oti -> fdt_entry_for files inst toi oti (c_tlen c) md5 ->
  writer_accepts E toi -> writes_succeed E toi -> md5_good E content md5 ->
  rs_oracle_mds E oti content (rx_rep rep c content) toi ->
  rs_mem_need oti (c_tlen c) <= max -> nb_blocks_of oti (c_tlen c) <= 4097 ->
  let blocks := blocks_of_buffer rep raptor_src c content in
  let ps := pkts_of (enc_run (S (S (total_shards blocks))) c [] (est_init blocks)) in
  let (o, cx) := receive E fid files inst toi max (map (to_apkt_rs (c_fec c) toi) ps) in
  r_state o = Completed
  /\ ShapeDone content (toi, 0%nat) toi cx
  /\ forall m, complete_exact content (m, calls_of (toi, 0%nat) (c_log cx)) = true
               /\ P_C01_object m content 1 [(m, calls_of (toi, 0%nat) (c_log cx))] = true
               /\ P_C02_object true content [(m, calls_of (toi, 0%nat) (c_log cx))] = true.
Proof. exact rs_clean_channel_delivered. Qed.
Print Assumptions C01_clean_channel_rs.

(* the same after any genuine packets (source or repair symbols of the sender's encoder) without the close-object
   flag, any order, any duplication: [delivered] is the conclusion above, [wire_pkts_rs] the list
   map (to_apkt_rs (c_fec c) toi) ps above *)
Theorem C01_clean_channel_rs_after_earlier_packets :
  forall rep raptor_src c content oti E toi max fid files inst md5,
  is_rs (c_fec c) = true -> filedesc_accepts c = true -> c_tlen c = lenN content -> 0 < c_tlen c ->
  (1 <= c_window c)%nat -> rep_len_ok rep -> rs_rep_sym_ok rep c content ->
  c_e c < 65536 ->
  oti_matches_rs c oti -> fdt_entry_for files inst toi oti (c_tlen c) md5 ->
  writer_accepts E toi -> writes_succeed E toi -> md5_good E content md5 ->
  rs_oracle_mds E oti content (rx_rep rep c content) toi ->
  rs_mem_need oti (c_tlen c) <= max -> nb_blocks_of oti (c_tlen c) <= 4097 ->
  forall pre, Forall (fun q => rs_genuine_pkt oti content (rx_rep rep c content) q = true) pre ->
              Forall (fun q => a_close_obj q = false) pre ->
  delivered E fid files inst toi max content (pre ++ wire_pkts_rs rep raptor_src c content toi).
Proof. exact rs_prefix_then_transfer_delivered. Qed.
Print Assumptions C01_clean_channel_rs_after_earlier_packets.

(* the Reed-Solomon analogue of C01_sender_nocode_exact: what exactly the sender model puts in each packet
   (P_C08_rs_exact: block of the partition, source block length = k, source symbol = the E-byte slice ZERO-PADDED to E,
   repair symbol esi in k .. k + #shards - 1 = the shard esi - k of the oracle), every source symbol of every block
   present, the close flag on the last packet only iff last transfer, no panic - whatever the build profile *)
Theorem C01_sender_rs_exact : forall rep raptor_src c content,
  is_rs (c_fec c) = true -> 0 < c_tlen c ->
  filedesc_accepts c = true -> c_tlen c = lenN content -> (1 <= c_window c)%nat ->
  let blocks := blocks_of_buffer rep raptor_src c content in
  let outs := enc_run (S (S (total_shards blocks))) c [] (est_init blocks) in
  let ps := pkts_of outs in
  P_C08_rs_exact rep c content ps = true
  /\ (let '(al, as_, nal, n) := block_partitioning (c_b c) (c_tlen c) (c_e c) in
      forall s i, s < n -> i < nominal_syms al as_ nal s -> In (s, i) (map (fun p => (p_sbn p, p_esi p)) ps))
  /\ flags_ok (c_closable c) ps
  /\ no_panic outs.
Proof. exact rs_transfer_exact. Qed.
Print Assumptions C01_sender_rs_exact.

(* sender and receiver agree on the padding of source symbols *)
Theorem C01_rs_source_symbol_is_padded_slice : forall oti content j,
  0 < ro_e oti -> 0 < lenN_ content -> j < div_ceil (lenN_ content) (ro_e oti) ->
  psym oti content j = pad (N.to_nat (ro_e oti)) (sym_slice (ro_e oti) content j).
Proof. exact psym_is_padded_slice. Qed.
Print Assumptions C01_rs_source_symbol_is_padded_slice.

(* any packet list satisfying the exact predicate is mapped by the wire bridge to packets that are genuine for the
   receiver (w.r.t. the receiver-side view of the sender's encoder), with the same (sbn, esi) and close flags *)
Theorem C01_wire_bridge_rs : forall rep c content oti toi al as_ nal n,
  is_rs (c_fec c) = true -> filedesc_accepts c = true -> c_tlen c = lenN content -> 0 < c_tlen c ->
  oti_matches_rs c oti -> rep_len_ok rep ->
  block_partitioning (c_b c) (c_tlen c) (c_e c) = (al, as_, nal, n) ->
  forall ps, P_C08_rs_exact rep c content ps = true ->
  Forall (fun q => rs_genuine_pkt oti content (rx_rep rep c content) q = true) (map (to_apkt_rs (c_fec c) toi) ps)
  /\ map (rs_pid oti) (map (to_apkt_rs (c_fec c) toi) ps) = map (fun p => (p_sbn p, p_esi p)) ps
  /\ map a_close_obj (map (to_apkt_rs (c_fec c) toi) ps) = map p_close ps.
Proof. exact bridge_all_rs. Qed.
Print Assumptions C01_wire_bridge_rs.

(* the premise added with the repair of D47, unfolded; it gives C02's premise rs_rep_sized for the receiver-side view of
   the sender's encoder; the XOR toy encoder satisfies it for every configuration with E >= 2.  As rq_rep_sized for
   RaptorQ, it is what the route through C02_rs_recoverable_delivers asks: on a clean channel every source symbol
   arrives, so an over-long repair symbol would be discarded without harm *)
Theorem C01_rs_rep_sym_ok_statement : forall rep c content oti,
  (rs_rep_sym_ok rep c content <-> forall s x, In x (blk_parity rep c content s) -> lenN x <= c_e c)
  /\ (ro_e oti = c_e c -> rs_rep_sym_ok rep c content -> rs_rep_sized oti (rx_rep rep c content))
  /\ (2 <= c_e c -> rs_rep_sym_ok xor_rep c content).
Proof.
  intros. split; [reflexivity|]. split; [apply rx_rep_sized|apply xor_rep_sym_ok_gen].
Qed.
Print Assumptions C01_rs_rep_sym_ok_statement.

(* non-vacuity with the XOR toy code on both sides (xor_rep: one parity shard = XOR of the padded source symbols;
   decoder xor_dec of Proofs/C02RS.v): the 5-byte object, E = 2, parity 1, two interleaved blocks, debug-profile
   sender; FEC 5 (B = 2) and FEC 129 (B = 1): the packets, their wire image, the delivery computed through enc_run,
   the bridge and receive; genuineness by computation; and the theorem applied (the oracle hypothesis holds for it) *)
Example C01_example_wire_rs :
  map (fun p => (p_sbn p, p_esi p, p_payload p, p_close p, p_k p, p_src p))
      (transfer_pkts xor_rep no_rsrc (exr_cfg RS28 2 true) exr_content)
  = [(0, 0, [1; 2], false, 2, true); (1, 0, [5; 0], false, 1, true); (0, 1, [3; 4], false, 2, true);
     (1, 1, [5; 0], false, 1, false); (0, 2, [2; 6], true, 2, false)]
  /\ map a_pidbytes (wire_pkts_rs xor_rep no_rsrc (exr_cfg RS28 2 true) exr_content 7)
     = [[0; 0; 0; 0]; [0; 0; 1; 0]; [0; 0; 0; 1]; [0; 0; 1; 1]; [0; 0; 0; 2]]
  /\ map a_pidbytes (wire_pkts_rs xor_rep no_rsrc (exr_cfg RS28US 1 false) exr_content 7)
     = [[0; 0; 0; 0; 0; 1; 0; 0]; [0; 0; 0; 1; 0; 1; 0; 0]; [0; 0; 0; 0; 0; 1; 0; 1];
        [0; 0; 0; 1; 0; 1; 0; 1]; [0; 0; 0; 2; 0; 1; 0; 0]; [0; 0; 0; 2; 0; 1; 0; 1]]
  /\ summary 7 (receive env_xor 1 exr_files None 7 1000 (wire_pkts_rs xor_rep no_rsrc (exr_cfg RS28 2 true) exr_content 7))
     = (Completed, [CallOpen true; CallWrite [1; 2; 3; 4] true; CallWrite [5] true; CallComplete])
  /\ summary 7 (receive env_xor 1 exr_files None 7 1000 (wire_pkts_rs xor_rep no_rsrc (exr_cfg RS28 2 false) exr_content 7))
     = (Completed, [CallOpen true; CallWrite [1; 2; 3; 4] true; CallWrite [5] true; CallComplete])
  /\ summary 7 (receive env_xor 1 exu_files None 7 6 (wire_pkts_rs xor_rep no_rsrc (exr_cfg RS28US 1 true) exr_content 7))
     = (Completed, [CallOpen true; CallWrite [1; 2] true; CallWrite [3; 4] true; CallWrite [5] true; CallComplete])
  /\ forallb (rs_genuine_pkt exr_oti exr_content (rx_rep xor_rep (exr_cfg RS28 2 true) exr_content))
             (wire_pkts_rs xor_rep no_rsrc (exr_cfg RS28 2 true) exr_content 7) = true
  /\ forallb (rs_genuine_pkt exu_oti exr_content (rx_rep xor_rep (exr_cfg RS28US 1 true) exr_content))
             (wire_pkts_rs xor_rep no_rsrc (exr_cfg RS28US 1 true) exr_content 7) = true.
Proof. vm_compute. repeat split. Qed.

Example C01_example_rs_by_theorem : forall closable,
  delivered env_xor 1 exr_files None 7 1000 exr_content (wire_pkts_rs xor_rep no_rsrc (exr_cfg RS28 2 closable) exr_content 7)
  /\ delivered env_xor 1 exu_files None 7 6 exr_content (wire_pkts_rs xor_rep no_rsrc (exr_cfg RS28US 1 closable) exr_content 7).
Proof. intros closable. split; [exact (exr_clean_channel_by_theorem closable)|exact (exu_clean_channel_by_theorem closable)]. Qed.

(* the memory premise is rs_mem_need, not the transfer length: FEC 129, 9 bytes, E = 2, B = 2, three interleaved
   blocks, clean channel, emission order: Errored with max_size_allocated = 9, delivered with 10; FEC 5 delivered with 9
   (the receiver accounts k * E per block from the source block length field of the payload id) *)
Example C01_rs129_clean_channel_limit_refuted :
  filedesc_accepts (ex9_cfg RS28US) = true /\ rs_mem_need (ex9_oti FRS28US) 9 = 10
  /\ map (rs_pid (ex9_oti FRS28US)) (wire_pkts_rs xor_rep no_rsrc (ex9_cfg RS28US) ex9_content 7)
     = [(0, 0); (1, 0); (2, 0); (0, 1); (1, 1); (2, 1); (0, 2); (1, 2)]
  /\ summary 7 (receive env_xor 1 (ex9_files FRS28US) None 7 9 (wire_pkts_rs xor_rep no_rsrc (ex9_cfg RS28US) ex9_content 7))
     = (Errored, [CallOpen true; CallError])
  /\ summary 7 (receive env_xor 1 (ex9_files FRS28US) None 7 10 (wire_pkts_rs xor_rep no_rsrc (ex9_cfg RS28US) ex9_content 7))
     = (Completed, [CallOpen true; CallWrite [1; 2; 3; 4] true; CallWrite [5; 6; 7; 8] true; CallWrite [9] true; CallComplete])
  /\ summary 7 (receive env_xor 1 (ex9_files FRS28) None 7 9 (wire_pkts_rs xor_rep no_rsrc (ex9_cfg RS28) ex9_content 7))
     = (Completed, [CallOpen true; CallWrite [1; 2; 3; 4] true; CallWrite [5; 6; 7; 8] true; CallWrite [9] true; CallComplete]).
Proof. exact rs129_clean_channel_limit_refuted. Qed.

(* ---------------- session level, a Reed-Solomon object in a No-Code session ----------------
   As C01_session_clean_channel_nocode, for ONE accepted non-empty object sent with its own Reed-Solomon OTI
   (TransferConfig.oti with FEC 5 or 129, no scheme-specific element); the session OTI stays No-Code, so the FDT instance
   (the document the sender model publishes, in which the File element carries the object's FEC-OTI attributes incl.
   FEC-OTI-Max-Number-of-Encoding-Symbols = B + parity) still travels as one No-Code packet.  [sender_ok_rs],
   [receiver_ok_rs] (rs_mem_need <= max cache; the decoder oracle is MDS for the receiver-side view of the sender's
   encoder), [session_meta_delivered_rs] (the instance [sess_inst_rs]: the entry's OTI is the Reed-Solomon OTI with the
   sender's E, B, parity) are unfolded in C01_session_statements_rs.  [obj_wire_rs] = the wire image of one whole
   transfer (source and repair symbols), with EXT_FTI on every packet or on none.  Conclusion as for No-Code:
   session_delivered, the oracle reads back the instance, and the metadata flute's receiver computes from the parsed
   document (FdtRecv.recv_meta) is what the sender was given - all ten fields, incl. the OTI in use. *)
Theorem C01_session_clean_channel_rs :
  forall rep raptor_src cfg complete now m content E rcfg nowr id sct,
  sender_ok_rs cfg now m content -> doc_fits cfg complete now m -> rep_len_ok rep ->
  rs_rep_sym_ok rep (obj_ecfg_rs cfg m 1 false false) content ->
  receiver_ok_rs rep E rcfg nowr sct cfg now m content ->
  forall (window : nat) (closable debug fti : bool), (1 <= window)%nat ->
  let '(_, r, cx) := recv_run E fdt_oracle rcfg recv0
                       (map (fun p => RvPush p nowr)
                            (sess_fdt_pkt cfg complete now m id sct
                             :: obj_wire_rs rep raptor_src cfg m window closable debug content fti)) ctx0 in
  session_meta_delivered_rs cfg complete now m content rcfg r cx.
Proof. exact rs_session_clean_channel. Qed.
Print Assumptions C01_session_clean_channel_rs.

Theorem C01_session_statements_rs : forall rep cfg complete now m content E rcfg nowr sct r cx,
  (sender_ok_rs cfg now m content <->
   fec_id (c_oti cfg) = 0 /\ oti_wf (c_oti cfg) /\ 0 < max_sbl (c_oti cfg)
   /\ (fec_id (the_oti (c_oti cfg) m) = 5 \/ fec_id (the_oti (c_oti cfg) m) = 129)
   /\ oti_wf (the_oti (c_oti cfg) m) /\ m_cenc m = 0
   /\ filedesc_accepts (mk_ecfg (if fec_id (the_oti (c_oti cfg) m) =? 129 then RS28US else RS28)
                                (esl (the_oti (c_oti cfg) m)) (max_sbl (the_oti (c_oti cfg) m))
                                (parity (the_oti (c_oti cfg) m)) 1 false (FdtInst.m_tlen m) false) = true
   /\ FdtInst.m_tlen m = lenN content /\ 0 < FdtInst.m_tlen m /\ m_toi m <> 0 /\ FdtInst.m_clen m < 18446744073709551616
   /\ time_in_era now /\ spec_expires now (c_dur cfg) < 4294967296 /\ meta_ok cfg now m)
  /\ (obj_roti_rs cfg m = mk_roti (match (if fec_id (the_oti (c_oti cfg) m) =? 129 then RS28US else RS28) with
                                   | RS28US => FRS28US | _ => FRS28 end)
                                  (esl (the_oti (c_oti cfg) m)) (max_sbl (the_oti (c_oti cfg) m))
                                  (parity (the_oti (c_oti cfg) m)) None)
  /\ (receiver_ok_rs rep E rcfg nowr sct cfg now m content <->
      writer_accepts E (m_toi m) /\ writes_succeed E (m_toi m)
      /\ md5_good E content (option_map bytes_of_str (FdtInst.m_md5 m))
      /\ rs_oracle_mds E (obj_roti_rs cfg m) content
           (rx_rep rep (mk_ecfg (if fec_id (the_oti (c_oti cfg) m) =? 129 then RS28US else RS28)
                                (esl (the_oti (c_oti cfg) m)) (max_sbl (the_oti (c_oti cfg) m))
                                (parity (the_oti (c_oti cfg) m)) 1 false (FdtInst.m_tlen m) false) content) (m_toi m)
      /\ rs_mem_need (obj_roti_rs cfg m) (lenN_ content) <= cf_max_cache rcfg
      /\ nb_blocks_of (obj_roti_rs cfg m) (lenN_ content) <= 4097
      /\ (cf_exp_check rcfg = false
          \/ (match sct with Some t => t | None => nowr end
              <= Z.of_N ((spec_expires now (c_dur cfg) - 2208988800) * 1000000) * 1000)%Z))
  /\ (session_meta_delivered_rs cfg complete now m content rcfg r cx <->
      session_delivered rcfg (sess_inst_rs cfg now m) content (m_toi m) r cx
      /\ Xml.parse_fdt (str_of_bytes (fdt_doc cfg complete now m)) = Some (get_fdt_instance cfg complete now [m])
      /\ fdt_oracle (fdt_doc cfg complete now m) = Some (sess_inst_rs cfg now m)
      /\ exists rm,
           recv_meta b64_decode (get_fdt_instance cfg complete now [m]) (to_file_xml (used_oti cfg m) m now) = MOk rm
           /\ P_C10_meta cfg false now m rm = true
           /\ ometa_of_rmeta rm = ometa_given cfg now m
           /\ P_C01_object (ometa_given cfg now m) content 1
                           [(ometa_of_rmeta rm, calls_of (m_toi m, 0%nat) (c_log cx))] = true).
Proof. exact rs_session_statements. Qed.
Print Assumptions C01_session_statements_rs.

(* non-vacuity: the session of C01_session_example (No-Code session OTI E = 1400 B = 64, real XML bytes), the 5-byte
   object as TOI 7 with its own OTI FEC 5, E = 2, B = 2, parity 1, XOR toy code on both sides, MD5 check on: the
   document fits, the oracle parses it to [sess_inst_rs] whose entry OTI is the receiver's exr_oti, FDT packet + the
   five packets (3 source, 2 repair) of the transfer, last transfer without EXT_FTI / carousel with EXT_FTI: every
   packet accepted, TOI 7 in rv_completed, the log is the delivery; and by the theorem *)
Example C01_session_example_rs :
  (lenN_ exsr_doc <=? 1400) = true
  /\ fdt_oracle exsr_doc = Some (sess_inst_rs exs_cfg exs_now exsr_m)
  /\ obj_roti_rs exs_cfg exsr_m = exr_oti
  /\ map (rs_pid exr_oti) (exsr_wire false false) = [(0, 0); (1, 0); (0, 1); (1, 1); (0, 2)]
  /\ exsr_run (exsr_pf :: exsr_wire true false) = ([POk; POk; POk; POk; POk; POk], [], [7], [], exs_log)
  /\ exsr_run (exsr_pf :: exsr_wire false true) = ([POk; POk; POk; POk; POk; POk], [], [7], [], exs_log).
Proof. vm_compute. repeat split. Qed.

Example C01_session_example_rs_by_theorem : forall closable fti,
  let '(_, r, cx) := recv_run exsr_env fdt_oracle exs_rcfg recv0
                       (map (fun p => RvPush p exs_nowr)
                            (sess_fdt_pkt exs_cfg false exs_now exsr_m 1 exs_sct
                             :: obj_wire_rs xor_rep no_rsrc exs_cfg exsr_m 2 closable true exr_content fti)) ctx0 in
  session_meta_delivered_rs exs_cfg false exs_now exsr_m exr_content exs_rcfg r cx.
Proof. exact exsr_by_theorem. Qed.
(* ===== end block: C01RS ===== *)

From FluteV Require Import Model.Recv Proofs.C02MultiObj.
(* ===== block: C02MultiObj ===== *)
(* CLEAN CHANNEL, SEVERAL OBJECTS (Proofs/C02MultiObj.v).  One FDT instance (one packet of TOI 0: fdt_pkt_ok, parsed by
   the oracle to [inst]) announces m No-Code objects with pairwise distinct non-zero TOIs.  Each object [o] is what
   C01_clean_channel_nocode sends ([tx_obj_ok], unfolded in C01_multi_statements: a configuration FileDesc::new
   accepts, No-Code, any window >= 1, last transfer or not, E < 2^16; the instance carries its entry; the builder
   stores it, open and writes succeed, MD5 absent or matching, memory and block-window limits), and [to_wire o] is the
   wire image of ONE uninterrupted transfer of it by the sender model (wire_pkts).  The packets of the m transfers
   reach the receiver interleaved in ANY way ([Merge]; the sender's multiplexing of its file list is one such
   interleaving; no loss, no duplication, each transfer in order).  Then EVERY object is delivered: multi_delivered
   (C02_multi_delivered_statement: writer (toi,0) got open . writes = content . complete, receive-once bookkeeping per
   TOI) and the executable C01 predicate holds for its writer with one completed copy.
   Rests on the isolation theorem C02_isolation: an object's packets change nothing another object delivers.
   Not covered: the FDT instance after some of the object packets, an FDT instance of several packets, metadata of
   the several-object FDT document (C10 / C01_session_clean_channel_nocode do it for one File element). *)
Theorem C01_clean_channel_several_objects : forall rep raptor_src E parse_fdt rcfg now pf id foti d inst objs pkts,
  fdt_pkt_ok pf id foti d -> parse_fdt d = Some inst -> fdt_live rcfg inst pf now ->
  NoDup (map to_toi objs) -> Forall (tx_obj_ok E rcfg inst) objs ->
  Merge (map (to_wire rep raptor_src) objs) pkts ->
  let '(_, r, c) := recv_run E parse_fdt rcfg recv0 (map (fun p => RvPush p now) (pf :: pkts)) ctx0 in
  Forall (fun o => multi_delivered rcfg inst (to_content o) (to_toi o) r c
                   /\ forall m, P_C01_object m (to_content o) 1 [(m, calls_of (to_toi o, 0%nat) (c_log c))] = true) objs.
Proof. exact clean_channel_multi_delivers. Qed.
Print Assumptions C01_clean_channel_several_objects.

Theorem C01_multi_statements : forall E rcfg inst o,
  (tx_obj_ok E rcfg inst o <->
   let c := to_c o in
   BlockEnc.c_fec c = NoCode /\ filedesc_accepts c = true /\ BlockEnc.c_tlen c = lenN (to_content o) /\ 0 < BlockEnc.c_tlen c
   /\ (1 <= BlockEnc.c_window c)%nat /\ BlockEnc.c_e c < 65536 /\ C01Full.oti_matches c (to_oti o) /\ to_toi o <> 0
   /\ fdt_entry_for (fi_files inst) (fi_oti inst) (to_toi o) (to_oti o) (BlockEnc.c_tlen c) (to_md5 o)
   /\ writer_accepts E (to_toi o) /\ writes_succeed E (to_toi o) /\ md5_good E (to_content o) (to_md5 o)
   /\ BlockEnc.c_tlen c <= cf_max_cache rcfg /\ nb_blocks_of (to_oti o) (BlockEnc.c_tlen c) <= 4097).
Proof. exact tx_obj_statement. Qed.
Print Assumptions C01_multi_statements.

(* non-vacuity: the 5-byte object of C01_example_wire as TOI 7 (two interleaved blocks, last transfer) and a 3-byte
   object as TOI 9, each put on the wire by the sender model, multiplexed packet by packet behind the FDT packet:
   every packet accepted, both TOIs in rv_completed, each writer got its object; and the same by the theorem *)
Example C01_two_objects_example :
  map (fun q => (a_toi q, pid_of q, a_payload q, a_close_obj q)) tc_pkts
  = [(7, (0, 0), [1; 2], false); (9, (0, 0), [10; 20], false); (7, (1, 0), [5], false); (9, (0, 1), [30], true);
     (7, (0, 1), [3; 4], true)]
  /\ sess tm_parse (tx_cfg true false) (tx_fdt None :: tc_pkts)
     = ([POk; POk; POk; POk; POk; POk], [], [9; 7], [],
        [EvBuilder 7 WStore; EvOpen (7, 0%nat) true; EvBuilder 9 WStore; EvOpen (9, 0%nat) true;
         EvWrite (9, 0%nat) [10; 20; 30] true; EvComplete (9, 0%nat);
         EvWrite (7, 0%nat) [1; 2; 3; 4] true; EvWrite (7, 0%nat) [5] true; EvComplete (7, 0%nat)]).
Proof. exact (conj tc_wire tc_session_computed). Qed.

Example C01_two_objects_by_theorem :
  let '(_, r, c) := recv_run env_ok tm_parse (tx_cfg true false) recv0 (map (fun p => RvPush p 100%Z) (tx_fdt None :: tc_pkts)) ctx0 in
  multi_delivered (tx_cfg true false) tm_inst ex_content 7 r c
  /\ multi_delivered (tx_cfg true false) tm_inst tm_content9 9 r c.
Proof. exact tc_session_by_theorem. Qed.
(* ===== end block: C02MultiObj ===== *)

From FluteV Require Import Proofs.C01Transfers.
(* ===== block: C01Transfers ===== *)
(* "EXACTLY ONE COPY (ONE PER TRANSFER WHEN RECEIVE-ONCE IS DISABLED)" - Proofs/C01Transfers.v, receiver model (Model/Recv.v).
   The session: one FDT packet (TOI 0, a whole live instance whose entry for the object is what C02_session_fdt_first_delivers
   asks: GoodFdtPkt, unfolded in C01_transfers_vocabulary), then ANY alternation [items] of
   - whole transfers of the No-Code object by the sender model (IXfer: wire_pkts of an accepted configuration, any window >= 1,
     close-object flag on the last packet or not, either build profile - so in particular m consecutive transfers with the
     flag on the last one only), and
   - FDT packets (IFdt: duplicates of the instance, or NEWER instance ids, each listing the object with the same entry and the
     same cache directive), before, between and after the transfers.
   m = nxfers items.  The environment accepts the writers (toi,k) it is asked for (builder stores, open and writes succeed),
   MD5 absent or matching, L <= max cache, <= 4097 blocks.
   WHAT THE MODEL DOES, EXACTLY (C01_transfers_exact_copies): every packet is accepted and the WHOLE log of the run is [XLog cnt]:
   cnt deliveries in a row - builder, open (toi,k), writes whose bytes are the content, complete (toi,k) for k = 0 .. cnt-1 -
   and nothing else, where  cnt = copies cfg nc m = (if cf_once && not no-cache then min 1 m else m);
   the object map and the error list are empty at the end.  Hence (C01_transfers_log_statement): writer (toi,j) got
   open . writes = content . complete for j < cnt, NO writer (toi,j) exists for j >= cnt, P_C01_object with cnt copies.
   - receive-once, cacheable object (C01_transfers_receive_once): exactly ONE writer (toi,0), however many transfers and FDT
     packets follow; no writer (toi,n), n >= 1, is ever opened.
   - receive-once disabled (C01_transfers_one_per_transfer): exactly m writers (toi,0) .. (toi,m-1), each a byte-exact copy,
     none beyond - with or without FDT packets between the transfers, with or without the close flag, whatever the cache
     directive.  Mechanism: the first packet of a transfer is the source symbol (0,0) (C01_wire_transfer_shape, proved of the
     sender model), which removes the TOI from rv_completed and re-creates the object.
   THE STATEMENT "EXACTLY ONE COPY" IS FALSE OF THE MODEL in two configurations with receive-once ENABLED:
   - Cache-Control: no-cache on the object: rv_completed never lists it (check_object_state), every transfer is delivered
     again by a new writer: cnt = m  [C01_once_nocache_refuted: 3 transfers, 3 copies]; the theorem covers it (nc = true);
   - a newer FDT instance that does NOT list the object between two transfers: gc_object_completed forgets the TOI, the older
     instance still in fdt_current is attached to the re-created object: second copy
     [C01_once_newer_instance_without_object_refuted]; excluded by GoodFdtPkt (every FDT packet lists the object).
   "ONE PER TRANSFER" (receive-once disabled, cacheable) needs each transfer to BEGIN with symbol (0,0): the same packets in
   another order leave a writer open and an object in the map [C01_restart_needs_first_symbol_refuted]; the sender model
   always begins with it.  Not needed when receive-once is on or the object is no-cache.
   Receiver-level generalisation (C01_transfers_exact_copies_receiver): the transfers are ANY packet lists of the TOI that are
   genuine, carry the close flag only where the object is recoverable, contain every source symbol and no payload id twice
   (any order - plus "first packet = symbol (0,0)" in the one configuration above).  Key lemma: the object cannot complete
   before every source symbol was pushed (black box: flip a byte of the missing symbol; the same packets are genuine for
   the other content and the log cannot spell both).
   Not covered: an FDT packet in the MIDDLE of a transfer, transfers of several objects interleaved, other FEC schemes. *)
Theorem C01_transfers_exact_copies : forall rep rsrc E parse_fdt cfg oti content toi md5 nc now pf0 items,
  let L := lenN_ content in
  nocode_ok oti L -> toi <> 0 ->
  GoodFdtPkt cfg oti content toi md5 now nc parse_fdt pf0 ->
  Forall (sender_item_ok rep rsrc cfg parse_fdt oti content toi md5 nc now) items ->
  let cnt := copies cfg nc (nxfers items) in
  (forall k, (k < cnt)%nat ->
     e_builder E toi k = WStore /\ e_open_ok E (toi, k) = true /\ forall i, e_write_ok E (toi, k) i = true) ->
  md5_good E content md5 -> L <= cf_max_cache cfg -> nb_blocks_of oti L <= 4097 ->
  let '(xs, r, c) := recv_run E parse_fdt cfg recv0 (map (fun p => RvPush p now) (pf0 :: flatten items)) ctx0 in
  Forall (fun x => x = POk) xs
  /\ XLog content toi cnt (c_log c)
  /\ rv_objects r = [] /\ rv_error r = [] /\ rv_completed r = (if nc then [] else if Nat.eqb cnt 0 then [] else [toi]).
Proof. exact transfers_sender_exact. Qed.
Print Assumptions C01_transfers_exact_copies.

Theorem C01_transfers_exact_copies_receiver : forall E parse_fdt cfg oti content toi md5 nc now pf0 items,
  let L := lenN_ content in
  nocode_ok oti L -> toi <> 0 ->
  GoodFdtPkt cfg oti content toi md5 now nc parse_fdt pf0 ->
  Forall (item_wire_ok cfg parse_fdt oti content toi md5 nc now) items ->
  let cnt := copies cfg nc (nxfers items) in
  (forall k, (k < cnt)%nat ->
     e_builder E toi k = WStore /\ e_open_ok E (toi, k) = true /\ forall i, e_write_ok E (toi, k) i = true) ->
  md5_good E content md5 -> L <= cf_max_cache cfg -> nb_blocks_of oti L <= 4097 ->
  let '(xs, r, c) := recv_run E parse_fdt cfg recv0 (map (fun p => RvPush p now) (pf0 :: flatten items)) ctx0 in
  Forall (fun x => x = POk) xs
  /\ XLog content toi cnt (c_log c)
  /\ rv_objects r = [] /\ rv_error r = [] /\ rv_completed r = (if nc then [] else if Nat.eqb cnt 0 then [] else [toi]).
Proof. exact transfers_exact. Qed.
Print Assumptions C01_transfers_exact_copies_receiver.

Theorem C01_transfers_log_statement : forall content toi m l, XLog content toi m l ->
  (forall j, (j < m)%nat -> delivered_calls content (calls_of (toi, j) l)
                            /\ forall mt, complete_exact content (mt, calls_of (toi, j) l) = true)
  /\ (forall j, (m <= j)%nat -> calls_of (toi, j) l = [])
  /\ (forall t j, t <> toi -> calls_of (t, j) l = [])
  /\ (forall mt, P_C01_object mt content (N.of_nat m) (map (fun j => (mt, calls_of (toi, j) l)) (seq 0 m)) = true)
  /\ (m = 1%nat -> ShapeDone content (toi, 0%nat) toi (mk_ctx [] [] l false)).
Proof. exact xlog_statement. Qed.
Print Assumptions C01_transfers_log_statement.

Theorem C01_transfers_receive_once : forall rep rsrc E parse_fdt cfg oti content toi md5 now pf0 items,
  let L := lenN_ content in
  nocode_ok oti L -> toi <> 0 -> cf_once cfg = true -> (1 <= nxfers items)%nat ->
  GoodFdtPkt cfg oti content toi md5 now false parse_fdt pf0 ->
  Forall (sender_item_ok rep rsrc cfg parse_fdt oti content toi md5 false now) items ->
  e_builder E toi 0 = WStore -> e_open_ok E (toi, 0%nat) = true -> (forall i, e_write_ok E (toi, 0%nat) i = true) ->
  md5_good E content md5 -> L <= cf_max_cache cfg -> nb_blocks_of oti L <= 4097 ->
  let '(xs, r, c) := recv_run E parse_fdt cfg recv0 (map (fun p => RvPush p now) (pf0 :: flatten items)) ctx0 in
  Forall (fun x => x = POk) xs
  /\ ShapeDone content (toi, 0%nat) toi (mk_ctx [] [] (c_log c) false)
  /\ delivered_calls content (calls_of (toi, 0%nat) (c_log c))
  /\ (forall j, (1 <= j)%nat -> calls_of (toi, j) (c_log c) = [])
  /\ (forall mt, P_C01_object mt content 1 [(mt, calls_of (toi, 0%nat) (c_log c))] = true)
  /\ rv_objects r = [] /\ rv_error r = [] /\ rv_completed r = [toi].
Proof. exact transfers_once. Qed.
Print Assumptions C01_transfers_receive_once.

Theorem C01_transfers_one_per_transfer : forall rep rsrc E parse_fdt cfg oti content toi md5 nc now pf0 items,
  let L := lenN_ content in
  let m := nxfers items in
  nocode_ok oti L -> toi <> 0 -> cf_once cfg = false ->
  GoodFdtPkt cfg oti content toi md5 now nc parse_fdt pf0 ->
  Forall (sender_item_ok rep rsrc cfg parse_fdt oti content toi md5 nc now) items ->
  (forall k, (k < m)%nat ->
     e_builder E toi k = WStore /\ e_open_ok E (toi, k) = true /\ forall i, e_write_ok E (toi, k) i = true) ->
  md5_good E content md5 -> L <= cf_max_cache cfg -> nb_blocks_of oti L <= 4097 ->
  let '(xs, r, c) := recv_run E parse_fdt cfg recv0 (map (fun p => RvPush p now) (pf0 :: flatten items)) ctx0 in
  Forall (fun x => x = POk) xs
  /\ XLog content toi m (c_log c)
  /\ (forall j, (j < m)%nat -> delivered_calls content (calls_of (toi, j) (c_log c)))
  /\ (forall j, (m <= j)%nat -> calls_of (toi, j) (c_log c) = [])
  /\ (forall mt, P_C01_object mt content (N.of_nat m) (map (fun j => (mt, calls_of (toi, j) (c_log c))) (seq 0 m)) = true)
  /\ rv_objects r = [] /\ rv_error r = [].
Proof. exact transfers_each. Qed.
Print Assumptions C01_transfers_one_per_transfer.

(* what one uninterrupted transfer of the sender model looks like to the receiver: packets of the TOI, genuine, the close
   flag only where the object is recoverable, every source symbol, no payload id twice - and the FIRST packet is the source
   symbol (0,0) (is_first_symbol, what push_obj tests to restart a completed object) *)
Theorem C01_wire_transfer_shape : forall rep rsrc c content oti toi,
  BlockEnc.c_fec c = NoCode -> filedesc_accepts c = true -> BlockEnc.c_tlen c = lenN content -> 0 < BlockEnc.c_tlen c ->
  (1 <= BlockEnc.c_window c)%nat -> C01Full.oti_matches c oti ->
  xfer_wire_ok oti content toi (wire_pkts rep rsrc c content toi) /\ starts_first (wire_pkts rep rsrc c content toi).
Proof. exact wire_transfer_ok. Qed.
Print Assumptions C01_wire_transfer_shape.

(* the vocabulary, unfolded once *)
Theorem C01_transfers_vocabulary : forall rep rsrc cfg parse_fdt oti content toi md5 nc now pf T m k l,
  (GoodFdtPkt cfg oti content toi md5 now nc parse_fdt pf <->
   exists id foti d inst f,
     fdt_pkt_ok pf id foti d /\ parse_fdt d = Some inst /\ fdt_live cfg inst pf now
     /\ find (fun f => ff_toi f =? toi) (fi_files inst) = Some f /\ ff_cenc f = CNull
     /\ match ff_oti f with Some x => Some x | None => fi_oti inst end = Some oti
     /\ ff_tlen f = lenN_ content /\ ff_md5 f = md5 /\ ff_nocache f = nc)
  /\ (sender_item_ok rep rsrc cfg parse_fdt oti content toi md5 nc now (IXfer T) <->
      exists c, BlockEnc.c_fec c = NoCode /\ filedesc_accepts c = true /\ BlockEnc.c_tlen c = lenN content /\ 0 < BlockEnc.c_tlen c
                /\ (1 <= BlockEnc.c_window c)%nat /\ C01Full.oti_matches c oti /\ T = wire_pkts rep rsrc c content toi)
  /\ (sender_item_ok rep rsrc cfg parse_fdt oti content toi md5 nc now (IFdt pf) <->
      GoodFdtPkt cfg oti content toi md5 now nc parse_fdt pf)
  /\ (item_wire_ok cfg parse_fdt oti content toi md5 nc now (IXfer T) <->
      (Forall (fun p => a_toi p = toi) T /\ Forall (fun p => genuine_pkt oti content p = true) T
       /\ close_flag_ok oti (lenN_ content) T /\ recoverable oti (lenN_ content) T = true /\ NoDup (map pid_of T))
      /\ (cf_once cfg = false -> nc = false ->
          match T with p :: _ => is_first_symbol p = Some true | [] => False end))
  /\ copies cfg nc m = (if cf_once cfg && negb nc then Nat.min 1 m else m)
  /\ (XLog content toi 0 l <-> l = [])
  /\ (XLog content toi (S k) l <->
      exists l0 evs, l = l0 ++ [EvBuilder toi WStore; EvOpen (toi, k) true] ++ evs ++ [EvComplete (toi, k)]
                     /\ XLog content toi k l0 /\ forallb (is_write (toi, k)) evs = true /\ wdata evs = content).
Proof. exact transfers_vocabulary. Qed.
Print Assumptions C01_transfers_vocabulary.

(* object level: once complete() has run, any further packet leaves the object and the log unchanged *)
Theorem C01_completed_object_ignores_packets : forall E o c p,
  or_push E p (fst (complete o c)) (snd (complete o c)) = complete o c.
Proof. exact after_complete_ignores. Qed.
Print Assumptions C01_completed_object_ignores_packets.

(* non-vacuity, m = 3: the toy session of C02 (document "<>", instance listing TOI 7 = the 5-byte object, E = 2, B = 2), three
   transfers by the sender model (two interleaved blocks, debug profile; the last one with the close flag), the FDT packet
   re-sent between and after them (instance id 1 again, and a newer id 2): 14 packets, all accepted.
   receive-once: the log is ONE delivery by writer (7,0); receive-once disabled: three deliveries (7,0) (7,1) (7,2),
   also for a no-cache object *)
Example C01_three_transfers_computed :
  map (fun q => (pid_of q, a_close_obj q)) (x3_T true) = [((0, 0), false); ((1, 0), false); ((0, 1), true)]
  /\ sess (tx_parse false None) (tx_cfg true false) (tx_fdt None :: flatten x3_items) = (repeat POk 14, [], [7], [], copy_log 0)
  /\ sess (tx_parse false None) (tx_cfg false false) (tx_fdt None :: flatten x3_items)
     = (repeat POk 14, [], [7], [], copy_log 0 ++ copy_log 1 ++ copy_log 2)
  /\ sess (tx_parse true None) (tx_cfg false false) (tx_fdt None :: flatten x3_items)
     = (repeat POk 14, [], [], [], copy_log 0 ++ copy_log 1 ++ copy_log 2).
Proof. vm_compute. repeat split. Qed.

(* the same session by the theorem, both settings of receive-once and of the cache directive *)
Example C01_three_transfers_by_theorem : forall once nc,
  let '(xs, r, c) := recv_run env_ok (tx_parse nc None) (tx_cfg once false) recv0
                       (map (fun p => RvPush p 100%Z) (tx_fdt None :: flatten x3_items)) ctx0 in
  Forall (fun x => x = POk) xs
  /\ XLog ex_content 7 (if once && negb nc then 1 else 3)%nat (c_log c)
  /\ rv_objects r = [] /\ rv_error r = [] /\ rv_completed r = (if nc then [] else [7]).
Proof. exact x3_by_theorem. Qed.

(* REFUTED: "exactly one copy" with receive-once ENABLED, object announced with Cache-Control: no-cache: three copies *)
Example C01_once_nocache_refuted :
  sess (tx_parse true None) (tx_cfg true false) (tx_fdt None :: flatten x3_items)
  = (repeat POk 14, [], [], [], copy_log 0 ++ copy_log 1 ++ copy_log 2).
Proof. vm_compute; reflexivity. Qed.

(* REFUTED: "exactly one copy" with receive-once ENABLED when a newer FDT instance (id 2) that does not list TOI 7 arrives
   between two transfers: two copies; without it: one *)
Example C01_once_newer_instance_without_object_refuted :
  sess x3_parse2 (tx_cfg true false) (tx_fdt None :: x3_T false ++ [x3_fdt2] ++ x3_T false)
  = (repeat POk 8, [], [7], [], copy_log 0 ++ copy_log 1)
  /\ sess x3_parse2 (tx_cfg true false) (tx_fdt None :: x3_T false ++ x3_T false) = (repeat POk 7, [], [7], [], copy_log 0).
Proof. vm_compute; split; reflexivity. Qed.

(* REFUTED: "one per transfer" (receive-once disabled, cacheable object) when the transfers do not begin with symbol (0,0): the
   three packets in the order (1,0) (0,0) (0,1), three times: two completed copies, a third writer left open, TOI 7 still in
   the object map *)
Example C01_restart_needs_first_symbol_refuted :
  map pid_of x3_perm = [(1, 0); (0, 0); (0, 1)]
  /\ sess (tx_parse false None) (tx_cfg false false) (tx_fdt None :: x3_perm ++ x3_perm ++ x3_perm)
     = (repeat POk 10, [7], [], [],
        copy_log 0 ++ copy_log 1 ++ [EvBuilder 7 WStore; EvOpen (7, 2%nat) true; EvWrite (7, 2%nat) [1; 2; 3; 4] true]).
Proof. vm_compute; split; reflexivity. Qed.
(* ===== end block: C01Transfers ===== *)

From FluteV Require Import Proofs.C01FQ.
(* ===== block: C01FQ ===== *)
(* ---------------- RaptorQ (FEC 6) and Raptor (FEC 1), Proofs/C01FQ.v ----------------
   The clean-channel theorems above, PROVED for the two schemes whose decoder AND encoder are oracles of the models.
   Sender: any configuration FileDesc::new accepts with FEC 6 or 1 (is_fq), any window >= 1, any non-empty buffer content of
   the announced length, either build profile, last transfer or not.  The encoding symbols of source block s are [blk_syms]:
   RaptorQ - the E-byte chunks of the block, the last one ZERO-PADDED to E (fec/raptorq.rs), then the repair symbols of the
   oracle [rep]; Raptor - the source symbols the oracle [raptor_src] cuts, then the repair symbols of [rep].
   [rx_enc rep raptor_src c content s i] = symbol number i of that list = THE RECEIVER-SIDE VIEW OF THE SENDER'S ENCODER:
   it instantiates the universally quantified [enc] of C02_fq_recoverable_delivers, so the decoder hypotheses
   fq_oracle_sound / fq_oracle_complete are taken for exactly the symbols the sender model emits.
   Premises on the encoder oracles (all needed, all satisfiable - examples below):
   - rep_len_ok: at most [parity] repair symbols per block (C08_transfer_full has it with equality);
   - rq_rep_sized (RaptorQ): the repair symbols have E bytes; needed only for fq_sized_pkt (C02's premise): a short repair
     symbol is discarded by the block decoder and the object is delivered all the same  [C01_rq_rep_sized_refuted];
   - raptor_src_ok (Raptor): for every block of the object the raptor-code encoder accepts the block and cuts it into k
     symbols that add up to the block  [C01_raptor_src_ok_refuted: a refusing encoder sends nothing; one symbol instead
     of k: source ESIs missing, object Interrupted; fatter symbols: the close flag in the MIDDLE of the transfer].
     Both the E-byte chunks (premise of C08_transfer_full) and the semi-equal pieces the crate really cuts (finding D30)
     satisfy it: D30 does NOT matter for C01 - the payloads are not the E-byte slices, but sender and receiver agree
     because both sides use the crate  [C01_example_D30_class_delivered: known_D30 = true, P_C08_transfer = false, delivered];
   - rp_syms_sized (Raptor; new with the repair of D47: BlockDecoder::push discards a symbol longer than E): every encoding
     symbol of every block - the source symbols the crate cuts (at most ceil(block length / k) <= E bytes) and its repair
     symbols - has at most E bytes; needed only for fq_sized_pkt (C02's premise, which now asks a Raptor payload to have
     at most E bytes): a longer repair symbol is discarded and the object is delivered all the same by its source symbols
     [C01_rp_syms_sized_refuted];
   That every ESI fits the ESI field of the payload id (fq_esi_fits: al + parity <= 2^24 for RaptorQ, 2^16 for Raptor) is no
   longer a premise: since the fix D46 it follows from filedesc_accepts (C01_accepts_esi_fits_fq below; before the fix
   configurations with 2^24 - k / 2^16 - k or more repair symbols per block were accepted and the repair ESIs wrapped onto
   the source ESIs - replayed on the Rust sender, the analogue of D39 -, see C01_fq_esi_wrap_now_refused).
   Wire bridge [to_apkt_fq]: FEC 6: ((sbn & 0xFF) << 24) | (esi & 0xFFFFFF), codepoint 6 (alcraptorq.rs); FEC 1:
   ((sbn & 0xFFFF) << 16) | (esi & 0xFFFF), codepoint 1 (alcraptor.rs); B flag = close flag; no EXT_FTI.
   Receiver: a fresh object receiver with the FDT entry attached, whose OTI carries the sender's scheme, E, B
   (oti_matches_fq) and scheme-specific information the decoder accepts (fq_blocks_ok, C02); decoder hypotheses as in C02;
   L <= max_size_allocated; at most 4097 blocks; E < 2^16; the other environment premises of the No-Code theorem.
   Conclusion: as for No-Code / Reed-Solomon. *)
Theorem C01_clean_channel_fq :
  forall rep raptor_src c content oti E toi max fid files inst md5,
  is_fq (c_fec c) = true -> filedesc_accepts c = true -> c_tlen c = lenN content -> 0 < c_tlen c ->
  (1 <= c_window c)%nat ->
  rep_len_ok rep -> rq_rep_sized rep c content -> raptor_src_ok raptor_src c content ->
  rp_syms_sized rep raptor_src c content ->
  c_e c < 65536 ->
  oti_matches_fq c oti -> fq_blocks_ok oti (c_tlen c) -> fdt_entry_for files inst toi oti (c_tlen c) md5 ->
  writer_accepts E toi -> writes_succeed E toi -> md5_good E content md5 ->
  fq_oracle_sound E oti content (rx_enc rep raptor_src c content) toi ->
  fq_oracle_complete E oti content (rx_enc rep raptor_src c content) toi ->
  c_tlen c <= max -> nb_blocks_of oti (c_tlen c) <= 4097 ->
  let blocks := blocks_of_buffer rep raptor_src c content in
  let ps := pkts_of (enc_run (S (S (total_shards blocks))) c [] (est_init blocks)) in
  let (o, cx) := receive E fid files inst toi max (map (to_apkt_fq (c_fec c) toi) ps) in
  r_state o = Completed
  /\ ShapeDone content (toi, 0%nat) toi cx
  /\ forall m, complete_exact content (m, calls_of (toi, 0%nat) (c_log cx)) = true
               /\ P_C01_object m content 1 [(m, calls_of (toi, 0%nat) (c_log cx))] = true
               /\ P_C02_object true content [(m, calls_of (toi, 0%nat) (c_log cx))] = true.
Proof. exact fq_clean_channel_delivered. Qed.
Print Assumptions C01_clean_channel_fq.

(* the same after any genuine, well-sized packets (source or repair symbols of the sender's encoder) without the
   close-object flag, any order, any duplication: [delivered] is the conclusion above, [wire_pkts_fq] the list
   map (to_apkt_fq (c_fec c) toi) ps above *)
Theorem C01_clean_channel_fq_after_earlier_packets :
  forall rep raptor_src c content oti E toi max fid files inst md5,
  is_fq (c_fec c) = true -> filedesc_accepts c = true -> c_tlen c = lenN content -> 0 < c_tlen c ->
  (1 <= c_window c)%nat ->
  rep_len_ok rep -> rq_rep_sized rep c content -> raptor_src_ok raptor_src c content ->
  rp_syms_sized rep raptor_src c content ->
  c_e c < 65536 ->
  oti_matches_fq c oti -> fq_blocks_ok oti (c_tlen c) -> fdt_entry_for files inst toi oti (c_tlen c) md5 ->
  writer_accepts E toi -> writes_succeed E toi -> md5_good E content md5 ->
  fq_oracle_sound E oti content (rx_enc rep raptor_src c content) toi ->
  fq_oracle_complete E oti content (rx_enc rep raptor_src c content) toi ->
  c_tlen c <= max -> nb_blocks_of oti (c_tlen c) <= 4097 ->
  forall pre, Forall (fun q => fq_genuine_pkt oti content (rx_enc rep raptor_src c content) q = true) pre ->
              Forall (fun q => fq_sized_pkt oti q = true) pre ->
              Forall (fun q => a_close_obj q = false) pre ->
  delivered E fid files inst toi max content (pre ++ wire_pkts_fq rep raptor_src c content toi).
Proof. exact fq_prefix_then_transfer_delivered. Qed.
Print Assumptions C01_clean_channel_fq_after_earlier_packets.

(* G1, THE SENDER-SIDE BRIDGE.  (a) what exactly the sender model puts in each packet (P_C08_fq_exact: block of the
   partition, source block length = k, ESI below the number of encoding symbols of the block, payload = that encoding
   symbol), every block has its k source symbols, every source ESI of every block is sent, the close flag on the last
   packet only iff last transfer, no panic - whatever the build profile *)
Theorem C01_sender_fq_exact : forall rep raptor_src c content,
  is_fq (c_fec c) = true -> 0 < c_tlen c ->
  filedesc_accepts c = true -> c_tlen c = lenN content -> (1 <= c_window c)%nat ->
  raptor_src_ok raptor_src c content ->
  let blocks := blocks_of_buffer rep raptor_src c content in
  let outs := enc_run (S (S (total_shards blocks))) c [] (est_init blocks) in
  let ps := pkts_of outs in
  P_C08_fq_exact rep raptor_src c content ps = true
  /\ (let '(al, as_, nal, n) := block_partitioning (c_b c) (c_tlen c) (c_e c) in
      (forall s, s < n -> exists src, fq_src_syms raptor_src c (blk_buf c content s) (nominal_syms al as_ nal s) = Some src
                                      /\ lenN src = nominal_syms al as_ nal s)
      /\ forall s i, s < n -> i < nominal_syms al as_ nal s -> In (s, i) (map (fun p => (p_sbn p, p_esi p)) ps))
  /\ flags_ok (c_closable c) ps
  /\ no_panic outs.
Proof. exact fq_transfer_exact. Qed.
Print Assumptions C01_sender_fq_exact.

(* (b) on the wire: every packet of the transfer is genuine for the receiver (fq_genuine_pkt w.r.t. rx_enc) and well
   sized (fq_sized_pkt), keeps its (sbn, esi); every packet list containing the transfer is recoverable (fq_recoverable:
   every source symbol of every block); the close-object flag is on the last packet only, iff last transfer *)
Theorem C01_wire_bridge_fq : forall rep raptor_src c content oti toi,
  is_fq (c_fec c) = true -> filedesc_accepts c = true -> c_tlen c = lenN content -> 0 < c_tlen c ->
  (1 <= c_window c)%nat ->
  rep_len_ok rep -> rq_rep_sized rep c content -> raptor_src_ok raptor_src c content ->
  rp_syms_sized rep raptor_src c content ->
  oti_matches_fq c oti ->
  Forall (fun q => fq_genuine_pkt oti content (rx_enc rep raptor_src c content) q = true) (wire_pkts_fq rep raptor_src c content toi)
  /\ Forall (fun q => fq_sized_pkt oti q = true) (wire_pkts_fq rep raptor_src c content toi)
  /\ map (rs_pid oti) (wire_pkts_fq rep raptor_src c content toi)
     = map (fun p => (p_sbn p, p_esi p)) (transfer_pkts rep raptor_src c content)
  /\ (forall l, incl (wire_pkts_fq rep raptor_src c content toi) l -> fq_recoverable oti (lenN_ content) l = true)
  /\ exists body lst, wire_pkts_fq rep raptor_src c content toi = body ++ [lst]
                      /\ Forall (fun q => a_close_obj q = false) body /\ a_close_obj lst = c_closable c.
Proof. exact wire_facts_fq. Qed.
Print Assumptions C01_wire_bridge_fq.

(* RaptorQ: sender and receiver agree on the source symbols - the sender's source symbol (s, i) is the E-byte slice of
   the content at its RFC 5052 offset zero-padded to E, i.e. symbol (offset of s) + i of the zero-padded object; hence the
   sender's encoder is a systematic code over the padded object ([rs_symbol], the encoder C02's toy instances use) and
   the systematic toy decoder satisfies both decoder hypotheses for EVERY accepted RaptorQ object: the premises of
   C01_clean_channel_fq are jointly satisfiable for all of them *)
Theorem C01_rq_source_symbol_is_padded_slice : forall rep rsrc c content al as_ nal n,
  c_fec c = RaptorQ -> filedesc_accepts c = true -> c_tlen c = lenN content -> 0 < c_tlen c ->
  block_partitioning (c_b c) (c_tlen c) (c_e c) = (al, as_, nal, n) ->
  forall s i, s < n -> i < nominal_syms al as_ nal s ->
  rx_enc rep rsrc c content s i = pad (N.to_nat (c_e c)) (sym_slice (c_e c) content (sym_off al as_ nal s + i)).
Proof. exact rq_source_symbol. Qed.
Print Assumptions C01_rq_source_symbol_is_padded_slice.

Theorem C01_rq_oracle_hypotheses_satisfiable : forall rep rsrc c content oti toi,
  c_fec c = RaptorQ -> filedesc_accepts c = true -> c_tlen c = lenN content -> 0 < c_tlen c -> oti_matches_fq c oti ->
  fq_oracle_sound env_sys oti content (rx_enc rep rsrc c content) toi
  /\ fq_oracle_complete env_sys oti content (rx_enc rep rsrc c content) toi.
Proof. exact rq_oracle_hypotheses_satisfiable. Qed.
Print Assumptions C01_rq_oracle_hypotheses_satisfiable.

(* the vocabulary, unfolded once *)
Theorem C01_fq_statements : forall rep rsrc c content oti s i,
  (rx_enc rep rsrc c content s i = nth (N.to_nat i) (blk_syms rep rsrc c content s) [])
  /\ (blk_syms rep rsrc c content s
      = let '(al, as_, nal, _) := block_partitioning (c_b c) (c_tlen c) (c_e c) in
        match (match c_fec c with
               | Raptor => rsrc (blk_buf c content s) (nominal_syms al as_ nal s)
               | _ => Some (map (pad (N.to_nat (c_e c))) (chunks (N.to_nat (c_e c)) (blk_buf c content s)))
               end) with
        | Some src => src ++ rep (c_fec c) s (blk_buf c content s) (nominal_syms al as_ nal s) (c_parity c)
        | None => []
        end)
  /\ (raptor_src_ok rsrc c content <->
      (c_fec c = Raptor ->
       let '(al, as_, nal, n) := block_partitioning (c_b c) (c_tlen c) (c_e c) in
       forall s, s < n -> exists src, rsrc (blk_buf c content s) (nominal_syms al as_ nal s) = Some src
                                      /\ lenN src = nominal_syms al as_ nal s /\ sumlen src = lenN (blk_buf c content s)))
  /\ (rq_rep_sized rep c content <->
      (c_fec c = RaptorQ ->
       let '(al, as_, nal, n) := block_partitioning (c_b c) (c_tlen c) (c_e c) in
       forall s, s < n -> Forall (fun d => lenN d = c_e c)
                                 (rep RaptorQ s (blk_buf c content s) (nominal_syms al as_ nal s) (c_parity c))))
  /\ (rp_syms_sized rep rsrc c content <->
      (c_fec c = Raptor ->
       let '(al, as_, nal, n) := block_partitioning (c_b c) (c_tlen c) (c_e c) in
       forall s, s < n -> Forall (fun d => lenN d <= c_e c) (blk_syms rep rsrc c content s)))
  /\ (rep_len_ok rep <-> forall f sbn buf k p, lenN (rep f sbn buf k p) <= p)
  /\ fq_esi_fits c = (let '(al, _, _, _) := block_partitioning (c_b c) (c_tlen c) (c_e c) in
                      al + c_parity c <=? match c_fec c with Raptor => 65536 | _ => 16777216 end)
  /\ (oti_matches_fq c oti <->
      ro_fec oti = match c_fec c with Raptor => FRaptor | _ => FRaptorQ end /\ ro_e oti = c_e c /\ ro_b oti = c_b c).
Proof.
  intros rep rsrc c content oti s i. split; [reflexivity|]. split; [reflexivity|].
  split; [split; intros X; exact X|]. split; [split; intros X; exact X|]. split; [split; intros X; exact X|].
  split; [split; intros X; exact X|].
  split; [reflexivity|]. split; intros X; exact X.
Qed.
Print Assumptions C01_fq_statements.

(* non-vacuity: RaptorQ - the 5-byte object of C02 (E = 2, B = 2, one repair symbol per block, two interleaved blocks, last
   source symbol padded to [5; 0]); Raptor - a 16-byte object, E = 2, B = 4 (two blocks of 4 symbols); toy encoders: repair
   symbols [7; 7], E-byte chunks; systematic toy decoder env_sys: the packets, their wire image, the delivery computed
   through enc_run, the bridge and receive; genuineness, sizes, recoverability by computation; and by the theorem *)
Example C01_example_wire_fq :
  map (fun p => (p_sbn p, p_esi p, p_payload p, p_close p, p_k p, p_src p))
      (transfer_pkts junk_rep no_rsrc (exq_cfg true) exr_content)
  = [(0, 0, [1; 2], false, 2, true); (1, 0, [5; 0], false, 1, true); (0, 1, [3; 4], false, 2, true);
     (1, 1, [7; 7], false, 1, false); (0, 2, [7; 7], true, 2, false)]
  /\ map a_pidbytes (wire_pkts_fq junk_rep no_rsrc (exq_cfg true) exr_content 7)
     = [[0; 0; 0; 0]; [1; 0; 0; 0]; [0; 0; 0; 1]; [1; 0; 0; 1]; [0; 0; 0; 2]]
  /\ map a_pidbytes (wire_pkts_fq junk_rep (chunk_rsrc 2) (exp_cfg true) ex16 7)
     = [[0; 0; 0; 0]; [0; 1; 0; 0]; [0; 0; 0; 1]; [0; 1; 0; 1]; [0; 0; 0; 2]; [0; 1; 0; 2]; [0; 0; 0; 3]; [0; 1; 0; 3];
        [0; 0; 0; 4]; [0; 1; 0; 4]]
  /\ summary 7 (receive env_sys 1 exq_files None 7 1000 (wire_pkts_fq junk_rep no_rsrc (exq_cfg true) exr_content 7))
     = (Completed, [CallOpen true; CallWrite [1; 2; 3; 4] true; CallWrite [5] true; CallComplete])
  /\ summary 7 (receive env_sys 1 exq_files None 7 1000 (wire_pkts_fq junk_rep no_rsrc (exq_cfg false) exr_content 7))
     = (Completed, [CallOpen true; CallWrite [1; 2; 3; 4] true; CallWrite [5] true; CallComplete])
  /\ summary 7 (receive env_sys 1 exp16_files None 7 1000 (wire_pkts_fq junk_rep (chunk_rsrc 2) (exp_cfg true) ex16 7))
     = (Completed, [CallOpen true; CallWrite [1; 2; 3; 4; 5; 6; 7; 8] true; CallWrite [9; 10; 11; 12; 13; 14; 15; 16] true;
                    CallComplete])
  /\ forallb (fq_genuine_pkt exq_oti exr_content (rx_enc junk_rep no_rsrc (exq_cfg true) exr_content))
             (wire_pkts_fq junk_rep no_rsrc (exq_cfg true) exr_content 7) = true
  /\ forallb (fq_sized_pkt exq_oti) (wire_pkts_fq junk_rep no_rsrc (exq_cfg true) exr_content 7) = true
  /\ fq_recoverable exq_oti 5 (wire_pkts_fq junk_rep no_rsrc (exq_cfg true) exr_content 7) = true
  /\ forallb (fq_genuine_pkt exp16_oti ex16 (rx_enc junk_rep (chunk_rsrc 2) (exp_cfg true) ex16))
             (wire_pkts_fq junk_rep (chunk_rsrc 2) (exp_cfg true) ex16 7) = true
  /\ fq_recoverable exp16_oti 16 (wire_pkts_fq junk_rep (chunk_rsrc 2) (exp_cfg true) ex16 7) = true.
Proof. vm_compute. repeat split. Qed.

Example C01_example_fq_by_theorem : forall closable,
  delivered env_sys 1 exq_files None 7 1000 exr_content (wire_pkts_fq junk_rep no_rsrc (exq_cfg closable) exr_content 7)
  /\ delivered env_sys 1 exp16_files None 7 1000 ex16 (wire_pkts_fq junk_rep (chunk_rsrc 2) (exp_cfg closable) ex16 7).
Proof. intros closable. split; [exact (exq_clean_channel_by_theorem closable)|exact (exp_clean_channel_by_theorem closable)]. Qed.

(* finding D30 does not matter for C01: a toy model of the raptor-code crate on both sides (semi_rsrc cuts a block into k
   pieces of ceil / floor(len / k) bytes, semi_dec cuts the symbols - zero-padded by flute's block decoder - back and
   concatenates); 10 bytes, E = 3, B = 4: one block [1;2;3] [4;5;6] [7;8] [9;10]: known_D30, C08's predicate false, the
   symbols the decoder is handed, the delivery computed - and by the theorem (raptor_src_ok and both decoder hypotheses hold) *)
Example C01_example_D30_class_delivered :
  known_D30 (exd_cfg true) = true /\ filedesc_accepts (exd_cfg true) = true
  /\ map (fun p => (p_sbn p, p_esi p, p_payload p, p_close p, p_k p, p_src p))
         (transfer_pkts junk_rep semi_rsrc (exd_cfg true) ex10)
     = [(0, 0, [1; 2; 3], false, 4, true); (0, 1, [4; 5; 6], false, 4, true); (0, 2, [7; 8], false, 4, true);
        (0, 3, [9; 10], false, 4, true); (0, 4, [7; 7], true, 4, false)]
  /\ P_C08_transfer (exd_cfg true) ex10 None (transfer_pkts junk_rep semi_rsrc (exd_cfg true) ex10) = false
  /\ map (fun i => fq_stored exd30_oti 10 0 (rx_enc junk_rep semi_rsrc (exd_cfg true) ex10 0 i)) [0; 1; 2; 3]
     = [[1; 2; 3]; [4; 5; 6]; [7; 8; 0]; [9; 10; 0]]
  /\ summary 7 (receive env_semi 1 exd30_files None 7 1000 (wire_pkts_fq junk_rep semi_rsrc (exd_cfg true) ex10 7))
     = (Completed, [CallOpen true; CallWrite [1; 2; 3; 4; 5; 6; 7; 8; 9; 10] true; CallComplete]).
Proof. exact exd30_computed. Qed.

Example C01_example_D30_class_by_theorem : forall closable,
  delivered env_semi 1 exd30_files None 7 1000 ex10 (wire_pkts_fq junk_rep semi_rsrc (exd_cfg closable) ex10 7).
Proof. exact exd30_by_theorem. Qed.

(* every ESI of an accepted non-empty RaptorQ / Raptor object fits the ESI field of its payload id (D46 fixed):
   FileDesc::new checks k + parity <= 2^24 (RaptorQ) / 2^16 (Raptor) for every block length that exists *)
Theorem C01_accepts_esi_fits_fq : forall c,
  is_fq (c_fec c) = true -> filedesc_accepts c = true -> 0 < c_tlen c -> fq_esi_fits c = true.
Proof. exact accepts_esi_fits_fq. Qed.
Print Assumptions C01_accepts_esi_fits_fq.

(* the former premise fq_esi_fits (D46): RaptorQ, E = 1, B = 1, a 1-byte object, 2^24 repair symbols per block, and Raptor,
   E = 1, B = 4, 4 bytes, 65535 repair symbols (the configuration replayed on the Rust sender: wire ESIs 65536.. went out as
   0, 1, 2) were accepted by FileDesc::new until the fix; they are now refused, one repair symbol less is accepted.  What the
   wire bridge does with such an ESI: the repair symbol with ESI 2^24 goes out with payload id 00 00 00 00 = (sbn 0, esi 0),
   the payload id of the source symbol, and is not a genuine packet (wrapq_enc: source symbol [1], that repair symbol [9]) *)
Example C01_fq_esi_wrap_now_refused :
  filedesc_accepts wrapq_cfg = false /\ fq_esi_fits wrapq_cfg = false
  /\ filedesc_accepts (mk_ecfg RaptorQ 1 1 16777215 1 true 1 false) = true
  /\ filedesc_accepts wrapp_cfg = false /\ fq_esi_fits wrapp_cfg = false
  /\ filedesc_accepts (mk_ecfg Raptor 1 4 65532 1 true 4 false) = true
  /\ oti_matches_fq wrapq_cfg wrapq_oti
  /\ (let p := mk_pkt 0 16777216 [9] false 1 false in
      rs_pid wrapq_oti (to_apkt_fq RaptorQ 7 p) = (0, 0) /\ a_pidbytes (to_apkt_fq RaptorQ 7 p) = [0; 0; 0; 0]
      /\ fq_genuine_pkt wrapq_oti [1] wrapq_enc (to_apkt_fq RaptorQ 7 p) = false)
  /\ (let p := mk_pkt 0 65536 [9] false 1 false in a_pidbytes (to_apkt_fq Raptor 7 p) = [0; 0; 0; 0]).
Proof. exact fq_esi_wrap_now_refused. Qed.

(* REFUTED without raptor_src_ok (16-byte Raptor object above): an encoder that refuses the blocks: nothing is sent; an
   oracle that returns each block as ONE symbol while k = 4: source ESIs 1..3 never sent, not recoverable, the close flag
   interrupts the object; symbols with two extra bytes: close flag on the last packet of block 0, in the middle (window 1) *)
Example C01_raptor_src_ok_refuted :
  filedesc_accepts (exp_cfg true) = true
  /\ wire_pkts_fq junk_rep no_rsrc (exp_cfg true) ex16 7 = []
  /\ map (rs_pid exp16_oti) (wire_pkts_fq junk_rep lazy_rsrc (exp_cfg true) ex16 7) = [(0, 0); (1, 0); (0, 1); (1, 1)]
  /\ fq_recoverable exp16_oti 16 (wire_pkts_fq junk_rep lazy_rsrc (exp_cfg true) ex16 7) = false
  /\ summary 7 (receive env_sys 1 exp16_files None 7 1000 (wire_pkts_fq junk_rep lazy_rsrc (exp_cfg true) ex16 7))
     = (Interrupted, [CallOpen true; CallInterrupted])
  /\ map (fun q => (rs_pid exp16_oti q, a_close_obj q))
         (wire_pkts_fq junk_rep fat_rsrc (mk_ecfg Raptor 2 4 1 1 true 16 true) ex16 7)
     = [(0, 0, false); (0, 1, false); (0, 2, false); (0, 3, false); (0, 4, true);
        (1, 0, false); (1, 1, false); (1, 2, false); (1, 3, false); (1, 4, true)].
Proof. exact raptor_src_ok_refuted. Qed.

(* rq_rep_sized is needed for fq_sized_pkt only: 1-byte repair symbols with E = 2 are not well sized, are discarded by the
   block decoder, and the object is delivered all the same *)
Example C01_rq_rep_sized_refuted :
  map (fq_sized_pkt exq_oti) (wire_pkts_fq short_rep no_rsrc (exq_cfg true) exr_content 7) = [true; true; true; false; false]
  /\ summary 7 (receive env_sys 1 exq_files None 7 1000 (wire_pkts_fq short_rep no_rsrc (exq_cfg true) exr_content 7))
     = (Completed, [CallOpen true; CallWrite [1; 2; 3; 4] true; CallWrite [5] true; CallComplete]).
Proof. exact rq_rep_sized_refuted. Qed.

(* rp_syms_sized (D47) is needed for fq_sized_pkt only: Raptor, E = 2, 3-byte repair symbols are discarded by the block
   decoder; the object is delivered all the same by its source symbols *)
Example C01_rp_syms_sized_refuted :
  map (fq_sized_pkt exp16_oti) (wire_pkts_fq long_rep (chunk_rsrc 2) (exp_cfg true) ex16 7)
  = [true; true; true; true; true; true; true; true; false; false]
  /\ summary 7 (receive env_sys 1 exp16_files None 7 1000 (wire_pkts_fq long_rep (chunk_rsrc 2) (exp_cfg true) ex16 7))
     = (Completed, [CallOpen true; CallWrite [1; 2; 3; 4; 5; 6; 7; 8] true; CallWrite [9; 10; 11; 12; 13; 14; 15; 16] true; CallComplete]).
Proof. exact rp_syms_sized_refuted. Qed.

(* ---------------- session level, a RaptorQ / Raptor object in a No-Code session ----------------
   As C01_session_clean_channel_rs, for ONE accepted non-empty object sent with its own RaptorQ / Raptor OTI
   (TransferConfig.oti with FEC 6 or 1 and its scheme-specific element); the session OTI stays No-Code, so the FDT instance
   still travels as one No-Code packet.  The File element of the document the sender model publishes carries the
   FileDesc's OTI [used_oti]: the object's OTI with Z := number of source blocks (proved to fit u8 / u16 for an accepted
   object, and to keep the OTI well formed); the receiver's entry OTI [obj_roti_fq] is read back from it.  [sender_ok_fq]
   (incl. the premises on the encoder oracles), [receiver_ok_fq] (fq_blocks_ok for that OTI, the two decoder hypotheses for
   the receiver-side view of the sender's encoder, L <= max cache), [session_meta_delivered_fq] are unfolded in
   C01_session_statements_fq.  [obj_wire_fq] = the wire image of one whole transfer, with EXT_FTI on every packet or none.
   Conclusion as for No-Code / Reed-Solomon: session_delivered, the oracle reads back the instance, the metadata flute's
   receiver computes from the parsed document is what the sender was given - all ten fields, incl. the OTI in use. *)
Theorem C01_session_clean_channel_fq :
  forall rep raptor_src cfg complete now m content E rcfg nowr id sct,
  sender_ok_fq rep raptor_src cfg now m content -> doc_fits cfg complete now m ->
  receiver_ok_fq rep raptor_src E rcfg nowr sct cfg now m content ->
  forall (window : nat) (closable debug fti : bool), (1 <= window)%nat ->
  let '(_, r, cx) := recv_run E fdt_oracle rcfg recv0
                       (map (fun p => RvPush p nowr)
                            (sess_fdt_pkt cfg complete now m id sct
                             :: obj_wire_fq rep raptor_src cfg m window closable debug content fti)) ctx0 in
  session_meta_delivered_fq cfg complete now m content rcfg r cx.
Proof. exact fq_session_clean_channel. Qed.
Print Assumptions C01_session_clean_channel_fq.

Theorem C01_session_statements_fq : forall rep raptor_src cfg complete now m content E rcfg nowr sct r cx,
  let o := the_oti (c_oti cfg) m in
  let c := mk_ecfg (if fec_id o =? 1 then Raptor else RaptorQ) (esl o) (max_sbl o) (parity o) 1 false (FdtInst.m_tlen m) false in
  (sender_ok_fq rep raptor_src cfg now m content <->
   fec_id (c_oti cfg) = 0 /\ oti_wf (c_oti cfg) /\ 0 < max_sbl (c_oti cfg)
   /\ (fec_id o = 6 \/ fec_id o = 1) /\ oti_wf o /\ m_cenc m = 0
   /\ filedesc_accepts c = true
   /\ FdtInst.m_tlen m = lenN content /\ 0 < FdtInst.m_tlen m /\ m_toi m <> 0 /\ FdtInst.m_clen m < 18446744073709551616
   /\ time_in_era now /\ spec_expires now (c_dur cfg) < 4294967296 /\ meta_ok cfg now m
   /\ rep_len_ok rep /\ rq_rep_sized rep c content /\ raptor_src_ok raptor_src c content
   /\ rp_syms_sized rep raptor_src c content)
  /\ (obj_roti_fq cfg m
      = mk_roti (match (if fec_id (used_oti cfg m) =? 1 then Raptor else RaptorQ) with Raptor => FRaptor | _ => FRaptorQ end)
                (esl (used_oti cfg m)) (max_sbl (used_oti cfg m)) (parity (used_oti cfg m))
                (match sch (used_oti cfg m) with SchRaptorQ z n al | SchRaptor z n al => Some (z, n, al) | _ => None end))
  /\ (receiver_ok_fq rep raptor_src E rcfg nowr sct cfg now m content <->
      writer_accepts E (m_toi m) /\ writes_succeed E (m_toi m)
      /\ md5_good E content (option_map bytes_of_str (FdtInst.m_md5 m))
      /\ fq_blocks_ok (obj_roti_fq cfg m) (lenN_ content)
      /\ fq_oracle_sound E (obj_roti_fq cfg m) content (rx_enc rep raptor_src c content) (m_toi m)
      /\ fq_oracle_complete E (obj_roti_fq cfg m) content (rx_enc rep raptor_src c content) (m_toi m)
      /\ lenN_ content <= cf_max_cache rcfg
      /\ nb_blocks_of (obj_roti_fq cfg m) (lenN_ content) <= 4097
      /\ (cf_exp_check rcfg = false
          \/ (match sct with Some t => t | None => nowr end
              <= Z.of_N ((spec_expires now (c_dur cfg) - 2208988800) * 1000000) * 1000)%Z))
  /\ (session_meta_delivered_fq cfg complete now m content rcfg r cx <->
      session_delivered rcfg (sess_inst_fq cfg now m) content (m_toi m) r cx
      /\ Xml.parse_fdt (str_of_bytes (fdt_doc cfg complete now m)) = Some (get_fdt_instance cfg complete now [m])
      /\ fdt_oracle (fdt_doc cfg complete now m) = Some (sess_inst_fq cfg now m)
      /\ exists rm,
           recv_meta b64_decode (get_fdt_instance cfg complete now [m]) (to_file_xml (used_oti cfg m) m now) = MOk rm
           /\ P_C10_meta cfg false now m rm = true
           /\ ometa_of_rmeta rm = ometa_given cfg now m
           /\ P_C01_object (ometa_given cfg now m) content 1
                           [(ometa_of_rmeta rm, calls_of (m_toi m, 0%nat) (c_log cx))] = true)
  /\ (sess_inst_fq cfg now m
      = mk_fi [mk_ff (m_toi m) CNull (Some (obj_roti_fq cfg m)) (FdtInst.m_tlen m)
                     (option_map bytes_of_str (FdtInst.m_md5 m)) (Some (FdtInst.m_clen m))
                     (match FdtInst.m_cache m with Some CCNoCache => true | _ => false end)]
              (Some (nocode_roti (c_oti cfg))) (Some (expiry_ns cfg now))).
Proof. exact fq_session_statements. Qed.
Print Assumptions C01_session_statements_fq.

(* the FileDesc's OTI of an accepted RaptorQ / Raptor object: same FEC id, E, B, parity; well formed (Z fits its field) *)
Theorem C01_used_oti_fq : forall cfg m,
  let o := the_oti (c_oti cfg) m in
  fq_id (fec_id o) -> oti_wf o -> 0 < FdtInst.m_tlen m -> filedesc_accepts (obj_ecfg_fq cfg m 1 false false) = true ->
  fec_id (used_oti cfg m) = fec_id o /\ esl (used_oti cfg m) = esl o /\ max_sbl (used_oti cfg m) = max_sbl o
  /\ parity (used_oti cfg m) = parity o /\ oti_wf (used_oti cfg m).
Proof. exact used_oti_fq. Qed.
Print Assumptions C01_used_oti_fq.

(* non-vacuity: the session of C01_session_example (No-Code session OTI E = 1400 B = 64, real XML bytes); TOI 7 = the
   5-byte object with its own OTI FEC 6, E = 2, B = 2, parity 1, (Z, N, Al) = (0, 1, 1) - the document carries Z = 2 -, or
   the 16-byte object with its own OTI FEC 1, E = 2, B = 4; toy codes as above, MD5 check on: the document fits, the
   oracle parses it to [sess_inst_fq], FDT packet + the packets of the transfer, last transfer without EXT_FTI /
   carousel with EXT_FTI: every packet accepted, TOI 7 in rv_completed, the log is the delivery; and by the theorem *)
Example C01_session_example_fq :
  (lenN_ exsq_doc <=? 1400) = true
  /\ fdt_oracle exsq_doc = Some (sess_inst_fq exs_cfg exs_now exsq_m)
  /\ obj_roti_fq exs_cfg exsq_m = mk_roti FRaptorQ 2 2 1 (Some (2, 1, 1))
  /\ obj_roti_fq exs_cfg exsp_m = exp16_oti
  /\ exsq_run (sess_fdt_pkt exs_cfg false exs_now exsq_m 1 exs_sct
               :: obj_wire_fq junk_rep no_rsrc exs_cfg exsq_m 2 true true exr_content false)
     = ([POk; POk; POk; POk; POk; POk], [], [7], [], exs_log)
  /\ exsq_run (sess_fdt_pkt exs_cfg false exs_now exsq_m 1 exs_sct
               :: obj_wire_fq junk_rep no_rsrc exs_cfg exsq_m 2 false true exr_content true)
     = ([POk; POk; POk; POk; POk; POk], [], [7], [], exs_log)
  /\ exsq_run (sess_fdt_pkt exs_cfg false exs_now exsp_m 1 exs_sct
               :: obj_wire_fq junk_rep (chunk_rsrc 2) exs_cfg exsp_m 2 true true ex16 false)
     = (repeat POk 11, [], [7], [], exsp_log).
Proof. exact exsq_computed. Qed.

Example C01_session_example_fq_by_theorem : forall closable fti,
  (let '(_, r, cx) := recv_run exsq_env fdt_oracle exs_rcfg recv0
                        (map (fun p => RvPush p exs_nowr)
                             (sess_fdt_pkt exs_cfg false exs_now exsq_m 1 exs_sct
                              :: obj_wire_fq junk_rep no_rsrc exs_cfg exsq_m 2 closable true exr_content fti)) ctx0 in
   session_meta_delivered_fq exs_cfg false exs_now exsq_m exr_content exs_rcfg r cx)
  /\ (let '(_, r, cx) := recv_run exsq_env fdt_oracle exs_rcfg recv0
                           (map (fun p => RvPush p exs_nowr)
                                (sess_fdt_pkt exs_cfg false exs_now exsp_m 1 exs_sct
                                 :: obj_wire_fq junk_rep (chunk_rsrc 2) exs_cfg exsp_m 2 closable true ex16 fti)) ctx0 in
      session_meta_delivered_fq exs_cfg false exs_now exsp_m ex16 exs_rcfg r cx).
Proof. intros closable fti. split; [exact (exsq_by_theorem closable fti)|exact (exsp_by_theorem closable fti)]. Qed.
(* ===== end block: C01FQ ===== *)
