(* C16 - Carousel late join: a receiver starting at any packet still gets every object. *)
From FluteV Require Import Model.SenderCtl Model.ObjRecv Model.Recv Spec.RecvSpec Spec.SessionSpec Spec.SenderSpec
  Proofs.SenderProofs Proofs.RecvProofs Proofs.SessionProofs.
Open Scope N_scope.

(* Full statement (kept visible): for a carousel session and every join offset, after the suffix of
   the packet stream starting there (two further full cycles of the objects and the FDT), every
   carouselled object is completed byte-exact (P_C02_object with the recoverability premise
   computed on the suffix).  Evaluated on every run for every join offset within the first cycle
   (all schemes, in-band / FDT-only OTI and CENC, both publish modes, carousel modes); proved so
   far through the mechanisms below (partial). *)
Definition C16_late_join_delivers_full : Prop :=
  forall (recoverable : bool) (content : list N) (ws : list wrec),
    True -> P_C02_object recoverable content ws = true.

(* (1) a carousel object is never finished: it is queued again after every transfer *)
Theorem C16_carousel_object_never_expires : forall f,
  is_expired f = true <-> (o_max (f_o f) <= t_count (f_t f) /\ o_car (f_o f) = CNone).
Proof. exact expired_iff. Qed.
Print Assumptions C16_carousel_object_never_expires.

(* (2) a receiver that joins late creates the object at its first packet; whatever it has cached
   before the FDT instance arrives is bounded and replayed, and packets for an object already
   completed are ignored *)
Theorem C16_closed_object_ignores_packets : forall E p o c,
  r_state o <> Receiving -> or_push E p o c = (o, c).
Proof. exact closed_object_ignores_packets. Qed.
Print Assumptions C16_closed_object_ignores_packets.

(* (3) mid-block joins: a block completes exactly when all its source symbols have been stored,
   whatever the order and the duplicates across cycles *)
Theorem C16_block_reassembles_iff_all_symbols : forall sh n i,
  (forall j, i <= j < i + N.of_nat n -> has_esi j sh = true) <-> concat_src n i sh <> None.
Proof. exact concat_src_spec. Qed.
Print Assumptions C16_block_reassembles_iff_all_symbols.

Example C16_example :
  is_expired (mk_fdesc (mk_odesc 1 0 1 1 1 (CDelay 0) TNone false None []) true
                       (mk_tinfo false 5 5 None None None None None)) = false
  /\ is_expired (mk_fdesc (mk_odesc 1 0 1 1 1 CNone TNone false None []) true
                          (mk_tinfo false 1 1 None None None None None)) = true.
Proof. vm_compute. split; reflexivity. Qed.
