(* C16 - Carousel late join: a receiver starting at any packet still gets every object. *)
From FluteV Require Import Model.Partition Model.BlockEnc Model.SenderCtl Model.ObjRecv Model.Recv Spec.RecvSpec Spec.SessionSpec Spec.SenderSpec
  Spec.C08Spec Proofs.BlockEncProofs Proofs.SenderProofs Proofs.RecvProofs Proofs.SessionProofs Proofs.C08Full Proofs.C02Full Proofs.C01Full Proofs.C01Esi.
Open Scope N_scope.

(* Object-level late-join theorem, PROVED for the No-Code scheme without content encoding
   (Proofs/C01Full.v; same sender, wire bridge [to_apkt], receiver and premises as C01_clean_channel_nocode).
   Carousel transfers carry no close-object flag (c_closable c = false; every transfer of the model emits the
   same packet list [wire_pkts] = map (to_apkt toi) of the packets of enc_run).  A receiver that has the FDT
   entry of the object and joins at ANY packet offset j of one cycle - in the middle of a block, of an
   interleaving window, after the end (j >= length: the empty suffix) - receives the rest of that cycle and
   one whole further cycle, in order: the object is Completed and its writer got exactly: open, writes
   concatenating to [content], one complete ([delivered], the conclusion of C01_clean_channel_nocode).  So
   a late joiner is served within two cycles of the object.
   Not covered: the other FEC schemes, content encodings, the empty object (D37, fixed), and the session level
   (the FDT instance itself must be received within the carousel too, Model/Recv.v; evaluated on every run
   for every join offset). *)
Theorem C16_late_join_delivers_nocode :
  forall rep raptor_src c content oti E toi max fid files inst md5,
  c_fec c = NoCode -> filedesc_accepts c = true -> c_tlen c = lenN content -> 0 < c_tlen c ->
  (1 <= c_window c)%nat ->
  c_e c < 65536 ->
  oti_matches c oti -> fdt_entry_for files inst toi oti (c_tlen c) md5 ->
  writer_accepts E toi -> writes_succeed E toi -> md5_good E content md5 ->
  c_tlen c <= max -> nb_blocks_of oti (c_tlen c) <= 4097 ->
  c_closable c = false ->
  forall j : nat,
  let pkts := wire_pkts rep raptor_src c content toi in
  delivered E fid files inst toi max content (skipn j pkts ++ pkts).
Proof. exact late_join_delivered'. Qed.
Print Assumptions C16_late_join_delivers_nocode.

(* more generally: ANY list of genuine packets without the close-object flag that contains every packet of
   one transfer (as a set; hence any reordering, any duplication, any number of partial or whole cycles
   around them) is delivered *)
Theorem C16_any_superset_of_a_cycle_delivers_nocode :
  forall rep raptor_src c content oti E toi max fid files inst md5,
  c_fec c = NoCode -> filedesc_accepts c = true -> c_tlen c = lenN content -> 0 < c_tlen c ->
  (1 <= c_window c)%nat ->
  c_e c < 65536 ->
  oti_matches c oti -> fdt_entry_for files inst toi oti (c_tlen c) md5 ->
  writer_accepts E toi -> writes_succeed E toi -> md5_good E content md5 ->
  c_tlen c <= max -> nb_blocks_of oti (c_tlen c) <= 4097 ->
  forall l, Forall (fun q => genuine_pkt oti content q = true) l ->
            Forall (fun q => a_close_obj q = false) l ->
            incl (wire_pkts rep raptor_src c content toi) l ->
  delivered E fid files inst toi max content l.
Proof. exact superset_delivered'. Qed.
Print Assumptions C16_any_superset_of_a_cycle_delivers_nocode.

(* a suffix of a cycle, then a whole LAST transfer (close-object flag on its last packet): same conclusion *)
Theorem C16_late_join_then_last_transfer_nocode :
  forall rep raptor_src c content oti E toi max fid files inst md5,
  c_fec c = NoCode -> filedesc_accepts c = true -> c_tlen c = lenN content -> 0 < c_tlen c ->
  (1 <= c_window c)%nat ->
  c_e c < 65536 ->
  oti_matches c oti -> fdt_entry_for files inst toi oti (c_tlen c) md5 ->
  writer_accepts E toi -> writes_succeed E toi -> md5_good E content md5 ->
  c_tlen c <= max -> nb_blocks_of oti (c_tlen c) <= 4097 ->
  forall pre, Forall (fun q => genuine_pkt oti content q = true) pre ->
              Forall (fun q => a_close_obj q = false) pre ->
  delivered E fid files inst toi max content (pre ++ wire_pkts rep raptor_src c content toi).
Proof. exact prefix_then_transfer_delivered'. Qed.
Print Assumptions C16_late_join_then_last_transfer_nocode.

(* non-vacuity: the 5-byte, 2-block object of C01/C02 in a carousel with two interleaved blocks
   (cycle = (0,0) (1,0) (0,1)): every join offset is delivered, by computation and by the theorem *)
Example C16_example_late_join :
  let w := wire_pkts no_rep no_rsrc (ex_cfg false) ex_content 7 in
  map pid_of w = [(0, 0); (1, 0); (0, 1)]
  /\ forallb (fun j => match summary 7 (receive env_ok 1 ex_files None 7 1000 (skipn j w ++ w)) with
                       | (Completed, [CallOpen true; CallWrite [1; 2; 3; 4] true; CallWrite [5] true; CallComplete]) => true
                       | _ => false end) [0; 1; 2; 3; 4]%nat = true
  /\ summary 7 (receive env_ok 1 ex_files None 7 1000 (skipn 1 w)) = (Receiving, [CallOpen true]).
Proof. vm_compute. repeat split. Qed.

Example C16_example_by_theorem : forall j,
  let w := wire_pkts no_rep no_rsrc (ex_cfg false) ex_content 7 in
  delivered env_ok 1 ex_files None 7 1000 ex_content (skipn j w ++ w).
Proof. exact ex_late_join_by_theorem. Qed.

(* The mechanisms the session-level statement rests on: *)
(* (1) a carousel object is never finished: it is queued again after every transfer *)
Theorem C16_carousel_object_never_expires : forall f,
  is_expired f = true <-> (o_max (f_o f) <= t_count (f_t f) /\ o_car (f_o f) = CNone).
Proof. exact expired_iff. Qed.
Print Assumptions C16_carousel_object_never_expires.

(* (2) a receiver that joins late creates the object at its first packet; whatever it has cached
   before the FDT instance arrives is bounded and replayed, and packets for an object already
   completed are ignored *)
Theorem C16_closed_object_ignores_packets : forall E p o c,
  r_state o <> Receiving -> or_push E p o c = (o, c).
Proof. exact closed_object_ignores_packets. Qed.
Print Assumptions C16_closed_object_ignores_packets.

(* (3) mid-block joins: a block completes exactly when all its source symbols have been stored,
   whatever the order and the duplicates across cycles *)
Theorem C16_block_reassembles_iff_all_symbols : forall sh n i,
  (forall j, i <= j < i + N.of_nat n -> has_esi j sh = true) <-> concat_src n i sh <> None.
Proof. exact concat_src_spec. Qed.
Print Assumptions C16_block_reassembles_iff_all_symbols.

Example C16_example :
  is_expired (mk_fdesc (mk_odesc 1 0 1 1 1 (CDelay 0) TNone false None []) true
                       (mk_tinfo false 5 5 None None None None None)) = false
  /\ is_expired (mk_fdesc (mk_odesc 1 0 1 1 1 CNone TNone false None []) true
                          (mk_tinfo false 1 1 None None None None None)) = true.
Proof. vm_compute. split; reflexivity. Qed.

(* ---------------- the session level: Proofs/C01Session.v ----------------
   The receiver as a whole (Model/Recv.v, recv_run from recv0 / ctx0) with the FDT oracle instantiated by
   [fdt_oracle] (reference XML parser + the extraction of Model/FdtRecv.v), in the setting of
   C01_session_clean_channel_nocode (Properties/C01.v; sender_ok / doc_fits / receiver_ok / session_meta_delivered
   are unfolded in C01_session_statements).  The receiver joins late: it first sees the packets from ANY offset j of
   a carousel transfer of the object (no close-object flag; every packet carries EXT_FTI, Oti::inband_fti, as
   C02_session_fdt_late_delivers requires - they are decoded without writer), then the FDT packet carrying the
   instance the sender model publishes for the object, then one whole further transfer (carousel or last, with or
   without EXT_FTI, any window).  Conclusion: as C01 - writer (toi,0) got open, writes = content, one complete;
   the metadata flute's receiver computes from the parsed document is what the sender was given.
   Not covered: late packets WITHOUT EXT_FTI before the instance (cached and replayed LIFO: delivered in the example
   C02Session.cached_packets_before_fdt_computed, not proved in general), a close-object flag before the instance
   (harmless since D44 was repaired: block D44 at the end of this file), several objects, multi-packet FDT instances. *)
From FluteV Require Import Model.Xml Model.FdtInst Model.FdtRecv Spec.C10Spec Proofs.FdtProofs
  Proofs.C02Session Proofs.C01Session.

Theorem C16_session_late_join_nocode :
  forall rep raptor_src cfg complete now m content E rcfg nowr id sct,
  sender_ok cfg now m content -> doc_fits cfg complete now m -> receiver_ok E rcfg nowr sct cfg now m content ->
  forall (window1 : nat) (debug1 : bool) (j window : nat) (closable debug fti : bool),
  (1 <= window1)%nat -> (1 <= window)%nat ->
  let '(_, r, cx) := recv_run E fdt_oracle rcfg recv0
                       (map (fun p => RvPush p nowr)
                            (skipn j (obj_wire rep raptor_src cfg m window1 false debug1 content true)
                             ++ sess_fdt_pkt cfg complete now m id sct
                                :: obj_wire rep raptor_src cfg m window closable debug content fti)) ctx0 in
  session_meta_delivered cfg complete now m content rcfg r cx.
Proof. exact session_late_join. Qed.
Print Assumptions C16_session_late_join_nocode.

(* more generally: ANY genuine packets of the object with EXT_FTI, no EXT_CENC and no close-object flag (any order,
   any duplication, what is left of any number of earlier cycles) before the FDT packet *)
Theorem C16_session_late_join_general_nocode :
  forall rep raptor_src cfg complete now m content E rcfg nowr id sct,
  sender_ok cfg now m content -> doc_fits cfg complete now m -> receiver_ok E rcfg nowr sct cfg now m content ->
  forall (window : nat) (closable debug fti : bool) (pre : list apkt), (1 <= window)%nat ->
  Forall (fun p => a_toi p = m_toi m) pre ->
  Forall (fun p => genuine_pkt (obj_roti cfg m) content p = true) pre ->
  Forall (fun p => a_oti p = Some (obj_roti cfg m, lenN_ content) /\ a_cenc p = None /\ a_close_obj p = false) pre ->
  let '(_, r, cx) := recv_run E fdt_oracle rcfg recv0
                       (map (fun p => RvPush p nowr)
                            (pre ++ sess_fdt_pkt cfg complete now m id sct
                                    :: obj_wire rep raptor_src cfg m window closable debug content fti)) ctx0 in
  session_meta_delivered cfg complete now m content rcfg r cx.
Proof. exact session_late_join_general. Qed.
Print Assumptions C16_session_late_join_general_nocode.

(* non-vacuity: the session of C01_session_example as a carousel (cycle = (0,0) (1,0) (0,1), EXT_FTI on the packets
   caught before the instance): for every join offset the packets are accepted, TOI 7 ends in rv_completed and the
   log is the delivery - by computation (real XML bytes through the oracle) and by the theorem *)
Example C16_session_example :
  map pid_of (exs_wire false) = [(0, 0); (1, 0); (0, 1)]
  /\ forallb (fun j => match exs_run (skipn j (map (add_fti ex_oti 5) (exs_wire false)) ++ exs_pf :: exs_wire false) with
                       | (_, [], [7], [], l) => list_eqb (fun a b => match a, b with
                                                                    | EvWrite _ x _, EvWrite _ y _ => eqb_bytes x y
                                                                    | EvBuilder _ _, EvBuilder _ _ | EvOpen _ _, EvOpen _ _
                                                                    | EvComplete _, EvComplete _ => true
                                                                    | _, _ => false end) l exs_log
                       | _ => false end) [0; 1; 2; 3; 4]%nat = true.
Proof. vm_compute. split; reflexivity. Qed.

Example C16_session_example_by_theorem : forall j closable fti,
  let '(_, r, cx) := recv_run exs_env fdt_oracle exs_rcfg recv0
                       (map (fun p => RvPush p exs_nowr)
                            (skipn j (obj_wire no_rep no_rsrc exs_cfg exs_m 2 false true ex_content true)
                             ++ sess_fdt_pkt exs_cfg false exs_now exs_m 1 exs_sct
                                :: obj_wire no_rep no_rsrc exs_cfg exs_m 2 closable true ex_content fti)) ctx0 in
  session_meta_delivered exs_cfg false exs_now exs_m ex_content exs_rcfg r cx.
Proof. exact exs_late_by_theorem. Qed.

From FluteV Require Import Proofs.C02RS Proofs.C02SessionRS Proofs.C01RS.
(* ===== block: C01RS ===== *)
(* ---------------- Reed-Solomon GF(2^8): FEC 5 (RS28) and FEC 129 (RS28US), Proofs/C01RS.v ----------------
   The object-level late-join theorems above for the two Reed-Solomon schemes: same sender, wire bridge [to_apkt_rs],
   receiver and premises as C01_clean_channel_rs (Properties/C01.v) - in particular the decoder oracle is MDS for
   [rx_rep rep c content], the receiver-side view of the sender's encoder, and rs_mem_need oti L <= max.  Every
   transfer of the model emits the same list [wire_pkts_rs] (source and repair symbols interleaved by the window); a
   receiver joining at ANY packet offset j of a carousel cycle gets the rest of it and one whole further cycle: the
   object is Completed, the writer got open, writes = content, one complete.  Here the oracle matters: a block may be
   decoded from the repair symbols of the first cycle's tail before its source symbols arrive. *)
Theorem C16_late_join_delivers_rs :
  forall rep raptor_src c content oti E toi max fid files inst md5,
  is_rs (c_fec c) = true -> filedesc_accepts c = true -> c_tlen c = lenN content -> 0 < c_tlen c ->
  (1 <= c_window c)%nat -> rep_len_ok rep -> rs_rep_sym_ok rep c content ->
  c_e c < 65536 ->
  oti_matches_rs c oti -> fdt_entry_for files inst toi oti (c_tlen c) md5 ->
  writer_accepts E toi -> writes_succeed E toi -> md5_good E content md5 ->
  rs_oracle_mds E oti content (rx_rep rep c content) toi ->
  rs_mem_need oti (c_tlen c) <= max -> nb_blocks_of oti (c_tlen c) <= 4097 ->
  c_closable c = false ->
  forall j : nat,
  let pkts := wire_pkts_rs rep raptor_src c content toi in
  delivered E fid files inst toi max content (skipn j pkts ++ pkts).
Proof. exact rs_late_join_delivered. Qed.
Print Assumptions C16_late_join_delivers_rs.

(* ANY list of genuine packets (source or repair) without the close-object flag that contains every packet of one
   transfer - any reordering, any duplication, any number of partial or whole cycles around them *)
Theorem C16_any_superset_of_a_cycle_delivers_rs :
  forall rep raptor_src c content oti E toi max fid files inst md5,
  is_rs (c_fec c) = true -> filedesc_accepts c = true -> c_tlen c = lenN content -> 0 < c_tlen c ->
  (1 <= c_window c)%nat -> rep_len_ok rep -> rs_rep_sym_ok rep c content ->
  c_e c < 65536 ->
  oti_matches_rs c oti -> fdt_entry_for files inst toi oti (c_tlen c) md5 ->
  writer_accepts E toi -> writes_succeed E toi -> md5_good E content md5 ->
  rs_oracle_mds E oti content (rx_rep rep c content) toi ->
  rs_mem_need oti (c_tlen c) <= max -> nb_blocks_of oti (c_tlen c) <= 4097 ->
  forall l, Forall (fun q => rs_genuine_pkt oti content (rx_rep rep c content) q = true) l ->
            Forall (fun q => a_close_obj q = false) l ->
            incl (wire_pkts_rs rep raptor_src c content toi) l ->
  delivered E fid files inst toi max content l.
Proof. exact rs_superset_delivered. Qed.
Print Assumptions C16_any_superset_of_a_cycle_delivers_rs.

(* a suffix of a cycle (any genuine flag-free packets), then a whole LAST transfer *)
Theorem C16_late_join_then_last_transfer_rs :
  forall rep raptor_src c content oti E toi max fid files inst md5,
  is_rs (c_fec c) = true -> filedesc_accepts c = true -> c_tlen c = lenN content -> 0 < c_tlen c ->
  (1 <= c_window c)%nat -> rep_len_ok rep -> rs_rep_sym_ok rep c content ->
  c_e c < 65536 ->
  oti_matches_rs c oti -> fdt_entry_for files inst toi oti (c_tlen c) md5 ->
  writer_accepts E toi -> writes_succeed E toi -> md5_good E content md5 ->
  rs_oracle_mds E oti content (rx_rep rep c content) toi ->
  rs_mem_need oti (c_tlen c) <= max -> nb_blocks_of oti (c_tlen c) <= 4097 ->
  forall pre, Forall (fun q => rs_genuine_pkt oti content (rx_rep rep c content) q = true) pre ->
              Forall (fun q => a_close_obj q = false) pre ->
  delivered E fid files inst toi max content (pre ++ wire_pkts_rs rep raptor_src c content toi).
Proof. exact rs_prefix_then_transfer_delivered. Qed.
Print Assumptions C16_late_join_then_last_transfer_rs.

(* non-vacuity, XOR toy code on both sides: the 5-byte object, FEC 5, E = 2, B = 2, parity 1, carousel with two
   interleaved blocks (cycle = (0,0) (1,0) (0,1) (1,1) (0,2)): every join offset is delivered, by computation and by
   the theorem; the suffix from offset 3 alone is not *)
Example C16_example_late_join_rs :
  let w := wire_pkts_rs xor_rep no_rsrc (exr_cfg RS28 2 false) exr_content 7 in
  map (rs_pid exr_oti) w = [(0, 0); (1, 0); (0, 1); (1, 1); (0, 2)]
  /\ forallb (fun j => match summary 7 (receive env_xor 1 exr_files None 7 1000 (skipn j w ++ w)) with
                       | (Completed, [CallOpen true; CallWrite [1; 2; 3; 4] true; CallWrite [5] true; CallComplete]) => true
                       | _ => false end) [0; 1; 2; 3; 4; 5; 6]%nat = true
  /\ summary 7 (receive env_xor 1 exr_files None 7 1000 (skipn 3 w)) = (Receiving, [CallOpen true]).
Proof. vm_compute. repeat split. Qed.

Example C16_example_rs_by_theorem : forall j,
  let w := wire_pkts_rs xor_rep no_rsrc (exr_cfg RS28 2 false) exr_content 7 in
  delivered env_xor 1 exr_files None 7 1000 exr_content (skipn j w ++ w).
Proof. exact exr_late_join_by_theorem. Qed.

(* ---------------- session level (setting of C01_session_clean_channel_rs, Properties/C01.v) ----------------
   The receiver joins late: the packets from ANY offset j of a carousel transfer of the Reed-Solomon object (no
   close-object flag; EXT_FTI on every packet: they are decoded - the decoder oracle is consulted - without writer),
   then the FDT packet with the instance the sender model publishes, then one whole further transfer. *)
Theorem C16_session_late_join_rs :
  forall rep raptor_src cfg complete now m content E rcfg nowr id sct,
  sender_ok_rs cfg now m content -> doc_fits cfg complete now m -> rep_len_ok rep ->
  rs_rep_sym_ok rep (obj_ecfg_rs cfg m 1 false false) content ->
  receiver_ok_rs rep E rcfg nowr sct cfg now m content ->
  forall (window1 : nat) (debug1 : bool) (j window : nat) (closable debug fti : bool),
  (1 <= window1)%nat -> (1 <= window)%nat ->
  let '(_, r, cx) := recv_run E fdt_oracle rcfg recv0
                       (map (fun p => RvPush p nowr)
                            (skipn j (obj_wire_rs rep raptor_src cfg m window1 false debug1 content true)
                             ++ sess_fdt_pkt cfg complete now m id sct
                                :: obj_wire_rs rep raptor_src cfg m window closable debug content fti)) ctx0 in
  session_meta_delivered_rs cfg complete now m content rcfg r cx.
Proof. exact rs_session_late_join. Qed.
Print Assumptions C16_session_late_join_rs.

(* more generally: ANY genuine packets of the object (source or repair symbols) with EXT_FTI, no EXT_CENC and no
   close-object flag before the FDT packet *)
Theorem C16_session_late_join_general_rs :
  forall rep raptor_src cfg complete now m content E rcfg nowr id sct,
  sender_ok_rs cfg now m content -> doc_fits cfg complete now m -> rep_len_ok rep ->
  rs_rep_sym_ok rep (obj_ecfg_rs cfg m 1 false false) content ->
  receiver_ok_rs rep E rcfg nowr sct cfg now m content ->
  forall (window : nat) (closable debug fti : bool) (pre : list apkt), (1 <= window)%nat ->
  Forall (fun p => a_toi p = m_toi m) pre ->
  Forall (fun p => rs_genuine_pkt (obj_roti_rs cfg m) content (obj_rep_rs rep cfg m content) p = true) pre ->
  Forall (fun p => a_oti p = Some (obj_roti_rs cfg m, lenN_ content) /\ a_cenc p = None /\ a_close_obj p = false) pre ->
  let '(_, r, cx) := recv_run E fdt_oracle rcfg recv0
                       (map (fun p => RvPush p nowr)
                            (pre ++ sess_fdt_pkt cfg complete now m id sct
                                    :: obj_wire_rs rep raptor_src cfg m window closable debug content fti)) ctx0 in
  session_meta_delivered_rs cfg complete now m content rcfg r cx.
Proof. exact rs_session_late_join_general. Qed.
Print Assumptions C16_session_late_join_general_rs.

(* non-vacuity: the session of C01_session_example_rs as a carousel (EXT_FTI on the packets caught before the
   instance): for every join offset TOI 7 ends in rv_completed and the log is the delivery - by computation (real XML
   bytes through the oracle, XOR decoder) and by the theorem *)
Example C16_session_example_rs :
  forallb (fun j => match exsr_run (skipn j (exsr_wire false true) ++ exsr_pf :: exsr_wire false false) with
                    | (_, [], [7], [], l) => list_eqb (fun a b => match a, b with
                                                                 | EvWrite _ x _, EvWrite _ y _ => eqb_bytes x y
                                                                 | EvBuilder _ _, EvBuilder _ _ | EvOpen _ _, EvOpen _ _
                                                                 | EvComplete _, EvComplete _ => true
                                                                 | _, _ => false end) l exs_log
                    | _ => false end) [0; 1; 2; 3; 4; 5; 6]%nat = true.
Proof. vm_compute. reflexivity. Qed.

Example C16_session_example_rs_by_theorem : forall j closable fti,
  let '(_, r, cx) := recv_run exsr_env fdt_oracle exs_rcfg recv0
                       (map (fun p => RvPush p exs_nowr)
                            (skipn j (obj_wire_rs xor_rep no_rsrc exs_cfg exsr_m 2 false true exr_content true)
                             ++ sess_fdt_pkt exs_cfg false exs_now exsr_m 1 exs_sct
                                :: obj_wire_rs xor_rep no_rsrc exs_cfg exsr_m 2 closable true exr_content fti)) ctx0 in
  session_meta_delivered_rs exs_cfg false exs_now exsr_m exr_content exs_rcfg r cx.
Proof. exact exsr_late_by_theorem. Qed.
(* ===== end block: C01RS ===== *)

From FluteV Require Import Proofs.C02MultiFdt.
(* ===== block: C02MultiFdt ===== *)
(* ---------------- mid-FDT join: the FDT instance spans several packets (Proofs/C02MultiFdt.v) ----------------
   The receiver (Model/Recv.v, recv_run from recv0 / ctx0, the FDT parser an oracle as in the C02_session theorems) starts at ANY
   packet offset j of one transmission [fcyc] of the instance (FDT packets of a carousel: no close-object flag; each
   TOI 0, EXT_FDT = id, EXT_FTI = (foti, |d|), genuine for the document d, not expired: fdt_pkt_multi, unfolded in
   C02_session_multi_fdt_statements), receives the rest of it and one whole further transmission.  Meanwhile packets
   [pre] of the object arrive, carrying EXT_FTI = (oti, L), no EXT_CENC, no close-object flag, interleaved with the
   FDT packets IN ANY WAY (mix: its FDT packets are skipn j fcyc ++ fcyc, its object packets are pre, in these
   orders); then the rest of the object's packets [pkts] in any form.  genuine / close_flag_ok / recoverable are those
   of pre ++ pkts.  Conclusion: session_delivered (C02_session_statements).  The packets of the partial transmission
   are kept (they are symbols of the same instance id), the inner object receiver completes as soon as every source
   symbol of d is there.
   The fully general form (any interleaving, FDT copies also after the object's packets) is
   C02_session_multi_fdt_delivers.  Not covered: a close-object flag on an FDT packet of the partial transmission
   (C02_session_multi_fdt_guards: the instance is dropped and must be received again from scratch), FDT packets
   without EXT_FTI, other FDT instance ids in between, several objects. *)
Theorem C16_session_mid_fdt_join_nocode :
  forall E parse_fdt cfg oti content toi md5 now id foti d inst fcyc (j : nat) pre mix pkts,
  let L := lenN_ content in
  let Ld := lenN_ d in
  nocode_ok oti L -> toi <> 0 ->
  nocode_ok foti Ld -> Ld <= 1048576 -> nb_blocks_of foti Ld <= 4097 ->
  parse_fdt d = Some inst ->
  fdt_entry_for (fi_files inst) (fi_oti inst) toi oti L md5 ->
  writer_accepts E toi -> writes_succeed E toi -> md5_good E content md5 ->
  L <= cf_max_cache cfg -> nb_blocks_of oti L <= 4097 ->
  Forall (fdt_pkt_multi cfg inst now id foti d) fcyc ->
  Forall (fun p => a_close_obj p = false) fcyc -> recoverable foti Ld fcyc = true ->
  fdt_of mix = skipn j fcyc ++ fcyc -> obj_of mix = pre ->
  Forall (fun p => a_toi p = toi) (pre ++ pkts) ->
  Forall (fun p => genuine_pkt oti content p = true) (pre ++ pkts) ->
  Forall (fun p => a_oti p = Some (oti, L) /\ a_cenc p = None /\ a_close_obj p = false) pre ->
  close_flag_ok oti L (pre ++ pkts) -> recoverable oti L (pre ++ pkts) = true ->
  let '(_, r, c) := recv_run E parse_fdt cfg recv0 (map (fun p => RvPush p now) (mix ++ pkts)) ctx0 in
  session_delivered cfg inst content toi r c.
Proof. exact session_mid_fdt_join_delivers. Qed.
Print Assumptions C16_session_mid_fdt_join_nocode.

(* non-vacuity: the 3-packet instance of C02_session_multi_fdt_example, cycle (0,0) (0,1) (1,0); the receiver joins at
   packet 1, three packets of the object with EXT_FTI are interleaved with the five FDT packets it sees; then the other
   two packets of the object - with and without receive-once (without it the FDT packets that follow the completion
   start a second, partial reception of the instance) - by computation and by the theorem; and every join offset with
   the object's EXT_FTI packets between the partial and the whole transmission *)
Example C16_session_mid_fdt_join_example :
  map pid_of (fdt_of mx_mix) = [(0, 1); (1, 0); (0, 0); (0, 1); (1, 0)]
  /\ fdt_of mx_mix = skipn 1 [f00; f01; f10] ++ [f00; f01; f10] /\ obj_of mx_mix = mx_pre
  /\ sessx mx_parse (tx_cfg true false) (mx_mix ++ skipn 3 ex_pkts)
     = ([POk; POk; POk; POk; POk; POk; POk; POk; POk; POk], [], [7], [], [], 1%nat, delivered_log)
  /\ sessx mx_parse (tx_cfg false false) (mx_mix ++ skipn 3 ex_pkts)
     = ([POk; POk; POk; POk; POk; POk; POk; POk; POk; POk], [], [7], [], [(1, FReceiving)], 1%nat, delivered_log)
  /\ forallb (fun j => match sessx mx_parse (tx_cfg true false)
                               (skipn j [f00; f01; f10] ++ mx_pre ++ [f00; f01; f10] ++ skipn 3 ex_pkts) with
                       | (_, [], [7], [], [], 1%nat, _) => true
                       | _ => false end) [0; 1; 2; 3; 4]%nat = true.
Proof. vm_compute. repeat split. Qed.

Example C16_session_mid_fdt_join_by_theorem : forall once,
  let '(_, r, c) := recv_run env_ok mx_parse (tx_cfg once false) recv0
                             (map (fun p => RvPush p 100%Z) (mx_mix ++ skipn 3 ex_pkts)) ctx0 in
  session_delivered (tx_cfg once false) (tx_inst false None) ex_content 7 r c.
Proof. exact mx_midjoin_by_theorem. Qed.
(* ===== end block: C02MultiFdt ===== *)

From FluteV Require Import Proofs.C09Full Proofs.C02MultiObj Proofs.C16Multi.
(* ===== block: C16Multi ===== *)
(* ---------------- RaptorQ (FEC 6) and Raptor (FEC 1): Proofs/C16Multi.v ----------------
   The late-join theorems for the [fq] family of Properties/C02.v, under the SAME trusted hypotheses on the decoder oracle
   as C02_fq_recoverable_delivers (fq_oracle_sound / fq_oracle_complete, unfolded in C02_fq_oracle_statements) and the
   same premises (fq_scheme_ok, fq_blocks_ok, fq_sized_pkt: RaptorQ payloads of exactly E bytes).  The codes are not
   modelled ([enc s i] = whatever the sender's encoder produces for (sbn, esi), universally quantified), so a cycle is a
   list [cyc] of genuine packets of the object WITHOUT close-object flag that holds every SOURCE symbol of every block
   (fq_recoverable oti L cyc = true); repair symbols, duplicates, any order are allowed anywhere in it.  A receiver that
   has the FDT entry and joins at ANY packet offset j gets the rest of the cycle and one whole further cycle: Completed,
   writer got open, writes = content, one complete.  (Recovery from FEWER source symbols with the help of repair symbols
   is entirely the decoder's and is not stated, as in C02.)  No new hypothesis was needed.
   Not covered: the sender side (the wire image of the model's RaptorQ/Raptor encoder, as wire_pkts_rs for Reed-Solomon). *)
Theorem C16_late_join_delivers_fq : forall E oti content enc toi max fid files inst md5,
  let L := lenN_ content in
  fq_scheme_ok oti L -> fq_blocks_ok oti L -> fdt_entry_for files inst toi oti L md5 ->
  writer_accepts E toi -> writes_succeed E toi -> md5_good E content md5 ->
  fq_oracle_sound E oti content enc toi -> fq_oracle_complete E oti content enc toi ->
  L <= max -> nb_blocks_of oti L <= 4097 ->
  forall cyc,
  Forall (fun q => fq_genuine_pkt oti content enc q = true) cyc ->
  Forall (fun q => fq_sized_pkt oti q = true) cyc ->
  Forall (fun q => a_close_obj q = false) cyc ->
  fq_recoverable oti L cyc = true ->
  forall j : nat, delivered E fid files inst toi max content (skipn j cyc ++ cyc).
Proof. exact fq_late_join_delivered. Qed.
Print Assumptions C16_late_join_delivers_fq.

(* ANY list of genuine, flag-free packets (source or repair) that holds every source symbol *)
Theorem C16_any_superset_of_a_cycle_delivers_fq : forall E oti content enc toi max fid files inst md5,
  let L := lenN_ content in
  fq_scheme_ok oti L -> fq_blocks_ok oti L -> fdt_entry_for files inst toi oti L md5 ->
  writer_accepts E toi -> writes_succeed E toi -> md5_good E content md5 ->
  fq_oracle_sound E oti content enc toi -> fq_oracle_complete E oti content enc toi ->
  L <= max -> nb_blocks_of oti L <= 4097 ->
  forall l,
  Forall (fun q => fq_genuine_pkt oti content enc q = true) l ->
  Forall (fun q => fq_sized_pkt oti q = true) l ->
  Forall (fun q => a_close_obj q = false) l ->
  fq_recoverable oti L l = true ->
  delivered E fid files inst toi max content l.
Proof. exact fq_superset_delivered. Qed.
Print Assumptions C16_any_superset_of_a_cycle_delivers_fq.

(* what is left of earlier cycles (genuine, flag-free), then a list with every source symbol that may carry the
   close-object flag as a LAST transfer does (fq_close_flag_ok: only once the object is recoverable with it) *)
Theorem C16_late_join_then_last_transfer_fq : forall E oti content enc toi max fid files inst md5,
  let L := lenN_ content in
  fq_scheme_ok oti L -> fq_blocks_ok oti L -> fdt_entry_for files inst toi oti L md5 ->
  writer_accepts E toi -> writes_succeed E toi -> md5_good E content md5 ->
  fq_oracle_sound E oti content enc toi -> fq_oracle_complete E oti content enc toi ->
  L <= max -> nb_blocks_of oti L <= 4097 ->
  forall pre cyc,
  Forall (fun q => fq_genuine_pkt oti content enc q = true) (pre ++ cyc) ->
  Forall (fun q => fq_sized_pkt oti q = true) (pre ++ cyc) ->
  Forall (fun q => a_close_obj q = false) pre ->
  fq_close_flag_ok oti L cyc ->
  fq_recoverable oti L cyc = true ->
  delivered E fid files inst toi max content (pre ++ cyc).
Proof. exact fq_prefix_then_cycle_delivered. Qed.
Print Assumptions C16_late_join_then_last_transfer_fq.

(* non-vacuity, toy systematic decoder sys_dec (C02_fq_oracle_hypotheses_satisfiable): the RaptorQ cycle
   (1,0) (0,5: repair) (0,1) (1,0) (0,0) of the 5-byte object: every join offset delivered, by computation and by the
   theorem; the suffix from offset 3 alone is not *)
Example C16_example_late_join_fq :
  map (rs_pid exq_oti) exq_pkts = [(1, 0); (0, 5); (0, 1); (1, 0); (0, 0)]
  /\ forallb (fun j => match summary 7 (receive env_sys 1 exq_files None 7 1000 (skipn j exq_pkts ++ exq_pkts)) with
                       | (Completed, [CallOpen true; CallWrite [1; 2; 3; 4] true; CallWrite [5] true; CallComplete]) => true
                       | _ => false end) [0; 1; 2; 3; 4; 5; 6]%nat = true
  /\ summary 7 (receive env_sys 1 exq_files None 7 1000 (skipn 3 exq_pkts)) = (Receiving, [CallOpen true]).
Proof. vm_compute. repeat split. Qed.

Example C16_example_fq_by_theorem : forall j : nat,
  delivered env_sys 1 exq_files None 7 1000 exr_content (skipn j exq_pkts ++ exq_pkts).
Proof. exact exq_late_join_by_theorem. Qed.

(* ---------------- session level, RaptorQ / Raptor (setting of C02_fq_session_fdt_late_delivers) ----------------
   The receiver joins at ANY packet offset j of a carousel cycle cyc1 of the object whose packets carry EXT_FTI = (oti, L),
   no EXT_CENC, no close-object flag (inband: they are decoded - the oracle is consulted - without writer), then the
   FDT packet, then one whole further cycle cyc2 that holds every source symbol (carousel, or last transfer with the
   close-object flag where fq_close_flag_ok allows it; with or without EXT_FTI).  Conclusion: session_delivered. *)
Theorem C16_session_late_join_fq : forall E parse_fdt cfg oti content enc toi md5 now pf id foti d inst cyc1 cyc2 (j : nat),
  let L := lenN_ content in
  fq_scheme_ok oti L -> fq_blocks_ok oti L -> toi <> 0 ->
  fdt_pkt_ok pf id foti d -> parse_fdt d = Some inst -> fdt_live cfg inst pf now ->
  fdt_entry_for (fi_files inst) (fi_oti inst) toi oti L md5 ->
  writer_accepts E toi -> writes_succeed E toi -> md5_good E content md5 ->
  fq_oracle_sound E oti content enc toi -> fq_oracle_complete E oti content enc toi ->
  L <= cf_max_cache cfg -> nb_blocks_of oti L <= 4097 ->
  Forall (fun p => a_toi p = toi) (cyc1 ++ cyc2) ->
  Forall (fun p => fq_genuine_pkt oti content enc p = true) (cyc1 ++ cyc2) ->
  Forall (fun p => fq_sized_pkt oti p = true) (cyc1 ++ cyc2) ->
  Forall (inband oti L) cyc1 ->
  fq_close_flag_ok oti L cyc2 ->
  fq_recoverable oti L cyc2 = true ->
  let '(_, r, c) := recv_run E parse_fdt cfg recv0 (map (fun p => RvPush p now) (skipn j cyc1 ++ pf :: cyc2)) ctx0 in
  session_delivered cfg inst content toi r c.
Proof. exact fq_session_late_join. Qed.
Print Assumptions C16_session_late_join_fq.

(* more generally: ANY genuine in-band packets of the object (source or repair symbols, any order, any duplication)
   before the FDT packet *)
Theorem C16_session_late_join_general_fq : forall E parse_fdt cfg oti content enc toi md5 now pf id foti d inst pre pkts,
  let L := lenN_ content in
  fq_scheme_ok oti L -> fq_blocks_ok oti L -> toi <> 0 ->
  fdt_pkt_ok pf id foti d -> parse_fdt d = Some inst -> fdt_live cfg inst pf now ->
  fdt_entry_for (fi_files inst) (fi_oti inst) toi oti L md5 ->
  writer_accepts E toi -> writes_succeed E toi -> md5_good E content md5 ->
  fq_oracle_sound E oti content enc toi -> fq_oracle_complete E oti content enc toi ->
  L <= cf_max_cache cfg -> nb_blocks_of oti L <= 4097 ->
  Forall (fun p => a_toi p = toi) (pre ++ pkts) ->
  Forall (fun p => fq_genuine_pkt oti content enc p = true) (pre ++ pkts) ->
  Forall (fun p => fq_sized_pkt oti p = true) (pre ++ pkts) ->
  Forall (inband oti L) pre ->
  fq_close_flag_ok oti L pkts ->
  fq_recoverable oti L pkts = true ->
  let '(_, r, c) := recv_run E parse_fdt cfg recv0 (map (fun p => RvPush p now) (pre ++ pf :: pkts)) ctx0 in
  session_delivered cfg inst content toi r c.
Proof. exact fq_session_late_join_general. Qed.
Print Assumptions C16_session_late_join_general_fq.

Example C16_session_example_fq :
  forallb (fun j => match sess_env env_sys (txr_parse exq_oti 5) (tx_cfg true false)
                               (skipn j (map (with_fti_of exq_oti 5) exq_pkts) ++ tx_fdt None :: exq_pkts) with
                    | (_, [], [7], [], l) => list_eqb (fun a b => match a, b with
                                                                 | EvWrite _ x _, EvWrite _ y _ => eqb_bytes x y
                                                                 | EvBuilder _ _, EvBuilder _ _ | EvOpen _ _, EvOpen _ _
                                                                 | EvComplete _, EvComplete _ => true
                                                                 | _, _ => false end) l delivered_log
                    | _ => false end) [0; 1; 2; 3; 4; 5; 6]%nat = true.
Proof. vm_compute. reflexivity. Qed.

Example C16_session_example_fq_by_theorem : forall j : nat,
  let '(_, r, c) := recv_run env_sys (txr_parse exq_oti 5) (tx_cfg true false) recv0
                             (map (fun p => RvPush p 100%Z)
                                  (skipn j (map (with_fti_of exq_oti 5) exq_pkts) ++ tx_fdt None :: exq_pkts)) ctx0 in
  session_delivered (tx_cfg true false) (txr_inst exq_oti 5) exr_content 7 r c.
Proof. exact exq_session_late_join_by_theorem. Qed.

(* ---------------- SEVERAL carouselled objects; the FDT packet ANYWHERE in the stream ----------------
   Proved ONCE over the object-level interface of C02_session_via_interface (SessIface, both halves: "attached and
   receiving" SP with the hypotheses I_, "decoding before the FDT" PS with the hypotheses J_) + I_fdtid of C02_session_multi_fdt_via_interface:
   section LateIface of Proofs/C16Multi.v.  The stream [evs] is ANY interleaving of
   - FDT packets, each a good copy of the one instance (FOk = fdt_copy: fdt_pkt_ok for the same id / document and not
     expired on arrival), at least one; a later copy is ignored (receive-once) or becomes the new head of
     rv_fdt_current and is offered again to every object (attach_latest_fdt_to_objects: no effect on an attached object);
   - packets of the object [toi]: before the first FDT packet in the form pktpre (in-band FTI), genuine afterwards; a
     close-object flag only once the object is covered with it;
   - packets of other non-zero TOIs: ARBITRARY (isolation, C02_isolation);
   in the end the symbols cover the object (inductive form WFm, unfolded below).  Conclusion MDone = multi_delivered
   (C02_multi_delivered_statement).  The instances for No-Code, Reed-Solomon and RaptorQ / Raptor follow. *)
Theorem C16_late_join_via_interface :
  forall (E : env) (parse_fdt : list N -> option fdtinst) (cfg : rconfig) (content : list N) (toi : N) (now : Z)
         (id : N) (inst : fdtinst) (f : fdtfile),
  find (fun f0 => ff_toi f0 =? toi) (fi_files inst) = Some f ->
  forall (SP : objrecv -> ObjRecv.ctx -> Prop) (LV : list (N * N) -> objrecv -> Prop) (gen : apkt -> Prop)
         (pid : apkt -> N * N) (cov : list (N * N) -> Prop),
  (forall o c, SP o c -> r_state o = Receiving) ->
  (forall o c, SP o c -> r_writer o = Some (toi, 0%nat, WOpened)) ->
  (forall o c p, SP o c -> r_nocache (fst (or_push E p o c)) = r_nocache o) ->
  (forall o c seen p, SP o c -> LV seen o -> gen p -> (a_close_obj p = true -> cov (pid p :: seen)) ->
     let (o2, c2) := or_push E p o c in
     SP o2 c2 /\ LV (pid p :: seen) o2 \/ r_state o2 = Completed /\ C02Full.ShapeDone content (toi, 0%nat) toi c2) ->
  (forall o c seen, SP o c -> LV seen o -> cov seen -> False) ->
  (forall fid c, C02Session.Blank c ->
     exists o0 c0, or_attach E fid (fi_files inst) (fi_oti inst) (or_new toi (cf_max_cache cfg)) c = (true, o0, c0)
                   /\ SP o0 c0 /\ LV [] o0 /\ r_nocache o0 = ff_nocache f) ->
  (forall o c, SP o c -> r_fdt_id o <> None) ->
  forall (PS : objrecv -> Prop) (pktpre : apkt -> Prop),
  (forall o, PS o -> r_state o = Receiving) ->
  (forall p, pktpre p -> a_toi p = toi) ->
  (forall c p, pktpre p -> exists o1, or_push E p (or_new toi (cf_max_cache cfg)) c = (o1, c) /\ PS o1 /\ LV [pid p] o1) ->
  (forall o c seen p, PS o -> LV seen o -> pktpre p ->
     exists o1, or_push E p o c = (o1, c) /\ PS o1 /\ LV (pid p :: seen) o1) ->
  (forall fid o c seen, PS o -> LV seen o -> C02Session.Blank c ->
     exists o' c', or_attach E fid (fi_files inst) (fi_oti inst) o c = (true, o', c') /\ r_nocache o' = ff_nocache f
                   /\ (SP o' c' /\ LV seen o' \/ r_state o' = Completed /\ C02Full.ShapeDone content (toi, 0%nat) toi c')) ->
  forall (foti : roti) (d : list N), parse_fdt d = Some inst ->
  forall evs, WFm cfg toi now id inst gen pid cov pktpre foti d false [] evs ->
  let '(_, r, c) := recv_run E parse_fdt cfg recv0 (map (fun p => RvPush p now) evs) ctx0 in
  RI r c /\ EDisj r /\ MDone cfg content toi f r c.
Proof. exact late_multi_wf. Qed.
Print Assumptions C16_late_join_via_interface.

(* WFm ph seen evs, given whether an FDT instance has arrived (ph) and the symbols of the object received so far *)
Theorem C16_multi_wf_statement : forall cfg toi now id inst gen pid cov pktpre foti d ph seen p rest,
  (WFm cfg toi now id inst gen pid cov pktpre foti d ph seen [] <-> ph = true /\ cov seen)
  /\ (WFm cfg toi now id inst gen pid cov pktpre foti d ph seen (p :: rest) <->
      if a_toi p =? 0 then FOk cfg now id inst foti d p /\ WFm cfg toi now id inst gen pid cov pktpre foti d true seen rest
      else if a_toi p =? toi
           then (if ph then gen p else pktpre p) /\ (a_close_obj p = true -> cov (pid p :: seen))
                /\ WFm cfg toi now id inst gen pid cov pktpre foti d ph (pid p :: seen) rest
           else WFm cfg toi now id inst gen pid cov pktpre foti d ph seen rest)
  /\ (FOk cfg now id inst foti d p <-> fdt_pkt_ok p id foti d /\ fdt_live cfg inst p now).
Proof. exact multi_wf_statement. Qed.
Print Assumptions C16_multi_wf_statement.

(* ONE object among other traffic, the FDT instance anywhere (any number of copies, at least one), every packet of the
   object in-band (EXT_FTI = (oti, L), no EXT_CENC, no close-object flag: fit to arrive before as well as after the
   instance); [filter ... evs] = the packets of the object in their order of arrival; nothing is assumed of the packets
   of the other non-zero TOIs *)
Theorem C16_nocode_object_late_among_other_traffic : forall E parse_fdt cfg oti content toi md5 now id foti d inst evs,
  let L := lenN_ content in
  nocode_ok oti L -> toi <> 0 -> parse_fdt d = Some inst ->
  fdt_entry_for (fi_files inst) (fi_oti inst) toi oti L md5 ->
  writer_accepts E toi -> writes_succeed E toi -> md5_good E content md5 ->
  L <= cf_max_cache cfg -> nb_blocks_of oti L <= 4097 ->
  Forall (fun p => a_toi p = 0 -> fdt_copy cfg inst now id foti d p) evs ->
  (exists p, In p evs /\ a_toi p = 0) ->
  let mine := filter (fun p => a_toi p =? toi) evs in
  Forall (fun p => genuine_pkt oti content p = true) mine ->
  Forall (inband oti L) mine ->
  recoverable oti L mine = true ->
  let '(_, r, c) := recv_run E parse_fdt cfg recv0 (map (fun p => RvPush p now) evs) ctx0 in
  multi_delivered cfg inst content toi r c.
Proof. exact nocode_late_among_others_delivers. Qed.
Print Assumptions C16_nocode_object_late_among_other_traffic.

Theorem C16_rs_object_late_among_other_traffic : forall E parse_fdt cfg oti content rep toi md5 now id foti d inst evs,
  let L := lenN_ content in
  rs_scheme_ok oti L -> rs_blocks_ok oti L -> toi <> 0 -> parse_fdt d = Some inst ->
  fdt_entry_for (fi_files inst) (fi_oti inst) toi oti L md5 ->
  writer_accepts E toi -> writes_succeed E toi -> md5_good E content md5 ->
  rs_oracle_mds E oti content rep toi -> rs_rep_sized oti rep ->
  rs_mem_need oti L <= cf_max_cache cfg -> nb_blocks_of oti L <= 4097 ->
  Forall (fun p => a_toi p = 0 -> fdt_copy cfg inst now id foti d p) evs ->
  (exists p, In p evs /\ a_toi p = 0) ->
  let mine := filter (fun p => a_toi p =? toi) evs in
  Forall (fun p => rs_genuine_pkt oti content rep p = true) mine ->
  Forall (inband oti L) mine ->
  rs_recoverable oti L mine = true ->
  let '(_, r, c) := recv_run E parse_fdt cfg recv0 (map (fun p => RvPush p now) evs) ctx0 in
  multi_delivered cfg inst content toi r c.
Proof. exact rs_late_among_others_delivers. Qed.
Print Assumptions C16_rs_object_late_among_other_traffic.

Theorem C16_fq_object_late_among_other_traffic : forall E parse_fdt cfg oti content enc toi md5 now id foti d inst evs,
  let L := lenN_ content in
  fq_scheme_ok oti L -> fq_blocks_ok oti L -> toi <> 0 -> parse_fdt d = Some inst ->
  fdt_entry_for (fi_files inst) (fi_oti inst) toi oti L md5 ->
  writer_accepts E toi -> writes_succeed E toi -> md5_good E content md5 ->
  fq_oracle_sound E oti content enc toi -> fq_oracle_complete E oti content enc toi ->
  L <= cf_max_cache cfg -> nb_blocks_of oti L <= 4097 ->
  Forall (fun p => a_toi p = 0 -> fdt_copy cfg inst now id foti d p) evs ->
  (exists p, In p evs /\ a_toi p = 0) ->
  let mine := filter (fun p => a_toi p =? toi) evs in
  Forall (fun p => fq_genuine_pkt oti content enc p = true) mine ->
  Forall (fun p => fq_sized_pkt oti p = true) mine ->
  Forall (inband oti L) mine ->
  fq_recoverable oti L mine = true ->
  let '(_, r, c) := recv_run E parse_fdt cfg recv0 (map (fun p => RvPush p now) evs) ctx0 in
  multi_delivered cfg inst content toi r c.
Proof. exact fq_late_among_others_delivers. Qed.
Print Assumptions C16_fq_object_late_among_other_traffic.

(* ---------------- a carousel session with objects t1 .. tm (No-Code) listed by ONE FDT instance ----------------
   [objs]: distinct non-zero TOIs, each with the premises of the single-object theorem and [no_pkts o] = the packets of
   ONE transfer of the object, all with in-band FTI, no close-object flag (car_obj_ok, unfolded below).
   A cycle of the whole stream = an interleaving (Merge, C02_multi_statements) of the FDT packet pf and one transfer of
   each object (is_cycle).  The receiver joins at ANY packet boundary j of a cycle c1 - in the middle of an object's
   transfer, before or after the FDT packet - receives the rest of c1 and one whole further cycle c2 (c2 may interleave
   differently): EVERY object is delivered (multi_delivered, C02_multi_delivered_statement). *)
Theorem C16_multi_late_join : forall E parse_fdt cfg now pf id foti d inst objs,
  fdt_pkt_ok pf id foti d -> parse_fdt d = Some inst -> fdt_live cfg inst pf now ->
  NoDup (map no_toi objs) -> Forall (car_obj_ok E cfg inst) objs ->
  forall c1 c2 (j : nat), is_cycle pf objs c1 -> is_cycle pf objs c2 ->
  let '(_, r, c) := recv_run E parse_fdt cfg recv0 (map (fun p => RvPush p now) (skipn j c1 ++ c2)) ctx0 in
  Forall (fun o => multi_delivered cfg inst (no_content o) (no_toi o) r c) objs.
Proof. exact nocode_multi_late_join. Qed.
Print Assumptions C16_multi_late_join.

(* the variant: what was caught of the first cycle holds NO FDT packet, so packets of the objects arrive BEFORE the FDT
   instance (decoded from their in-band FTI, without writer; the FDT packet of the next cycle opens the writers and
   flushes the completed blocks) - for the suffix of a cycle, and for ANY FDT-less prefix of transfer packets (any order,
   any duplication, what is left of any number of earlier cycles, arbitrary packets of unlisted non-zero TOIs) *)
Theorem C16_multi_late_join_after_the_fdt_packet : forall E parse_fdt cfg now pf id foti d inst objs,
  fdt_pkt_ok pf id foti d -> parse_fdt d = Some inst -> fdt_live cfg inst pf now ->
  NoDup (map no_toi objs) -> Forall (car_obj_ok E cfg inst) objs ->
  forall c1 c2 (j : nat), is_cycle pf objs c1 -> is_cycle pf objs c2 ->
  Forall (fun p => a_toi p <> 0) (skipn j c1) ->
  let '(_, r, c) := recv_run E parse_fdt cfg recv0 (map (fun p => RvPush p now) (skipn j c1 ++ c2)) ctx0 in
  Forall (fun o => multi_delivered cfg inst (no_content o) (no_toi o) r c) objs.
Proof. exact nocode_multi_join_after_fdt. Qed.
Print Assumptions C16_multi_late_join_after_the_fdt_packet.

Theorem C16_multi_objects_before_the_fdt : forall E parse_fdt cfg now pf id foti d inst objs,
  fdt_pkt_ok pf id foti d -> parse_fdt d = Some inst -> fdt_live cfg inst pf now ->
  NoDup (map no_toi objs) -> Forall (car_obj_ok E cfg inst) objs ->
  forall pre cyc,
  Forall (fun p => a_toi p <> 0 /\ forall o, In o objs -> a_toi p = no_toi o -> In p (no_pkts o)) pre ->
  is_cycle pf objs cyc ->
  let '(_, r, c) := recv_run E parse_fdt cfg recv0 (map (fun p => RvPush p now) (pre ++ cyc)) ctx0 in
  Forall (fun o => multi_delivered cfg inst (no_content o) (no_toi o) r c) objs.
Proof. exact nocode_multi_join_before_fdt. Qed.
Print Assumptions C16_multi_objects_before_the_fdt.

(* the general form: ANY stream of carousel packets (of_carousel: FDT packets are good copies of the instance - possibly
   different packets -, a packet with the TOI of a listed object is a packet of its transfer, other non-zero TOIs are
   arbitrary) that holds at least one FDT packet and one whole transfer of every object, in ANY order *)
Theorem C16_multi_stream_delivers : forall E parse_fdt cfg now id foti d inst objs evs,
  parse_fdt d = Some inst -> Forall (car_obj_ok E cfg inst) objs ->
  Forall (of_carousel cfg inst now id foti d objs) evs ->
  (exists p, In p evs /\ a_toi p = 0) ->
  (forall o, In o objs -> incl (no_pkts o) evs) ->
  let '(_, r, c) := recv_run E parse_fdt cfg recv0 (map (fun p => RvPush p now) evs) ctx0 in
  Forall (fun o => multi_delivered cfg inst (no_content o) (no_toi o) r c) objs.
Proof. exact nocode_multi_stream_delivers. Qed.
Print Assumptions C16_multi_stream_delivers.

(* "within two further full cycles", in the property's own words: three consecutive cycles c1 c2 c3 of the stream, the
   receiver starts at ANY point j inside c1: fed the rest of c1, then c2, then c3, it has delivered every object by the
   end - and already by the end of c2 *)
Theorem C16_multi_within_two_further_cycles : forall E parse_fdt cfg now pf id foti d inst objs,
  fdt_pkt_ok pf id foti d -> parse_fdt d = Some inst -> fdt_live cfg inst pf now ->
  NoDup (map no_toi objs) -> Forall (car_obj_ok E cfg inst) objs ->
  forall c1 c2 c3 (j : nat), is_cycle pf objs c1 -> is_cycle pf objs c2 -> is_cycle pf objs c3 ->
  (let '(_, r, c) := recv_run E parse_fdt cfg recv0 (map (fun p => RvPush p now) (skipn j c1 ++ c2)) ctx0 in
   Forall (fun o => multi_delivered cfg inst (no_content o) (no_toi o) r c) objs)
  /\ (let '(_, r, c) := recv_run E parse_fdt cfg recv0 (map (fun p => RvPush p now) (skipn j c1 ++ c2 ++ c3)) ctx0 in
      Forall (fun o => multi_delivered cfg inst (no_content o) (no_toi o) r c) objs).
Proof. exact nocode_multi_within_two_cycles. Qed.
Print Assumptions C16_multi_within_two_further_cycles.

(* the vocabulary, unfolded once *)
Theorem C16_multi_statements :
  (forall E cfg inst o, car_obj_ok E cfg inst o <->
     let L := lenN_ (no_content o) in
     nocode_ok (no_oti o) L /\ no_toi o <> 0
     /\ fdt_entry_for (fi_files inst) (fi_oti inst) (no_toi o) (no_oti o) L (no_md5 o)
     /\ writer_accepts E (no_toi o) /\ writes_succeed E (no_toi o) /\ md5_good E (no_content o) (no_md5 o)
     /\ L <= cf_max_cache cfg /\ nb_blocks_of (no_oti o) L <= 4097
     /\ Forall (fun p => a_toi p = no_toi o) (no_pkts o)
     /\ Forall (fun p => genuine_pkt (no_oti o) (no_content o) p = true) (no_pkts o)
     /\ Forall (inband (no_oti o) L) (no_pkts o)
     /\ recoverable (no_oti o) L (no_pkts o) = true)
  /\ (forall oti L p, inband oti L p <-> a_oti p = Some (oti, L) /\ a_cenc p = None /\ a_close_obj p = false)
  /\ (forall cfg inst now id foti d p, fdt_copy cfg inst now id foti d p <-> fdt_pkt_ok p id foti d /\ fdt_live cfg inst p now)
  /\ (forall cfg inst now id foti d objs p, of_carousel cfg inst now id foti d objs p <->
        (a_toi p = 0 -> fdt_copy cfg inst now id foti d p)
        /\ forall o, In o objs -> a_toi p = no_toi o -> In p (no_pkts o))
  /\ (forall pf objs cyc, is_cycle pf objs cyc <-> Merge ([pf] :: map no_pkts objs) cyc)
  (* what a cycle is made of *)
  /\ (forall ls pkts, Merge ls pkts -> forall p, In p pkts <-> exists l, In l ls /\ In p l).
Proof. exact multi_late_statements. Qed.
Print Assumptions C16_multi_statements.

(* non-vacuity: TOI 7 (5 bytes, symbols (0,0) (0,1) (1,0)) and TOI 9 (3 bytes, symbols (0,0) (0,1)), EXT_FTI on every
   object packet, one instance listing both; cycle = FDT 7(0,0) 9(0,0) 7(0,1) 9(0,1) 7(1,0).  For EVERY join offset
   0 .. 7 (offset 4 = in the middle of the transfer of the second object, TOI 9, after the FDT packet of that cycle) both
   objects end in rv_completed, rv_objects and rv_error are empty and each first writer got open, its bytes, complete -
   through recv_run, with receive-once; joining at 4 and stopping after the next FDT packet: both objects present, their
   writers just opened; without receive-once the first writers are served all the same; and by the theorem *)
Example C16_two_objects_late_join :
  cc_cycle = [tx_fdt None; with_fti (src_pkt 7 0 0 false [1; 2]); with_fti_of ex_oti 3 (src_pkt 9 0 0 false [10; 20]);
              with_fti (src_pkt 7 0 1 false [3; 4]); with_fti_of ex_oti 3 (src_pkt 9 0 1 false [30]); with_fti (src_pkt 7 1 0 false [5])]
  /\ forallb (fun j => match sess tm_parse (tx_cfg true false) (skipn j cc_cycle ++ cc_cycle) with
                       | (_, [], comp, [], l) =>
                         existsb (N.eqb 7) comp && existsb (N.eqb 9) comp
                         && completed (calls_of (7, 0%nat) l) && eqb_bytes (written (calls_of (7, 0%nat) l)) ex_content
                         && completed (calls_of (9, 0%nat) l) && eqb_bytes (written (calls_of (9, 0%nat) l)) tm_content9
                         && negb (failed (calls_of (7, 0%nat) l)) && negb (failed (calls_of (9, 0%nat) l))
                       | _ => false end) [0; 1; 2; 3; 4; 5; 6; 7]%nat = true
  /\ sess tm_parse (tx_cfg true false) (skipn 4 cc_cycle ++ firstn 1 cc_cycle)
     = ([POk; POk; POk], [9; 7], [], [], [EvBuilder 9 WStore; EvOpen (9, 0%nat) true; EvBuilder 7 WStore; EvOpen (7, 0%nat) true])
  /\ forallb (fun j => match sess tm_parse (tx_cfg false false) (skipn j cc_cycle ++ cc_cycle) with
                       | (_, _, _, [], l) =>
                         completed (calls_of (7, 0%nat) l) && eqb_bytes (written (calls_of (7, 0%nat) l)) ex_content
                         && completed (calls_of (9, 0%nat) l) && eqb_bytes (written (calls_of (9, 0%nat) l)) tm_content9
                         && negb (failed (calls_of (7, 0%nat) l)) && negb (failed (calls_of (9, 0%nat) l))
                       | _ => false end) [0; 1; 2; 3; 4; 5; 6; 7]%nat = true.
Proof. vm_compute. repeat split. Qed.

Example C16_two_objects_late_join_by_theorem : forall j : nat,
  let '(_, r, c) := recv_run env_ok tm_parse (tx_cfg true false) recv0
                             (map (fun p => RvPush p 100%Z) (skipn j cc_cycle ++ cc_cycle)) ctx0 in
  multi_delivered (tx_cfg true false) tm_inst ex_content 7 r c
  /\ multi_delivered (tx_cfg true false) tm_inst tm_content9 9 r c.
Proof. exact cc_late_join_by_theorem. Qed.
(* ===== end block: C16Multi ===== *)

(* ===== block: C02Cache ===== *)
From FluteV Require Import Proofs.C02Cache.
(* ---------------- late join when the FEC OTI is ONLY in the FDT (Proofs/C02Cache.v) ----------------
   The setting of C16_session_late_join_nocode, but the carousel packets carry NO EXT_FTI (Oti::inband_fti off; the wire
   bridge of the model emits them so): the receiver joins at ANY packet offset j of a carousel transfer of the object; what
   is left of the cycle cannot be decoded yet and is CACHED by the object receiver; the FDT packet attaches the entry and the
   cache is replayed (in arrival order, D43); one whole further transfer follows (carousel or last, with or without EXT_FTI, any
   window).  One premise replaces "EXT_FTI on the early packets": the cached packets fit the cache, cache_fits
   (cf_max_cache rcfg) 0 (the suffix) - the sum of pkt.data.len() of the packets cached so far is below
   max_size_allocated whenever a further packet is cached (C02_cache_statements; C02_cache_bound_refuted shows the object
   abandoned otherwise).  It holds for every suffix as soon as it holds for the whole cycle (C16_cache_fits_any_suffix).
   Conclusion: session_meta_delivered, as C16_session_late_join_nocode. *)
Theorem C16_session_cached_late_join_nocode :
  forall rep raptor_src cfg complete now m content E rcfg nowr id sct,
  sender_ok cfg now m content -> doc_fits cfg complete now m -> receiver_ok E rcfg nowr sct cfg now m content ->
  forall (window1 : nat) (debug1 : bool) (j window : nat) (closable debug fti : bool),
  (1 <= window1)%nat -> (1 <= window)%nat ->
  cache_fits (cf_max_cache rcfg) 0 (skipn j (obj_wire rep raptor_src cfg m window1 false debug1 content false)) = true ->
  let '(_, r, cx) := recv_run E fdt_oracle rcfg recv0
                       (map (fun p => RvPush p nowr)
                            (skipn j (obj_wire rep raptor_src cfg m window1 false debug1 content false)
                             ++ sess_fdt_pkt cfg complete now m id sct
                                :: obj_wire rep raptor_src cfg m window closable debug content fti)) ctx0 in
  session_meta_delivered cfg complete now m content rcfg r cx.
Proof. exact session_cached_late_join. Qed.
Print Assumptions C16_session_cached_late_join_nocode.

(* more generally: ANY genuine packets of the object without EXT_FTI, EXT_CENC and close-object flag (any order, any
   duplication, what is left of any number of earlier cycles) that fit the cache, before the FDT packet *)
Theorem C16_session_cached_late_join_general_nocode :
  forall rep raptor_src cfg complete now m content E rcfg nowr id sct,
  sender_ok cfg now m content -> doc_fits cfg complete now m -> receiver_ok E rcfg nowr sct cfg now m content ->
  forall (window : nat) (closable debug fti : bool) (pre : list apkt), (1 <= window)%nat ->
  Forall (fun p => a_toi p = m_toi m) pre ->
  Forall (fun p => genuine_pkt (obj_roti cfg m) content p = true) pre ->
  Forall (fun p => a_oti p = None /\ a_cenc p = None /\ a_close_obj p = false) pre ->
  cache_fits (cf_max_cache rcfg) 0 pre = true ->
  let '(_, r, cx) := recv_run E fdt_oracle rcfg recv0
                       (map (fun p => RvPush p nowr)
                            (pre ++ sess_fdt_pkt cfg complete now m id sct
                                    :: obj_wire rep raptor_src cfg m window closable debug content fti)) ctx0 in
  session_meta_delivered cfg complete now m content rcfg r cx.
Proof. exact session_cached_late_join_general. Qed.
Print Assumptions C16_session_cached_late_join_general_nocode.

Theorem C16_cache_fits_any_suffix : forall max (j : nat) l,
  cache_fits max 0 l = true -> cache_fits max 0 (skipn j l) = true.
Proof. exact cache_fits_skipn. Qed.
Print Assumptions C16_cache_fits_any_suffix.

(* non-vacuity: the session of C16_session_example (real XML bytes through the oracle) as a carousel WITHOUT EXT_FTI, cycle
   (0,0) (1,0) (0,1): for every join offset the packets are accepted, TOI 7 ends in rv_completed and the log is the
   delivery - by computation and by the theorem *)
Example C16_session_cached_example :
  forallb (fun j => match exs_run (skipn j (exs_wire false) ++ exs_pf :: exs_wire false) with
                    | (_, [], [7], [], l) => list_eqb (fun a b => match a, b with
                                                                 | EvWrite _ x _, EvWrite _ y _ => eqb_bytes x y
                                                                 | EvBuilder _ _, EvBuilder _ _ | EvOpen _ _, EvOpen _ _
                                                                 | EvComplete _, EvComplete _ => true
                                                                 | _, _ => false end) l exs_log
                    | _ => false end) [0; 1; 2; 3; 4]%nat = true
  /\ forallb (fun p => match a_oti p with None => true | Some _ => false end) (exs_wire false) = true.
Proof. exact exs_cached_late_computed. Qed.

Example C16_session_cached_example_by_theorem : forall j closable fti,
  let '(_, r, cx) := recv_run exs_env fdt_oracle exs_rcfg recv0
                       (map (fun p => RvPush p exs_nowr)
                            (skipn j (obj_wire no_rep no_rsrc exs_cfg exs_m 2 false true ex_content false)
                             ++ sess_fdt_pkt exs_cfg false exs_now exs_m 1 exs_sct
                                :: obj_wire no_rep no_rsrc exs_cfg exs_m 2 closable true ex_content fti)) ctx0 in
  session_meta_delivered exs_cfg false exs_now exs_m ex_content exs_rcfg r cx.
Proof. exact exs_cached_late_by_theorem. Qed.
(* ===== end block: C02Cache ===== *)

(* ===== block: D44 ===== *)
(* ---------------- late join: a close-object flag BEFORE the FDT instance is harmless (defect D44, repaired) ----------------
   A packet carrying the close-object flag interrupts a Receiving object only once the object has a writer, i.e. once an
   FDT instance has been attached (Model/ObjRecv.v, push_to_block).  The session late-join theorems above therefore hold
   without the premise "no close-object flag before the FDT packet": what the late joiner catches before the instance need
   only carry EXT_FTI = (oti, L) and no EXT_CENC - e.g. the tail of a LAST transfer, whose final packet has the flag
   (C02_session_close_flag_before_fdt_now_delivered, Properties/C02.v: formerly nothing was delivered).  The old theorems
   are kept above; close_flag_ok_after is unfolded in C02_close_flag_after_statement. *)
Theorem C16_session_late_join_general_nocode_any_flag_before_fdt :
  forall rep raptor_src cfg complete now m content E rcfg nowr id sct,
  sender_ok cfg now m content -> doc_fits cfg complete now m -> receiver_ok E rcfg nowr sct cfg now m content ->
  forall (window : nat) (closable debug fti : bool) (pre : list apkt), (1 <= window)%nat ->
  Forall (fun p => a_toi p = m_toi m) pre ->
  Forall (fun p => genuine_pkt (obj_roti cfg m) content p = true) pre ->
  Forall (fun p => a_oti p = Some (obj_roti cfg m, lenN_ content) /\ a_cenc p = None) pre ->
  let '(_, r, cx) := recv_run E fdt_oracle rcfg recv0
                       (map (fun p => RvPush p nowr)
                            (pre ++ sess_fdt_pkt cfg complete now m id sct
                                    :: obj_wire rep raptor_src cfg m window closable debug content fti)) ctx0 in
  session_meta_delivered cfg complete now m content rcfg r cx.
Proof. exact session_late_join_general_any_flag_before_fdt. Qed.
Print Assumptions C16_session_late_join_general_nocode_any_flag_before_fdt.

(* the receiver joins at ANY packet offset j of a transfer with in-band FTI - a carousel transfer or the LAST one
   (closable1 = true: the close-object flag on its last packet) -, then the FDT packet, then one whole further transfer *)
Theorem C16_session_late_join_nocode_any_flag_before_fdt :
  forall rep raptor_src cfg complete now m content E rcfg nowr id sct,
  sender_ok cfg now m content -> doc_fits cfg complete now m -> receiver_ok E rcfg nowr sct cfg now m content ->
  forall (window1 : nat) (closable1 debug1 : bool) (j window : nat) (closable debug fti : bool),
  (1 <= window1)%nat -> (1 <= window)%nat ->
  let '(_, r, cx) := recv_run E fdt_oracle rcfg recv0
                       (map (fun p => RvPush p nowr)
                            (skipn j (obj_wire rep raptor_src cfg m window1 closable1 debug1 content true)
                             ++ sess_fdt_pkt cfg complete now m id sct
                                :: obj_wire rep raptor_src cfg m window closable debug content fti)) ctx0 in
  session_meta_delivered cfg complete now m content rcfg r cx.
Proof. exact session_late_join_any_flag_before_fdt. Qed.
Print Assumptions C16_session_late_join_nocode_any_flag_before_fdt.

Theorem C16_session_late_join_general_rs_any_flag_before_fdt :
  forall rep raptor_src cfg complete now m content E rcfg nowr id sct,
  sender_ok_rs cfg now m content -> doc_fits cfg complete now m -> rep_len_ok rep ->
  rs_rep_sym_ok rep (obj_ecfg_rs cfg m 1 false false) content ->
  receiver_ok_rs rep E rcfg nowr sct cfg now m content ->
  forall (window : nat) (closable debug fti : bool) (pre : list apkt), (1 <= window)%nat ->
  Forall (fun p => a_toi p = m_toi m) pre ->
  Forall (fun p => rs_genuine_pkt (obj_roti_rs cfg m) content (obj_rep_rs rep cfg m content) p = true) pre ->
  Forall (fun p => a_oti p = Some (obj_roti_rs cfg m, lenN_ content) /\ a_cenc p = None) pre ->
  let '(_, r, cx) := recv_run E fdt_oracle rcfg recv0
                       (map (fun p => RvPush p nowr)
                            (pre ++ sess_fdt_pkt cfg complete now m id sct
                                    :: obj_wire_rs rep raptor_src cfg m window closable debug content fti)) ctx0 in
  session_meta_delivered_rs cfg complete now m content rcfg r cx.
Proof. exact rs_session_late_join_general_any_flag_before_fdt. Qed.
Print Assumptions C16_session_late_join_general_rs_any_flag_before_fdt.

Theorem C16_session_late_join_rs_any_flag_before_fdt :
  forall rep raptor_src cfg complete now m content E rcfg nowr id sct,
  sender_ok_rs cfg now m content -> doc_fits cfg complete now m -> rep_len_ok rep ->
  rs_rep_sym_ok rep (obj_ecfg_rs cfg m 1 false false) content ->
  receiver_ok_rs rep E rcfg nowr sct cfg now m content ->
  forall (window1 : nat) (closable1 debug1 : bool) (j window : nat) (closable debug fti : bool),
  (1 <= window1)%nat -> (1 <= window)%nat ->
  let '(_, r, cx) := recv_run E fdt_oracle rcfg recv0
                       (map (fun p => RvPush p nowr)
                            (skipn j (obj_wire_rs rep raptor_src cfg m window1 closable1 debug1 content true)
                             ++ sess_fdt_pkt cfg complete now m id sct
                                :: obj_wire_rs rep raptor_src cfg m window closable debug content fti)) ctx0 in
  session_meta_delivered_rs cfg complete now m content rcfg r cx.
Proof. exact rs_session_late_join_any_flag_before_fdt. Qed.
Print Assumptions C16_session_late_join_rs_any_flag_before_fdt.

(* non-vacuity (the session of C16_session_example, real XML bytes through the oracle): the receiver joins at ANY offset of
   the LAST transfer (0,0) (1,0) (0,1) - in-band FTI, the flag on its last packet, received BEFORE the FDT packet -, then
   the FDT packet and a whole further transfer; and the whole flagged transfer followed by the FDT packet alone: TOI 7 in
   rv_completed, the log is the delivery - by computation and by the theorem *)
Example C16_session_flag_before_fdt_example :
  map a_close_obj (exs_wire true) = [false; false; true]
  /\ forallb (fun j => match exs_run (skipn j (map (add_fti ex_oti 5) (exs_wire true)) ++ exs_pf :: exs_wire false) with
                       | (_, [], [7], [], l) => list_eqb (fun a b => match a, b with
                                                                    | EvWrite _ x _, EvWrite _ y _ => eqb_bytes x y
                                                                    | EvBuilder _ _, EvBuilder _ _ | EvOpen _ _, EvOpen _ _
                                                                    | EvComplete _, EvComplete _ => true
                                                                    | _, _ => false end) l exs_log
                       | _ => false end) [0; 1; 2; 3; 4]%nat = true
  /\ exs_run (map (add_fti ex_oti 5) (exs_wire true) ++ [exs_pf]) = ([POk; POk; POk; POk], [], [7], [], exs_log).
Proof. exact exs_late_flag_before_fdt_computed. Qed.

Example C16_session_flag_before_fdt_by_theorem : forall j closable1 closable fti,
  let '(_, r, cx) := recv_run exs_env fdt_oracle exs_rcfg recv0
                       (map (fun p => RvPush p exs_nowr)
                            (skipn j (obj_wire no_rep no_rsrc exs_cfg exs_m 2 closable1 true ex_content true)
                             ++ sess_fdt_pkt exs_cfg false exs_now exs_m 1 exs_sct
                                :: obj_wire no_rep no_rsrc exs_cfg exs_m 2 closable true ex_content fti)) ctx0 in
  session_meta_delivered exs_cfg false exs_now exs_m ex_content exs_rcfg r cx.
Proof. exact exs_late_flag_before_fdt_by_theorem. Qed.

(* RaptorQ / Raptor: the early packets need only be in-band (EXT_FTI, no EXT_CENC) *)
Theorem C16_session_late_join_general_fq_any_flag_before_fdt :
  forall E parse_fdt cfg oti content enc toi md5 now pf id foti d inst pre pkts,
  let L := lenN_ content in
  fq_scheme_ok oti L -> fq_blocks_ok oti L -> toi <> 0 ->
  fdt_pkt_ok pf id foti d -> parse_fdt d = Some inst -> fdt_live cfg inst pf now ->
  fdt_entry_for (fi_files inst) (fi_oti inst) toi oti L md5 ->
  writer_accepts E toi -> writes_succeed E toi -> md5_good E content md5 ->
  fq_oracle_sound E oti content enc toi -> fq_oracle_complete E oti content enc toi ->
  L <= cf_max_cache cfg -> nb_blocks_of oti L <= 4097 ->
  Forall (fun p => a_toi p = toi) (pre ++ pkts) ->
  Forall (fun p => fq_genuine_pkt oti content enc p = true) (pre ++ pkts) ->
  Forall (fun p => fq_sized_pkt oti p = true) (pre ++ pkts) ->
  Forall (fun p => a_oti p = Some (oti, L) /\ a_cenc p = None) pre ->
  fq_close_flag_ok oti L pkts ->
  fq_recoverable oti L pkts = true ->
  let '(_, r, c) := recv_run E parse_fdt cfg recv0 (map (fun p => RvPush p now) (pre ++ pf :: pkts)) ctx0 in
  session_delivered cfg inst content toi r c.
Proof. exact fq_session_late_join_general_any_flag_before_fdt. Qed.
Print Assumptions C16_session_late_join_general_fq_any_flag_before_fdt.

Theorem C16_session_late_join_fq_any_flag_before_fdt :
  forall E parse_fdt cfg oti content enc toi md5 now pf id foti d inst cyc1 cyc2 (j : nat),
  let L := lenN_ content in
  fq_scheme_ok oti L -> fq_blocks_ok oti L -> toi <> 0 ->
  fdt_pkt_ok pf id foti d -> parse_fdt d = Some inst -> fdt_live cfg inst pf now ->
  fdt_entry_for (fi_files inst) (fi_oti inst) toi oti L md5 ->
  writer_accepts E toi -> writes_succeed E toi -> md5_good E content md5 ->
  fq_oracle_sound E oti content enc toi -> fq_oracle_complete E oti content enc toi ->
  L <= cf_max_cache cfg -> nb_blocks_of oti L <= 4097 ->
  Forall (fun p => a_toi p = toi) (cyc1 ++ cyc2) ->
  Forall (fun p => fq_genuine_pkt oti content enc p = true) (cyc1 ++ cyc2) ->
  Forall (fun p => fq_sized_pkt oti p = true) (cyc1 ++ cyc2) ->
  Forall (fun p => a_oti p = Some (oti, L) /\ a_cenc p = None) cyc1 ->
  fq_close_flag_ok oti L cyc2 ->
  fq_recoverable oti L cyc2 = true ->
  let '(_, r, c) := recv_run E parse_fdt cfg recv0 (map (fun p => RvPush p now) (skipn j cyc1 ++ pf :: cyc2)) ctx0 in
  session_delivered cfg inst content toi r c.
Proof. exact fq_session_late_join_any_flag_before_fdt. Qed.
Print Assumptions C16_session_late_join_fq_any_flag_before_fdt.

(* ---------------- the interface theorem and the "among other traffic" theorems ----------------
   WFm' = WFm (C16_multi_wf_statement) without the flag clause for the packets of the object that arrive while no FDT
   instance has been received (ph = false); WFm implies WFm'.  Same interface hypotheses as C16_late_join_via_interface. *)
Theorem C16_late_join_via_interface_any_flag_before_fdt :
  forall (E : env) (parse_fdt : list N -> option fdtinst) (cfg : rconfig) (content : list N) (toi : N) (now : Z)
         (id : N) (inst : fdtinst) (f : fdtfile),
  find (fun f0 => ff_toi f0 =? toi) (fi_files inst) = Some f ->
  forall (SP : objrecv -> ObjRecv.ctx -> Prop) (LV : list (N * N) -> objrecv -> Prop) (gen : apkt -> Prop)
         (pid : apkt -> N * N) (cov : list (N * N) -> Prop),
  (forall o c, SP o c -> r_state o = Receiving) ->
  (forall o c, SP o c -> r_writer o = Some (toi, 0%nat, WOpened)) ->
  (forall o c p, SP o c -> r_nocache (fst (or_push E p o c)) = r_nocache o) ->
  (forall o c seen p, SP o c -> LV seen o -> gen p -> (a_close_obj p = true -> cov (pid p :: seen)) ->
     let (o2, c2) := or_push E p o c in
     SP o2 c2 /\ LV (pid p :: seen) o2 \/ r_state o2 = Completed /\ C02Full.ShapeDone content (toi, 0%nat) toi c2) ->
  (forall o c seen, SP o c -> LV seen o -> cov seen -> False) ->
  (forall fid c, C02Session.Blank c ->
     exists o0 c0, or_attach E fid (fi_files inst) (fi_oti inst) (or_new toi (cf_max_cache cfg)) c = (true, o0, c0)
                   /\ SP o0 c0 /\ LV [] o0 /\ r_nocache o0 = ff_nocache f) ->
  (forall o c, SP o c -> r_fdt_id o <> None) ->
  forall (PS : objrecv -> Prop) (pktpre : apkt -> Prop),
  (forall o, PS o -> r_state o = Receiving) ->
  (forall p, pktpre p -> a_toi p = toi) ->
  (forall c p, pktpre p -> exists o1, or_push E p (or_new toi (cf_max_cache cfg)) c = (o1, c) /\ PS o1 /\ LV [pid p] o1) ->
  (forall o c seen p, PS o -> LV seen o -> pktpre p ->
     exists o1, or_push E p o c = (o1, c) /\ PS o1 /\ LV (pid p :: seen) o1) ->
  (forall fid o c seen, PS o -> LV seen o -> C02Session.Blank c ->
     exists o' c', or_attach E fid (fi_files inst) (fi_oti inst) o c = (true, o', c') /\ r_nocache o' = ff_nocache f
                   /\ (SP o' c' /\ LV seen o' \/ r_state o' = Completed /\ C02Full.ShapeDone content (toi, 0%nat) toi c')) ->
  forall (foti : roti) (d : list N), parse_fdt d = Some inst ->
  forall evs, WFm' cfg toi now id inst gen pid cov pktpre foti d false [] evs ->
  let '(_, r, c) := recv_run E parse_fdt cfg recv0 (map (fun p => RvPush p now) evs) ctx0 in
  RI r c /\ EDisj r /\ MDone cfg content toi f r c.
Proof. exact late_multi_wf'. Qed.
Print Assumptions C16_late_join_via_interface_any_flag_before_fdt.

Theorem C16_multi_wf_statement_any_flag_before_fdt : forall cfg toi now id inst gen pid cov pktpre foti d ph seen p rest,
  (WFm' cfg toi now id inst gen pid cov pktpre foti d ph seen [] <-> ph = true /\ cov seen)
  /\ (WFm' cfg toi now id inst gen pid cov pktpre foti d ph seen (p :: rest) <->
      if a_toi p =? 0 then FOk cfg now id inst foti d p /\ WFm' cfg toi now id inst gen pid cov pktpre foti d true seen rest
      else if a_toi p =? toi
           then (if ph then gen p /\ (a_close_obj p = true -> cov (pid p :: seen)) else pktpre p)
                /\ WFm' cfg toi now id inst gen pid cov pktpre foti d ph (pid p :: seen) rest
           else WFm' cfg toi now id inst gen pid cov pktpre foti d ph seen rest)
  /\ (forall evs, WFm cfg toi now id inst gen pid cov pktpre foti d ph seen evs ->
                  WFm' cfg toi now id inst gen pid cov pktpre foti d ph seen evs).
Proof. exact multi_wf_statement'. Qed.
Print Assumptions C16_multi_wf_statement_any_flag_before_fdt.

(* ONE object among other traffic.  The stream is split at its FIRST FDT packet: pre ++ pf :: post, no TOI-0 packet in pre.
   The packets of the object in pre (mine1) carry EXT_FTI = (oti, L), no EXT_CENC and ANY close-object flag; those in post
   (mine2) are genuine in ANY form (with or without EXT_FTI: unlike C16_*_object_late_among_other_traffic, which asks
   in-band FTI of all of them) and carry the flag only once mine1 and the packets up to it are recoverable; later FDT packets
   are good copies; packets of other non-zero TOIs are arbitrary. *)
Theorem C16_nocode_object_late_among_other_traffic_any_flag_before_fdt :
  forall E parse_fdt cfg oti content toi md5 now id foti d inst pre pf post,
  let L := lenN_ content in
  nocode_ok oti L -> toi <> 0 -> parse_fdt d = Some inst ->
  fdt_entry_for (fi_files inst) (fi_oti inst) toi oti L md5 ->
  writer_accepts E toi -> writes_succeed E toi -> md5_good E content md5 ->
  L <= cf_max_cache cfg -> nb_blocks_of oti L <= 4097 ->
  Forall (fun p => a_toi p <> 0) pre ->
  fdt_copy cfg inst now id foti d pf ->
  Forall (fun p => a_toi p = 0 -> fdt_copy cfg inst now id foti d p) post ->
  let mine1 := filter (fun p => a_toi p =? toi) pre in
  let mine2 := filter (fun p => a_toi p =? toi) post in
  Forall (fun p => genuine_pkt oti content p = true) (mine1 ++ mine2) ->
  Forall (fun p => a_oti p = Some (oti, L) /\ a_cenc p = None) mine1 ->
  close_flag_ok_after (recoverable oti L) mine1 mine2 ->
  recoverable oti L (mine1 ++ mine2) = true ->
  let '(_, r, c) := recv_run E parse_fdt cfg recv0 (map (fun p => RvPush p now) (pre ++ pf :: post)) ctx0 in
  multi_delivered cfg inst content toi r c.
Proof. exact nocode_late_among_others_delivers_any_flag_before_fdt. Qed.
Print Assumptions C16_nocode_object_late_among_other_traffic_any_flag_before_fdt.

Theorem C16_rs_object_late_among_other_traffic_any_flag_before_fdt :
  forall E parse_fdt cfg oti content rep toi md5 now id foti d inst pre pf post,
  let L := lenN_ content in
  rs_scheme_ok oti L -> rs_blocks_ok oti L -> toi <> 0 -> parse_fdt d = Some inst ->
  fdt_entry_for (fi_files inst) (fi_oti inst) toi oti L md5 ->
  writer_accepts E toi -> writes_succeed E toi -> md5_good E content md5 ->
  rs_oracle_mds E oti content rep toi -> rs_rep_sized oti rep ->
  rs_mem_need oti L <= cf_max_cache cfg -> nb_blocks_of oti L <= 4097 ->
  Forall (fun p => a_toi p <> 0) pre ->
  fdt_copy cfg inst now id foti d pf ->
  Forall (fun p => a_toi p = 0 -> fdt_copy cfg inst now id foti d p) post ->
  let mine1 := filter (fun p => a_toi p =? toi) pre in
  let mine2 := filter (fun p => a_toi p =? toi) post in
  Forall (fun p => rs_genuine_pkt oti content rep p = true) (mine1 ++ mine2) ->
  Forall (fun p => a_oti p = Some (oti, L) /\ a_cenc p = None) mine1 ->
  close_flag_ok_after (rs_recoverable oti L) mine1 mine2 ->
  rs_recoverable oti L (mine1 ++ mine2) = true ->
  let '(_, r, c) := recv_run E parse_fdt cfg recv0 (map (fun p => RvPush p now) (pre ++ pf :: post)) ctx0 in
  multi_delivered cfg inst content toi r c.
Proof. exact rs_late_among_others_delivers_any_flag_before_fdt. Qed.
Print Assumptions C16_rs_object_late_among_other_traffic_any_flag_before_fdt.

Theorem C16_fq_object_late_among_other_traffic_any_flag_before_fdt :
  forall E parse_fdt cfg oti content enc toi md5 now id foti d inst pre pf post,
  let L := lenN_ content in
  fq_scheme_ok oti L -> fq_blocks_ok oti L -> toi <> 0 -> parse_fdt d = Some inst ->
  fdt_entry_for (fi_files inst) (fi_oti inst) toi oti L md5 ->
  writer_accepts E toi -> writes_succeed E toi -> md5_good E content md5 ->
  fq_oracle_sound E oti content enc toi -> fq_oracle_complete E oti content enc toi ->
  L <= cf_max_cache cfg -> nb_blocks_of oti L <= 4097 ->
  Forall (fun p => a_toi p <> 0) pre ->
  fdt_copy cfg inst now id foti d pf ->
  Forall (fun p => a_toi p = 0 -> fdt_copy cfg inst now id foti d p) post ->
  let mine1 := filter (fun p => a_toi p =? toi) pre in
  let mine2 := filter (fun p => a_toi p =? toi) post in
  Forall (fun p => fq_genuine_pkt oti content enc p = true) (mine1 ++ mine2) ->
  Forall (fun p => fq_sized_pkt oti p = true) (mine1 ++ mine2) ->
  Forall (fun p => a_oti p = Some (oti, L) /\ a_cenc p = None) mine1 ->
  close_flag_ok_after (fq_recoverable oti L) mine1 mine2 ->
  fq_recoverable oti L (mine1 ++ mine2) = true ->
  let '(_, r, c) := recv_run E parse_fdt cfg recv0 (map (fun p => RvPush p now) (pre ++ pf :: post)) ctx0 in
  multi_delivered cfg inst content toi r c.
Proof. exact fq_late_among_others_delivers_any_flag_before_fdt. Qed.
Print Assumptions C16_fq_object_late_among_other_traffic_any_flag_before_fdt.
(* ===== end block: D44 ===== *)
