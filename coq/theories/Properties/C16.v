(* C16 - Carousel late join: a receiver starting at any packet still gets every object. *)
From FluteV Require Import Model.Partition Model.BlockEnc Model.SenderCtl Model.ObjRecv Model.Recv Spec.RecvSpec Spec.SessionSpec Spec.SenderSpec
  Spec.C08Spec Proofs.BlockEncProofs Proofs.SenderProofs Proofs.RecvProofs Proofs.SessionProofs Proofs.C08Full Proofs.C02Full Proofs.C01Full Proofs.C01Esi.
Open Scope N_scope.

(* Object-level late-join theorem, PROVED for the No-Code scheme without content encoding
   (Proofs/C01Full.v; same sender, wire bridge [to_apkt], receiver and premises as C01_clean_channel_nocode).
   Carousel transfers carry no close-object flag (c_closable c = false; every transfer of the model emits the
   same packet list [wire_pkts] = map (to_apkt toi) of the packets of enc_run).  A receiver that has the FDT
   entry of the object and joins at ANY packet offset j of one cycle - in the middle of a block, of an
   interleaving window, after the end (j >= length: the empty suffix) - receives the rest of that cycle and
   one whole further cycle, in order: the object is Completed and its writer got exactly: open, writes
   concatenating to [content], one complete ([delivered], the conclusion of C01_clean_channel_nocode).  So
   a late joiner is served within two cycles of the object.
   Not covered: the other FEC schemes, content encodings, the empty object (D37, fixed), and the session level
   (the FDT instance itself must be received within the carousel too, Model/Recv.v; evaluated on every run
   for every join offset). *)
Theorem C16_late_join_delivers_nocode :
  forall rep raptor_src c content oti E toi max fid files inst md5,
  c_fec c = NoCode -> filedesc_accepts c = true -> c_tlen c = lenN content -> 0 < c_tlen c ->
  (1 <= c_window c)%nat ->
  c_e c < 65536 ->
  oti_matches c oti -> fdt_entry_for files inst toi oti (c_tlen c) md5 ->
  writer_accepts E toi -> writes_succeed E toi -> md5_good E content md5 ->
  c_tlen c <= max -> nb_blocks_of oti (c_tlen c) <= 4097 ->
  c_closable c = false ->
  forall j : nat,
  let pkts := wire_pkts rep raptor_src c content toi in
  delivered E fid files inst toi max content (skipn j pkts ++ pkts).
Proof. exact late_join_delivered'. Qed.
Print Assumptions C16_late_join_delivers_nocode.

(* more generally: ANY list of genuine packets without the close-object flag that contains every packet of
   one transfer (as a set; hence any reordering, any duplication, any number of partial or whole cycles
   around them) is delivered *)
Theorem C16_any_superset_of_a_cycle_delivers_nocode :
  forall rep raptor_src c content oti E toi max fid files inst md5,
  c_fec c = NoCode -> filedesc_accepts c = true -> c_tlen c = lenN content -> 0 < c_tlen c ->
  (1 <= c_window c)%nat ->
  c_e c < 65536 ->
  oti_matches c oti -> fdt_entry_for files inst toi oti (c_tlen c) md5 ->
  writer_accepts E toi -> writes_succeed E toi -> md5_good E content md5 ->
  c_tlen c <= max -> nb_blocks_of oti (c_tlen c) <= 4097 ->
  forall l, Forall (fun q => genuine_pkt oti content q = true) l ->
            Forall (fun q => a_close_obj q = false) l ->
            incl (wire_pkts rep raptor_src c content toi) l ->
  delivered E fid files inst toi max content l.
Proof. exact superset_delivered'. Qed.
Print Assumptions C16_any_superset_of_a_cycle_delivers_nocode.

(* a suffix of a cycle, then a whole LAST transfer (close-object flag on its last packet): same conclusion *)
Theorem C16_late_join_then_last_transfer_nocode :
  forall rep raptor_src c content oti E toi max fid files inst md5,
  c_fec c = NoCode -> filedesc_accepts c = true -> c_tlen c = lenN content -> 0 < c_tlen c ->
  (1 <= c_window c)%nat ->
  c_e c < 65536 ->
  oti_matches c oti -> fdt_entry_for files inst toi oti (c_tlen c) md5 ->
  writer_accepts E toi -> writes_succeed E toi -> md5_good E content md5 ->
  c_tlen c <= max -> nb_blocks_of oti (c_tlen c) <= 4097 ->
  forall pre, Forall (fun q => genuine_pkt oti content q = true) pre ->
              Forall (fun q => a_close_obj q = false) pre ->
  delivered E fid files inst toi max content (pre ++ wire_pkts rep raptor_src c content toi).
Proof. exact prefix_then_transfer_delivered'. Qed.
Print Assumptions C16_late_join_then_last_transfer_nocode.

(* non-vacuity: the 5-byte, 2-block object of C01/C02 in a carousel with two interleaved blocks
   (cycle = (0,0) (1,0) (0,1)): every join offset is delivered, by computation and by the theorem *)
Example C16_example_late_join :
  let w := wire_pkts no_rep no_rsrc (ex_cfg false) ex_content 7 in
  map pid_of w = [(0, 0); (1, 0); (0, 1)]
  /\ forallb (fun j => match summary 7 (receive env_ok 1 ex_files None 7 1000 (skipn j w ++ w)) with
                       | (Completed, [CallOpen true; CallWrite [1; 2; 3; 4] true; CallWrite [5] true; CallComplete]) => true
                       | _ => false end) [0; 1; 2; 3; 4]%nat = true
  /\ summary 7 (receive env_ok 1 ex_files None 7 1000 (skipn 1 w)) = (Receiving, [CallOpen true]).
Proof. vm_compute. repeat split. Qed.

Example C16_example_by_theorem : forall j,
  let w := wire_pkts no_rep no_rsrc (ex_cfg false) ex_content 7 in
  delivered env_ok 1 ex_files None 7 1000 ex_content (skipn j w ++ w).
Proof. exact ex_late_join_by_theorem. Qed.

(* The mechanisms the session-level statement rests on: *)
(* (1) a carousel object is never finished: it is queued again after every transfer *)
Theorem C16_carousel_object_never_expires : forall f,
  is_expired f = true <-> (o_max (f_o f) <= t_count (f_t f) /\ o_car (f_o f) = CNone).
Proof. exact expired_iff. Qed.
Print Assumptions C16_carousel_object_never_expires.

(* (2) a receiver that joins late creates the object at its first packet; whatever it has cached
   before the FDT instance arrives is bounded and replayed, and packets for an object already
   completed are ignored *)
Theorem C16_closed_object_ignores_packets : forall E p o c,
  r_state o <> Receiving -> or_push E p o c = (o, c).
Proof. exact closed_object_ignores_packets. Qed.
Print Assumptions C16_closed_object_ignores_packets.

(* (3) mid-block joins: a block completes exactly when all its source symbols have been stored,
   whatever the order and the duplicates across cycles *)
Theorem C16_block_reassembles_iff_all_symbols : forall sh n i,
  (forall j, i <= j < i + N.of_nat n -> has_esi j sh = true) <-> concat_src n i sh <> None.
Proof. exact concat_src_spec. Qed.
Print Assumptions C16_block_reassembles_iff_all_symbols.

Example C16_example :
  is_expired (mk_fdesc (mk_odesc 1 0 1 1 1 (CDelay 0) TNone false None []) true
                       (mk_tinfo false 5 5 None None None None None)) = false
  /\ is_expired (mk_fdesc (mk_odesc 1 0 1 1 1 CNone TNone false None []) true
                          (mk_tinfo false 1 1 None None None None None)) = true.
Proof. vm_compute. split; reflexivity. Qed.
