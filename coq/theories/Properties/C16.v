(* C16 - Carousel late join: a receiver starting at any packet still gets every object. *)
From FluteV Require Import Model.Partition Model.BlockEnc Model.SenderCtl Model.ObjRecv Model.Recv Spec.RecvSpec Spec.SessionSpec Spec.SenderSpec
  Spec.C08Spec Proofs.BlockEncProofs Proofs.SenderProofs Proofs.RecvProofs Proofs.SessionProofs Proofs.C08Full Proofs.C02Full Proofs.C01Full Proofs.C01Esi.
Open Scope N_scope.

(* Object-level late-join theorem, PROVED for the No-Code scheme without content encoding
   (Proofs/C01Full.v; same sender, wire bridge [to_apkt], receiver and premises as C01_clean_channel_nocode).
   Carousel transfers carry no close-object flag (c_closable c = false; every transfer of the model emits the
   same packet list [wire_pkts] = map (to_apkt toi) of the packets of enc_run).  A receiver that has the FDT
   entry of the object and joins at ANY packet offset j of one cycle - in the middle of a block, of an
   interleaving window, after the end (j >= length: the empty suffix) - receives the rest of that cycle and
   one whole further cycle, in order: the object is Completed and its writer got exactly: open, writes
   concatenating to [content], one complete ([delivered], the conclusion of C01_clean_channel_nocode).  So
   a late joiner is served within two cycles of the object.
   Not covered: the other FEC schemes, content encodings, the empty object (D37, fixed), and the session level
   (the FDT instance itself must be received within the carousel too, Model/Recv.v; evaluated on every run
   for every join offset). *)
Theorem C16_late_join_delivers_nocode :
  forall rep raptor_src c content oti E toi max fid files inst md5,
  c_fec c = NoCode -> filedesc_accepts c = true -> c_tlen c = lenN content -> 0 < c_tlen c ->
  (1 <= c_window c)%nat ->
  c_e c < 65536 ->
  oti_matches c oti -> fdt_entry_for files inst toi oti (c_tlen c) md5 ->
  writer_accepts E toi -> writes_succeed E toi -> md5_good E content md5 ->
  c_tlen c <= max -> nb_blocks_of oti (c_tlen c) <= 4097 ->
  c_closable c = false ->
  forall j : nat,
  let pkts := wire_pkts rep raptor_src c content toi in
  delivered E fid files inst toi max content (skipn j pkts ++ pkts).
Proof. exact late_join_delivered'. Qed.
Print Assumptions C16_late_join_delivers_nocode.

(* more generally: ANY list of genuine packets without the close-object flag that contains every packet of
   one transfer (as a set; hence any reordering, any duplication, any number of partial or whole cycles
   around them) is delivered *)
Theorem C16_any_superset_of_a_cycle_delivers_nocode :
  forall rep raptor_src c content oti E toi max fid files inst md5,
  c_fec c = NoCode -> filedesc_accepts c = true -> c_tlen c = lenN content -> 0 < c_tlen c ->
  (1 <= c_window c)%nat ->
  c_e c < 65536 ->
  oti_matches c oti -> fdt_entry_for files inst toi oti (c_tlen c) md5 ->
  writer_accepts E toi -> writes_succeed E toi -> md5_good E content md5 ->
  c_tlen c <= max -> nb_blocks_of oti (c_tlen c) <= 4097 ->
  forall l, Forall (fun q => genuine_pkt oti content q = true) l ->
            Forall (fun q => a_close_obj q = false) l ->
            incl (wire_pkts rep raptor_src c content toi) l ->
  delivered E fid files inst toi max content l.
Proof. exact superset_delivered'. Qed.
Print Assumptions C16_any_superset_of_a_cycle_delivers_nocode.

(* a suffix of a cycle, then a whole LAST transfer (close-object flag on its last packet): same conclusion *)
Theorem C16_late_join_then_last_transfer_nocode :
  forall rep raptor_src c content oti E toi max fid files inst md5,
  c_fec c = NoCode -> filedesc_accepts c = true -> c_tlen c = lenN content -> 0 < c_tlen c ->
  (1 <= c_window c)%nat ->
  c_e c < 65536 ->
  oti_matches c oti -> fdt_entry_for files inst toi oti (c_tlen c) md5 ->
  writer_accepts E toi -> writes_succeed E toi -> md5_good E content md5 ->
  c_tlen c <= max -> nb_blocks_of oti (c_tlen c) <= 4097 ->
  forall pre, Forall (fun q => genuine_pkt oti content q = true) pre ->
              Forall (fun q => a_close_obj q = false) pre ->
  delivered E fid files inst toi max content (pre ++ wire_pkts rep raptor_src c content toi).
Proof. exact prefix_then_transfer_delivered'. Qed.
Print Assumptions C16_late_join_then_last_transfer_nocode.

(* non-vacuity: the 5-byte, 2-block object of C01/C02 in a carousel with two interleaved blocks
   (cycle = (0,0) (1,0) (0,1)): every join offset is delivered, by computation and by the theorem *)
Example C16_example_late_join :
  let w := wire_pkts no_rep no_rsrc (ex_cfg false) ex_content 7 in
  map pid_of w = [(0, 0); (1, 0); (0, 1)]
  /\ forallb (fun j => match summary 7 (receive env_ok 1 ex_files None 7 1000 (skipn j w ++ w)) with
                       | (Completed, [CallOpen true; CallWrite [1; 2; 3; 4] true; CallWrite [5] true; CallComplete]) => true
                       | _ => false end) [0; 1; 2; 3; 4]%nat = true
  /\ summary 7 (receive env_ok 1 ex_files None 7 1000 (skipn 1 w)) = (Receiving, [CallOpen true]).
Proof. vm_compute. repeat split. Qed.

Example C16_example_by_theorem : forall j,
  let w := wire_pkts no_rep no_rsrc (ex_cfg false) ex_content 7 in
  delivered env_ok 1 ex_files None 7 1000 ex_content (skipn j w ++ w).
Proof. exact ex_late_join_by_theorem. Qed.

(* The mechanisms the session-level statement rests on: *)
(* (1) a carousel object is never finished: it is queued again after every transfer *)
Theorem C16_carousel_object_never_expires : forall f,
  is_expired f = true <-> (o_max (f_o f) <= t_count (f_t f) /\ o_car (f_o f) = CNone).
Proof. exact expired_iff. Qed.
Print Assumptions C16_carousel_object_never_expires.

(* (2) a receiver that joins late creates the object at its first packet; whatever it has cached
   before the FDT instance arrives is bounded and replayed, and packets for an object already
   completed are ignored *)
Theorem C16_closed_object_ignores_packets : forall E p o c,
  r_state o <> Receiving -> or_push E p o c = (o, c).
Proof. exact closed_object_ignores_packets. Qed.
Print Assumptions C16_closed_object_ignores_packets.

(* (3) mid-block joins: a block completes exactly when all its source symbols have been stored,
   whatever the order and the duplicates across cycles *)
Theorem C16_block_reassembles_iff_all_symbols : forall sh n i,
  (forall j, i <= j < i + N.of_nat n -> has_esi j sh = true) <-> concat_src n i sh <> None.
Proof. exact concat_src_spec. Qed.
Print Assumptions C16_block_reassembles_iff_all_symbols.

Example C16_example :
  is_expired (mk_fdesc (mk_odesc 1 0 1 1 1 (CDelay 0) TNone false None []) true
                       (mk_tinfo false 5 5 None None None None None)) = false
  /\ is_expired (mk_fdesc (mk_odesc 1 0 1 1 1 CNone TNone false None []) true
                          (mk_tinfo false 1 1 None None None None None)) = true.
Proof. vm_compute. split; reflexivity. Qed.

(* ---------------- the session level: Proofs/C01Session.v ----------------
   The receiver as a whole (Model/Recv.v, recv_run from recv0 / ctx0) with the FDT oracle instantiated by
   [fdt_oracle] (reference XML parser + the extraction of Model/FdtRecv.v), in the setting of
   C01_session_clean_channel_nocode (Properties/C01.v; sender_ok / doc_fits / receiver_ok / session_meta_delivered
   are unfolded in C01_session_statements).  The receiver joins late: it first sees the packets from ANY offset j of
   a carousel transfer of the object (no close-object flag; every packet carries EXT_FTI, Oti::inband_fti, as
   C02_session_fdt_late_delivers requires - they are decoded without writer), then the FDT packet carrying the
   instance the sender model publishes for the object, then one whole further transfer (carousel or last, with or
   without EXT_FTI, any window).  Conclusion: as C01 - writer (toi,0) got open, writes = content, one complete;
   the metadata flute's receiver computes from the parsed document is what the sender was given.
   Not covered: late packets WITHOUT EXT_FTI before the instance (cached and replayed LIFO: delivered in the example
   C02Session.cached_packets_before_fdt_computed, not proved in general), a close-object flag before the instance
   (C02_session_close_flag_before_fdt_refuted), several objects, multi-packet FDT instances. *)
From FluteV Require Import Model.Xml Model.FdtInst Model.FdtRecv Spec.C10Spec Proofs.FdtProofs
  Proofs.C02Session Proofs.C01Session.

Theorem C16_session_late_join_nocode :
  forall rep raptor_src cfg complete now m content E rcfg nowr id sct,
  sender_ok cfg now m content -> doc_fits cfg complete now m -> receiver_ok E rcfg nowr sct cfg now m content ->
  forall (window1 : nat) (debug1 : bool) (j window : nat) (closable debug fti : bool),
  (1 <= window1)%nat -> (1 <= window)%nat ->
  let '(_, r, cx) := recv_run E fdt_oracle rcfg recv0
                       (map (fun p => RvPush p nowr)
                            (skipn j (obj_wire rep raptor_src cfg m window1 false debug1 content true)
                             ++ sess_fdt_pkt cfg complete now m id sct
                                :: obj_wire rep raptor_src cfg m window closable debug content fti)) ctx0 in
  session_meta_delivered cfg complete now m content rcfg r cx.
Proof. exact session_late_join. Qed.
Print Assumptions C16_session_late_join_nocode.

(* more generally: ANY genuine packets of the object with EXT_FTI, no EXT_CENC and no close-object flag (any order,
   any duplication, what is left of any number of earlier cycles) before the FDT packet *)
Theorem C16_session_late_join_general_nocode :
  forall rep raptor_src cfg complete now m content E rcfg nowr id sct,
  sender_ok cfg now m content -> doc_fits cfg complete now m -> receiver_ok E rcfg nowr sct cfg now m content ->
  forall (window : nat) (closable debug fti : bool) (pre : list apkt), (1 <= window)%nat ->
  Forall (fun p => a_toi p = m_toi m) pre ->
  Forall (fun p => genuine_pkt (obj_roti cfg m) content p = true) pre ->
  Forall (fun p => a_oti p = Some (obj_roti cfg m, lenN_ content) /\ a_cenc p = None /\ a_close_obj p = false) pre ->
  let '(_, r, cx) := recv_run E fdt_oracle rcfg recv0
                       (map (fun p => RvPush p nowr)
                            (pre ++ sess_fdt_pkt cfg complete now m id sct
                                    :: obj_wire rep raptor_src cfg m window closable debug content fti)) ctx0 in
  session_meta_delivered cfg complete now m content rcfg r cx.
Proof. exact session_late_join_general. Qed.
Print Assumptions C16_session_late_join_general_nocode.

(* non-vacuity: the session of C01_session_example as a carousel (cycle = (0,0) (1,0) (0,1), EXT_FTI on the packets
   caught before the instance): for every join offset the packets are accepted, TOI 7 ends in rv_completed and the
   log is the delivery - by computation (real XML bytes through the oracle) and by the theorem *)
Example C16_session_example :
  map pid_of (exs_wire false) = [(0, 0); (1, 0); (0, 1)]
  /\ forallb (fun j => match exs_run (skipn j (map (add_fti ex_oti 5) (exs_wire false)) ++ exs_pf :: exs_wire false) with
                       | (_, [], [7], [], l) => list_eqb (fun a b => match a, b with
                                                                    | EvWrite _ x _, EvWrite _ y _ => eqb_bytes x y
                                                                    | EvBuilder _ _, EvBuilder _ _ | EvOpen _ _, EvOpen _ _
                                                                    | EvComplete _, EvComplete _ => true
                                                                    | _, _ => false end) l exs_log
                       | _ => false end) [0; 1; 2; 3; 4]%nat = true.
Proof. vm_compute. split; reflexivity. Qed.

Example C16_session_example_by_theorem : forall j closable fti,
  let '(_, r, cx) := recv_run exs_env fdt_oracle exs_rcfg recv0
                       (map (fun p => RvPush p exs_nowr)
                            (skipn j (obj_wire no_rep no_rsrc exs_cfg exs_m 2 false true ex_content true)
                             ++ sess_fdt_pkt exs_cfg false exs_now exs_m 1 exs_sct
                                :: obj_wire no_rep no_rsrc exs_cfg exs_m 2 closable true ex_content fti)) ctx0 in
  session_meta_delivered exs_cfg false exs_now exs_m ex_content exs_rcfg r cx.
Proof. exact exs_late_by_theorem. Qed.

From FluteV Require Import Proofs.C02RS Proofs.C02SessionRS Proofs.C01RS.
(* ===== block: C01RS ===== *)
(* ---------------- Reed-Solomon GF(2^8): FEC 5 (RS28) and FEC 129 (RS28US), Proofs/C01RS.v ----------------
   The object-level late-join theorems above for the two Reed-Solomon schemes: same sender, wire bridge [to_apkt_rs],
   receiver and premises as C01_clean_channel_rs (Properties/C01.v) - in particular the decoder oracle is MDS for
   [rx_rep rep c content], the receiver-side view of the sender's encoder, and rs_mem_need oti L <= max.  Every
   transfer of the model emits the same list [wire_pkts_rs] (source and repair symbols interleaved by the window); a
   receiver joining at ANY packet offset j of a carousel cycle gets the rest of it and one whole further cycle: the
   object is Completed, the writer got open, writes = content, one complete.  Here the oracle matters: a block may be
   decoded from the repair symbols of the first cycle's tail before its source symbols arrive. *)
Theorem C16_late_join_delivers_rs :
  forall rep raptor_src c content oti E toi max fid files inst md5,
  is_rs (c_fec c) = true -> filedesc_accepts c = true -> c_tlen c = lenN content -> 0 < c_tlen c ->
  (1 <= c_window c)%nat -> rep_len_ok rep ->
  c_e c < 65536 ->
  oti_matches_rs c oti -> fdt_entry_for files inst toi oti (c_tlen c) md5 ->
  writer_accepts E toi -> writes_succeed E toi -> md5_good E content md5 ->
  rs_oracle_mds E oti content (rx_rep rep c content) toi ->
  rs_mem_need oti (c_tlen c) <= max -> nb_blocks_of oti (c_tlen c) <= 4097 ->
  c_closable c = false ->
  forall j : nat,
  let pkts := wire_pkts_rs rep raptor_src c content toi in
  delivered E fid files inst toi max content (skipn j pkts ++ pkts).
Proof. exact rs_late_join_delivered. Qed.
Print Assumptions C16_late_join_delivers_rs.

(* ANY list of genuine packets (source or repair) without the close-object flag that contains every packet of one
   transfer - any reordering, any duplication, any number of partial or whole cycles around them *)
Theorem C16_any_superset_of_a_cycle_delivers_rs :
  forall rep raptor_src c content oti E toi max fid files inst md5,
  is_rs (c_fec c) = true -> filedesc_accepts c = true -> c_tlen c = lenN content -> 0 < c_tlen c ->
  (1 <= c_window c)%nat -> rep_len_ok rep ->
  c_e c < 65536 ->
  oti_matches_rs c oti -> fdt_entry_for files inst toi oti (c_tlen c) md5 ->
  writer_accepts E toi -> writes_succeed E toi -> md5_good E content md5 ->
  rs_oracle_mds E oti content (rx_rep rep c content) toi ->
  rs_mem_need oti (c_tlen c) <= max -> nb_blocks_of oti (c_tlen c) <= 4097 ->
  forall l, Forall (fun q => rs_genuine_pkt oti content (rx_rep rep c content) q = true) l ->
            Forall (fun q => a_close_obj q = false) l ->
            incl (wire_pkts_rs rep raptor_src c content toi) l ->
  delivered E fid files inst toi max content l.
Proof. exact rs_superset_delivered. Qed.
Print Assumptions C16_any_superset_of_a_cycle_delivers_rs.

(* a suffix of a cycle (any genuine flag-free packets), then a whole LAST transfer *)
Theorem C16_late_join_then_last_transfer_rs :
  forall rep raptor_src c content oti E toi max fid files inst md5,
  is_rs (c_fec c) = true -> filedesc_accepts c = true -> c_tlen c = lenN content -> 0 < c_tlen c ->
  (1 <= c_window c)%nat -> rep_len_ok rep ->
  c_e c < 65536 ->
  oti_matches_rs c oti -> fdt_entry_for files inst toi oti (c_tlen c) md5 ->
  writer_accepts E toi -> writes_succeed E toi -> md5_good E content md5 ->
  rs_oracle_mds E oti content (rx_rep rep c content) toi ->
  rs_mem_need oti (c_tlen c) <= max -> nb_blocks_of oti (c_tlen c) <= 4097 ->
  forall pre, Forall (fun q => rs_genuine_pkt oti content (rx_rep rep c content) q = true) pre ->
              Forall (fun q => a_close_obj q = false) pre ->
  delivered E fid files inst toi max content (pre ++ wire_pkts_rs rep raptor_src c content toi).
Proof. exact rs_prefix_then_transfer_delivered. Qed.
Print Assumptions C16_late_join_then_last_transfer_rs.

(* non-vacuity, XOR toy code on both sides: the 5-byte object, FEC 5, E = 2, B = 2, parity 1, carousel with two
   interleaved blocks (cycle = (0,0) (1,0) (0,1) (1,1) (0,2)): every join offset is delivered, by computation and by
   the theorem; the suffix from offset 3 alone is not *)
Example C16_example_late_join_rs :
  let w := wire_pkts_rs xor_rep no_rsrc (exr_cfg RS28 2 false) exr_content 7 in
  map (rs_pid exr_oti) w = [(0, 0); (1, 0); (0, 1); (1, 1); (0, 2)]
  /\ forallb (fun j => match summary 7 (receive env_xor 1 exr_files None 7 1000 (skipn j w ++ w)) with
                       | (Completed, [CallOpen true; CallWrite [1; 2; 3; 4] true; CallWrite [5] true; CallComplete]) => true
                       | _ => false end) [0; 1; 2; 3; 4; 5; 6]%nat = true
  /\ summary 7 (receive env_xor 1 exr_files None 7 1000 (skipn 3 w)) = (Receiving, [CallOpen true]).
Proof. vm_compute. repeat split. Qed.

Example C16_example_rs_by_theorem : forall j,
  let w := wire_pkts_rs xor_rep no_rsrc (exr_cfg RS28 2 false) exr_content 7 in
  delivered env_xor 1 exr_files None 7 1000 exr_content (skipn j w ++ w).
Proof. exact exr_late_join_by_theorem. Qed.

(* ---------------- session level (setting of C01_session_clean_channel_rs, Properties/C01.v) ----------------
   The receiver joins late: the packets from ANY offset j of a carousel transfer of the Reed-Solomon object (no
   close-object flag; EXT_FTI on every packet: they are decoded - the decoder oracle is consulted - without writer),
   then the FDT packet with the instance the sender model publishes, then one whole further transfer. *)
Theorem C16_session_late_join_rs :
  forall rep raptor_src cfg complete now m content E rcfg nowr id sct,
  sender_ok_rs cfg now m content -> doc_fits cfg complete now m -> rep_len_ok rep ->
  receiver_ok_rs rep E rcfg nowr sct cfg now m content ->
  forall (window1 : nat) (debug1 : bool) (j window : nat) (closable debug fti : bool),
  (1 <= window1)%nat -> (1 <= window)%nat ->
  let '(_, r, cx) := recv_run E fdt_oracle rcfg recv0
                       (map (fun p => RvPush p nowr)
                            (skipn j (obj_wire_rs rep raptor_src cfg m window1 false debug1 content true)
                             ++ sess_fdt_pkt cfg complete now m id sct
                                :: obj_wire_rs rep raptor_src cfg m window closable debug content fti)) ctx0 in
  session_meta_delivered_rs cfg complete now m content rcfg r cx.
Proof. exact rs_session_late_join. Qed.
Print Assumptions C16_session_late_join_rs.

(* more generally: ANY genuine packets of the object (source or repair symbols) with EXT_FTI, no EXT_CENC and no
   close-object flag before the FDT packet *)
Theorem C16_session_late_join_general_rs :
  forall rep raptor_src cfg complete now m content E rcfg nowr id sct,
  sender_ok_rs cfg now m content -> doc_fits cfg complete now m -> rep_len_ok rep ->
  receiver_ok_rs rep E rcfg nowr sct cfg now m content ->
  forall (window : nat) (closable debug fti : bool) (pre : list apkt), (1 <= window)%nat ->
  Forall (fun p => a_toi p = m_toi m) pre ->
  Forall (fun p => rs_genuine_pkt (obj_roti_rs cfg m) content (obj_rep_rs rep cfg m content) p = true) pre ->
  Forall (fun p => a_oti p = Some (obj_roti_rs cfg m, lenN_ content) /\ a_cenc p = None /\ a_close_obj p = false) pre ->
  let '(_, r, cx) := recv_run E fdt_oracle rcfg recv0
                       (map (fun p => RvPush p nowr)
                            (pre ++ sess_fdt_pkt cfg complete now m id sct
                                    :: obj_wire_rs rep raptor_src cfg m window closable debug content fti)) ctx0 in
  session_meta_delivered_rs cfg complete now m content rcfg r cx.
Proof. exact rs_session_late_join_general. Qed.
Print Assumptions C16_session_late_join_general_rs.

(* non-vacuity: the session of C01_session_example_rs as a carousel (EXT_FTI on the packets caught before the
   instance): for every join offset TOI 7 ends in rv_completed and the log is the delivery - by computation (real XML
   bytes through the oracle, XOR decoder) and by the theorem *)
Example C16_session_example_rs :
  forallb (fun j => match exsr_run (skipn j (exsr_wire false true) ++ exsr_pf :: exsr_wire false false) with
                    | (_, [], [7], [], l) => list_eqb (fun a b => match a, b with
                                                                 | EvWrite _ x _, EvWrite _ y _ => eqb_bytes x y
                                                                 | EvBuilder _ _, EvBuilder _ _ | EvOpen _ _, EvOpen _ _
                                                                 | EvComplete _, EvComplete _ => true
                                                                 | _, _ => false end) l exs_log
                    | _ => false end) [0; 1; 2; 3; 4; 5; 6]%nat = true.
Proof. vm_compute. reflexivity. Qed.

Example C16_session_example_rs_by_theorem : forall j closable fti,
  let '(_, r, cx) := recv_run exsr_env fdt_oracle exs_rcfg recv0
                       (map (fun p => RvPush p exs_nowr)
                            (skipn j (obj_wire_rs xor_rep no_rsrc exs_cfg exsr_m 2 false true exr_content true)
                             ++ sess_fdt_pkt exs_cfg false exs_now exsr_m 1 exs_sct
                                :: obj_wire_rs xor_rep no_rsrc exs_cfg exsr_m 2 closable true exr_content fti)) ctx0 in
  session_meta_delivered_rs exs_cfg false exs_now exsr_m exr_content exs_rcfg r cx.
Proof. exact exsr_late_by_theorem. Qed.
(* ===== end block: C01RS ===== *)

From FluteV Require Import Proofs.C02MultiFdt.
(* ===== block: C02MultiFdt ===== *)
(* ---------------- mid-FDT join: the FDT instance spans several packets (Proofs/C02MultiFdt.v) ----------------
   The receiver (Model/Recv.v, recv_run from recv0 / ctx0, the FDT parser an oracle as in the C02_session theorems) starts at ANY
   packet offset j of one transmission [fcyc] of the instance (FDT packets of a carousel: no close-object flag; each
   TOI 0, EXT_FDT = id, EXT_FTI = (foti, |d|), genuine for the document d, not expired: fdt_pkt_multi, unfolded in
   C02_session_multi_fdt_statements), receives the rest of it and one whole further transmission.  Meanwhile packets
   [pre] of the object arrive, carrying EXT_FTI = (oti, L), no EXT_CENC, no close-object flag, interleaved with the
   FDT packets IN ANY WAY (mix: its FDT packets are skipn j fcyc ++ fcyc, its object packets are pre, in these
   orders); then the rest of the object's packets [pkts] in any form.  genuine / close_flag_ok / recoverable are those
   of pre ++ pkts.  Conclusion: session_delivered (C02_session_statements).  The packets of the partial transmission
   are kept (they are symbols of the same instance id), the inner object receiver completes as soon as every source
   symbol of d is there.
   The fully general form (any interleaving, FDT copies also after the object's packets) is
   C02_session_multi_fdt_delivers.  Not covered: a close-object flag on an FDT packet of the partial transmission
   (C02_session_multi_fdt_guards: the instance is dropped and must be received again from scratch), FDT packets
   without EXT_FTI, other FDT instance ids in between, several objects. *)
Theorem C16_session_mid_fdt_join_nocode :
  forall E parse_fdt cfg oti content toi md5 now id foti d inst fcyc (j : nat) pre mix pkts,
  let L := lenN_ content in
  let Ld := lenN_ d in
  nocode_ok oti L -> toi <> 0 ->
  nocode_ok foti Ld -> Ld <= 1048576 -> nb_blocks_of foti Ld <= 4097 ->
  parse_fdt d = Some inst ->
  fdt_entry_for (fi_files inst) (fi_oti inst) toi oti L md5 ->
  writer_accepts E toi -> writes_succeed E toi -> md5_good E content md5 ->
  L <= cf_max_cache cfg -> nb_blocks_of oti L <= 4097 ->
  Forall (fdt_pkt_multi cfg inst now id foti d) fcyc ->
  Forall (fun p => a_close_obj p = false) fcyc -> recoverable foti Ld fcyc = true ->
  fdt_of mix = skipn j fcyc ++ fcyc -> obj_of mix = pre ->
  Forall (fun p => a_toi p = toi) (pre ++ pkts) ->
  Forall (fun p => genuine_pkt oti content p = true) (pre ++ pkts) ->
  Forall (fun p => a_oti p = Some (oti, L) /\ a_cenc p = None /\ a_close_obj p = false) pre ->
  close_flag_ok oti L (pre ++ pkts) -> recoverable oti L (pre ++ pkts) = true ->
  let '(_, r, c) := recv_run E parse_fdt cfg recv0 (map (fun p => RvPush p now) (mix ++ pkts)) ctx0 in
  session_delivered cfg inst content toi r c.
Proof. exact session_mid_fdt_join_delivers. Qed.
Print Assumptions C16_session_mid_fdt_join_nocode.

(* non-vacuity: the 3-packet instance of C02_session_multi_fdt_example, cycle (0,0) (0,1) (1,0); the receiver joins at
   packet 1, three packets of the object with EXT_FTI are interleaved with the five FDT packets it sees; then the other
   two packets of the object - with and without receive-once (without it the FDT packets that follow the completion
   start a second, partial reception of the instance) - by computation and by the theorem; and every join offset with
   the object's EXT_FTI packets between the partial and the whole transmission *)
Example C16_session_mid_fdt_join_example :
  map pid_of (fdt_of mx_mix) = [(0, 1); (1, 0); (0, 0); (0, 1); (1, 0)]
  /\ fdt_of mx_mix = skipn 1 [f00; f01; f10] ++ [f00; f01; f10] /\ obj_of mx_mix = mx_pre
  /\ sessx mx_parse (tx_cfg true false) (mx_mix ++ skipn 3 ex_pkts)
     = ([POk; POk; POk; POk; POk; POk; POk; POk; POk; POk], [], [7], [], [], 1%nat, delivered_log)
  /\ sessx mx_parse (tx_cfg false false) (mx_mix ++ skipn 3 ex_pkts)
     = ([POk; POk; POk; POk; POk; POk; POk; POk; POk; POk], [], [7], [], [(1, FReceiving)], 1%nat, delivered_log)
  /\ forallb (fun j => match sessx mx_parse (tx_cfg true false)
                               (skipn j [f00; f01; f10] ++ mx_pre ++ [f00; f01; f10] ++ skipn 3 ex_pkts) with
                       | (_, [], [7], [], [], 1%nat, _) => true
                       | _ => false end) [0; 1; 2; 3; 4]%nat = true.
Proof. vm_compute. repeat split. Qed.

Example C16_session_mid_fdt_join_by_theorem : forall once,
  let '(_, r, c) := recv_run env_ok mx_parse (tx_cfg once false) recv0
                             (map (fun p => RvPush p 100%Z) (mx_mix ++ skipn 3 ex_pkts)) ctx0 in
  session_delivered (tx_cfg once false) (tx_inst false None) ex_content 7 r c.
Proof. exact mx_midjoin_by_theorem. Qed.
(* ===== end block: C02MultiFdt ===== *)
