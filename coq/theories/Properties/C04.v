(* C04 - Untrusted input: no packet sequence can panic, hang or blow up the receiver; a rejected
   packet leaves the receiver usable.

   Models:  Model/AlcFixed.v   parse side of lct.rs / alc.rs / alccodec/*.rs after fixes D01 D02 D04, every
                               index, slice, subtraction, division, remainder and shift checked ([Panic]);
            Model/ObjRecv.v, Model/Recv.v   the receiver after fixes D05 D07 D08 D09 D10 D28 D33 D34, panic flag [c_panic];
            Model/RecvBytes.v  Receiver::push_data = the checked parser in front of the receiver model.
   External code (FEC decoders, inflate, MD5, the XML parser, the user's writers) is an oracle: an
   arbitrary function in [env] / [parse_fdt]; whatever it answers is covered by the theorems, what it
   does internally is not (the harness runs the real crates). *)
From FluteV Require Import Model.ObjRecv Spec.RecvSpec Spec.SessionSpec Proofs.RecvProofs Proofs.SessionProofs
  Proofs.C02Full Proofs.C09Full Proofs.C02Session.            (* the vocabulary of C02_session_fdt_first_delivers, for (7) *)
From FluteV Require Import Spec.C04Spec.
From FluteV Require Import Model.AlcFixed Proofs.AlcFixedProofs.
From FluteV Require Import Model.Recv Model.RecvBytes Proofs.RecvTotalProofs Proofs.RecvBytesProofs Proofs.C04Proofs.
From FluteV Require Import Proofs.C04Usable.
Open Scope N_scope.

(* ================= (1) parse_total ================= *)
(* for EVERY byte string (list of naturals, not even required to be below 256) the repaired parser
   returns Ok or Err: no index out of range, no slice out of range, no subtraction underflow, no
   division or remainder by zero, no shift by the type's width or more, no loop out of fuel *)
Theorem C04_parse_total : forall data, returned (parse_alc_pkt_fixed data) = true.
Proof. exact parse_alc_pkt_fixed_total. Qed.
Print Assumptions C04_parse_total.

(* and so do the two functions the receiver calls on an accepted packet: get_sender_current_time,
   and parse_payload_id with ANY object transmission information (the object's OTI need not be the
   packet's: another codec, any m for GF(2^m)) *)
Theorem C04_parsed_packet_total : forall data a,
  parse_alc_pkt_fixed data = Bytes.Ok a ->
  returned (get_sender_current_time_fixed data a) = true /\
  forall o, returned (parse_payload_id_fixed data a o) = true.
Proof. exact parsed_packet_total. Qed.
Print Assumptions C04_parsed_packet_total.

(* the same three as the harness observes them (code 2 = panic or out of fuel) *)
Theorem C04_observe_total : forall data,
  match observe_fixed data with Obs p s i => p <> 2 /\ s <> 2 /\ i <> 2 end.
Proof. exact observe_fixed_total. Qed.
Print Assumptions C04_observe_total.

(* nothing shorter than the smallest LCT header is accepted *)
Theorem C04_short_datagram_rejected : forall data, lenN data < 8 -> parse_alc_pkt_fixed data = Bytes.Err.
Proof. exact parse_alc_pkt_fixed_short. Qed.
Print Assumptions C04_short_datagram_rejected.

(* the three repairs change nothing but the panics: wherever the C06 model of the unrepaired code
   returns, the repaired code returns the same; where it panicked (D1, D2, D4) it now returns Err *)
Theorem C04_fix_D1_conservative : forall data,
  parse_lct_header_fixed data = if lenN data <? 4 then Bytes.Err else parse_lct_header data.
Proof. exact parse_lct_header_fixed_vs_c06. Qed.
Print Assumptions C04_fix_D1_conservative.
Theorem C04_fix_D2_conservative : forall fti,
  parse_fti_rs28_fixed fti = match parse_fti_rs28 fti with Bytes.Panic => Bytes.Err | r => r end.
Proof. exact parse_fti_rs28_fixed_vs_c06. Qed.
Print Assumptions C04_fix_D2_conservative.
Theorem C04_fix_D4_conservative : forall o pid,
  get_fec_payload_id_fixed o pid = match get_fec_payload_id o pid with Bytes.Panic => Bytes.Err | r => r end.
Proof. exact get_fec_payload_id_fixed_vs_c06. Qed.
Print Assumptions C04_fix_D4_conservative.

(* the unrepaired code (C06 model) does panic: the witnesses replayed on the real code *)
Example C04_D1_witness : parse_lct_header [16; 0; 0] = Bytes.Panic /\ parse_lct_header_fixed [16; 0; 0] = Bytes.Err.
Proof. exact d1_witness. Qed.
Example C04_D2_witness :
  parse_fti_rs28 [64; 3; 0; 0; 0; 0; 0; 20; 0; 8; 6; 3] = Bytes.Panic /\
  parse_fti_rs28_fixed [64; 3; 0; 0; 0; 0; 0; 20; 0; 8; 6; 3] = Bytes.Err.
Proof. exact d2_witness. Qed.
Example C04_D4_witness :
  let o := {| o_fec := RS2m; o_inst := 0; o_B := 2; o_E := 16; o_parity := 0;
              o_ss := Some (SSReedSolomon 64 5); o_inband_fti := true |} in
  get_fec_payload_id o [0; 0; 0; 1] = Bytes.Panic /\ get_fec_payload_id_fixed o [0; 0; 0; 1] = Bytes.Err.
Proof. exact d4_witness. Qed.

(* ================= (2) reject_leaves_state ================= *)
(* a datagram the parser does not accept changes nothing: the receiver state, the calls made to the
   writers and the panic flag are what they were, and the call returns Err *)
Theorem C04_reject_leaves_state : forall E parse_fdt cfg tsi r data now c,
  (forall a, parse_alc_pkt_fixed data <> Bytes.Ok a) ->
  recv_push_data E parse_fdt cfg tsi r data now c = (PErr, r, c).
Proof. exact reject_leaves_state. Qed.
Print Assumptions C04_reject_leaves_state.

Theorem C04_short_datagram_leaves_state : forall E parse_fdt cfg tsi r data now c,
  lenN data < 8 -> recv_push_data E parse_fdt cfg tsi r data now c = (PErr, r, c).
Proof. exact short_datagram_leaves_state. Qed.
Print Assumptions C04_short_datagram_leaves_state.

(* ... it is the event RvUnparsable of the receiver model (the one the C09/C03/C17 histories use) *)
Theorem C04_rejected_is_unparsable : forall E parse_fdt cfg tsi r data now c,
  (forall a, parse_alc_pkt_fixed data <> Bytes.Ok a) ->
  event_of tsi data now = Some RvUnparsable /\
  recv_push_data E parse_fdt cfg tsi r data now c = recv_step E parse_fdt cfg r RvUnparsable c.
Proof. exact rejected_is_unparsable. Qed.
Print Assumptions C04_rejected_is_unparsable.

(* a datagram of another session is ignored *)
Theorem C04_foreign_session_leaves_state : forall E parse_fdt cfg tsi r data now c a,
  parse_alc_pkt_fixed data = Bytes.Ok a -> lh_tsi (Alc.a_lct a) <> tsi ->
  recv_push_data E parse_fdt cfg tsi r data now c = (POk, r, c).
Proof. exact foreign_tsi_leaves_state. Qed.
Print Assumptions C04_foreign_session_leaves_state.

(* ================= (3) recv_step_total ================= *)
(* Range premises.  [pkt_ok p]: the packet's EXT_FTI carries a transfer length of at most
   2^64 - 2^16 and a symbol length below 2^16 - (4) shows that everything the parser accepts does.
   [inst_ok i] for what the XML oracle returns: every Transfer-Length <= 2^64 - 2^16 and every symbol
   length below 2^16 (the code casts it to u16).  A Transfer-Length within 65535 of 2^64 in an FDT
   is NOT covered: block_length's (sbn + 1) * small_block_size can then exceed u64 for the last
   block of the object; reaching that block needs the object's earlier blocks (more than 2^44 bytes)
   to have been received and written, which no harness run can do - noted, not reproduced. *)

(* one object, one packet: ObjectReceiver::push keeps the invariant and never raises the flag *)
Theorem C04_object_push_total : forall E p o c,
  inv o -> pkt_ok p -> inv (fst (or_push E p o c)) /\ (c_panic c = false -> c_panic (snd (or_push E p o c)) = false).
Proof. exact or_push_total. Qed.
Print Assumptions C04_object_push_total.

(* ObjectReceiver::attach_fdt likewise *)
Theorem C04_object_attach_total : forall E id files ioti o c,
  inv o -> files_ok files ioti ->
  inv (snd (fst (or_attach E id files ioti o c))) /\
  (c_panic c = false -> c_panic (snd (or_attach E id files ioti o c)) = false).
Proof. exact or_attach_total. Qed.
Print Assumptions C04_object_attach_total.

(* the whole receiver, any history: packets of any content and order, clean-ups with any set of
   timed-out objects and FDT instances, drop - from the initial state (or any state satisfying the
   invariant) the panic flag never rises, whatever the writers, the FEC decoders, inflate and MD5
   answer *)
Theorem C04_recv_step_total : forall E parse_fdt cfg,
  (forall xml i, parse_fdt xml = Some i -> inst_ok i) ->
  forall evs r c,
    rinv r -> Forall ev_ok evs -> c_panic c = false ->
    rinv (snd (fst (recv_run E parse_fdt cfg r evs c))) /\ c_panic (snd (recv_run E parse_fdt cfg r evs c)) = false.
Proof. exact recv_run_ok. Qed.
Print Assumptions C04_recv_step_total.

Theorem C04_initial_state_invariant : rinv recv0.
Proof. exact rinv0. Qed.
Print Assumptions C04_initial_state_invariant.

(* ================= (4) bytes in: any sequence of byte strings ================= *)
(* everything the parser accepts is in the range (3) asks for *)
Theorem C04_parser_output_in_range : forall data a,
  bytes data -> parse_alc_pkt_fixed data = Bytes.Ok a -> pkt_ok (to_apkt data a).
Proof. exact pkt_ok_of_parse. Qed.
Print Assumptions C04_parser_output_in_range.

(* Receiver::push_data on any sequence of byte strings: Ok or Err every time, never the panic flag *)
Theorem C04_recv_bytes_total : forall E parse_fdt cfg tsi,
  (forall xml i, parse_fdt xml = Some i -> inst_ok i) ->
  forall ds r now c,
    rinv r -> Forall bytes ds -> c_panic c = false ->
    rinv (snd (fst (recv_push_all E parse_fdt cfg tsi r ds now c)))
    /\ c_panic (snd (recv_push_all E parse_fdt cfg tsi r ds now c)) = false.
Proof. exact recv_push_all_total. Qed.
Print Assumptions C04_recv_bytes_total.

(* ================= (5) oracle preconditions ================= *)
(* block level (complete): a block that holds a decoder was created inside the decoder's parameter
   range and holds only symbols of an admissible size; BlockDecoder::push consults the FEC oracle
   only inside its precondition [fec_pre] - two worlds whose decoders differ outside of it cannot
   be told apart *)
Theorem C04_oracle_preconditions_block : forall E1 E2,
  e_debug E1 = e_debug E2 ->
  (forall toi f sbn k e size sh, fec_pre f k e size sh ->
     e_fec E1 toi f sbn k e size sh = e_fec E2 toi f sbn k e size sh) ->
  forall toi oti sbn esi payload b,
    bdec_wf oti b ->
    bd_push E1 toi oti sbn esi payload b = bd_push E2 toi oti sbn esi payload b
    /\ bdec_wf oti (fst (bd_push E1 toi oti sbn esi payload b)).
Proof. exact bd_push_oracle_pre. Qed.
Print Assumptions C04_oracle_preconditions_block.

Theorem C04_block_init_in_range : forall oti k size b b',
  bd_init b = false -> bd_init_block oti k size b = Some b' -> bdec_wf oti b'.
Proof. exact bd_init_block_wf. Qed.
Print Assumptions C04_block_init_in_range.

(* receiver level (NOT proved: needs [bdec_wf] carried through the receiver invariant and a
   congruence lemma per receiver function; stated for the record) *)
Definition C04_oracle_preconditions_full : Prop :=
  forall E1 E2 parse_fdt cfg evs,
    e_debug E1 = e_debug E2 -> e_md5_enabled E1 = e_md5_enabled E2 ->
    e_builder E1 = e_builder E2 -> e_open_ok E1 = e_open_ok E2 -> e_write_ok E1 = e_write_ok E2 ->
    e_md5 E1 = e_md5 E2 -> e_inflate E1 = e_inflate E2 ->
    (forall toi f sbn k e size sh, fec_pre f k e size sh ->
       e_fec E1 toi f sbn k e size sh = e_fec E2 toi f sbn k e size sh) ->
    Forall ev_ok evs ->
    recv_run E1 parse_fdt cfg recv0 evs ctx0 = recv_run E2 parse_fdt cfg recv0 evs ctx0.

(* ================= (6) the executable statement holds of the models ================= *)
Theorem C04_spec_parse_holds : forall data,
  P_C04_parse data (outcome_of_res (parse_alc_pkt_fixed data)) = true.
Proof. exact spec_parse_holds. Qed.
Print Assumptions C04_spec_parse_holds.

Theorem C04_spec_calls_holds : forall E parse_fdt cfg tsi,
  (forall xml i, parse_fdt xml = Some i -> inst_ok i) ->
  forall ds r now c,
    rinv r -> Forall bytes ds -> c_panic c = false ->
    P_C04_calls (model_calls E parse_fdt cfg tsi r ds now c) = true.
Proof. exact spec_calls_holds. Qed.
Print Assumptions C04_spec_calls_holds.

(* Not expressible by these models, evaluated on the implementation on every run only:
   - P_C04_bounded: real time and real heap (the receiver's allocation ledger is C17's subject). *)

(* ================= (7) usable afterwards ================= *)
(* "A rejected packet leaves the receiver usable: a valid session pushed afterwards is still delivered."
   One run for raw datagrams (Receiver::push_data, [InBytes data now]) and events of the receiver model
   ([InEv e]): recv_inputs E parse_fdt cfg tsi r l c, which is recv_run on a list of events.  The valid session
   and "delivered" are those of C02_session_fdt_first_delivers / C02_session_fdt_late_delivers (same premises,
   same conclusion session_delivered).

   (a) inputs without effect whatever the state, [no_effect tsi i = true]: a datagram the parser rejects, a
       datagram of a foreign TSI, RvUnparsable, a TOI-0 packet without EXT_FDT and without close-session flag
       (event or datagram of this TSI): answered Ok or Err, state and context untouched *)
Theorem C04_no_effect_leaves_state : forall E parse_fdt cfg tsi r i c,
  no_effect tsi i = true -> exists x, recv_input E parse_fdt cfg tsi r i c = (x, r, c).
Proof. exact no_effect_leaves_state. Qed.
Print Assumptions C04_no_effect_leaves_state.

Theorem C04_no_effect_kinds : forall tsi d now,
  ((forall a, parse_alc_pkt_fixed d <> Bytes.Ok a) -> no_effect tsi (InBytes d now) = true)
  /\ (lenN d < 8 -> no_effect tsi (InBytes d now) = true)
  /\ (forall a, parse_alc_pkt_fixed d = Bytes.Ok a -> lh_tsi (Alc.a_lct a) <> tsi -> no_effect tsi (InBytes d now) = true)
  /\ no_effect tsi (InEv RvUnparsable) = true.
Proof.
  intros tsi d now. split; [exact (unparsable_no_effect tsi d now)|]. split; [exact (short_no_effect tsi d now)|].
  split; [exact (foreign_no_effect tsi d now)|reflexivity].
Qed.
Print Assumptions C04_no_effect_kinds.

(* (b) a packet of an object TOI (any TOI <> 0, the session's included) that the receiver answers with Err
       (a TOI listed as completed or failed whose payload id cannot be read) changes nothing but the
       close-session flag rv_closed, which nothing reads *)
Theorem C04_err_packet_leaves_state : forall E parse_fdt cfg r p now c,
  a_toi p <> 0 -> fst (fst (recv_step E parse_fdt cfg r (RvPush p now) c)) = PErr ->
  recv_step E parse_fdt cfg r (RvPush p now) c = (PErr, with_closed (a_close_sess p || rv_closed r) r, c).
Proof. exact err_packet_leaves_state. Qed.
Print Assumptions C04_err_packet_leaves_state.

(* [quiet r i c]: in state (r, c) the input is answered and leaves (r, c) as they were up to rv_closed.
   (a), (b), TOI-0 packets without EXT_FDT (with or without flags), the datagrams parsing to quiet packets, and
   (since the fix of D41) a TOI-0 packet with EXT_FDT answered Err - its instance failed to decode - when no
   instance of its id was pending: the FdtReceiver it created is forgotten.  The last one needs the range premises
   of (3) for the panic flag: pkt_ok p (true of every parsed datagram, C04_parser_output_in_range) and inst_ok of
   what the XML oracle returns. *)
Theorem C04_quiet_kinds : forall E parse_fdt cfg tsi r c,
  (forall i, no_effect tsi i = true -> quiet E parse_fdt cfg tsi r i c)
  /\ ((forall xml i, parse_fdt xml = Some i -> inst_ok i) ->
      forall p now id', a_toi p = 0 -> a_fdt_id p = Some id' -> pkt_ok p ->
        (forall q, In q (rv_fdt_receivers r) -> fst q <> id') ->
        fst (fst (recv_step E parse_fdt cfg r (RvPush p now) c)) = PErr ->
        quiet E parse_fdt cfg tsi r (InEv (RvPush p now)) c)
  /\ (forall p now, a_toi p <> 0 -> fst (fst (recv_step E parse_fdt cfg r (RvPush p now) c)) = PErr ->
        quiet E parse_fdt cfg tsi r (InEv (RvPush p now)) c)
  /\ (forall p now, a_toi p = 0 -> a_fdt_id p = None -> quiet E parse_fdt cfg tsi r (InEv (RvPush p now)) c)
  /\ (forall d now a, parse_alc_pkt_fixed d = Bytes.Ok a -> lh_tsi (Alc.a_lct a) = tsi ->
        quiet E parse_fdt cfg tsi r (InEv (RvPush (to_apkt d a) now)) c -> quiet E parse_fdt cfg tsi r (InBytes d now) c).
Proof.
  intros E parse_fdt cfg tsi r c. split; [intros i; apply no_effect_quiet|].
  split; [intros Hok p now id'; apply (err_fdt_quiet E parse_fdt cfg tsi Hok)|]. split; [intros p now; apply err_packet_quiet|].
  split; [intros p now; apply fdtless_quiet|intros d now a; apply bytes_quiet].
Qed.
Print Assumptions C04_quiet_kinds.

(* [weaveq r c l s]: l is s with inputs inserted anywhere (before, between, after), each quiet in the state in
   which the run of l finds it.  The run of l then ends with the SAME context (writer log, panic flag) as the
   run of s and in the same state up to rv_closed: the inserted inputs are invisible *)
Theorem C04_quiet_inputs_invisible : forall E parse_fdt cfg tsi r c l s,
  weaveq E parse_fdt cfg tsi r c l s ->
  snd (recv_inputs E parse_fdt cfg tsi r l c) = snd (recv_inputs E parse_fdt cfg tsi r s c)
  /\ eqc (snd (fst (recv_inputs E parse_fdt cfg tsi r s c))) (snd (fst (recv_inputs E parse_fdt cfg tsi r l c))).
Proof.
  intros E parse_fdt cfg tsi r c l s W. destruct (weaveq_run E parse_fdt cfg tsi r c l s W r (eqc_refl r)) as [A B].
  split; assumption.
Qed.
Print Assumptions C04_quiet_inputs_invisible.

(* U1: ANY list of inputs without effect, then the session (FDT first): delivered as by the session alone *)
Theorem C04_usable_after_rejected : forall E parse_fdt cfg tsi oti content toi md5 now pf id foti d inst pkts junk,
  let L := lenN_ content in
  nocode_ok oti L -> toi <> 0 ->
  fdt_pkt_ok pf id foti d -> parse_fdt d = Some inst -> fdt_live cfg inst pf now ->
  fdt_entry_for (fi_files inst) (fi_oti inst) toi oti L md5 ->
  writer_accepts E toi -> writes_succeed E toi -> md5_good E content md5 ->
  L <= cf_max_cache cfg -> nb_blocks_of oti L <= 4097 ->
  Forall (fun p => a_toi p = toi) pkts ->
  Forall (fun p => genuine_pkt oti content p = true) pkts ->
  close_flag_ok oti L pkts ->
  recoverable oti L pkts = true ->
  Forall (fun i => no_effect tsi i = true) junk ->
  let '(_, r, c) := recv_inputs E parse_fdt cfg tsi recv0
                                (junk ++ map InEv (map (fun p => RvPush p now) (pf :: pkts))) ctx0 in
  session_delivered cfg inst content toi r c.
Proof. exact usable_after_rejected. Qed.
Print Assumptions C04_usable_after_rejected.

(* the same on events only, as a run of recv_run *)
Theorem C04_usable_after_rejected_events : forall E parse_fdt cfg tsi oti content toi md5 now pf id foti d inst pkts junk,
  let L := lenN_ content in
  nocode_ok oti L -> toi <> 0 ->
  fdt_pkt_ok pf id foti d -> parse_fdt d = Some inst -> fdt_live cfg inst pf now ->
  fdt_entry_for (fi_files inst) (fi_oti inst) toi oti L md5 ->
  writer_accepts E toi -> writes_succeed E toi -> md5_good E content md5 ->
  L <= cf_max_cache cfg -> nb_blocks_of oti L <= 4097 ->
  Forall (fun p => a_toi p = toi) pkts ->
  Forall (fun p => genuine_pkt oti content p = true) pkts ->
  close_flag_ok oti L pkts ->
  recoverable oti L pkts = true ->
  Forall (fun e => no_effect tsi (InEv e) = true) junk ->
  let '(_, r, c) := recv_run E parse_fdt cfg recv0 (junk ++ map (fun p => RvPush p now) (pf :: pkts)) ctx0 in
  session_delivered cfg inst content toi r c.
Proof. exact usable_after_rejected_events. Qed.
Print Assumptions C04_usable_after_rejected_events.

(* U2: quiet inputs anywhere before, BETWEEN and after the packets of the session; FDT first ... *)
Theorem C04_usable_interleaved_fdt_first : forall E parse_fdt cfg tsi oti content toi md5 now pf id foti d inst pkts l,
  let L := lenN_ content in
  nocode_ok oti L -> toi <> 0 ->
  fdt_pkt_ok pf id foti d -> parse_fdt d = Some inst -> fdt_live cfg inst pf now ->
  fdt_entry_for (fi_files inst) (fi_oti inst) toi oti L md5 ->
  writer_accepts E toi -> writes_succeed E toi -> md5_good E content md5 ->
  L <= cf_max_cache cfg -> nb_blocks_of oti L <= 4097 ->
  Forall (fun p => a_toi p = toi) pkts ->
  Forall (fun p => genuine_pkt oti content p = true) pkts ->
  close_flag_ok oti L pkts ->
  recoverable oti L pkts = true ->
  weaveq E parse_fdt cfg tsi recv0 ctx0 l (map InEv (map (fun p => RvPush p now) (pf :: pkts))) ->
  let '(_, r, c) := recv_inputs E parse_fdt cfg tsi recv0 l ctx0 in session_delivered cfg inst content toi r c.
Proof. exact usable_interleaved_fdt_first. Qed.
Print Assumptions C04_usable_interleaved_fdt_first.

(* ... and FDT late *)
Theorem C04_usable_interleaved_fdt_late : forall E parse_fdt cfg tsi oti content toi md5 now pf id foti d inst pkts1 pkts2 l,
  let L := lenN_ content in
  nocode_ok oti L -> toi <> 0 ->
  fdt_pkt_ok pf id foti d -> parse_fdt d = Some inst -> fdt_live cfg inst pf now ->
  fdt_entry_for (fi_files inst) (fi_oti inst) toi oti L md5 ->
  writer_accepts E toi -> writes_succeed E toi -> md5_good E content md5 ->
  L <= cf_max_cache cfg -> nb_blocks_of oti L <= 4097 ->
  Forall (fun p => a_toi p = toi) (pkts1 ++ pkts2) ->
  Forall (fun p => genuine_pkt oti content p = true) (pkts1 ++ pkts2) ->
  Forall (fun p => ObjRecv.a_oti p = Some (oti, L) /\ ObjRecv.a_cenc p = None /\ a_close_obj p = false) pkts1 ->
  close_flag_ok oti L (pkts1 ++ pkts2) ->
  recoverable oti L (pkts1 ++ pkts2) = true ->
  weaveq E parse_fdt cfg tsi recv0 ctx0 l (map InEv (map (fun p => RvPush p now) (pkts1 ++ pf :: pkts2))) ->
  let '(_, r, c) := recv_inputs E parse_fdt cfg tsi recv0 l ctx0 in session_delivered cfg inst content toi r c.
Proof. exact usable_interleaved_fdt_late. Qed.
Print Assumptions C04_usable_interleaved_fdt_late.

(* inputs without effect woven in are the state-independent special case *)
Theorem C04_weave_no_effect : forall E parse_fdt cfg tsi l s r c,
  weave (fun i => no_effect tsi i = true) l s -> weaveq E parse_fdt cfg tsi r c l s.
Proof. intros E parse_fdt cfg tsi l s r c W. exact (weave_weaveq E parse_fdt cfg tsi l s W r c). Qed.
Print Assumptions C04_weave_no_effect.

(* (c) EVERYTHING the receiver answers with Err.  Besides the quiet inputs only one kind of input is answered
   Err: a TOI-0 packet with EXT_FDT whose instance fails to decode.  Since the fix of D41 the failed FdtReceiver is
   forgotten (before, it stayed in rv_fdt_receivers until the next cleanup() and every later packet of its
   instance id was ignored: with the id of the session's FDT instance the session that followed was LOST - the
   counterexample found by this proof, replayed on the implementation and fixed).
   [rejected_at r c i]: i is quiet in (r, c), or it is answered Err.  ANY list of inputs each rejected in the state in
   which the run finds it (all_rejected), then the session with quiet inputs woven in: delivered.  No premise on
   the junk's instance ids, no range premise. *)
Theorem C04_usable_after_err : forall E parse_fdt cfg tsi oti content toi md5 now pf id foti d inst pkts junk l,
  let L := lenN_ content in
  nocode_ok oti L -> toi <> 0 ->
  fdt_pkt_ok pf id foti d -> parse_fdt d = Some inst -> fdt_live cfg inst pf now ->
  fdt_entry_for (fi_files inst) (fi_oti inst) toi oti L md5 ->
  writer_accepts E toi -> writes_succeed E toi -> md5_good E content md5 ->
  L <= cf_max_cache cfg -> nb_blocks_of oti L <= 4097 ->
  Forall (fun p => a_toi p = toi) pkts ->
  Forall (fun p => genuine_pkt oti content p = true) pkts ->
  close_flag_ok oti L pkts ->
  recoverable oti L pkts = true ->
  all_rejected E parse_fdt cfg tsi recv0 ctx0 junk ->
  weaveq E parse_fdt cfg tsi (snd (fst (recv_inputs E parse_fdt cfg tsi recv0 junk ctx0)))
         (snd (recv_inputs E parse_fdt cfg tsi recv0 junk ctx0)) l
         (map InEv (map (fun p => RvPush p now) (pf :: pkts))) ->
  let '(_, r, c) := recv_inputs E parse_fdt cfg tsi recv0 (junk ++ l) ctx0 in session_delivered cfg inst content toi r c.
Proof. exact usable_after_err. Qed.
Print Assumptions C04_usable_after_err.

(* the vocabulary of (7), unfolded once *)
Theorem C04_usable_statements : forall E parse_fdt cfg tsi r c i p d now,
  recv_input E parse_fdt cfg tsi r (InBytes d now) c = recv_push_data E parse_fdt cfg tsi r d now c
  /\ recv_input E parse_fdt cfg tsi r (InEv (RvPush p now)) c = recv_step E parse_fdt cfg r (RvPush p now) c
  /\ (forall evs, recv_inputs E parse_fdt cfg tsi r (map InEv evs) c = recv_run E parse_fdt cfg r evs c)
  /\ no_effect tsi (InEv (RvPush p now))
     = (a_toi p =? 0) && (match a_fdt_id p with None => true | Some _ => false end) && negb (a_close_sess p)
  /\ no_effect tsi (InBytes d now)
     = match parse_alc_pkt_fixed d with
       | Bytes.Ok a => if lh_tsi (Alc.a_lct a) =? tsi then no_effect tsi (InEv (RvPush (to_apkt d a) now)) else true
       | _ => true
       end
  /\ no_effect tsi (InEv RvDrop) = false /\ (forall t x y, no_effect tsi (InEv (RvCleanup t x y)) = false)
  /\ (quiet E parse_fdt cfg tsi r i c <-> exists x b, recv_input E parse_fdt cfg tsi r i c = (x, with_closed b r, c))
  /\ (rejected_at E parse_fdt cfg tsi r c i <->
      quiet E parse_fdt cfg tsi r i c \/ fst (fst (recv_input E parse_fdt cfg tsi r i c)) = PErr)
  /\ (forall b, with_closed b r = mk_recv (rv_objects r) (rv_completed r) (rv_error r) (rv_fdt_receivers r) (rv_fdt_current r) b)
  /\ (forall r', eqc r r' <-> with_closed false r = with_closed false r').
Proof.
  intros. split; [reflexivity|]. split; [reflexivity|]. split; [intros evs; apply recv_inputs_events|].
  split; [reflexivity|]. split; [cbn [no_effect]; destruct (parse_alc_pkt_fixed d); reflexivity|].
  split; [reflexivity|]. split; [reflexivity|]. split; [split; intros H; exact H|]. split; [split; intros H; exact H|].
  split; [reflexivity|]. intros r'. split; intros H; exact H.
Qed.
Print Assumptions C04_usable_statements.

(* non-vacuity (receiver TSI 9): a 3-byte datagram, the empty datagram, a well-formed datagram of TSI 1,
   RvUnparsable and a TOI-0 packet without EXT_FDT have no effect; pushed before, or between, the packets of the toy
   session of C02_session_example (receive-once) the object is delivered; with receive-once off, a packet of the
   object's own TOI answered Err between the duplicates changes nothing; U1 and (c) - with failed FDT packets of the
   session's own instance id 1 and of id 2 in the junk - by the theorems *)
Example C04_usable_example :
  map (no_effect 9) ux_junk = [true; true; true; true; true]
  /\ (exists a, parse_alc_pkt_fixed ux_foreign = Bytes.Ok a /\ lh_tsi (Alc.a_lct a) = 1)
  /\ usess (tx_cfg true false) (ux_junk ++ map ux_ev (tx_fdt None :: ex_pkts))
     = ([PErr; PErr; POk; PErr; PErr; POk; POk; POk; POk; POk; POk], [], [7], [], [], delivered_log)
  /\ usess (tx_cfg true false)
           (ux_ev (tx_fdt None) :: ux_junk ++ map ux_ev (firstn 2 ex_pkts) ++ ux_junk ++ map ux_ev (skipn 2 ex_pkts) ++ ux_junk)
     = ([POk; PErr; PErr; POk; PErr; PErr; POk; POk; PErr; PErr; POk; PErr; PErr; POk; POk; POk;
         PErr; PErr; POk; PErr; PErr], [], [7], [], [], delivered_log)
  /\ usess (tx_cfg false false) (map ux_ev (tx_fdt None :: firstn 4 ex_pkts) ++ [ux_ev ux_badpid] ++ map ux_ev (skipn 4 ex_pkts))
     = ([POk; POk; POk; POk; POk; PErr; POk], [], [7], [], [], delivered_log).
Proof. exact usable_example_computed. Qed.

Example C04_usable_example_by_theorem :
  let '(_, r, c) := recv_inputs C02Full.env_ok (tx_parse false None) (tx_cfg true false) 9 recv0
                                (ux_junk ++ map InEv (map (fun p => RvPush p 100%Z) (tx_fdt None :: ex_pkts))) ctx0 in
  session_delivered (tx_cfg true false) (tx_inst false None) ex_content 7 r c.
Proof. exact usable_example_by_theorem. Qed.

Example C04_usable_after_err_example :
  let '(_, r, c) := recv_inputs C02Full.env_ok (tx_parse false None) (tx_cfg true false) 9 recv0
                                ((ux_ev (ux_badfdt 1) :: ux_ev (ux_badfdt 2) :: ux_ev (ux_badfdt 1) :: ux_junk)
                                 ++ map InEv (map (fun p => RvPush p 100%Z) (tx_fdt None :: ex_pkts))) ctx0 in
  session_delivered (tx_cfg true false) (tx_inst false None) ex_content 7 r c.
Proof. exact usable_after_err_example. Qed.

(* Defect D41, FIXED (was C04_usable_same_fdt_id_refuted: the counterexample found by this proof and replayed on
   the implementation).  ux_badfdt id = TOI 0, EXT_FDT instance id, EXT_FTI (No-Code, 2 bytes), payload "<?" which
   the XML parser refuses; it is answered Err.  Before the fix, ux_badfdt 1 (the instance id of the session's FDT)
   followed by the session gave ([PErr; POk; POk; POk; POk; POk; POk], [7], [], [], [1], []): every packet of the
   session accepted and NOTHING delivered, the failed instance 1 making push_fdt_obj ignore the genuine FDT
   packet until the next cleanup().  Now: delivered, with the session's own id or another one, before the session,
   after its FDT packet (receive-once on: the copy of id 1 is ignored with Ok; off: Err), and around an FDT that
   arrives between the object's packets.
   (columns: answers, rv_objects, rv_completed, rv_error, ids in rv_fdt_receivers, writer log) *)
Example C04_usable_failed_fdt_example :
  usess (tx_cfg true false) (ux_ev (ux_badfdt 1) :: map ux_ev (tx_fdt None :: ex_pkts))
  = ([PErr; POk; POk; POk; POk; POk; POk], [], [7], [], [], delivered_log)
  /\ usess (tx_cfg true false) (ux_ev (ux_badfdt 2) :: map ux_ev (tx_fdt None :: ex_pkts))
     = ([PErr; POk; POk; POk; POk; POk; POk], [], [7], [], [], delivered_log)
  /\ usess (tx_cfg true false) (ux_ev (tx_fdt None) :: ux_ev (ux_badfdt 1) :: ux_ev (ux_badfdt 3) :: map ux_ev ex_pkts)
     = ([POk; POk; PErr; POk; POk; POk; POk; POk], [], [7], [], [], delivered_log)
  /\ usess (tx_cfg false false) (ux_ev (tx_fdt None) :: ux_ev (ux_badfdt 1) :: ux_ev (ux_badfdt 3) :: map ux_ev ex_pkts)
     = ([POk; PErr; PErr; POk; POk; POk; POk; POk], [], [7], [], [], delivered_log)
  /\ usess (tx_cfg true false) (map ux_ev (firstn 2 ex_pkts) ++ ux_ev (ux_badfdt 1) :: ux_ev (tx_fdt None)
                                 :: ux_ev (ux_badfdt 3) :: map ux_ev (skipn 2 ex_pkts))
     = ([POk; POk; PErr; POk; PErr; POk; POk; POk], [], [7], [], [], delivered_log).
Proof. exact usable_failed_fdt_computed. Qed.

(* ... and by the theorems: U2 with the failed FDT packets woven into the session (quiet by C04_quiet_kinds) *)
Example C04_usable_failed_fdt_by_theorem :
  let '(_, r, c) := recv_inputs C02Full.env_ok (tx_parse false None) (tx_cfg true false) 9 recv0
                                (ux_ev (ux_badfdt 1) :: ux_ev (tx_fdt None) :: ux_ev (ux_badfdt 3) :: map ux_ev ex_pkts) ctx0 in
  session_delivered (tx_cfg true false) (tx_inst false None) ex_content 7 r c.
Proof. exact usable_failed_fdt_interleaved_by_theorem. Qed.

(* REFUTED: the statement for ARBITRARY untrusted events, as it stood here unproved.  Untrusted events that only
   avoid the session's TOIs and FDT instance ids can still lose the session: one ACCEPTED TOI-0 packet with
   EXT_FDT instance id 2 whose document lists the session's TOI 7 with another FEC scheme (gx_garbage), before the
   session "packets of TOI 7, then FDT instance 1" (gx_session, delivered when alone): object 7 is created
   with instance 2 attached and never completes.  This is FDT spoofing by an accepted packet, not a rejected
   packet; FLUTE has no authentication, the property cannot hold for it. *)
Definition C04_usable_afterwards_full : Prop :=
  forall E parse_fdt cfg garbage session,
    Forall ev_ok garbage ->
    (* the untrusted events do not use the session's TOIs or FDT instance ids *)
    (forall p now q now', In (RvPush p now) garbage -> In (RvPush q now') session ->
       a_toi p <> a_toi q \/ (a_toi p = 0 /\ a_fdt_id p <> a_fdt_id q)) ->
    (* whatever the session alone makes the writers receive ... *)
    forall w, In (EvComplete w) (c_log (snd (recv_run E parse_fdt cfg recv0 session ctx0))) ->
    (* ... it still makes them receive after the untrusted events *)
    exists w', fst w' = fst w /\
      In (EvComplete w') (c_log (snd (recv_run E parse_fdt cfg recv0 (garbage ++ session) ctx0))).

Theorem C04_usable_afterwards_full_refuted : ~ C04_usable_afterwards_full.
Proof. exact usable_any_garbage_refuted. Qed.
Print Assumptions C04_usable_afterwards_full_refuted.

Example C04_usable_afterwards_full_counterexample :
  c_log (snd (recv_run C02Full.env_ok gx_parse (tx_cfg true false) recv0 gx_session ctx0)) = delivered_log
  /\ fst (fst (recv_run C02Full.env_ok gx_parse (tx_cfg true false) recv0 (gx_garbage ++ gx_session) ctx0))
     = [POk; POk; POk; POk; POk; POk; POk]
  /\ c_log (snd (recv_run C02Full.env_ok gx_parse (tx_cfg true false) recv0 (gx_garbage ++ gx_session) ctx0))
     = [EvBuilder 7 WStore; EvOpen (7, 0%nat) true].
Proof. exact usable_any_garbage_computed. Qed.

(* ================= non-vacuity ================= *)
(* the hypotheses are satisfiable and the theorems speak about accepted packets too: a genuine
   No-Code packet with EXT_FTI (TOI 1, L = 20, E = 8, B = 2) is accepted, is in range, and pushed
   into the model receiver (with oracles that store everything and decode nothing) it returns Ok
   with the flag down; a 3-byte datagram is refused and changes nothing *)
Definition ex_packet : list N :=
  [16;16;7;0; 0;0;0;0; 0;1; 0;1; 64;4;0;0;0;0;0;20;0;0;0;8;0;0;0;2; 0;0;0;0; 13;20;27;34;41;49;56;63].
Definition ex_env : env :=
  mk_env true true (fun _ _ => WStore) (fun _ => true) (fun _ _ => true)
         (fun _ _ _ _ _ _ _ => None) (fun _ => []) (fun _ _ _ => None).
Definition ex_cfg : rconfig := mk_rcfg 0 10485760 true true.

Example C04_example_accepted :
  (exists a, parse_alc_pkt_fixed ex_packet = Bytes.Ok a /\ lh_toi (Alc.a_lct a) = 1 /\ lh_tsi (Alc.a_lct a) = 1)
  /\ observe_fixed ex_packet = Obs 0 0 0
  /\ (let '(x, _, c) := recv_push_all ex_env (fun _ => None) ex_cfg 1 recv0 [ex_packet; [16; 0; 0]; ex_packet] 0%Z ctx0 in
      x = [POk; PErr; POk] /\ c_panic c = false)
  /\ P_C04_calls (model_calls ex_env (fun _ => None) ex_cfg 1 recv0 [ex_packet; [16; 0; 0]; ex_packet] 0%Z ctx0) = true.
Proof.
  split; [eexists; split; [vm_compute; reflexivity|split; reflexivity]|].
  split; [vm_compute; reflexivity|]. split; vm_compute; auto.
Qed.

Example C04_example_hypotheses :
  (forall xml i, (fun _ : list N => @None fdtinst) xml = Some i -> inst_ok i)
  /\ Forall bytes [ex_packet; [16; 0; 0]]
  /\ bdec_wf (mk_roti FRaptorQ 8 3 1 (Some (1, 1, 1))) bdec_new.
Proof.
  split; [intros; discriminate|]. split; [|apply bdec_new_wf].
  repeat constructor.
Qed.

(* the predicates do reject what the property forbids *)
Example C04_example_reject :
  P_C04_parse [16; 0; 0] OPanic = false /\ P_C04_parse [16; 0; 0] OOk = false /\ P_C04_parse [16; 0; 0] OErr = true
  /\ P_C04_calls [OOk; OErr; OHang] = false /\ P_C04_calls [OOk; OCrash] = false
  /\ P_C04_case (mk_case [OOk; OErr] [OOk; OOk] false false 0 2 40 100) = false      (* follow-up lost *)
  /\ P_C04_case (mk_case [OOk; OErr] [OOk; OOk] false true 0 2 40 100) = true
  /\ P_C04_case (mk_case [OOk; OErr] [OOk; OOk] true false 0 2 40 100) = true        (* its own TOIs were used *)
  /\ P_C04_case (mk_case [OOk] [OOk] false true 109951162777600 1 40 100) = false     (* 102 GB left allocated *)
  /\ P_C04_case (mk_case [OOk] [OOk] false true 0 1 40 6000000) = false.             (* a 6 s call *)
Proof. vm_compute. repeat split. Qed.
