(* C04 - Untrusted input: no packet sequence can panic, hang or blow up the receiver; a rejected
   packet leaves the receiver usable.

   Models:  Model/AlcFixed.v   parse side of lct.rs / alc.rs / alccodec/*.rs after fixes D01 D02 D04, every
                               index, slice, subtraction, division, remainder and shift checked ([Panic]);
            Model/ObjRecv.v, Model/Recv.v   the receiver after fixes D05 D07 D08 D09 D10 D28 D33 D34, panic flag [c_panic];
            Model/RecvBytes.v  Receiver::push_data = the checked parser in front of the receiver model.
   External code (FEC decoders, inflate, MD5, the XML parser, the user's writers) is an oracle: an
   arbitrary function in [env] / [parse_fdt]; whatever it answers is covered by the theorems, what it
   does internally is not (the harness runs the real crates). *)
From FluteV Require Import Spec.C04Spec.
From FluteV Require Import Model.AlcFixed Proofs.AlcFixedProofs.
From FluteV Require Import Model.Recv Model.RecvBytes Proofs.RecvTotalProofs Proofs.RecvBytesProofs Proofs.C04Proofs.
Open Scope N_scope.

(* ================= (1) parse_total ================= *)
(* for EVERY byte string (list of naturals, not even required to be below 256) the repaired parser
   returns Ok or Err: no index out of range, no slice out of range, no subtraction underflow, no
   division or remainder by zero, no shift by the type's width or more, no loop out of fuel *)
Theorem C04_parse_total : forall data, returned (parse_alc_pkt_fixed data) = true.
Proof. exact parse_alc_pkt_fixed_total. Qed.
Print Assumptions C04_parse_total.

(* and so do the two functions the receiver calls on an accepted packet: get_sender_current_time,
   and parse_payload_id with ANY object transmission information (the object's OTI need not be the
   packet's: another codec, any m for GF(2^m)) *)
Theorem C04_parsed_packet_total : forall data a,
  parse_alc_pkt_fixed data = Bytes.Ok a ->
  returned (get_sender_current_time_fixed data a) = true /\
  forall o, returned (parse_payload_id_fixed data a o) = true.
Proof. exact parsed_packet_total. Qed.
Print Assumptions C04_parsed_packet_total.

(* the same three as the harness observes them (code 2 = panic or out of fuel) *)
Theorem C04_observe_total : forall data,
  match observe_fixed data with Obs p s i => p <> 2 /\ s <> 2 /\ i <> 2 end.
Proof. exact observe_fixed_total. Qed.
Print Assumptions C04_observe_total.

(* nothing shorter than the smallest LCT header is accepted *)
Theorem C04_short_datagram_rejected : forall data, lenN data < 8 -> parse_alc_pkt_fixed data = Bytes.Err.
Proof. exact parse_alc_pkt_fixed_short. Qed.
Print Assumptions C04_short_datagram_rejected.

(* the three repairs change nothing but the panics: wherever the C06 model of the unrepaired code
   returns, the repaired code returns the same; where it panicked (D1, D2, D4) it now returns Err *)
Theorem C04_fix_D1_conservative : forall data,
  parse_lct_header_fixed data = if lenN data <? 4 then Bytes.Err else parse_lct_header data.
Proof. exact parse_lct_header_fixed_vs_c06. Qed.
Print Assumptions C04_fix_D1_conservative.
Theorem C04_fix_D2_conservative : forall fti,
  parse_fti_rs28_fixed fti = match parse_fti_rs28 fti with Bytes.Panic => Bytes.Err | r => r end.
Proof. exact parse_fti_rs28_fixed_vs_c06. Qed.
Print Assumptions C04_fix_D2_conservative.
Theorem C04_fix_D4_conservative : forall o pid,
  get_fec_payload_id_fixed o pid = match get_fec_payload_id o pid with Bytes.Panic => Bytes.Err | r => r end.
Proof. exact get_fec_payload_id_fixed_vs_c06. Qed.
Print Assumptions C04_fix_D4_conservative.

(* the unrepaired code (C06 model) does panic: the witnesses replayed on the real code *)
Example C04_D1_witness : parse_lct_header [16; 0; 0] = Bytes.Panic /\ parse_lct_header_fixed [16; 0; 0] = Bytes.Err.
Proof. exact d1_witness. Qed.
Example C04_D2_witness :
  parse_fti_rs28 [64; 3; 0; 0; 0; 0; 0; 20; 0; 8; 6; 3] = Bytes.Panic /\
  parse_fti_rs28_fixed [64; 3; 0; 0; 0; 0; 0; 20; 0; 8; 6; 3] = Bytes.Err.
Proof. exact d2_witness. Qed.
Example C04_D4_witness :
  let o := {| o_fec := RS2m; o_inst := 0; o_B := 2; o_E := 16; o_parity := 0;
              o_ss := Some (SSReedSolomon 64 5); o_inband_fti := true |} in
  get_fec_payload_id o [0; 0; 0; 1] = Bytes.Panic /\ get_fec_payload_id_fixed o [0; 0; 0; 1] = Bytes.Err.
Proof. exact d4_witness. Qed.

(* ================= (2) reject_leaves_state ================= *)
(* a datagram the parser does not accept changes nothing: the receiver state, the calls made to the
   writers and the panic flag are what they were, and the call returns Err *)
Theorem C04_reject_leaves_state : forall E parse_fdt cfg tsi r data now c,
  (forall a, parse_alc_pkt_fixed data <> Bytes.Ok a) ->
  recv_push_data E parse_fdt cfg tsi r data now c = (PErr, r, c).
Proof. exact reject_leaves_state. Qed.
Print Assumptions C04_reject_leaves_state.

Theorem C04_short_datagram_leaves_state : forall E parse_fdt cfg tsi r data now c,
  lenN data < 8 -> recv_push_data E parse_fdt cfg tsi r data now c = (PErr, r, c).
Proof. exact short_datagram_leaves_state. Qed.
Print Assumptions C04_short_datagram_leaves_state.

(* ... it is the event RvUnparsable of the receiver model (the one the C09/C03/C17 histories use) *)
Theorem C04_rejected_is_unparsable : forall E parse_fdt cfg tsi r data now c,
  (forall a, parse_alc_pkt_fixed data <> Bytes.Ok a) ->
  event_of tsi data now = Some RvUnparsable /\
  recv_push_data E parse_fdt cfg tsi r data now c = recv_step E parse_fdt cfg r RvUnparsable c.
Proof. exact rejected_is_unparsable. Qed.
Print Assumptions C04_rejected_is_unparsable.

(* a datagram of another session is ignored *)
Theorem C04_foreign_session_leaves_state : forall E parse_fdt cfg tsi r data now c a,
  parse_alc_pkt_fixed data = Bytes.Ok a -> lh_tsi (Alc.a_lct a) <> tsi ->
  recv_push_data E parse_fdt cfg tsi r data now c = (POk, r, c).
Proof. exact foreign_tsi_leaves_state. Qed.
Print Assumptions C04_foreign_session_leaves_state.

(* ================= (3) recv_step_total ================= *)
(* Range premises.  [pkt_ok p]: the packet's EXT_FTI carries a transfer length of at most
   2^64 - 2^16 and a symbol length below 2^16 - (4) shows that everything the parser accepts does.
   [inst_ok i] for what the XML oracle returns: every Transfer-Length <= 2^64 - 2^16 and every symbol
   length below 2^16 (the code casts it to u16).  A Transfer-Length within 65535 of 2^64 in an FDT
   is NOT covered: block_length's (sbn + 1) * small_block_size can then exceed u64 for the last
   block of the object; reaching that block needs the object's earlier blocks (more than 2^44 bytes)
   to have been received and written, which no harness run can do - noted, not reproduced. *)

(* one object, one packet: ObjectReceiver::push keeps the invariant and never raises the flag *)
Theorem C04_object_push_total : forall E p o c,
  inv o -> pkt_ok p -> inv (fst (or_push E p o c)) /\ (c_panic c = false -> c_panic (snd (or_push E p o c)) = false).
Proof. exact or_push_total. Qed.
Print Assumptions C04_object_push_total.

(* ObjectReceiver::attach_fdt likewise *)
Theorem C04_object_attach_total : forall E id files ioti o c,
  inv o -> files_ok files ioti ->
  inv (snd (fst (or_attach E id files ioti o c))) /\
  (c_panic c = false -> c_panic (snd (or_attach E id files ioti o c)) = false).
Proof. exact or_attach_total. Qed.
Print Assumptions C04_object_attach_total.

(* the whole receiver, any history: packets of any content and order, clean-ups with any set of
   timed-out objects and FDT instances, drop - from the initial state (or any state satisfying the
   invariant) the panic flag never rises, whatever the writers, the FEC decoders, inflate and MD5
   answer *)
Theorem C04_recv_step_total : forall E parse_fdt cfg,
  (forall xml i, parse_fdt xml = Some i -> inst_ok i) ->
  forall evs r c,
    rinv r -> Forall ev_ok evs -> c_panic c = false ->
    rinv (snd (fst (recv_run E parse_fdt cfg r evs c))) /\ c_panic (snd (recv_run E parse_fdt cfg r evs c)) = false.
Proof. exact recv_run_ok. Qed.
Print Assumptions C04_recv_step_total.

Theorem C04_initial_state_invariant : rinv recv0.
Proof. exact rinv0. Qed.
Print Assumptions C04_initial_state_invariant.

(* ================= (4) bytes in: any sequence of byte strings ================= *)
(* everything the parser accepts is in the range (3) asks for *)
Theorem C04_parser_output_in_range : forall data a,
  bytes data -> parse_alc_pkt_fixed data = Bytes.Ok a -> pkt_ok (to_apkt data a).
Proof. exact pkt_ok_of_parse. Qed.
Print Assumptions C04_parser_output_in_range.

(* Receiver::push_data on any sequence of byte strings: Ok or Err every time, never the panic flag *)
Theorem C04_recv_bytes_total : forall E parse_fdt cfg tsi,
  (forall xml i, parse_fdt xml = Some i -> inst_ok i) ->
  forall ds r now c,
    rinv r -> Forall bytes ds -> c_panic c = false ->
    rinv (snd (fst (recv_push_all E parse_fdt cfg tsi r ds now c)))
    /\ c_panic (snd (recv_push_all E parse_fdt cfg tsi r ds now c)) = false.
Proof. exact recv_push_all_total. Qed.
Print Assumptions C04_recv_bytes_total.

(* ================= (5) oracle preconditions ================= *)
(* block level (complete): a block that holds a decoder was created inside the decoder's parameter
   range and holds only symbols of an admissible size; BlockDecoder::push consults the FEC oracle
   only inside its precondition [fec_pre] - two worlds whose decoders differ outside of it cannot
   be told apart *)
Theorem C04_oracle_preconditions_block : forall E1 E2,
  e_debug E1 = e_debug E2 ->
  (forall toi f sbn k e size sh, fec_pre f k e size sh ->
     e_fec E1 toi f sbn k e size sh = e_fec E2 toi f sbn k e size sh) ->
  forall toi oti sbn esi payload b,
    bdec_wf oti b ->
    bd_push E1 toi oti sbn esi payload b = bd_push E2 toi oti sbn esi payload b
    /\ bdec_wf oti (fst (bd_push E1 toi oti sbn esi payload b)).
Proof. exact bd_push_oracle_pre. Qed.
Print Assumptions C04_oracle_preconditions_block.

Theorem C04_block_init_in_range : forall oti k size b b',
  bd_init b = false -> bd_init_block oti k size b = Some b' -> bdec_wf oti b'.
Proof. exact bd_init_block_wf. Qed.
Print Assumptions C04_block_init_in_range.

(* receiver level (NOT proved: needs [bdec_wf] carried through the receiver invariant and a
   congruence lemma per receiver function; stated for the record) *)
Definition C04_oracle_preconditions_full : Prop :=
  forall E1 E2 parse_fdt cfg evs,
    e_debug E1 = e_debug E2 -> e_md5_enabled E1 = e_md5_enabled E2 ->
    e_builder E1 = e_builder E2 -> e_open_ok E1 = e_open_ok E2 -> e_write_ok E1 = e_write_ok E2 ->
    e_md5 E1 = e_md5 E2 -> e_inflate E1 = e_inflate E2 ->
    (forall toi f sbn k e size sh, fec_pre f k e size sh ->
       e_fec E1 toi f sbn k e size sh = e_fec E2 toi f sbn k e size sh) ->
    Forall ev_ok evs ->
    recv_run E1 parse_fdt cfg recv0 evs ctx0 = recv_run E2 parse_fdt cfg recv0 evs ctx0.

(* ================= (6) the executable statement holds of the models ================= *)
Theorem C04_spec_parse_holds : forall data,
  P_C04_parse data (outcome_of_res (parse_alc_pkt_fixed data)) = true.
Proof. exact spec_parse_holds. Qed.
Print Assumptions C04_spec_parse_holds.

Theorem C04_spec_calls_holds : forall E parse_fdt cfg tsi,
  (forall xml i, parse_fdt xml = Some i -> inst_ok i) ->
  forall ds r now c,
    rinv r -> Forall bytes ds -> c_panic c = false ->
    P_C04_calls (model_calls E parse_fdt cfg tsi r ds now c) = true.
Proof. exact spec_calls_holds. Qed.
Print Assumptions C04_spec_calls_holds.

(* Not expressible by these models, evaluated on the implementation on every run only:
   - P_C04_bounded: real time and real heap (the receiver's allocation ledger is C17's subject);
   - P_C04_usable, the delivery of the follow-up session: a liveness statement (C01/C02). *)
Definition C04_usable_afterwards_full : Prop :=
  forall E parse_fdt cfg garbage session,
    Forall ev_ok garbage ->
    (* the untrusted events do not use the session's TOIs or FDT instance ids *)
    (forall p now q now', In (RvPush p now) garbage -> In (RvPush q now') session ->
       a_toi p <> a_toi q \/ (a_toi p = 0 /\ a_fdt_id p <> a_fdt_id q)) ->
    (* whatever the session alone makes the writers receive ... *)
    forall w, In (EvComplete w) (c_log (snd (recv_run E parse_fdt cfg recv0 session ctx0))) ->
    (* ... it still makes them receive after the untrusted events *)
    exists w', fst w' = fst w /\
      In (EvComplete w') (c_log (snd (recv_run E parse_fdt cfg recv0 (garbage ++ session) ctx0))).

(* ================= non-vacuity ================= *)
(* the hypotheses are satisfiable and the theorems speak about accepted packets too: a genuine
   No-Code packet with EXT_FTI (TOI 1, L = 20, E = 8, B = 2) is accepted, is in range, and pushed
   into the model receiver (with oracles that store everything and decode nothing) it returns Ok
   with the flag down; a 3-byte datagram is refused and changes nothing *)
Definition ex_packet : list N :=
  [16;16;7;0; 0;0;0;0; 0;1; 0;1; 64;4;0;0;0;0;0;20;0;0;0;8;0;0;0;2; 0;0;0;0; 13;20;27;34;41;49;56;63].
Definition ex_env : env :=
  mk_env true true (fun _ _ => WStore) (fun _ => true) (fun _ _ => true)
         (fun _ _ _ _ _ _ _ => None) (fun _ => []) (fun _ _ _ => None).
Definition ex_cfg : rconfig := mk_rcfg 0 10485760 true true.

Example C04_example_accepted :
  (exists a, parse_alc_pkt_fixed ex_packet = Bytes.Ok a /\ lh_toi (Alc.a_lct a) = 1 /\ lh_tsi (Alc.a_lct a) = 1)
  /\ observe_fixed ex_packet = Obs 0 0 0
  /\ (let '(x, _, c) := recv_push_all ex_env (fun _ => None) ex_cfg 1 recv0 [ex_packet; [16; 0; 0]; ex_packet] 0%Z ctx0 in
      x = [POk; PErr; POk] /\ c_panic c = false)
  /\ P_C04_calls (model_calls ex_env (fun _ => None) ex_cfg 1 recv0 [ex_packet; [16; 0; 0]; ex_packet] 0%Z ctx0) = true.
Proof.
  split; [eexists; split; [vm_compute; reflexivity|split; reflexivity]|].
  split; [vm_compute; reflexivity|]. split; vm_compute; auto.
Qed.

Example C04_example_hypotheses :
  (forall xml i, (fun _ : list N => @None fdtinst) xml = Some i -> inst_ok i)
  /\ Forall bytes [ex_packet; [16; 0; 0]]
  /\ bdec_wf (mk_roti FRaptorQ 8 3 1 (Some (1, 1, 1))) bdec_new.
Proof.
  split; [intros; discriminate|]. split; [|apply bdec_new_wf].
  repeat constructor.
Qed.

(* the predicates do reject what the property forbids *)
Example C04_example_reject :
  P_C04_parse [16; 0; 0] OPanic = false /\ P_C04_parse [16; 0; 0] OOk = false /\ P_C04_parse [16; 0; 0] OErr = true
  /\ P_C04_calls [OOk; OErr; OHang] = false /\ P_C04_calls [OOk; OCrash] = false
  /\ P_C04_case (mk_case [OOk; OErr] [OOk; OOk] false false 0 2 40 100) = false      (* follow-up lost *)
  /\ P_C04_case (mk_case [OOk; OErr] [OOk; OOk] false true 0 2 40 100) = true
  /\ P_C04_case (mk_case [OOk; OErr] [OOk; OOk] true false 0 2 40 100) = true        (* its own TOIs were used *)
  /\ P_C04_case (mk_case [OOk] [OOk] false true 109951162777600 1 40 100) = false     (* 102 GB left allocated *)
  /\ P_C04_case (mk_case [OOk] [OOk] false true 0 1 40 6000000) = false.             (* a 6 s call *)
Proof. vm_compute. repeat split. Qed.
