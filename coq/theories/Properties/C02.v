(* C02 - Loss recovery: any loss leaving k symbols per block still delivers the object. *)
From FluteV Require Import Model.ObjRecv Model.Recv Spec.RecvSpec Spec.SessionSpec Proofs.RecvProofs Proofs.SessionProofs Proofs.C02Full Proofs.C02RS Proofs.C02Session Proofs.C02SessionRS.
Open Scope N_scope.

(* Object-level statement, proved for the No-Code scheme without content encoding (Proofs/C02Full.v).
   A fresh object receiver for [toi] (or_new) has the FDT entry of the object attached (or_attach, from
   ctx0: OTI [oti], transfer length L = |content| > 0, MD5 [md5], cenc null) and is then fed [pkts] in
   order (receive = fold of or_push).  Premises:
   - nocode_ok: ro_fec = FNoCode, E > 0, B > 0, L > 0, L + E < 2^64 (no u64 overflow in block_length);
   - the writer builder stores the object, open() and every write() succeed, the MD5 is absent or matches;
   - L <= max_size_allocated (the receiver's buffer limit, default 10 MiB)  [memory_limit_refuted];
   - the object has at most 4097 source blocks (window of 2 * MAX_PREALLOCATED_BLOCKS)  [block_window_refuted];
   - every packet is genuine: payload id (sbn, esi) of a source symbol of the RFC 5052 partition, payload =
     the content slice of that symbol (last symbol possibly short); ANY order, ANY duplication;
   - a packet carrying the close-object flag arrives only once the packets up to and including it are
     recoverable (trivial when no packet carries it; true for the in-order last packet)  [close_flag_early_refuted];
   - recoverable = blocks_recoverable false 0 ks 0 (the (sbn, esi) that arrived): every source symbol of
     every block occurs at least once.
   Conclusion: the object is Completed; the log is exactly builder, open, writes whose concatenation is
   [content], one complete (ShapeDone); hence complete_exact and P_C02_object hold for its writer.
   Not covered here: Reed-Solomon / Raptor / RaptorQ (the decoders are oracles of the model), content
   encodings, and the session level above or_attach (FDT reception, Model/Recv.v). *)
Theorem C02_nocode_recoverable_delivers : forall E oti content toi max fid files inst md5 pkts,
  let L := lenN_ content in
  nocode_ok oti L -> fdt_entry_for files inst toi oti L md5 ->
  writer_accepts E toi -> writes_succeed E toi -> md5_good E content md5 ->
  L <= max -> nb_blocks_of oti L <= 4097 ->
  Forall (fun p => genuine_pkt oti content p = true) pkts ->
  close_flag_ok oti L pkts ->
  recoverable oti L pkts = true ->
  let (o, c) := receive E fid files inst toi max pkts in
  r_state o = Completed
  /\ ShapeDone content (toi, 0%nat) toi c
  /\ forall m, complete_exact content (m, calls_of (toi, 0%nat) (c_log c)) = true
                /\ P_C02_object (recoverable oti L pkts) content [(m, calls_of (toi, 0%nat) (c_log c))] = true.
Proof. exact nocode_recoverable_delivers. Qed.
Print Assumptions C02_nocode_recoverable_delivers.

(* no packet carries the close-object flag (carousel / intermediate transfers): the flag premise holds *)
Theorem C02_no_close_flag : forall oti L pkts,
  Forall (fun p => a_close_obj p = false) pkts -> close_flag_ok oti L pkts.
Proof. exact close_flag_ok_noflag. Qed.
Print Assumptions C02_no_close_flag.

(* the close-object flag on the last packet only, of a recoverable list (in-order last transfer, C01) *)
Theorem C02_close_flag_on_last_packet : forall oti L pre p,
  Forall (fun q => a_close_obj q = false) pre -> recoverable oti L (pre ++ [p]) = true ->
  close_flag_ok oti L (pre ++ [p]).
Proof. exact close_flag_ok_last. Qed.
Print Assumptions C02_close_flag_on_last_packet.

(* (1) a block is complete exactly when every source symbol is stored: concat_src succeeds iff all
   of ESI i .. i+n-1 are present *)
Theorem C02_block_reassembles_iff_all_symbols : forall sh n i,
  (forall j, i <= j < i + N.of_nat n -> has_esi j sh = true) <-> concat_src n i sh <> None.
Proof. exact concat_src_spec. Qed.
Print Assumptions C02_block_reassembles_iff_all_symbols.

(* (2) duplicates never change what is stored (first copy wins) *)
Theorem C02_duplicates_are_harmless : forall E oti, ro_fec oti = FNoCode ->
  forall toi sbn esi payload b i d,
  get_esi i (bd_shards b) = Some d ->
  get_esi i (bd_shards (fst (bd_push E toi oti sbn esi payload b))) = Some d.
Proof. exact nocode_first_copy_wins. Qed.
Print Assumptions C02_duplicates_are_harmless.

(* (3) an object that has completed or failed ignores every further packet (late duplicates, the
   packets of later transfers) *)
Theorem C02_closed_object_ignores_packets : forall E p o c,
  r_state o <> Receiving -> or_push E p o c = (o, c).
Proof. exact closed_object_ignores_packets. Qed.
Print Assumptions C02_closed_object_ignores_packets.

Example C02_example_premise :
  blocks_recoverable false 0 [2; 1] 0 [(0,0); (0,1); (1,0); (0,1)] = true
  /\ blocks_recoverable false 0 [2; 1] 0 [(0,0); (1,0)] = false
  /\ blocks_recoverable true 1 [2; 1] 0 [(0,2); (0,1); (1,1)] = true
  /\ P_C02_object true [7] [] = false.
Proof. vm_compute. repeat split. Qed.

(* non-vacuity: a 5-byte object in 2 blocks (E = 2, B = 2, last symbol short), its packets shuffled and
   duplicated: the premises hold, the theorem applies, and the model delivers [1;2;3;4] then [5] *)
Example C02_example_delivery :
  forallb (genuine_pkt ex_oti ex_content) ex_pkts = true
  /\ recoverable ex_oti 5 ex_pkts = true
  /\ map pid_of ex_pkts = [(1, 0); (0, 1); (1, 0); (0, 0); (0, 1)]
  /\ summary 7 (receive env_ok 1 ex_files None 7 1000 ex_pkts)
     = (Completed, [CallOpen true; CallWrite [1; 2; 3; 4] true; CallWrite [5] true; CallComplete]).
Proof. vm_compute. repeat split. Qed.

(* each guard of the theorem is needed: the same kind of genuine, recoverable reception fails when the
   close-object flag arrives early, when the object exceeds max_size_allocated, when it has more than
   4097 blocks and a far block arrives first (Proofs/C02Full.v) *)
Example C02_guards_are_needed :
  fst (summary 7 (receive env_ok 1 ex_files None 7 1000 ex_pkts_flag_first)) = Interrupted
  /\ fst (summary 7 (receive env_ok 1 ex2_files None 7 3 ex2_pkts)) = Errored.
Proof. vm_compute. repeat split. Qed.

(* ---------------- Reed-Solomon GF(2^8): FEC 5 (FRS28) and FEC 129 (FRS28US), Proofs/C02RS.v ----------------
   Same setting as C02_nocode_recoverable_delivers, for ro_fec oti in {FRS28, FRS28US} with parity p = ro_parity oti.
   The decoder is an oracle of the model (e_fec); its correctness is the EXPLICIT, TRUSTED hypothesis
     rs_oracle_mds E oti content rep toi :
       whenever e_fec is called for a block s < n with at least k_s shards that are genuine (distinct ESI below
       k_s + p; the shard of ESI i < k_s is symbol (offset of s) + i of the zero-padded object, the shard of ESI
       i >= k_s is the sender's repair symbol rep s i - rep is universally quantified), it returns the padded source
       block rs_block oti content s (k_s * E bytes), whatever block size it is passed.
   Nothing is assumed for fewer than k shards: the model never calls the oracle then
   (C02_rs_oracle_only_with_k_shards), and it reassembles the block itself when all k source symbols are stored.
   Premises beyond the No-Code ones:
   - rs_blocks_ok: ReedSolomon::new(k, p) succeeds for every block: 0 < p and k + p <= 256  [rs_parity_zero_refuted];
   - rs_mem_need oti L <= max: L for FEC 5, but ceil(L / E) * E for FEC 129, whose receiver accounts k * E bytes per
     block from the source block length of the payload id  [rs129_memory_limit_refuted];
   - genuine packets: payload id in the scheme's own layout (FEC 5: 24-bit SBN + 8-bit ESI; FEC 129: 32-bit SBN,
     16-bit source block length = k_s, 16-bit ESI), ESI < k_s + p, payload = the encoding symbol (source symbols are
     padded to E, as rscodec.rs create_shards does); any order, any duplication;
   - rs_recoverable = blocks_recoverable true p ks 0 (the (sbn, esi) that arrived): every block has k distinct ESI
     below k + p;
   - rs_rep_sized oti rep (new with the repair of D47: BlockDecoder::push discards a symbol longer than E):
     forall s i, lenN_ (rep s i) <= ro_e oti - the sender's repair symbols fit the announced symbol length
     (reed_solomon_erasure: exactly E bytes).  The source symbols of a genuine packet are symbols of the padded object
     (E bytes), so nothing is asked of them  [rs_long_repair_refuted: 3-byte repair symbols for E = 2 are discarded and
     a recoverable reception is not delivered]. *)
Theorem C02_rs_recoverable_delivers : forall E oti content rep toi max fid files inst md5 pkts,
  let L := lenN_ content in
  rs_scheme_ok oti L -> rs_blocks_ok oti L -> fdt_entry_for files inst toi oti L md5 ->
  writer_accepts E toi -> writes_succeed E toi -> md5_good E content md5 ->
  rs_oracle_mds E oti content rep toi -> rs_rep_sized oti rep ->
  rs_mem_need oti L <= max -> nb_blocks_of oti L <= 4097 ->
  Forall (fun p => rs_genuine_pkt oti content rep p = true) pkts ->
  rs_close_flag_ok oti L pkts ->
  rs_recoverable oti L pkts = true ->
  let (o, c) := receive E fid files inst toi max pkts in
  r_state o = Completed
  /\ ShapeDone content (toi, 0%nat) toi c
  /\ forall m, complete_exact content (m, calls_of (toi, 0%nat) (c_log c)) = true
                /\ P_C02_object (rs_recoverable oti L pkts) content [(m, calls_of (toi, 0%nat) (c_log c))] = true.
Proof. exact rs_recoverable_delivers. Qed.
Print Assumptions C02_rs_recoverable_delivers.

(* the oracle hypothesis, unfolded once (definitions rs_k, rs_symbol, rs_block, rs_shards_genuine in Proofs/C02RS.v) *)
Theorem C02_rs_oracle_mds_statement : forall E oti content rep toi,
  rs_oracle_mds E oti content rep toi <->
  (forall s size sh, s < nb_blocks_of oti (lenN_ content) ->
     rs_k oti (lenN_ content) s <= N.of_nat (length sh) ->
     NoDup (map fst sh)
     /\ Forall (fun p => fst p < rs_k oti (lenN_ content) s + ro_parity oti
                         /\ snd p = rs_symbol oti content rep s (fst p)) sh ->
     e_fec E toi (ro_fec oti) s (rs_k oti (lenN_ content) s) (ro_e oti) size sh = Some (rs_block oti content s)).
Proof. intros. reflexivity. Qed.
Print Assumptions C02_rs_oracle_mds_statement.

Theorem C02_rs_no_close_flag : forall oti L pkts,
  Forall (fun p => a_close_obj p = false) pkts -> rs_close_flag_ok oti L pkts.
Proof. exact rs_close_flag_ok_noflag. Qed.
Print Assumptions C02_rs_no_close_flag.

(* with fewer than k stored shards the Reed-Solomon block decoder of the model does not consult the oracle *)
Theorem C02_rs_oracle_only_with_k_shards : forall E E' t oti s esi pl d,
  ro_fec oti = FRS28 \/ ro_fec oti = FRS28US -> e_debug E = e_debug E' ->
  (forall sh, bd_k d <= N.of_nat (length sh) ->
     e_fec E t (ro_fec oti) s (bd_k d) (ro_e oti) (bd_size d) sh = e_fec E' t (ro_fec oti) s (bd_k d) (ro_e oti) (bd_size d) sh) ->
  bd_push E t oti s esi pl d = bd_push E' t oti s esi pl d.
Proof. exact rs_oracle_only_with_k_shards. Qed.
Print Assumptions C02_rs_oracle_only_with_k_shards.

(* non-vacuity: a toy systematic code with one XOR parity symbol per block and its erasure decoder (xor_dec)
   satisfy the oracle hypothesis for a 5-byte object (E = 2, B = 2, p = 1) and for its FEC 129 variant *)
Theorem C02_rs_oracle_hypothesis_satisfiable :
  rs_oracle_mds env_xor exr_oti exr_content exr_rep 7 /\ rs_oracle_mds env_xor exu_oti exr_content exu_rep 7.
Proof. exact (conj xor_dec_mds xor_dec_mds_129). Qed.
Print Assumptions C02_rs_oracle_hypothesis_satisfiable.

(* block 0 recovered from its parity symbol and one source symbol, block 1 from its parity symbol alone;
   packets shuffled and duplicated: the premises hold and the model delivers [1;2;3;4] then [5] *)
Example C02_rs_example_delivery :
  forallb (rs_genuine_pkt exr_oti exr_content exr_rep) exr_pkts = true
  /\ rs_recoverable exr_oti 5 exr_pkts = true
  /\ map (rs_pid exr_oti) exr_pkts = [(1, 1); (0, 2); (1, 1); (0, 0); (0, 2)]
  /\ summary 7 (receive env_xor 1 exr_files None 7 1000 exr_pkts)
     = (Completed, [CallOpen true; CallWrite [1; 2; 3; 4] true; CallWrite [5] true; CallComplete]).
Proof. vm_compute. repeat split. Qed.

(* the new guards are needed: parity 0 (every source symbol arrives, still Errored), and FEC 129 with
   max_size_allocated = transfer length 5 < 6 = rs_mem_need (Errored; delivered with 6) *)
Example C02_rs_guards_are_needed :
  rs_recoverable exz_oti 5 exz_pkts = true
  /\ fst (summary 7 (receive env_xor 1 exz_files None 7 1000 exz_pkts)) = Errored
  /\ rs_recoverable exu_oti 5 exu_pkts = true
  /\ fst (summary 7 (receive env_xor 1 exu_files None 7 5 exu_pkts)) = Errored
  /\ fst (summary 7 (receive env_xor 1 exu_files None 7 6 exu_pkts)) = Completed.
Proof. vm_compute. repeat split. Qed.

(* D47: the premise rs_rep_sized is needed - genuine (for 3-byte repair symbols, E = 2) and recoverable, not delivered *)
Example C02_rs_long_repair_refuted :
  forallb (rs_genuine_pkt exr_oti exr_content exl_rep) exl_pkts = true
  /\ rs_recoverable exr_oti 5 exl_pkts = true
  /\ lenN_ (exl_rep 0 2) = 3 /\ ro_e exr_oti = 2
  /\ summary 7 (receive env_xor 1 exr_files None 7 1000 exl_pkts) = (Receiving, [CallOpen true]).
Proof. exact rs_long_repair_refuted. Qed.
Theorem C02_rs_rep_sized_statement : forall oti rep,
  rs_rep_sized oti rep <-> forall s i, lenN_ (rep s i) <= ro_e oti.
Proof. intros. reflexivity. Qed.

(* ---------------- RaptorQ (FEC 6) and Raptor (FEC 1), Proofs/C02RS.v ----------------
   The block decoder of the model asks the oracle after every push.  It stores a symbol with a new ESI - RaptorQ: only
   if its size is E (fixes D10); Raptor: padded with zeros up to ceil(block length / k_s) (fixes D10): fq_stored.
   The codes are not modelled: [enc s i] is whatever the sender's encoder produces for (sbn, esi), universally
   quantified.  EXPLICIT, TRUSTED hypotheses on the oracle, called with k_s and the block length of the partition:
     fq_oracle_sound:    given genuine symbols with distinct ESI (Raptor: zero-padded as above; RaptorQ: all of E bytes),
                         whatever it answers is the block of the object (followed by padding only if it is the last);
     fq_oracle_complete: given genuine symbols among which all k_s source symbols, it does answer.
   Premises beyond the No-Code ones:
   - fq_blocks_ok: the decoder of every block can be created (fixes D28, D34): scheme-specific information (Z, N, Al)
     present; RaptorQ: Al <> 0, E mod Al = 0, N <> 0, k_s <= 56403; Raptor: k_s <= 8192
     [fq_scheme_missing_refuted, rq_scheme_parameters_refuted, fq_block_too_large_refuted];
   - fq_sized_pkt: RaptorQ payloads have exactly E bytes (the sender pads the last source symbol); any other size is
     discarded by the block decoder  [rq_symbol_size_refuted].  Raptor: at most E bytes (short symbols are padded,
     raptor_short_symbol_is_padded; since the repair of D47 a symbol LONGER than E is discarded by the block decoder
     for every scheme, before it reaches the FEC decoder).
   fq_recoverable = blocks_recoverable false 0 ks 0: every source symbol of every block arrived (Spec/SessionSpec);
   repair packets may be interleaved.  Recovery from fewer source symbols is entirely the decoder's and is not stated. *)
Theorem C02_fq_recoverable_delivers : forall E oti content enc toi max fid files inst md5 pkts,
  let L := lenN_ content in
  fq_scheme_ok oti L -> fq_blocks_ok oti L -> fdt_entry_for files inst toi oti L md5 ->
  writer_accepts E toi -> writes_succeed E toi -> md5_good E content md5 ->
  fq_oracle_sound E oti content enc toi -> fq_oracle_complete E oti content enc toi ->
  L <= max -> nb_blocks_of oti L <= 4097 ->
  Forall (fun p => fq_genuine_pkt oti content enc p = true) pkts ->
  Forall (fun p => fq_sized_pkt oti p = true) pkts ->
  fq_close_flag_ok oti L pkts ->
  fq_recoverable oti L pkts = true ->
  let (o, c) := receive E fid files inst toi max pkts in
  r_state o = Completed
  /\ ShapeDone content (toi, 0%nat) toi c
  /\ forall m, complete_exact content (m, calls_of (toi, 0%nat) (c_log c)) = true
                /\ P_C02_object (fq_recoverable oti L pkts) content [(m, calls_of (toi, 0%nat) (c_log c))] = true.
Proof. exact fq_recoverable_delivers. Qed.
Print Assumptions C02_fq_recoverable_delivers.

(* the oracle hypotheses and the new premises, unfolded once *)
Theorem C02_fq_oracle_statements : forall E oti content enc toi,
  (fq_oracle_sound E oti content enc toi <->
   (forall s sh d, s < nb_blocks_of oti (lenN_ content) ->
      NoDup (map fst sh)
      /\ Forall (fun p => snd p = fq_stored oti (lenN_ content) s (enc s (fst p))
                          /\ (ro_fec oti = FRaptorQ -> lenN_ (snd p) = ro_e oti)) sh ->
      e_fec E toi (ro_fec oti) s (rs_k oti (lenN_ content) s) (ro_e oti) (obj_block_len oti (lenN_ content) s) sh = Some d ->
      exists z, d = obj_block oti content s ++ z /\ (s + 1 < nb_blocks_of oti (lenN_ content) -> z = [])))
  /\ (fq_oracle_complete E oti content enc toi <->
   (forall s sh, s < nb_blocks_of oti (lenN_ content) ->
      NoDup (map fst sh)
      /\ Forall (fun p => snd p = fq_stored oti (lenN_ content) s (enc s (fst p))
                          /\ (ro_fec oti = FRaptorQ -> lenN_ (snd p) = ro_e oti)) sh ->
      (forall j, j < rs_k oti (lenN_ content) s -> has_esi j sh = true) ->
      e_fec E toi (ro_fec oti) s (rs_k oti (lenN_ content) s) (ro_e oti) (obj_block_len oti (lenN_ content) s) sh <> None)).
Proof. intros. split; reflexivity. Qed.
Print Assumptions C02_fq_oracle_statements.

Theorem C02_fq_premises_statements : forall oti L s x p k,
  fq_stored oti L s x
  = match ro_fec oti with
    | FRaptor => x ++ repeat 0 (N.to_nat (div_ceil (obj_block_len oti L s) (N.max (rs_k oti L s) 1) - lenN_ x))
    | _ => x
    end
  /\ fq_sized_pkt oti p = match ro_fec oti with FRaptorQ => lenN_ (a_payload p) =? ro_e oti
                                              | _ => lenN_ (a_payload p) <=? ro_e oti end
  /\ (fq_blocks_ok oti L <-> forallb (fq_dec_ok oti) (source_ks oti L) = true)
  /\ fq_dec_ok oti k
     = match ro_fec oti, ro_scheme oti with
       | FRaptorQ, Some (_, nn, al) =>
         negb ((ro_e oti =? 0) || (al =? 0) || negb (ro_e oti mod al =? 0) || (nn =? 0) || (k =? 0) || (56403 <? k))
       | FRaptor, Some _ => negb ((k =? 0) || (8192 <? k))
       | _, _ => false
       end.
Proof. intros. repeat split; intros H; exact H. Qed.
Print Assumptions C02_fq_premises_statements.

(* non-vacuity: a systematic toy code whose decoder reassembles the source symbols and ignores repair symbols
   satisfies both hypotheses for every object *)
Theorem C02_fq_oracle_hypotheses_satisfiable : forall oti content rep toi,
  0 < ro_e oti -> 0 < ro_b oti -> 0 < lenN_ content ->
  fq_oracle_sound env_sys oti content (rs_symbol oti content rep) toi
  /\ fq_oracle_complete env_sys oti content (rs_symbol oti content rep) toi.
Proof. intros oti content rep toi. exact (sys_dec_oracle env_sys oti content rep toi (fun _ _ _ _ _ _ _ => eq_refl)). Qed.
Print Assumptions C02_fq_oracle_hypotheses_satisfiable.

Example C02_fq_example_delivery :
  forallb (fq_genuine_pkt exq_oti exr_content exq_enc) exq_pkts = true
  /\ forallb (fq_sized_pkt exq_oti) exq_pkts = true
  /\ forallb (fq_dec_ok exq_oti) (source_ks exq_oti 5) = true
  /\ map (rs_pid exq_oti) exq_pkts = [(1, 0); (0, 5); (0, 1); (1, 0); (0, 0)]
  /\ fq_recoverable exq_oti 5 exq_pkts = true
  /\ summary 7 (receive env_sys 1 exq_files None 7 1000 exq_pkts)
     = (Completed, [CallOpen true; CallWrite [1; 2; 3; 4] true; CallWrite [5] true; CallComplete])
  /\ fst (summary 7 (receive env_sys 1 exn_files None 7 1000 exq_pkts)) = Errored.
Proof. vm_compute. repeat split. Qed.

(* Raptor (FEC 1): the same object delivered; a 3-byte object whose 1-byte last source symbol the block decoder
   pads to ceil(3 / 2) = 2 bytes before the decoder sees it *)
Example C02_fq_example_raptor :
  summary 7 (receive env_sys 1 exp_files None 7 1000 exp_pkts)
  = (Completed, [CallOpen true; CallWrite [1; 2; 3; 4] true; CallWrite [5] true; CallComplete])
  /\ forallb (fq_genuine_pkt exs_oti exs_content exs_enc) exs_pkts = true
  /\ fq_stored exs_oti 3 0 (exs_enc 0 1) = [3; 0]
  /\ summary 7 (receive env_sys 1 exs_files None 7 1000 exs_pkts)
     = (Completed, [CallOpen true; CallWrite [1; 2; 3] true; CallComplete]).
Proof. vm_compute. repeat split. Qed.

(* every new premise is needed: genuine, recoverable receptions that are NOT delivered.
   RaptorQ with Al = 0 / E mod Al <> 0 / N = 0: Errored; k above K'_max (RaptorQ) or K_max (Raptor): Errored at the
   first packet; a RaptorQ source symbol of 1 byte instead of E = 2: discarded, the object stays Receiving *)
Example C02_fq_guards_are_needed :
  (exd_bad (1, 1, 0) /\ exd_bad (1, 1, 4) /\ exd_bad (1, 0, 1))
  /\ fst (summary 7 (receive env_sys 1 (exk_files FRaptorQ 56404) None 7 100000 [rq_pkt 7 0 0 false [1]])) = Errored
  /\ fst (summary 7 (receive env_sys 1 (exk_files FRaptor 8193) None 7 100000 [rp_pkt 7 0 0 false [1]])) = Errored
  /\ forallb (fq_genuine_pkt exq_oti exr_content exf_enc) exf_pkts = true
  /\ fq_recoverable exq_oti 5 exf_pkts = true
  /\ map (fq_sized_pkt exq_oti) exf_pkts = [true; true; false]
  /\ summary 7 (receive env_sys 1 exq_files None 7 1000 exf_pkts)
     = (Receiving, [CallOpen true; CallWrite [1; 2; 3; 4] true]).
Proof. vm_compute. repeat split. Qed.

(* ---------------- the session level: Model/Recv.v, Proofs/C02Session.v ----------------
   The receiver as a whole (recv_run from recv0 / ctx0) is fed ONE FDT instance, carried by one packet [pf] of TOI 0,
   and the packets of the No-Code object [toi] <> 0, all at the same receiver time [now].  Premises beyond those of
   C02_nocode_recoverable_delivers (whose max is now cf_max_cache cfg, the limit push_obj gives or_new):
   - fdt_pkt_ok pf id foti d (what push_fdt_obj / fr_push / the inner object receiver need): TOI 0, EXT_FDT = id,
     EXT_FTI = (foti, |d|) with foti a No-Code OTI, EXT_CENC absent or null, 0 < |d| <= 1 MiB (the FDT receiver's
     own limit), and the document d is the packet's single source symbol (genuine_pkt, recoverable for [pf] alone);
   - parse_fdt d = Some inst (the parser is an oracle), and inst lists toi with the object's OTI, length, MD5, cenc null
     (fdt_entry_for, the instance OTI as fallback);
   - fdt_live cfg inst pf now: cf_exp_check = false, or Expires >= the sender's clock (EXT_TIME of pf if present, else
     now)  [C02_session_fdt_expired_refuted];
   - every object packet has a_toi = toi, is genuine; any order, any duplication; close flag as in close_flag_ok.
   Conclusion (session_delivered): whatever else the run did (a duplicate after completion may open a second writer
   (toi,1), see C02_session_surprises), the calls of the object's first writer (toi,0) are exactly
   open(ok) . write* . complete with the written bytes = content (delivered_calls), hence complete_exact; and when
   cf_once = true and the entry is not Cache-Control:no-cache, the whole log is builder/open/writes/complete
   (ShapeDone), the object has left rv_objects, rv_error is empty and rv_completed = [toi]. *)
Theorem C02_session_fdt_first_delivers : forall E parse_fdt cfg oti content toi md5 now pf id foti d inst pkts,
  let L := lenN_ content in
  nocode_ok oti L -> toi <> 0 ->
  fdt_pkt_ok pf id foti d -> parse_fdt d = Some inst -> fdt_live cfg inst pf now ->
  fdt_entry_for (fi_files inst) (fi_oti inst) toi oti L md5 ->
  writer_accepts E toi -> writes_succeed E toi -> md5_good E content md5 ->
  L <= cf_max_cache cfg -> nb_blocks_of oti L <= 4097 ->
  Forall (fun p => a_toi p = toi) pkts ->
  Forall (fun p => genuine_pkt oti content p = true) pkts ->
  close_flag_ok oti L pkts ->
  recoverable oti L pkts = true ->
  let '(_, r, c) := recv_run E parse_fdt cfg recv0 (map (fun p => RvPush p now) (pf :: pkts)) ctx0 in
  session_delivered cfg inst content toi r c.
Proof. exact session_fdt_first_delivers. Qed.
Print Assumptions C02_session_fdt_first_delivers.

(* FDT late: the packets pkts1 arrive BEFORE the FDT instance and carry EXT_FTI = (oti, L), no EXT_CENC and no
   close-object flag [no longer needed: C02_session_close_flag_before_fdt_now_delivered, block D44]: they are decoded without FDT and without writer
   (nothing is logged); the instance then opens the writer and flushes the completed blocks from block 0; pkts2 follow.
   genuine / close_flag_ok / recoverable are those of the whole list pkts1 ++ pkts2.  pkts1 = [] is the theorem above. *)
Theorem C02_session_fdt_late_delivers : forall E parse_fdt cfg oti content toi md5 now pf id foti d inst pkts1 pkts2,
  let L := lenN_ content in
  nocode_ok oti L -> toi <> 0 ->
  fdt_pkt_ok pf id foti d -> parse_fdt d = Some inst -> fdt_live cfg inst pf now ->
  fdt_entry_for (fi_files inst) (fi_oti inst) toi oti L md5 ->
  writer_accepts E toi -> writes_succeed E toi -> md5_good E content md5 ->
  L <= cf_max_cache cfg -> nb_blocks_of oti L <= 4097 ->
  Forall (fun p => a_toi p = toi) (pkts1 ++ pkts2) ->
  Forall (fun p => genuine_pkt oti content p = true) (pkts1 ++ pkts2) ->
  Forall (fun p => a_oti p = Some (oti, L) /\ a_cenc p = None /\ a_close_obj p = false) pkts1 ->
  close_flag_ok oti L (pkts1 ++ pkts2) ->
  recoverable oti L (pkts1 ++ pkts2) = true ->
  let '(_, r, c) := recv_run E parse_fdt cfg recv0 (map (fun p => RvPush p now) (pkts1 ++ pf :: pkts2)) ctx0 in
  session_delivered cfg inst content toi r c.
Proof. exact session_fdt_late_delivers. Qed.
Print Assumptions C02_session_fdt_late_delivers.

(* the vocabulary of the two theorems, unfolded once *)
Theorem C02_session_statements : forall cfg inst content toi r c pf id foti d now,
  (session_delivered cfg inst content toi r c <->
   (exists ws, calls_of (toi, 0%nat) (c_log c) = CallOpen true :: ws ++ [CallComplete]
               /\ Forall (fun cl => match cl with CallWrite _ _ => True | _ => False end) ws
               /\ written ws = content)
   /\ (forall m, complete_exact content (m, calls_of (toi, 0%nat) (c_log c)) = true)
   /\ (cf_once cfg = true -> entry_nocache inst toi = false ->
       rv_objects r = [] /\ rv_completed r = [toi] /\ rv_error r = [] /\ ShapeDone content (toi, 0%nat) toi c))
  /\ (fdt_pkt_ok pf id foti d <->
      a_toi pf = 0 /\ a_fdt_id pf = Some id /\ a_oti pf = Some (foti, lenN_ d)
      /\ (a_cenc pf = None \/ a_cenc pf = Some CNull)
      /\ nocode_ok foti (lenN_ d) /\ lenN_ d <= 1048576
      /\ genuine_pkt foti d pf = true /\ recoverable foti (lenN_ d) [pf] = true)
  /\ (fdt_live cfg inst pf now <->
      cf_exp_check cfg = false
      \/ exists ex, fi_expires inst = Some ex /\ (ex <? match a_sct pf with Some t => t | None => now end)%Z = false).
Proof. intros. split; [reflexivity|split; reflexivity]. Qed.
Print Assumptions C02_session_statements.

(* non-vacuity: a toy parser (the document "<>" is the instance listing TOI 7), the FDT packet, then ex_pkts
   (shuffled, duplicated), receive-once: every packet is accepted, TOI 7 ends in rv_completed, the log is the
   delivery; the same with three packets (EXT_FTI) before the FDT packet; both also follow from the theorems
   (ex_session_by_theorem, ex_session_late_by_theorem in Proofs/C02Session.v) *)
Example C02_session_example :
  sess (tx_parse false None) (tx_cfg true false) (tx_fdt None :: ex_pkts)
  = ([POk; POk; POk; POk; POk; POk], [], [7], [], delivered_log)
  /\ sess (tx_parse false None) (tx_cfg true false) (map with_fti (firstn 3 ex_pkts) ++ tx_fdt None :: skipn 3 ex_pkts)
     = ([POk; POk; POk; POk; POk; POk], [], [7], [], delivered_log).
Proof. vm_compute. split; reflexivity. Qed.

(* fdt_live is needed: expiry check on and no Expires, or Expires behind the receiver's clock and no EXT_TIME:
   the instance is never attached, the packets stay cached, nothing is delivered *)
Example C02_session_fdt_expired_refuted :
  sess (tx_parse false None) (tx_cfg true true) (tx_fdt None :: ex_pkts) = ([POk; POk; POk; POk; POk; POk], [7], [], [], [])
  /\ sess (tx_parse false (Some 50%Z)) (tx_cfg true true) (tx_fdt None :: ex_pkts) = ([POk; POk; POk; POk; POk; POk], [7], [], [], [])
  /\ sess (tx_parse false (Some 50%Z)) (tx_cfg true true) (tx_fdt (Some 40%Z) :: ex_pkts)
     = ([POk; POk; POk; POk; POk; POk], [], [7], [], delivered_log).
Proof. exact fdt_expired_refuted. Qed.

(* "no close-object flag before the FDT instance" is NO LONGER needed (D44 repaired; the variants without that
   premise are in the block D44 at the end of this file): the complete in-order transfer (EXT_FTI on every packet,
   B flag on the last) followed by the FDT instance is delivered - a close-object flag is ignored while the object
   has no writer; before the repair the decoded object was interrupted for want of a writer and error-listed
   (value ([POk; POk; POk; POk], [], [], [7], [])); the same packets after the FDT instance are delivered as before *)
Example C02_session_close_flag_before_fdt_now_delivered :
  forallb (genuine_pkt ex_oti ex_content) (map with_fti ex_pkts_inorder) = true
  /\ recoverable ex_oti 5 (map with_fti ex_pkts_inorder) = true
  /\ sess (tx_parse false None) (tx_cfg true false) (map with_fti ex_pkts_inorder ++ [tx_fdt None])
     = ([POk; POk; POk; POk], [], [7], [], delivered_log)
  /\ sess (tx_parse false None) (tx_cfg true false) (tx_fdt None :: map with_fti ex_pkts_inorder)
     = ([POk; POk; POk; POk], [], [7], [], delivered_log).
Proof. exact close_flag_before_fdt_now_delivered. Qed.

(* after the delivery: a no-cache object is re-created by any late duplicate (second writer (7,1) opened, also with
   receive-once); with receive-once off a duplicate of symbol (0,0) restarts the reception *)
Example C02_session_surprises :
  sess (tx_parse true None) (tx_cfg true false) (tx_fdt None :: ex_pkts)
  = ([POk; POk; POk; POk; POk; POk], [7], [], [], delivered_log ++ [EvBuilder 7 WStore; EvOpen (7, 1%nat) true])
  /\ sess (tx_parse false None) (tx_cfg false false) (tx_fdt None :: ex_pkts ++ [src_pkt 7 0 0 false [1; 2]])
     = ([POk; POk; POk; POk; POk; POk; POk], [7], [], [], delivered_log ++ [EvBuilder 7 WStore; EvOpen (7, 1%nat) true]).
Proof. vm_compute. split; reflexivity. Qed.

(* ---------------- the session level for the oracle schemes: Proofs/C02SessionRS.v ----------------
   The receiver-level plumbing of C02Session.v does not depend on the FEC scheme: it is proved once over an object-level
   interface (section SessIface: "attached and receiving" / "decoding before the FDT" invariants with their step, attach
   and not-covered lemmas) and instantiated for No-Code (C02_session_via_interface re-derives the two statements above)
   and for the invariant of Proofs/C02RS.v.  Premises = those of C02_rs_recoverable_delivers / C02_fq_recoverable_delivers
   with max := cf_max_cache cfg, the oracle hypotheses included, + the session premises of C02_session_fdt_first_delivers
   (fdt_pkt_ok, parse_fdt d = Some inst, fdt_live, toi <> 0, a_toi = toi).  No new hypothesis was needed. *)
Theorem C02_rs_session_fdt_first_delivers : forall E parse_fdt cfg oti content rep toi md5 now pf id foti d inst pkts,
  let L := lenN_ content in
  rs_scheme_ok oti L -> rs_blocks_ok oti L -> toi <> 0 ->
  fdt_pkt_ok pf id foti d -> parse_fdt d = Some inst -> fdt_live cfg inst pf now ->
  fdt_entry_for (fi_files inst) (fi_oti inst) toi oti L md5 ->
  writer_accepts E toi -> writes_succeed E toi -> md5_good E content md5 ->
  rs_oracle_mds E oti content rep toi -> rs_rep_sized oti rep ->
  rs_mem_need oti L <= cf_max_cache cfg -> nb_blocks_of oti L <= 4097 ->
  Forall (fun p => a_toi p = toi) pkts ->
  Forall (fun p => rs_genuine_pkt oti content rep p = true) pkts ->
  rs_close_flag_ok oti L pkts ->
  rs_recoverable oti L pkts = true ->
  let '(_, r, c) := recv_run E parse_fdt cfg recv0 (map (fun p => RvPush p now) (pf :: pkts)) ctx0 in
  session_delivered cfg inst content toi r c.
Proof. exact rs_session_fdt_first_delivers. Qed.
Print Assumptions C02_rs_session_fdt_first_delivers.

(* FDT late, Reed-Solomon: pkts1 (EXT_FTI = (oti, L), no EXT_CENC, no close-object flag) arrive before the FDT instance
   and are decoded - the decoder oracle is consulted - without writer; the instance opens the writer and flushes *)
Theorem C02_rs_session_fdt_late_delivers : forall E parse_fdt cfg oti content rep toi md5 now pf id foti d inst pkts1 pkts2,
  let L := lenN_ content in
  rs_scheme_ok oti L -> rs_blocks_ok oti L -> toi <> 0 ->
  fdt_pkt_ok pf id foti d -> parse_fdt d = Some inst -> fdt_live cfg inst pf now ->
  fdt_entry_for (fi_files inst) (fi_oti inst) toi oti L md5 ->
  writer_accepts E toi -> writes_succeed E toi -> md5_good E content md5 ->
  rs_oracle_mds E oti content rep toi -> rs_rep_sized oti rep ->
  rs_mem_need oti L <= cf_max_cache cfg -> nb_blocks_of oti L <= 4097 ->
  Forall (fun p => a_toi p = toi) (pkts1 ++ pkts2) ->
  Forall (fun p => rs_genuine_pkt oti content rep p = true) (pkts1 ++ pkts2) ->
  Forall (fun p => a_oti p = Some (oti, L) /\ a_cenc p = None /\ a_close_obj p = false) pkts1 ->
  rs_close_flag_ok oti L (pkts1 ++ pkts2) ->
  rs_recoverable oti L (pkts1 ++ pkts2) = true ->
  let '(_, r, c) := recv_run E parse_fdt cfg recv0 (map (fun p => RvPush p now) (pkts1 ++ pf :: pkts2)) ctx0 in
  session_delivered cfg inst content toi r c.
Proof. exact rs_session_fdt_late_delivers. Qed.
Print Assumptions C02_rs_session_fdt_late_delivers.

Theorem C02_fq_session_fdt_first_delivers : forall E parse_fdt cfg oti content enc toi md5 now pf id foti d inst pkts,
  let L := lenN_ content in
  fq_scheme_ok oti L -> fq_blocks_ok oti L -> toi <> 0 ->
  fdt_pkt_ok pf id foti d -> parse_fdt d = Some inst -> fdt_live cfg inst pf now ->
  fdt_entry_for (fi_files inst) (fi_oti inst) toi oti L md5 ->
  writer_accepts E toi -> writes_succeed E toi -> md5_good E content md5 ->
  fq_oracle_sound E oti content enc toi -> fq_oracle_complete E oti content enc toi ->
  L <= cf_max_cache cfg -> nb_blocks_of oti L <= 4097 ->
  Forall (fun p => a_toi p = toi) pkts ->
  Forall (fun p => fq_genuine_pkt oti content enc p = true) pkts ->
  Forall (fun p => fq_sized_pkt oti p = true) pkts ->
  fq_close_flag_ok oti L pkts ->
  fq_recoverable oti L pkts = true ->
  let '(_, r, c) := recv_run E parse_fdt cfg recv0 (map (fun p => RvPush p now) (pf :: pkts)) ctx0 in
  session_delivered cfg inst content toi r c.
Proof. exact fq_session_fdt_first_delivers. Qed.
Print Assumptions C02_fq_session_fdt_first_delivers.

Theorem C02_fq_session_fdt_late_delivers : forall E parse_fdt cfg oti content enc toi md5 now pf id foti d inst pkts1 pkts2,
  let L := lenN_ content in
  fq_scheme_ok oti L -> fq_blocks_ok oti L -> toi <> 0 ->
  fdt_pkt_ok pf id foti d -> parse_fdt d = Some inst -> fdt_live cfg inst pf now ->
  fdt_entry_for (fi_files inst) (fi_oti inst) toi oti L md5 ->
  writer_accepts E toi -> writes_succeed E toi -> md5_good E content md5 ->
  fq_oracle_sound E oti content enc toi -> fq_oracle_complete E oti content enc toi ->
  L <= cf_max_cache cfg -> nb_blocks_of oti L <= 4097 ->
  Forall (fun p => a_toi p = toi) (pkts1 ++ pkts2) ->
  Forall (fun p => fq_genuine_pkt oti content enc p = true) (pkts1 ++ pkts2) ->
  Forall (fun p => fq_sized_pkt oti p = true) (pkts1 ++ pkts2) ->
  Forall (fun p => a_oti p = Some (oti, L) /\ a_cenc p = None /\ a_close_obj p = false) pkts1 ->
  fq_close_flag_ok oti L (pkts1 ++ pkts2) ->
  fq_recoverable oti L (pkts1 ++ pkts2) = true ->
  let '(_, r, c) := recv_run E parse_fdt cfg recv0 (map (fun p => RvPush p now) (pkts1 ++ pf :: pkts2)) ctx0 in
  session_delivered cfg inst content toi r c.
Proof. exact fq_session_fdt_late_delivers. Qed.
Print Assumptions C02_fq_session_fdt_late_delivers.

(* sanity check of the interface: the No-Code statements above, obtained through it *)
Theorem C02_session_via_interface :
  (forall E parse_fdt cfg oti content toi md5 now pf id foti d inst pkts,
   let L := lenN_ content in
   nocode_ok oti L -> toi <> 0 ->
   fdt_pkt_ok pf id foti d -> parse_fdt d = Some inst -> fdt_live cfg inst pf now ->
   fdt_entry_for (fi_files inst) (fi_oti inst) toi oti L md5 ->
   writer_accepts E toi -> writes_succeed E toi -> md5_good E content md5 ->
   L <= cf_max_cache cfg -> nb_blocks_of oti L <= 4097 ->
   Forall (fun p => a_toi p = toi) pkts ->
   Forall (fun p => genuine_pkt oti content p = true) pkts ->
   close_flag_ok oti L pkts ->
   recoverable oti L pkts = true ->
   let '(_, r, c) := recv_run E parse_fdt cfg recv0 (map (fun p => RvPush p now) (pf :: pkts)) ctx0 in
   session_delivered cfg inst content toi r c)
  /\ (forall E parse_fdt cfg oti content toi md5 now pf id foti d inst pkts1 pkts2,
   let L := lenN_ content in
   nocode_ok oti L -> toi <> 0 ->
   fdt_pkt_ok pf id foti d -> parse_fdt d = Some inst -> fdt_live cfg inst pf now ->
   fdt_entry_for (fi_files inst) (fi_oti inst) toi oti L md5 ->
   writer_accepts E toi -> writes_succeed E toi -> md5_good E content md5 ->
   L <= cf_max_cache cfg -> nb_blocks_of oti L <= 4097 ->
   Forall (fun p => a_toi p = toi) (pkts1 ++ pkts2) ->
   Forall (fun p => genuine_pkt oti content p = true) (pkts1 ++ pkts2) ->
   Forall (fun p => a_oti p = Some (oti, L) /\ a_cenc p = None /\ a_close_obj p = false) pkts1 ->
   close_flag_ok oti L (pkts1 ++ pkts2) ->
   recoverable oti L (pkts1 ++ pkts2) = true ->
   let '(_, r, c) := recv_run E parse_fdt cfg recv0 (map (fun p => RvPush p now) (pkts1 ++ pf :: pkts2)) ctx0 in
   session_delivered cfg inst content toi r c).
Proof. exact (conj nocode_session_fdt_first_via_iface nocode_session_fdt_late_via_iface). Qed.
Print Assumptions C02_session_via_interface.

(* non-vacuity through recv_run with the XOR single-parity decoder xor_dec (env_xor), receive-once: the FDT packet, then
   the Reed-Solomon packets (block 0 from its parity and one source symbol, block 1 from its parity alone, shuffled,
   duplicated); the same with three packets (EXT_FTI) before the FDT packet; both also follow from the theorems
   (rs_session_by_theorem, rs_session_late_by_theorem, rs129_session_by_theorem, fq_session_by_theorem) *)
Example C02_rs_session_example :
  sess_env env_xor (txr_parse exr_oti 5) (tx_cfg true false) (tx_fdt None :: exr_pkts)
  = ([POk; POk; POk; POk; POk; POk], [], [7], [], delivered_log)
  /\ sess_env env_xor (txr_parse exr_oti 5) (tx_cfg true false)
       (map (with_fti_of exr_oti 5) (firstn 3 exr_pkts) ++ tx_fdt None :: skipn 3 exr_pkts)
     = ([POk; POk; POk; POk; POk; POk], [], [7], [], delivered_log)
  /\ sess_env env_xor (txr_parse exu_oti 5) (mk_rcfg 5 6 true false) (tx_fdt None :: exu_pkts)
     = ([POk; POk; POk; POk], [], [7], [], delivered_log129)
  /\ sess_env env_sys (txr_parse exq_oti 5) (tx_cfg true false) (tx_fdt None :: exq_pkts)
     = ([POk; POk; POk; POk; POk; POk], [], [7], [], delivered_log).
Proof. vm_compute. repeat split. Qed.

Example C02_rs_session_by_theorem :
  let '(_, r, c) := recv_run env_xor (txr_parse exr_oti 5) (tx_cfg true false) recv0
                             (map (fun p => RvPush p 100%Z) (tx_fdt None :: exr_pkts)) ctx0 in
  session_delivered (tx_cfg true false) (txr_inst exr_oti 5) exr_content 7 r c.
Proof. exact rs_session_by_theorem. Qed.

(* the guards lifted: FEC 129 with cf_max_cache = transfer length 5 < rs_mem_need = 6 is Errored and error-listed.
   And a receiver-level loss outside the theorems: packets WITHOUT EXT_FTI before the FDT instance are cached, the cache
   is bounded by the same cf_max_cache and counts repair symbols and duplicates: with cf_max_cache = 5 = rs_mem_need the
   object is Errored before the FDT arrives; the same packets after the FDT instance are delivered with that limit *)
Example C02_rs_session_guards :
  sess_env env_xor (txr_parse exu_oti 5) (mk_rcfg 5 5 true false) (tx_fdt None :: exu_pkts)
  = ([POk; POk; POk; POk], [], [], [7], [EvBuilder 7 WStore; EvOpen (7, 0%nat) true; EvError (7, 0%nat)])
  /\ sess_env env_xor (txr_parse exr_oti 5) (mk_rcfg 5 5 true false) (exr_pkts ++ [tx_fdt None])
     = ([POk; POk; POk; POk; POk; POk], [], [], [7], [])
  /\ sess_env env_xor (txr_parse exr_oti 5) (mk_rcfg 5 5 true false) (tx_fdt None :: exr_pkts)
     = ([POk; POk; POk; POk; POk; POk], [], [7], [], delivered_log).
Proof. vm_compute. repeat split. Qed.

From FluteV Require Import Proofs.C02MultiFdt.
(* ===== block: C02MultiFdt ===== *)
(* ---------------- the receiver level, an FDT instance that spans SEVERAL packets: Proofs/C02MultiFdt.v ----------------
   The FDT instance is received by an inner object receiver (Model/Recv.v fr_push: or_push in the environment E_fdt on
   or_new 0 1 MiB, restarted from ctx0 at every packet, its writer log replayed by apply_fdt_log).  The restart is
   harmless (E_fdt's oracles ignore the context: the frame lemma of part 1 of the proof file); "the instance is received"
   is the object-level theorem of C02Full at TOI 0, so the premises on the FDT packets are those of an object:
   - fdt_pkt_multi: TOI 0, EXT_FDT = id, EXT_FTI = (foti, |d|) on EVERY packet, EXT_CENC absent or null, the payload is
     the slice of the document d at the packet's (SBN, ESI) (genuine_pkt foti d), and the packet's EXT_TIME (else the
     receiver's clock) is not behind the instance's Expires when the receiver checks it (fdt_live, per packet: the
     offset kept is that of the last packet carrying EXT_TIME);
   - foti a No-Code OTI, 0 < |d| <= 1 MiB (the inner receiver's memory limit), at most 4097 source blocks
     [C02_session_multi_fdt_guards, block window]; any order, any duplication; a close-object flag on an FDT packet only
     once the instance is recoverable with it (close_flag_ok) [C02_session_multi_fdt_guards, flag first];
   - recoverable foti |d| (the FDT packets) and recoverable oti L (the object's packets).
   C02_session_multi_fdt_delivers: ANY interleaving evs of such FDT packets and genuine packets of the object, provided a
   packet of the object that comes while the FDT packets before it are not yet recoverable carries EXT_FTI = (oti, L),
   no EXT_CENC and no close-object flag (as in C02_session_fdt_late_delivers).  Copies of the instance that arrive after
   it is complete - before, among or after the object's packets - are covered: with cf_once they are ignored; without
   it each starts a new reception of the same id, which may complete again (a second entry in rv_fdt_current), stay
   partial, or be answered Err when it carries the close-object flag [C02_session_multi_fdt_late_copies]; the object is
   delivered all the same.  Conclusion: session_delivered, as for the one-packet instance.
   C02_session_multi_fdt_mix_delivers / _first_delivers: the shapes mix ++ pkts and fpkts ++ pkts (FDT first). *)
Theorem C02_session_multi_fdt_delivers : forall E parse_fdt cfg oti content toi md5 now id foti d inst evs,
  let L := lenN_ content in
  let Ld := lenN_ d in
  nocode_ok oti L -> toi <> 0 ->
  nocode_ok foti Ld -> Ld <= 1048576 -> nb_blocks_of foti Ld <= 4097 ->
  parse_fdt d = Some inst ->
  fdt_entry_for (fi_files inst) (fi_oti inst) toi oti L md5 ->
  writer_accepts E toi -> writes_succeed E toi -> md5_good E content md5 ->
  L <= cf_max_cache cfg -> nb_blocks_of oti L <= 4097 ->
  Forall (fun p => fdt_pkt_multi cfg inst now id foti d p \/ (a_toi p = toi /\ genuine_pkt oti content p = true)) evs ->
  (forall pre p post, evs = pre ++ p :: post -> a_toi p = toi -> recoverable foti Ld (fdt_of pre) = false ->
                      a_oti p = Some (oti, L) /\ a_cenc p = None /\ a_close_obj p = false) ->
  close_flag_ok foti Ld (fdt_of evs) -> close_flag_ok oti L (obj_of evs) ->
  recoverable foti Ld (fdt_of evs) = true -> recoverable oti L (obj_of evs) = true ->
  let '(_, r, c) := recv_run E parse_fdt cfg recv0 (map (fun p => RvPush p now) evs) ctx0 in
  session_delivered cfg inst content toi r c.
Proof. exact session_multi_fdt_delivers. Qed.
Print Assumptions C02_session_multi_fdt_delivers.

Theorem C02_session_multi_fdt_mix_delivers : forall E parse_fdt cfg oti content toi md5 now id foti d inst mix pkts,
  let L := lenN_ content in
  let Ld := lenN_ d in
  nocode_ok oti L -> toi <> 0 ->
  nocode_ok foti Ld -> Ld <= 1048576 -> nb_blocks_of foti Ld <= 4097 ->
  parse_fdt d = Some inst ->
  fdt_entry_for (fi_files inst) (fi_oti inst) toi oti L md5 ->
  writer_accepts E toi -> writes_succeed E toi -> md5_good E content md5 ->
  L <= cf_max_cache cfg -> nb_blocks_of oti L <= 4097 ->
  Forall (fun p => fdt_pkt_multi cfg inst now id foti d p \/ (a_toi p = toi /\ genuine_pkt oti content p = true)) mix ->
  Forall (fun p => a_oti p = Some (oti, L) /\ a_cenc p = None /\ a_close_obj p = false) (obj_of mix) ->
  Forall (fun p => a_toi p = toi) pkts ->
  Forall (fun p => genuine_pkt oti content p = true) pkts ->
  close_flag_ok foti Ld (fdt_of mix) -> recoverable foti Ld (fdt_of mix) = true ->
  close_flag_ok oti L (obj_of mix ++ pkts) -> recoverable oti L (obj_of mix ++ pkts) = true ->
  let '(_, r, c) := recv_run E parse_fdt cfg recv0 (map (fun p => RvPush p now) (mix ++ pkts)) ctx0 in
  session_delivered cfg inst content toi r c.
Proof. exact session_multi_fdt_mix_delivers. Qed.
Print Assumptions C02_session_multi_fdt_mix_delivers.

Theorem C02_session_multi_fdt_first_delivers : forall E parse_fdt cfg oti content toi md5 now id foti d inst fpkts pkts,
  let L := lenN_ content in
  let Ld := lenN_ d in
  nocode_ok oti L -> toi <> 0 ->
  nocode_ok foti Ld -> Ld <= 1048576 -> nb_blocks_of foti Ld <= 4097 ->
  parse_fdt d = Some inst ->
  fdt_entry_for (fi_files inst) (fi_oti inst) toi oti L md5 ->
  writer_accepts E toi -> writes_succeed E toi -> md5_good E content md5 ->
  L <= cf_max_cache cfg -> nb_blocks_of oti L <= 4097 ->
  Forall (fdt_pkt_multi cfg inst now id foti d) fpkts ->
  close_flag_ok foti Ld fpkts -> recoverable foti Ld fpkts = true ->
  Forall (fun p => a_toi p = toi) pkts ->
  Forall (fun p => genuine_pkt oti content p = true) pkts ->
  close_flag_ok oti L pkts -> recoverable oti L pkts = true ->
  let '(_, r, c) := recv_run E parse_fdt cfg recv0 (map (fun p => RvPush p now) (fpkts ++ pkts)) ctx0 in
  session_delivered cfg inst content toi r c.
Proof. exact session_multi_fdt_first_delivers. Qed.
Print Assumptions C02_session_multi_fdt_first_delivers.

(* the vocabulary, unfolded once *)
Theorem C02_session_multi_fdt_statements : forall cfg inst now id foti d p evs,
  (fdt_pkt_multi cfg inst now id foti d p <->
   a_toi p = 0 /\ a_fdt_id p = Some id /\ a_oti p = Some (foti, lenN_ d)
   /\ (a_cenc p = None \/ a_cenc p = Some CNull)
   /\ genuine_pkt foti d p = true /\ fdt_live cfg inst p now)
  /\ fdt_of evs = filter (fun p => a_toi p =? 0) evs
  /\ obj_of evs = filter (fun p => negb (a_toi p =? 0)) evs.
Proof. intros. split; [reflexivity|split; reflexivity]. Qed.
Print Assumptions C02_session_multi_fdt_statements.

(* the same over the object-level interface of C02_session_via_interface (any scheme that provides it): the session
   theorem for any interleaving, the premises in the inductive form WF (Proofs/C02MultiFdt.v) *)
Theorem C02_session_multi_fdt_via_interface :
  forall E parse_fdt cfg oti content toi md5 al as_ nal n now,
  ro_fec oti = FNoCode -> 0 < ro_e oti -> 0 < ro_b oti -> 0 < lenN_ content -> lenN_ content + ro_e oti < U64 ->
  block_partitioning (ro_b oti) (lenN_ content) (ro_e oti) = (al, as_, nal, n) -> toi <> 0 ->
  C02Full.Nice2 E content (toi, 0%nat) md5 (cf_max_cache cfg) n -> writer_accepts E toi ->
  forall id inst f,
  find (fun f => ff_toi f =? toi) (fi_files inst) = Some f -> ff_cenc f = CNull ->
  match ff_oti f with Some x => Some x | None => fi_oti inst end = Some oti ->
  ff_tlen f = lenN_ content -> ff_md5 f = md5 ->
  forall foti d alF asF nalF nF,
  ro_fec foti = FNoCode -> 0 < ro_e foti -> 0 < ro_b foti -> 0 < lenN_ d -> lenN_ d + ro_e foti < U64 ->
  block_partitioning (ro_b foti) (lenN_ d) (ro_e foti) = (alF, asF, nalF, nF) ->
  lenN_ d <= 1048576 -> nF <= 4097 -> parse_fdt d = Some inst ->
  forall evs,
  WF cfg toi now id inst (C02Full.genuine oti content al as_ nal n) pid_of (C02Full.covered al as_ nal n)
     (C02Session.PktPre oti content toi al as_ nal n) foti d alF asF nalF nF [] [] evs ->
  let '(_, r, c) := recv_run E parse_fdt cfg recv0 (map (fun p => RvPush p now) evs) ctx0 in
  SessDone cfg content toi f r c.
Proof. exact nocode_multi_core. Qed.
Print Assumptions C02_session_multi_fdt_via_interface.

(* the oracle schemes (Reed-Solomon FEC 5 / 129, RaptorQ / Raptor) through the same interface: the FDT instance in several
   No-Code packets, the object in an oracle scheme (premises on the decoder oracle as in C02_rs_session_* / C02_fq_session_*,
   here in their unfolded form), any interleaving (WF) *)
Theorem C02_rs_session_multi_fdt_via_interface :
  forall E parse_fdt cfg oti content rep toi md5 al as_ nal n now,
  fec_oracle (ro_fec oti) = true -> 0 < ro_e oti -> 0 < ro_b oti -> 0 < lenN_ content -> lenN_ content + ro_e oti < U64 ->
  block_partitioning (ro_b oti) (lenN_ content) (ro_e oti) = (al, as_, nal, n) -> toi <> 0 ->
  (forall s sh d, s < n -> Callable oti al as_ nal s sh -> NoDup (map fst sh) ->
     Forall (shard_ok oti content rep al as_ nal s) sh ->
     e_fec E toi (ro_fec oti) s (k_of al as_ nal s) (ro_e oti) (bsz oti content al as_ nal s) sh = Some d ->
     Good oti content al as_ nal n s d) ->
  Mds E oti content rep toi al as_ nal n ->
  C02RS.Nice2 E oti content (toi, 0%nat) md5 (cf_max_cache cfg) al as_ nal n -> writer_accepts E toi ->
  forall id inst f,
  find (fun f => ff_toi f =? toi) (fi_files inst) = Some f -> ff_cenc f = CNull ->
  match ff_oti f with Some x => Some x | None => fi_oti inst end = Some oti ->
  ff_tlen f = lenN_ content -> ff_md5 f = md5 ->
  forall foti d alF asF nalF nF,
  ro_fec foti = FNoCode -> 0 < ro_e foti -> 0 < ro_b foti -> 0 < lenN_ d -> lenN_ d + ro_e foti < U64 ->
  block_partitioning (ro_b foti) (lenN_ d) (ro_e foti) = (alF, asF, nalF, nF) ->
  lenN_ d <= 1048576 -> nF <= 4097 -> parse_fdt d = Some inst ->
  forall evs,
  WF cfg toi now id inst (genr oti content rep al as_ nal n) (rs_pid oti) (C02RS.covered oti al as_ nal n)
     (pktprer oti content rep toi al as_ nal n) foti d alF asF nalF nF [] [] evs ->
  let '(_, r, c) := recv_run E parse_fdt cfg recv0 (map (fun p => RvPush p now) evs) ctx0 in
  SessDone cfg content toi f r c.
Proof. exact rs_multi_core. Qed.
Print Assumptions C02_rs_session_multi_fdt_via_interface.

(* WF sF sO evs, given the symbols of the instance (sF) and of the object (sO) received so far: each packet still to come
   is a packet of the instance or of the object; a close-object flag comes only when its object is recoverable with it;
   a packet of the object that comes while the instance is not recoverable carries EXT_FTI (pktpre); in the end both
   are recoverable *)
Theorem C02_session_multi_fdt_wf : forall cfg toi now id inst gen pid cov pktpre foti d alF asF nalF nF sF sO p rest,
  (WF cfg toi now id inst gen pid cov pktpre foti d alF asF nalF nF sF sO [] <->
   C02Full.covered alF asF nalF nF sF /\ cov sO)
  /\ (WF cfg toi now id inst gen pid cov pktpre foti d alF asF nalF nF sF sO (p :: rest) <->
      (FdtPkt cfg id foti d inst now alF asF nalF nF p
       /\ (a_close_obj p = true -> C02Full.covered alF asF nalF nF (pid_of p :: sF))
       /\ WF cfg toi now id inst gen pid cov pktpre foti d alF asF nalF nF (pid_of p :: sF) sO rest)
      \/ (a_toi p = toi /\ gen p /\ (~ C02Full.covered alF asF nalF nF sF -> pktpre p)
          /\ (a_close_obj p = true -> cov (pid p :: sO))
          /\ WF cfg toi now id inst gen pid cov pktpre foti d alF asF nalF nF sF (pid p :: sO) rest))
  /\ (FdtPkt cfg id foti d inst now alF asF nalF nF p <->
      a_toi p = 0 /\ a_fdt_id p = Some id /\ a_oti p = Some (foti, lenN_ d)
      /\ (a_cenc p = None \/ a_cenc p = Some CNull) /\ C02Full.genuine foti d alF asF nalF nF p
      /\ fdt_live cfg inst p now).
Proof. intros. split; [reflexivity|split; reflexivity]. Qed.
Print Assumptions C02_session_multi_fdt_wf.

(* non-vacuity: a 10-byte FDT document sent with E = 4, B = 2 in three packets (0,0) (0,1) (1,0), shuffled and
   duplicated, then ex_pkts (shuffled, duplicated), receive-once, through recv_run; and by the theorem *)
Example C02_session_multi_fdt_example :
  partition_of mx_foti 10 = (2, 1, 1, 2)
  /\ map pid_of [f10; f00; f10; f01; f00] = [(1, 0); (0, 0); (1, 0); (0, 1); (0, 0)]
  /\ sessx mx_parse (tx_cfg true false) ([f10; f00; f10; f01; f00] ++ ex_pkts)
     = ([POk; POk; POk; POk; POk; POk; POk; POk; POk; POk], [], [7], [], [], 1%nat, delivered_log)
  /\ sessx mx_parse (tx_cfg true false) (mx_mix ++ skipn 3 ex_pkts)
     = ([POk; POk; POk; POk; POk; POk; POk; POk; POk; POk], [], [7], [], [], 1%nat, delivered_log).
Proof. vm_compute. repeat split. Qed.

Example C02_session_multi_fdt_by_theorem :
  let '(_, r, c) := recv_run env_ok mx_parse (tx_cfg true false) recv0
                             (map (fun p => RvPush p 100%Z) ([f10; f00; f10; f01; f00] ++ ex_pkts)) ctx0 in
  session_delivered (tx_cfg true false) (tx_inst false None) ex_content 7 r c.
Proof. exact mx_first_by_theorem. Qed.

(* the guards lifted.  Flag first: the instance's last packet carries the close-object flag and arrives first - answered
   Err, the instance forgotten, the rest never completes it: every symbol of the instance and of the object arrived,
   nothing is delivered; in order the same packets are delivered.  Block window: a 4098-block instance (E = 1, B = 1),
   block 1 then block 4097 - Err, the instance forgotten with the symbol of block 1; the other 4096 packets in order
   never complete it; in order it is delivered. *)
Example C02_session_multi_fdt_guards :
  (recoverable mx_foti 10 [f10B; f00; f01] = true
   /\ sessx mx_parse (tx_cfg true false) ([f10B; f00; f01] ++ ex_pkts)
      = ([PErr; POk; POk; POk; POk; POk; POk; POk], [7], [], [], [(1, FReceiving)], 0%nat, [])
   /\ sessx mx_parse (tx_cfg true false) ([f00; f01; f10B] ++ ex_pkts)
      = ([POk; POk; POk; POk; POk; POk; POk; POk], [], [7], [], [], 1%nat, delivered_log))
  /\ (nb_blocks_of bw_foti 4098 = 4098
      /\ forallb (genuine_pkt bw_foti bw_doc) bw_bad = true
      /\ recoverable bw_foti 4098 bw_bad = true
      /\ bw_sess (bw_bad ++ ex_pkts) = (1%nat, [7], [], [(1, FReceiving)], 0%nat, [])
      /\ bw_sess (bw_cycle ++ ex_pkts) = (0%nat, [], [7], [], 1%nat, delivered_log)).
Proof. exact (conj mx_fdt_close_flag_early_refuted mx_fdt_block_window_refuted). Qed.

(* copies of the instance after it is complete: ignored with receive-once; without it a flagged copy is answered Err,
   a whole further cycle is pushed on rv_fdt_current again (3 entries after two more cycles), a partial one stays in
   rv_fdt_receivers; the object is delivered in every case *)
Example C02_session_multi_fdt_late_copies :
  sessx mx_parse (tx_cfg true false) ([f00; f01; f10B; f10B; f00] ++ ex_pkts)
  = ([POk; POk; POk; POk; POk; POk; POk; POk; POk; POk], [], [7], [], [], 1%nat, delivered_log)
  /\ sessx mx_parse (tx_cfg false false) ([f00; f01; f10B; f10B; f00] ++ ex_pkts)
     = ([POk; POk; POk; PErr; POk; POk; POk; POk; POk; POk], [], [7], [], [(1, FReceiving)], 1%nat, delivered_log)
  /\ sessx mx_parse (tx_cfg false false) ([f00; f01; f10; f00; f01; f10] ++ ex_pkts ++ [f00; f01; f10])
     = ([POk; POk; POk; POk; POk; POk; POk; POk; POk; POk; POk; POk; POk; POk], [], [7], [], [], 3%nat, delivered_log).
Proof. exact mx_late_copies. Qed.
(* ===== end block: C02MultiFdt ===== *)

From FluteV Require Import Proofs.C09Full Proofs.C02MultiObj.
(* ===== block: C02MultiObj ===== *)
(* SEVERAL OBJECTS IN ONE SESSION (Proofs/C02MultiObj.v).
   I1, isolation.  Whatever the receiver has been through (ANY event history from recv0 / ctx0), a packet of a TOI
   t <> 0 then leaves every other TOI u alone: u's object entry, u's membership in rv_completed, u's builder counter,
   the write counters and the calls of every writer (u, n) are unchanged; the log only grows, by events of t
   (ev_toi e = t: builder call for t, calls of writers (t, n)); rv_fdt_receivers is unchanged; the instances of
   rv_fdt_current only have their expiry re-evaluated at [now] (create_obj); the close-session flag is recorded.
   The ONE cross-object effect is on rv_error (max_objects_error): when the object of t fails and the list is already
   full, gc_error drops a prefix of the sorted list - the SMALLEST TOIs, whichever object failed
   [C02_error_list_eviction_crosses_objects]; u can leave the list this way, never enter it.  (No object is dropped
   by it: the error-listed TOIs have no entry in rv_objects - invariant EDisj, proved for every event.) *)
Theorem C02_isolation : forall E parse_fdt cfg evs p now,
  a_toi p <> 0 ->
  let '(_, r, c) := recv_run E parse_fdt cfg recv0 evs ctx0 in
  let '(_, r', c') := recv_step E parse_fdt cfg r (RvPush p now) c in
  let t := a_toi p in
  (forall u, u <> t ->
     get_obj r' u = get_obj r u
     /\ (In u (rv_completed r') <-> In u (rv_completed r))
     /\ (In u (rv_error r') -> In u (rv_error r))
     /\ ncalls c' u = ncalls c u
     /\ forall n, wcount c' (u, n) = wcount c (u, n) /\ calls_of (u, n) (c_log c') = calls_of (u, n) (c_log c))
  /\ filter (fun x => negb (x =? t)) (rv_completed r') = filter (fun x => negb (x =? t)) (rv_completed r)
  /\ (exists k, filter (fun x => negb (x =? t)) (rv_error r') = skipn k (filter (fun x => negb (x =? t)) (rv_error r))
                /\ (k <> 0%nat -> cf_max_err cfg <= N.of_nat (length (rv_error r))))
  /\ (exists evs', c_log c' = c_log c ++ evs' /\ Forall (fun e => ev_toi e = t) evs')
  /\ rv_fdt_receivers r' = rv_fdt_receivers r
  /\ Forall2 (fun f f' => f' = f \/ f' = fr_update_expired f now) (rv_fdt_current r) (rv_fdt_current r')
  /\ rv_closed r' = (rv_closed r || a_close_sess p)%bool.
Proof. exact isolation_reachable. Qed.
Print Assumptions C02_isolation.

(* the object plane underneath: every function of Model/ObjRecv.v applied to an object of TOI t (whose writer, if any,
   is a writer of t: OkO) from two contexts that agree on t (CSame t: builder counter of t, write counters of the
   writers (t, n), events of t in the log) returns the same object and contexts that still agree on t, and changes
   nothing of any other TOI (Fr t) - stated here for ObjectReceiver::push *)
Theorem C02_object_plane_reads_only_its_toi : forall E t p o c cs,
  OkO t o -> CSame t c cs ->
  fst (or_push E p o c) = fst (or_push E p o cs)
  /\ CSame t (snd (or_push E p o c)) (snd (or_push E p o cs))
  /\ Fr t c (snd (or_push E p o c))
  /\ OkO t (fst (or_push E p o c)).
Proof. exact par_or_push. Qed.
Print Assumptions C02_object_plane_reads_only_its_toi.

(* the invariants I1 rests on hold in every reachable state *)
Theorem C02_receiver_invariants : forall E parse_fdt cfg evs,
  let '(_, r, c) := recv_run E parse_fdt cfg recv0 evs ctx0 in
  RI r c /\ (forall u, In u (rv_error r) -> get_obj r u = None).
Proof. exact receiver_invariants_reachable. Qed.
Print Assumptions C02_receiver_invariants.

(* I2: the session theorem C02_session_fdt_first_delivers for an object whose packets are interleaved with ARBITRARY
   packets of other non-zero TOIs (nothing is assumed of them: other objects of the instance, objects it does not
   list, damaged transfers, transfers that fail).  [filter ... pkts] = the packets of the object in their order of
   arrival.  Conclusion multi_delivered (unfolded in C02_multi_delivered_statement): the calls of writer (toi,0) are
   open . writes = content . complete; with receive-once and a cacheable object the object has left rv_objects, is in
   rv_completed, not in rv_error, and the events of the TOI in the log are exactly builder/open/writes/complete.
   No premise on max_objects_error: the object never enters rv_error before it is delivered, and what happens to
   rv_error afterwards cannot touch writer (toi,0).  All packets carry the receiver time [now], as in the
   single-object theorems (a packet of another object at a LATER time re-evaluates the expiry of the instance). *)
Theorem C02_nocode_object_among_other_traffic : forall E parse_fdt cfg oti content toi md5 now pf id foti d inst pkts,
  let L := lenN_ content in
  nocode_ok oti L ->
  fdt_pkt_ok pf id foti d -> parse_fdt d = Some inst -> fdt_live cfg inst pf now ->
  fdt_entry_for (fi_files inst) (fi_oti inst) toi oti L md5 ->
  writer_accepts E toi -> writes_succeed E toi -> md5_good E content md5 ->
  L <= cf_max_cache cfg -> nb_blocks_of oti L <= 4097 ->
  Forall (fun p => a_toi p <> 0) pkts ->
  let mine := filter (fun p => a_toi p =? toi) pkts in
  Forall (fun p => genuine_pkt oti content p = true) mine ->
  close_flag_ok oti L mine ->
  recoverable oti L mine = true ->
  let '(_, r, c) := recv_run E parse_fdt cfg recv0 (map (fun p => RvPush p now) (pf :: pkts)) ctx0 in
  multi_delivered cfg inst content toi r c.
Proof. exact nocode_among_others_delivers. Qed.
Print Assumptions C02_nocode_object_among_other_traffic.

Theorem C02_multi_delivered_statement : forall cfg inst content toi r c,
  multi_delivered cfg inst content toi r c <->
  delivered_calls content (calls_of (toi, 0%nat) (c_log c))
  /\ (forall m, complete_exact content (m, calls_of (toi, 0%nat) (c_log c)) = true)
  /\ (cf_once cfg = true -> entry_nocache inst toi = false ->
      get_obj r toi = None /\ In toi (rv_completed r) /\ ~ In toi (rv_error r)
      /\ exists evs, filter (fun e => ev_toi e =? toi) (c_log c)
                     = [EvBuilder toi WStore; EvOpen (toi, 0%nat) true] ++ evs ++ [EvComplete (toi, 0%nat)]
                     /\ forallb (is_write (toi, 0%nat)) evs = true /\ wdata evs = content).
Proof. exact multi_delivered_statement. Qed.
Print Assumptions C02_multi_delivered_statement.

(* the same for Reed-Solomon (FEC 5 / 129) and RaptorQ / Raptor objects, through the scheme-independent interface *)
Theorem C02_rs_object_among_other_traffic : forall E parse_fdt cfg oti content rep toi md5 now pf id foti d inst pkts,
  let L := lenN_ content in
  rs_scheme_ok oti L -> rs_blocks_ok oti L -> toi <> 0 ->
  fdt_pkt_ok pf id foti d -> parse_fdt d = Some inst -> fdt_live cfg inst pf now ->
  fdt_entry_for (fi_files inst) (fi_oti inst) toi oti L md5 ->
  writer_accepts E toi -> writes_succeed E toi -> md5_good E content md5 ->
  rs_oracle_mds E oti content rep toi -> rs_rep_sized oti rep ->
  rs_mem_need oti L <= cf_max_cache cfg -> nb_blocks_of oti L <= 4097 ->
  Forall (fun p => a_toi p <> 0) pkts ->
  let mine := filter (fun p => a_toi p =? toi) pkts in
  Forall (fun p => rs_genuine_pkt oti content rep p = true) mine ->
  rs_close_flag_ok oti L mine ->
  rs_recoverable oti L mine = true ->
  let '(_, r, c) := recv_run E parse_fdt cfg recv0 (map (fun p => RvPush p now) (pf :: pkts)) ctx0 in
  multi_delivered cfg inst content toi r c.
Proof. exact rs_among_others_delivers. Qed.
Print Assumptions C02_rs_object_among_other_traffic.

Theorem C02_fq_object_among_other_traffic : forall E parse_fdt cfg oti content enc toi md5 now pf id foti d inst pkts,
  let L := lenN_ content in
  fq_scheme_ok oti L -> fq_blocks_ok oti L -> toi <> 0 ->
  fdt_pkt_ok pf id foti d -> parse_fdt d = Some inst -> fdt_live cfg inst pf now ->
  fdt_entry_for (fi_files inst) (fi_oti inst) toi oti L md5 ->
  writer_accepts E toi -> writes_succeed E toi -> md5_good E content md5 ->
  fq_oracle_sound E oti content enc toi -> fq_oracle_complete E oti content enc toi ->
  L <= cf_max_cache cfg -> nb_blocks_of oti L <= 4097 ->
  Forall (fun p => a_toi p <> 0) pkts ->
  let mine := filter (fun p => a_toi p =? toi) pkts in
  Forall (fun p => fq_genuine_pkt oti content enc p = true) mine ->
  Forall (fun p => fq_sized_pkt oti p = true) mine ->
  fq_close_flag_ok oti L mine ->
  fq_recoverable oti L mine = true ->
  let '(_, r, c) := recv_run E parse_fdt cfg recv0 (map (fun p => RvPush p now) (pf :: pkts)) ctx0 in
  multi_delivered cfg inst content toi r c.
Proof. exact fq_among_others_delivers. Qed.
Print Assumptions C02_fq_object_among_other_traffic.

(* m No-Code objects announced by one FDT instance, distinct non-zero TOIs, each with the premises of the single-object
   theorem ([nc_obj_ok], unfolded below) on ITS packets; the packets arrive in ANY interleaving ([Merge]: each
   object's packets keep their order): EVERY object is delivered *)
Theorem C02_nocode_session_multi_delivers : forall E parse_fdt cfg now pf id foti d inst objs pkts,
  fdt_pkt_ok pf id foti d -> parse_fdt d = Some inst -> fdt_live cfg inst pf now ->
  NoDup (map no_toi objs) -> Forall (nc_obj_ok E cfg inst) objs ->
  Merge (map no_pkts objs) pkts ->
  let '(_, r, c) := recv_run E parse_fdt cfg recv0 (map (fun p => RvPush p now) (pf :: pkts)) ctx0 in
  Forall (fun o => multi_delivered cfg inst (no_content o) (no_toi o) r c) objs.
Proof. exact nocode_session_multi_delivers. Qed.
Print Assumptions C02_nocode_session_multi_delivers.

Theorem C02_multi_statements :
  (forall E cfg inst o, nc_obj_ok E cfg inst o <->
     let L := lenN_ (no_content o) in
     nocode_ok (no_oti o) L /\ no_toi o <> 0
     /\ fdt_entry_for (fi_files inst) (fi_oti inst) (no_toi o) (no_oti o) L (no_md5 o)
     /\ writer_accepts E (no_toi o) /\ writes_succeed E (no_toi o) /\ md5_good E (no_content o) (no_md5 o)
     /\ L <= cf_max_cache cfg /\ nb_blocks_of (no_oti o) L <= 4097
     /\ Forall (fun p => a_toi p = no_toi o) (no_pkts o)
     /\ Forall (fun p => genuine_pkt (no_oti o) (no_content o) p = true) (no_pkts o)
     /\ close_flag_ok (no_oti o) L (no_pkts o)
     /\ recoverable (no_oti o) L (no_pkts o) = true)
  /\ (forall ls, Forall (fun l => l = []) ls -> Merge ls [])
  /\ (forall ls1 p l ls2 pkts, Merge (ls1 ++ l :: ls2) pkts -> Merge (ls1 ++ (p :: l) :: ls2) (p :: pkts))
  (* an interleaving of lists with pairwise distinct TOIs gives each list back by filtering on its TOI *)
  /\ (forall ls pkts, Merge ls pkts -> forall tois, NoDup tois ->
        Forall2 (fun t l => Forall (fun p => a_toi p = t) l) tois ls ->
        Forall2 (fun t l => filter (fun p => a_toi p =? t) pkts = l) tois ls /\ Forall (fun p => In (a_toi p) tois) pkts).
Proof. exact multi_statements. Qed.
Print Assumptions C02_multi_statements.

(* non-vacuity: TOI 7 (5 bytes) and TOI 9 (3 bytes) announced by one instance, their packets (shuffled, duplicated)
   interleaved; computed through recv_run, and by the theorem *)
Example C02_two_objects_interleaved :
  sess tm_parse (tx_cfg true false) (tx_fdt None :: tm_pkts)
  = ([POk; POk; POk; POk; POk; POk; POk; POk; POk], [], [9; 7], [],
     [EvBuilder 7 WStore; EvOpen (7, 0%nat) true; EvBuilder 9 WStore; EvOpen (9, 0%nat) true;
      EvWrite (9, 0%nat) [10; 20; 30] true; EvComplete (9, 0%nat);
      EvWrite (7, 0%nat) [1; 2; 3; 4] true; EvWrite (7, 0%nat) [5] true; EvComplete (7, 0%nat)]).
Proof. vm_compute. reflexivity. Qed.

Example C02_two_objects_by_theorem :
  let '(_, r, c) := recv_run env_ok tm_parse (tx_cfg true false) recv0 (map (fun p => RvPush p 100%Z) (tx_fdt None :: tm_pkts)) ctx0 in
  multi_delivered (tx_cfg true false) tm_inst ex_content 7 r c
  /\ multi_delivered (tx_cfg true false) tm_inst tm_content9 9 r c.
Proof. exact tm_session_by_theorem. Qed.

(* the one cross-object effect: cf_max_err = 1, TOI 5 interrupted and error-listed; a later packet of TOI 5 is ignored
   (first run) - unless a failing packet of TOI 7 came in between: gc_error evicts the smallest TOI (5), and the same
   packet of TOI 5 re-creates the object and opens a second writer (5,1) (second run) *)
Example C02_error_list_eviction_crosses_objects :
  sess tg_parse (mk_rcfg 1 1000 false false)
       [tx_fdt None; src_pkt 5 0 1 true [3; 4]; src_pkt 5 1 0 false [5]]
  = ([POk; POk; POk], [], [], [5], [EvBuilder 5 WStore; EvOpen (5, 0%nat) true; EvInterrupted (5, 0%nat)])
  /\ sess tg_parse (mk_rcfg 1 1000 false false)
       [tx_fdt None; src_pkt 5 0 1 true [3; 4]; src_pkt 7 0 1 true [3; 4]; src_pkt 5 1 0 false [5]]
  = ([POk; POk; POk; POk], [5], [], [7],
     [EvBuilder 5 WStore; EvOpen (5, 0%nat) true; EvInterrupted (5, 0%nat);
      EvBuilder 7 WStore; EvOpen (7, 0%nat) true; EvInterrupted (7, 0%nat);
      EvBuilder 5 WStore; EvOpen (5, 1%nat) true]).
Proof. exact error_list_eviction_crosses_objects. Qed.
(* ===== end block: C02MultiObj ===== *)

From FluteV Require Import Proofs.C02Cache.
(* ===== block: C02Cache ===== *)
(* ---------------- the FEC OTI is carried ONLY by the FDT: the cache of the object receiver (Proofs/C02Cache.v) ----------------
   Packets of an object that arrive before its FDT entry and carry no EXT_FTI cannot be decoded: ObjectReceiver::push
   caches them (cacheable: no EXT_FTI, no EXT_CENC, not an FDT packet) and attach_fdt replays them IN ARRIVAL ORDER
   (push_from_cache pops the front of a VecDeque; fixes D43 - the replay used to be last-cached-first, which broke the clean
   in-order transfer that precedes a late FDT: its B-flagged last packet was replayed first).
   The cache is bounded: cache() refuses a packet once the counter - the sum of
   pkt.data.len() of the packets cached so far, duplicates and repair symbols included - has reached max_size_allocated
   (= cf_max_cache at the receiver level); the refused packet puts the object in error.  cache_fits max 0 pre says that
   no packet of pre is refused (unfolded in C02_cache_statements)  [C02_cache_bound_refuted].
   The proof rests on one scheme-independent fact: the cache fields are a frame of the block plane (push_to_block reads
   neither the cache nor its counter; complete() / error() clear them), so attaching the entry to an object that cached
   [pre] IS attaching it to a fresh object and then pushing pre - C02_cached_nocode_is_fifo_replay states it for
   the whole reception: same final object, same log.  Hence every object-level theorem above transfers with pkts :=
   pre ++ post, the close-object flag premise included: a flag on a cached packet is harmless once the packets up to it
   cover the object  [C02_cached_close_flag_in_order_delivered], and interrupts the object during the replay otherwise
   [C02_cached_close_flag_early_refuted].
   receive_cached = or_new, pushes of pre, or_attach, pushes of post (from ctx0).  toi <> 0: TOI 0 is the FDT. *)
Theorem C02_cached_nocode_is_fifo_replay : forall E oti content toi max fid files inst md5 pre post,
  let L := lenN_ content in
  nocode_ok oti L -> toi <> 0 -> fdt_entry_for files inst toi oti L md5 -> writer_accepts E toi ->
  Forall cacheable pre -> cache_fits max 0 pre = true ->
  Forall (fun p => genuine_pkt oti content p = true) pre ->
  receive_cached E fid files inst toi max pre post = receive E fid files inst toi max (pre ++ post).
Proof. exact nocode_cached_is_fifo_replay. Qed.
Print Assumptions C02_cached_nocode_is_fifo_replay.

(* G1: pre (cached) then the FDT entry then post; pre ++ post recoverable.  post = [] is the case where the cached packets
   alone suffice: the object completes during the replay, inside attach_fdt. *)
Theorem C02_cached_nocode_recoverable_delivers : forall E oti content toi max fid files inst md5 pre post,
  let L := lenN_ content in
  nocode_ok oti L -> toi <> 0 -> fdt_entry_for files inst toi oti L md5 ->
  writer_accepts E toi -> writes_succeed E toi -> md5_good E content md5 ->
  L <= max -> nb_blocks_of oti L <= 4097 ->
  Forall cacheable pre -> cache_fits max 0 pre = true ->
  Forall (fun p => genuine_pkt oti content p = true) (pre ++ post) ->
  close_flag_ok oti L (pre ++ post) ->
  recoverable oti L (pre ++ post) = true ->
  let (o, c) := receive_cached E fid files inst toi max pre post in
  r_state o = Completed
  /\ ShapeDone content (toi, 0%nat) toi c
  /\ forall m, complete_exact content (m, calls_of (toi, 0%nat) (c_log c)) = true
                /\ P_C02_object (recoverable oti L (pre ++ post)) content [(m, calls_of (toi, 0%nat) (c_log c))] = true.
Proof. exact nocode_cached_recoverable_delivers. Qed.
Print Assumptions C02_cached_nocode_recoverable_delivers.

(* the empty object (transfer length 0; any FEC scheme, any content encoding): builder, open, complete, no write.
   Since the D48 repair the attach itself completes it (before: the first packet whose payload id parses - replayed
   from the cache, D40, or received after the entry), so the two premises on the packets (payload id parses, at
   least one packet) are no longer needed: statement kept as it was, the stronger one is
   C02_empty_object_delivers_d48 in the block D48 at the end of this file. *)
Theorem C02_cached_empty_object_delivers : forall E fid files inst f toi max oti pre post,
  find (fun f => ff_toi f =? toi) files = Some f ->
  match ff_oti f with Some x => Some x | None => inst end = Some oti ->
  ff_tlen f = 0 -> toi <> 0 -> writer_accepts E toi ->
  Forall cacheable pre -> cache_fits max 0 pre = true ->
  Forall (fun p => a_pid_with (ro_fec oti) p <> None) (pre ++ post) -> pre ++ post <> [] ->
  let (o, c) := receive_cached E fid files inst toi max pre post in
  r_state o = Completed /\ c_log c = [EvBuilder toi WStore; EvOpen (toi, 0%nat) true; EvComplete (toi, 0%nat)].
Proof.
  intros E fid files inst f toi max oti pre post H1 H2 H3 H4 [A1 A2].
  exact (empty_cached_delivers E fid files inst f toi max oti H1 H2 H3 H4 A1 A2 pre post).
Qed.
Print Assumptions C02_cached_empty_object_delivers.

(* the vocabulary, unfolded once; and the frame fact: push_to_block on an object whose cache fields are replaced (wc)
   does what it does on the object itself - same context, the result Ok object keeps the replaced cache while it is still
   Receiving and is the same (cache cleared by complete / error) otherwise, an Err object keeps it *)
Theorem C02_cache_statements :
  (forall p, cacheable p <-> a_oti p = None /\ a_cenc p = None /\ (a_toi p <> 0 \/ a_fdt_id p = None))
  /\ (forall max l, cache_fits max 0 l = true <-> forall l1 p l2, l = l1 ++ p :: l2 -> 0 + sumlen l1 < max)
  /\ (forall l, sumlen l = fold_right (fun p a => a_datalen p + a) 0 l)
  /\ (forall E fid files inst toi max pre post,
        receive_cached E fid files inst toi max pre post
        = (let (o1, c1) := C02Full.run E pre (or_new toi max, ctx0) in
           let '(_, o2, c2) := or_attach E fid files inst o1 c1 in C02Full.run E post (o2, c2)))
  /\ (forall E ch sz p o c, r_state o = Receiving ->
        push_to_block E p (wc ch sz o) c
        = (match fst (push_to_block E p o c) with
           | ROk o1 => ROk (match r_state o1 with Receiving => wc ch sz o1 | _ => o1 end)
           | RErr o1 => RErr (wc ch sz o1)
           end, snd (push_to_block E p o c))).
Proof.
  split; [intros; reflexivity|]. split; [intros; apply cache_fits_spec|]. split; [induction l as [|x l IH]; [reflexivity|cbn; rewrite IH; reflexivity]|].
  split; [intros; reflexivity|]. intros E ch sz p o c H. destruct (ptb_frame E ch sz p o c H) as [Eq _]. rewrite Eq.
  destruct (push_to_block E p o c) as [[o1|o1] c1]; cbn; [destruct (r_state o1)|]; reflexivity.
Qed.
Print Assumptions C02_cache_statements.

(* G2, the receiver level: the packets pre arrive BEFORE the FDT instance without EXT_FTI and without EXT_CENC: push_obj
   creates the object at the first of them and they are cached (neither push_obj nor the caching path looks at the
   close-object flag); the FDT packet pf (one-packet instance, as in C02_session_fdt_first_delivers) attaches the entry, the
   cache is replayed in arrival order; post follows.  genuine / close_flag_ok / recoverable are those of pre ++ post: NO
   restriction on the close-object flag of the cached packets beyond close_flag_ok of the whole sequence (unlike
   C02_session_fdt_late_delivers, whose early packets must not carry it).  "EXT_FTI on the early packets" is replaced by "no
   EXT_FTI, and they fit the cache".  pre = [] is C02_session_fdt_first_delivers. *)
Theorem C02_session_fdt_cached_delivers : forall E parse_fdt cfg oti content toi md5 now pf id foti d inst pre post,
  let L := lenN_ content in
  nocode_ok oti L -> toi <> 0 ->
  fdt_pkt_ok pf id foti d -> parse_fdt d = Some inst -> fdt_live cfg inst pf now ->
  fdt_entry_for (fi_files inst) (fi_oti inst) toi oti L md5 ->
  writer_accepts E toi -> writes_succeed E toi -> md5_good E content md5 ->
  L <= cf_max_cache cfg -> nb_blocks_of oti L <= 4097 ->
  Forall (fun p => a_toi p = toi) (pre ++ post) ->
  Forall (fun p => genuine_pkt oti content p = true) (pre ++ post) ->
  Forall (fun p => a_oti p = None /\ a_cenc p = None) pre ->
  cache_fits (cf_max_cache cfg) 0 pre = true ->
  close_flag_ok oti L (pre ++ post) ->
  recoverable oti L (pre ++ post) = true ->
  let '(_, r, c) := recv_run E parse_fdt cfg recv0 (map (fun p => RvPush p now) (pre ++ pf :: post)) ctx0 in
  session_delivered cfg inst content toi r c.
Proof. exact session_fdt_cached_delivers. Qed.
Print Assumptions C02_session_fdt_cached_delivers.

(* G4: the same for the oracle schemes, object level (Reed-Solomon) and receiver level (Reed-Solomon, RaptorQ / Raptor),
   through the interface of C02_session_via_interface extended by three facts of the attached object (empty cache, pushes
   go straight to the blocks, nothing to flush at block 0).  The cache counts repair symbols too. *)
Theorem C02_rs_cached_recoverable_delivers : forall E oti content rep toi max fid files inst md5 pre post,
  let L := lenN_ content in
  rs_scheme_ok oti L -> rs_blocks_ok oti L -> toi <> 0 -> fdt_entry_for files inst toi oti L md5 ->
  writer_accepts E toi -> writes_succeed E toi -> md5_good E content md5 ->
  rs_oracle_mds E oti content rep toi -> rs_rep_sized oti rep ->
  rs_mem_need oti L <= max -> nb_blocks_of oti L <= 4097 ->
  Forall cacheable pre -> cache_fits max 0 pre = true ->
  Forall (fun p => rs_genuine_pkt oti content rep p = true) (pre ++ post) ->
  rs_close_flag_ok oti L (pre ++ post) ->
  rs_recoverable oti L (pre ++ post) = true ->
  let (o, c) := receive_cached E fid files inst toi max pre post in
  r_state o = Completed
  /\ ShapeDone content (toi, 0%nat) toi c
  /\ forall m, complete_exact content (m, calls_of (toi, 0%nat) (c_log c)) = true
                /\ P_C02_object (rs_recoverable oti L (pre ++ post)) content [(m, calls_of (toi, 0%nat) (c_log c))] = true.
Proof. exact rs_cached_recoverable_delivers. Qed.
Print Assumptions C02_rs_cached_recoverable_delivers.

Theorem C02_rs_session_fdt_cached_delivers : forall E parse_fdt cfg oti content rep toi md5 now pf id foti d inst pre post,
  let L := lenN_ content in
  rs_scheme_ok oti L -> rs_blocks_ok oti L -> toi <> 0 ->
  fdt_pkt_ok pf id foti d -> parse_fdt d = Some inst -> fdt_live cfg inst pf now ->
  fdt_entry_for (fi_files inst) (fi_oti inst) toi oti L md5 ->
  writer_accepts E toi -> writes_succeed E toi -> md5_good E content md5 ->
  rs_oracle_mds E oti content rep toi -> rs_rep_sized oti rep ->
  rs_mem_need oti L <= cf_max_cache cfg -> nb_blocks_of oti L <= 4097 ->
  Forall (fun p => a_toi p = toi) (pre ++ post) ->
  Forall (fun p => rs_genuine_pkt oti content rep p = true) (pre ++ post) ->
  Forall (fun p => a_oti p = None /\ a_cenc p = None) pre ->
  cache_fits (cf_max_cache cfg) 0 pre = true ->
  rs_close_flag_ok oti L (pre ++ post) ->
  rs_recoverable oti L (pre ++ post) = true ->
  let '(_, r, c) := recv_run E parse_fdt cfg recv0 (map (fun p => RvPush p now) (pre ++ pf :: post)) ctx0 in
  session_delivered cfg inst content toi r c.
Proof. exact rs_session_fdt_cached_delivers. Qed.
Print Assumptions C02_rs_session_fdt_cached_delivers.

Theorem C02_fq_session_fdt_cached_delivers : forall E parse_fdt cfg oti content enc toi md5 now pf id foti d inst pre post,
  let L := lenN_ content in
  fq_scheme_ok oti L -> fq_blocks_ok oti L -> toi <> 0 ->
  fdt_pkt_ok pf id foti d -> parse_fdt d = Some inst -> fdt_live cfg inst pf now ->
  fdt_entry_for (fi_files inst) (fi_oti inst) toi oti L md5 ->
  writer_accepts E toi -> writes_succeed E toi -> md5_good E content md5 ->
  fq_oracle_sound E oti content enc toi -> fq_oracle_complete E oti content enc toi ->
  L <= cf_max_cache cfg -> nb_blocks_of oti L <= 4097 ->
  Forall (fun p => a_toi p = toi) (pre ++ post) ->
  Forall (fun p => fq_genuine_pkt oti content enc p = true) (pre ++ post) ->
  Forall (fun p => fq_sized_pkt oti p = true) (pre ++ post) ->
  Forall (fun p => a_oti p = None /\ a_cenc p = None) pre ->
  cache_fits (cf_max_cache cfg) 0 pre = true ->
  fq_close_flag_ok oti L (pre ++ post) ->
  fq_recoverable oti L (pre ++ post) = true ->
  let '(_, r, c) := recv_run E parse_fdt cfg recv0 (map (fun p => RvPush p now) (pre ++ pf :: post)) ctx0 in
  session_delivered cfg inst content toi r c.
Proof. exact fq_session_fdt_cached_delivers. Qed.
Print Assumptions C02_fq_session_fdt_cached_delivers.

(* non-vacuity: the 5-byte, 2-block object (E = 2, B = 2), ex_pkts = (1,0) (0,1) (1,0) (0,0) (0,1) without EXT_FTI: three
   packets cached before the FDT entry, two after; all five cached (completion inside attach_fdt); the reception equals
   that of the same packets after the entry; the empty object; and the theorems apply (ex_cached_object_by_theorem,
   ex_session_cached_by_theorem, rs_session_cached_by_theorem in Proofs/C02Cache.v) *)
Example C02_cached_examples :
  (summary 7 (receive_cached env_ok 1 ex_files None 7 1000 (firstn 3 ex_pkts) (skipn 3 ex_pkts))
   = (Completed, [CallOpen true; CallWrite [1; 2; 3; 4] true; CallWrite [5] true; CallComplete])
   /\ summary 7 (receive_cached env_ok 1 ex_files None 7 1000 ex_pkts [])
      = (Completed, [CallOpen true; CallWrite [1; 2; 3; 4] true; CallWrite [5] true; CallComplete])
   /\ receive_cached env_ok 1 ex_files None 7 1000 (firstn 3 ex_pkts) (skipn 3 ex_pkts)
      = receive env_ok 1 ex_files None 7 1000 (firstn 3 ex_pkts ++ skipn 3 ex_pkts)
   /\ cache_fits 1000 0 ex_pkts = true)
  /\ (summary 7 (receive_cached env_ok 1 ex0_files None 7 1000 [src_pkt 7 0 0 false []] []) = (Completed, [CallOpen true; CallComplete])
      /\ summary 7 (receive_cached env_ok 1 ex0_files None 7 1000 [] [src_pkt 7 0 0 true []]) = (Completed, [CallOpen true; CallComplete])
      /\ summary 7 (receive_cached env_ok 1 ex0_files None 7 1000 [] []) = (Completed, [CallOpen true; CallComplete]))
  /\ (sess (tx_parse false None) (tx_cfg true false) (firstn 3 ex_pkts ++ tx_fdt None :: skipn 3 ex_pkts)
      = ([POk; POk; POk; POk; POk; POk], [], [7], [], delivered_log)
      /\ sess (tx_parse false None) (tx_cfg true false) (ex_pkts ++ [tx_fdt None])
         = ([POk; POk; POk; POk; POk; POk], [], [7], [], delivered_log))
  /\ (sess_env env_xor (txr_parse exr_oti 5) (tx_cfg true false) (firstn 3 exr_pkts ++ tx_fdt None :: skipn 3 exr_pkts)
      = ([POk; POk; POk; POk; POk; POk], [], [7], [], delivered_log)
      /\ sess_env env_xor (txr_parse exr_oti 5) (tx_cfg true false) (exr_pkts ++ [tx_fdt None])
         = ([POk; POk; POk; POk; POk; POk], [], [7], [], delivered_log)).
Proof. exact (conj ex_cached_object_computed (conj ex_cached_empty_object (conj ex_session_cached_computed rs_session_cached_computed))). Qed.

Example C02_session_cached_by_theorem :
  let '(_, r, c) := recv_run env_ok (tx_parse false None) (tx_cfg true false) recv0
                             (map (fun p => RvPush p 100%Z) (firstn 3 ex_pkts ++ tx_fdt None :: skipn 3 ex_pkts)) ctx0 in
  session_delivered (tx_cfg true false) (tx_inst false None) ex_content 7 r c.
Proof. exact ex_session_cached_by_theorem. Qed.

(* cache_fits is needed.  Every other premise holds - genuine, recoverable, no flag, L = 5 <= cf_max_cache = 5 - but the five
   packets before the FDT instance carry 1 + 2 + 1 + 2 = 6 > 5 bytes when the fifth arrives (the duplicates count): the
   object is abandoned and error-listed (C17: the cache is bounded), the instance finds nothing to attach, NOTHING is
   delivered although every symbol and the FDT were received; with four packets before the FDT it is delivered.
   Afterwards the packets of the TOI are ignored (3rd run) until a symbol (0,0) arrives, which takes the TOI off the error
   list and starts a NEW reception from scratch: delivered if a whole cycle follows (4th run; 5th run: the new reception
   starts before the FDT instance and is cached again).  At the object level the refused packet leaves the object
   Errored, and attach_fdt, which does not look at the state, still opens a writer that gets nothing. *)
Example C02_cache_bound_refuted :
  (forallb (genuine_pkt ex_oti ex_content) ex_pkts = true /\ recoverable ex_oti 5 ex_pkts = true
   /\ map a_datalen ex_pkts = [1; 2; 1; 2; 2] /\ cache_fits 5 0 ex_pkts = false /\ cache_fits 5 0 (firstn 4 ex_pkts) = true
   /\ sess (tx_parse false None) (mk_rcfg 5 5 true false) (ex_pkts ++ [tx_fdt None]) = ([POk; POk; POk; POk; POk; POk], [], [], [7], [])
   /\ sess (tx_parse false None) (mk_rcfg 5 5 true false) (firstn 4 ex_pkts ++ [tx_fdt None]) = ([POk; POk; POk; POk; POk], [], [7], [], delivered_log)
   /\ sess (tx_parse false None) (mk_rcfg 5 5 true false)
           (ex_pkts ++ [tx_fdt None; src_pkt 7 1 0 false [5]; src_pkt 7 0 1 false [3; 4]])
      = ([POk; POk; POk; POk; POk; POk; POk; POk], [], [], [7], [])
   /\ sess (tx_parse false None) (mk_rcfg 5 5 true false)
           (ex_pkts ++ [tx_fdt None; src_pkt 7 1 0 false [5]; src_pkt 7 0 0 false [1; 2]; src_pkt 7 1 0 false [5]; src_pkt 7 0 1 false [3; 4]])
      = ([POk; POk; POk; POk; POk; POk; POk; POk; POk; POk], [], [7], [], delivered_log)
   /\ sess (tx_parse false None) (mk_rcfg 5 5 true false)
           (ex_pkts ++ [src_pkt 7 0 0 false [1; 2]; src_pkt 7 1 0 false [5]; src_pkt 7 0 1 false [3; 4]; tx_fdt None])
      = ([POk; POk; POk; POk; POk; POk; POk; POk; POk], [], [7], [], delivered_log))
  /\ summary 7 (receive_cached env_ok 1 ex_files None 7 5 ex_pkts []) = (Errored, [CallOpen true]).
Proof. exact (conj cache_bound_refuted cache_bound_refuted_object). Qed.

(* the close-object flag among the cached packets.  The complete IN-ORDER transfer with the B flag on its last packet, no
   EXT_FTI, entirely before the FDT instance (a clean channel, the FDT merely late) is delivered - the defect D43 (replay
   last-cached-first: the flagged packet came first, nothing was delivered) is repaired; also when only the flagged packet
   follows the FDT; and the theorem applies *)
Example C02_cached_close_flag_in_order_delivered :
  forallb (genuine_pkt ex_oti ex_content) ex_pkts_inorder = true /\ recoverable ex_oti 5 ex_pkts_inorder = true
  /\ cache_fits 1000 0 ex_pkts_inorder = true /\ map a_close_obj ex_pkts_inorder = [false; false; true]
  /\ sess (tx_parse false None) (tx_cfg true false) (ex_pkts_inorder ++ [tx_fdt None])
     = ([POk; POk; POk; POk], [], [7], [], delivered_log)
  /\ sess (tx_parse false None) (tx_cfg true false) (firstn 2 ex_pkts_inorder ++ tx_fdt None :: skipn 2 ex_pkts_inorder)
     = ([POk; POk; POk; POk], [], [7], [], delivered_log).
Proof. exact cached_close_flag_in_order_delivered. Qed.

Example C02_cached_close_flag_in_order_by_theorem :
  let '(_, r, c) := recv_run env_ok (tx_parse false None) (tx_cfg true false) recv0
                             (map (fun p => RvPush p 100%Z) (ex_pkts_inorder ++ tx_fdt None :: [])) ctx0 in
  session_delivered (tx_cfg true false) (tx_inst false None) ex_content 7 r c.
Proof. exact cached_close_flag_in_order_by_theorem. Qed.

(* close_flag_ok of pre ++ post is needed for the cached packets as for the others: a flag that arrives EARLY - on a cached
   packet after which the object is not yet covered - interrupts the object during the replay, exactly as it does after the
   FDT (3rd run): the flagged packet cached first, or the in-order transfer cached in reverse order: every symbol and the
   FDT were received, the object is interrupted holding one symbol and error-listed, nothing is delivered *)
Example C02_cached_close_flag_early_refuted :
  forallb (genuine_pkt ex_oti ex_content) ex_pkts_flag_first = true /\ recoverable ex_oti 5 ex_pkts_flag_first = true
  /\ cache_fits 1000 0 ex_pkts_flag_first = true /\ map a_close_obj ex_pkts_flag_first = [true; false; false]
  /\ sess (tx_parse false None) (tx_cfg true false) (ex_pkts_flag_first ++ [tx_fdt None])
     = ([POk; POk; POk; POk], [], [], [7], [EvBuilder 7 WStore; EvOpen (7, 0%nat) true; EvInterrupted (7, 0%nat)])
  /\ sess (tx_parse false None) (tx_cfg true false) (List.rev ex_pkts_inorder ++ [tx_fdt None])
     = ([POk; POk; POk; POk], [], [], [7], [EvBuilder 7 WStore; EvOpen (7, 0%nat) true; EvInterrupted (7, 0%nat)])
  /\ sess (tx_parse false None) (tx_cfg true false) (tx_fdt None :: [src_pkt 7 1 0 true [5]])
     = ([POk; POk], [], [], [7], [EvBuilder 7 WStore; EvOpen (7, 0%nat) true; EvInterrupted (7, 0%nat)]).
Proof. exact cached_close_flag_early_refuted. Qed.
(* ===== end block: C02Cache ===== *)

(* ===== block: D44 ===== *)
(* ---------------- a close-object flag BEFORE the FDT instance is harmless (defect D44, repaired) ----------------
   ObjectReceiver::push_to_block now interrupts a Receiving object on a packet carrying the close-object flag only when the
   object already has a writer (Model/ObjRecv.v, push_to_block).  Before any FDT instance has been attached there is no
   writer: the flag is ignored, the symbols keep being decoded in memory, and the instance that arrives later opens the
   writer and flushes the completed blocks.  So the premise "no close-object flag among the packets received before the FDT
   instance" of the three late-FDT theorems above is dropped: pkts1 need only carry EXT_FTI = (oti, L) and no EXT_CENC;
   the flag premise shrinks to the packets that FOLLOW the instance,
     close_flag_ok_after rec pkts1 pkts2  (rec = recoverable / rs_recoverable / fq_recoverable oti L):
   a flagged packet of pkts2 comes only once pkts1 and the packets of pkts2 up to and including it are recoverable.  It
   follows from close_flag_ok of pkts1 ++ pkts2 [C02_close_flag_after_of_whole], holds when pkts2 carries no flag, and when
   only its last packet does and the whole is recoverable [C02_close_flag_after_basics]; the old theorems are corollaries. *)
Theorem C02_close_flag_after_statement : forall (rec : list apkt -> bool) pkts1 pkts2,
  close_flag_ok_after rec pkts1 pkts2 <->
  (forall pre p post, pkts2 = pre ++ p :: post -> a_close_obj p = true -> rec (pkts1 ++ pre ++ [p]) = true).
Proof. exact close_flag_after_statement. Qed.
Print Assumptions C02_close_flag_after_statement.

Theorem C02_close_flag_after_of_whole : forall oti L pkts1 pkts2,
  (close_flag_ok oti L (pkts1 ++ pkts2) -> close_flag_ok_after (recoverable oti L) pkts1 pkts2)
  /\ (rs_close_flag_ok oti L (pkts1 ++ pkts2) -> close_flag_ok_after (rs_recoverable oti L) pkts1 pkts2)
  /\ (fq_close_flag_ok oti L (pkts1 ++ pkts2) -> close_flag_ok_after (fq_recoverable oti L) pkts1 pkts2).
Proof. exact close_flag_after_of_whole_all. Qed.
Print Assumptions C02_close_flag_after_of_whole.

Theorem C02_close_flag_after_basics : forall (rec : list apkt -> bool) pkts1,
  (forall pkts2, Forall (fun p => a_close_obj p = false) pkts2 -> close_flag_ok_after rec pkts1 pkts2)
  /\ (forall body lst, Forall (fun q => a_close_obj q = false) body -> rec (pkts1 ++ body ++ [lst]) = true ->
                       close_flag_ok_after rec pkts1 (body ++ [lst])).
Proof. exact close_flag_after_basics. Qed.
Print Assumptions C02_close_flag_after_basics.

Theorem C02_session_fdt_late_delivers_any_flag_before_fdt :
  forall E parse_fdt cfg oti content toi md5 now pf id foti d inst pkts1 pkts2,
  let L := lenN_ content in
  nocode_ok oti L -> toi <> 0 ->
  fdt_pkt_ok pf id foti d -> parse_fdt d = Some inst -> fdt_live cfg inst pf now ->
  fdt_entry_for (fi_files inst) (fi_oti inst) toi oti L md5 ->
  writer_accepts E toi -> writes_succeed E toi -> md5_good E content md5 ->
  L <= cf_max_cache cfg -> nb_blocks_of oti L <= 4097 ->
  Forall (fun p => a_toi p = toi) (pkts1 ++ pkts2) ->
  Forall (fun p => genuine_pkt oti content p = true) (pkts1 ++ pkts2) ->
  Forall (fun p => a_oti p = Some (oti, L) /\ a_cenc p = None) pkts1 ->
  close_flag_ok_after (recoverable oti L) pkts1 pkts2 ->
  recoverable oti L (pkts1 ++ pkts2) = true ->
  let '(_, r, c) := recv_run E parse_fdt cfg recv0 (map (fun p => RvPush p now) (pkts1 ++ pf :: pkts2)) ctx0 in
  session_delivered cfg inst content toi r c.
Proof. exact session_fdt_late_delivers_any_flag_before_fdt. Qed.
Print Assumptions C02_session_fdt_late_delivers_any_flag_before_fdt.

Theorem C02_rs_session_fdt_late_delivers_any_flag_before_fdt :
  forall E parse_fdt cfg oti content rep toi md5 now pf id foti d inst pkts1 pkts2,
  let L := lenN_ content in
  rs_scheme_ok oti L -> rs_blocks_ok oti L -> toi <> 0 ->
  fdt_pkt_ok pf id foti d -> parse_fdt d = Some inst -> fdt_live cfg inst pf now ->
  fdt_entry_for (fi_files inst) (fi_oti inst) toi oti L md5 ->
  writer_accepts E toi -> writes_succeed E toi -> md5_good E content md5 ->
  rs_oracle_mds E oti content rep toi -> rs_rep_sized oti rep ->
  rs_mem_need oti L <= cf_max_cache cfg -> nb_blocks_of oti L <= 4097 ->
  Forall (fun p => a_toi p = toi) (pkts1 ++ pkts2) ->
  Forall (fun p => rs_genuine_pkt oti content rep p = true) (pkts1 ++ pkts2) ->
  Forall (fun p => a_oti p = Some (oti, L) /\ a_cenc p = None) pkts1 ->
  close_flag_ok_after (rs_recoverable oti L) pkts1 pkts2 ->
  rs_recoverable oti L (pkts1 ++ pkts2) = true ->
  let '(_, r, c) := recv_run E parse_fdt cfg recv0 (map (fun p => RvPush p now) (pkts1 ++ pf :: pkts2)) ctx0 in
  session_delivered cfg inst content toi r c.
Proof. exact rs_session_fdt_late_delivers_any_flag_before_fdt. Qed.
Print Assumptions C02_rs_session_fdt_late_delivers_any_flag_before_fdt.

Theorem C02_fq_session_fdt_late_delivers_any_flag_before_fdt :
  forall E parse_fdt cfg oti content enc toi md5 now pf id foti d inst pkts1 pkts2,
  let L := lenN_ content in
  fq_scheme_ok oti L -> fq_blocks_ok oti L -> toi <> 0 ->
  fdt_pkt_ok pf id foti d -> parse_fdt d = Some inst -> fdt_live cfg inst pf now ->
  fdt_entry_for (fi_files inst) (fi_oti inst) toi oti L md5 ->
  writer_accepts E toi -> writes_succeed E toi -> md5_good E content md5 ->
  fq_oracle_sound E oti content enc toi -> fq_oracle_complete E oti content enc toi ->
  L <= cf_max_cache cfg -> nb_blocks_of oti L <= 4097 ->
  Forall (fun p => a_toi p = toi) (pkts1 ++ pkts2) ->
  Forall (fun p => fq_genuine_pkt oti content enc p = true) (pkts1 ++ pkts2) ->
  Forall (fun p => fq_sized_pkt oti p = true) (pkts1 ++ pkts2) ->
  Forall (fun p => a_oti p = Some (oti, L) /\ a_cenc p = None) pkts1 ->
  close_flag_ok_after (fq_recoverable oti L) pkts1 pkts2 ->
  fq_recoverable oti L (pkts1 ++ pkts2) = true ->
  let '(_, r, c) := recv_run E parse_fdt cfg recv0 (map (fun p => RvPush p now) (pkts1 ++ pf :: pkts2)) ctx0 in
  session_delivered cfg inst content toi r c.
Proof. exact fq_session_fdt_late_delivers_any_flag_before_fdt. Qed.
Print Assumptions C02_fq_session_fdt_late_delivers_any_flag_before_fdt.

(* non-vacuity.  No-Code: the whole in-order transfer of ex_content with EXT_FTI on every packet and the flag on its last
   packet, then the FDT packet: delivered, by computation [C02_session_close_flag_before_fdt_now_delivered above] and by the
   theorem.  Reed-Solomon (XOR toy code): the whole in-order LAST transfer - source and parity symbols, flag on the last
   packet - before the FDT packet; and the flagged packet ALONE before the FDT packet, the rest after it: delivered both
   times, by computation and (first run) by the theorem. *)
Example C02_close_flag_before_fdt_by_theorem :
  map a_close_obj (map with_fti ex_pkts_inorder) = [false; false; true]
  /\ let '(_, r, c) := recv_run env_ok (tx_parse false None) (tx_cfg true false) recv0
                               (map (fun p => RvPush p 100%Z) (map with_fti ex_pkts_inorder ++ tx_fdt None :: [])) ctx0 in
     session_delivered (tx_cfg true false) (tx_inst false None) ex_content 7 r c.
Proof. exact close_flag_before_fdt_by_theorem. Qed.

Example C02_rs_close_flag_before_fdt_now_delivered :
  forallb (rs_genuine_pkt exr_oti exr_content exr_rep) exr_last_transfer = true
  /\ map a_close_obj exr_last_transfer = [false; false; false; false; true]
  /\ sess_env env_xor (txr_parse exr_oti 5) (tx_cfg true false) (exr_last_transfer ++ [tx_fdt None])
     = ([POk; POk; POk; POk; POk; POk], [], [7], [], delivered_log)
  /\ sess_env env_xor (txr_parse exr_oti 5) (tx_cfg true false)
              (with_fti_of exr_oti 5 (rs_pkt 7 1 1 true [5; 0]) :: tx_fdt None :: firstn 4 exr_last_transfer)
     = ([POk; POk; POk; POk; POk; POk], [], [7], [], delivered_log).
Proof. exact rs_close_flag_before_fdt_now_delivered. Qed.

Example C02_rs_close_flag_before_fdt_by_theorem :
  let '(_, r, c) := recv_run env_xor (txr_parse exr_oti 5) (tx_cfg true false) recv0
                             (map (fun p => RvPush p 100%Z) (exr_last_transfer ++ tx_fdt None :: [])) ctx0 in
  session_delivered (tx_cfg true false) (txr_inst exr_oti 5) exr_content 7 r c.
Proof. exact rs_close_flag_before_fdt_by_theorem. Qed.

(* the flag still interrupts an object that HAS a writer when it comes before the object is recoverable: the premise on
   the packets that follow the instance is needed as before (FDT first, then the flagged last source packet alone) *)
Example C02_close_flag_after_fdt_still_interrupts :
  sess (tx_parse false None) (tx_cfg true false) (tx_fdt None :: [src_pkt 7 1 0 true [5]])
  = ([POk; POk], [], [], [7], [EvBuilder 7 WStore; EvOpen (7, 0%nat) true; EvInterrupted (7, 0%nat)]).
Proof. vm_compute. reflexivity. Qed.
(* ===== end block: D44 ===== *)

From FluteV Require Import Model.BlockEnc Spec.C07Spec Proofs.C01Full Proofs.C02Cenc.
(* ===== block: C02Cenc ===== *)
(* ---------------- CONTENT-ENCODED objects (Content-Encoding gzip / deflate / zlib), No-Code: Proofs/C02Cenc.v ----------------
   The packets carry the transfer-encoded bytes [transfer] (Transfer-Length L = |transfer| > 0); the FDT entry carries
   Content-Encoding ce <> null, the MD5 of the CONTENT (or none) and any Content-Length attribute (cenc_entry_for).
   The block writer of the model hands the transfer bytes accumulated so far to the oracle e_inflate E ce acc finished
   once per source block, in block order (finished = true with the last block), and writes what is new in its answer
   (no write() call when nothing is new); the MD5 is taken over the final answer.
   EXPLICIT, TRUSTED hypothesis on the oracle, inflate_oracle_on cut E ce transfer content: there is a monotone
   dl : N -> N with dl 0 = 0 such that, fed the first a < L transfer bytes (a in [cut]) and not finished, the inflater
   answers the first dl a bytes of the content, and fed everything and finished it answers the content.
     inflate_oracle_ok     : cut = every prefix (a streaming decoder; independent of the partition);
     inflate_oracle_blocks : cut = the block boundaries of the RFC 5052 partition of L (exactly the calls the model makes;
                             the theorems assume this one, the weaker).
   Premises otherwise those of C02_nocode_recoverable_delivers with [transfer] for the packets and L = |transfer| for the
   limits (max_size_allocated bounds the TRANSFER length); [content] may be empty.
   Content-Length: never read by the block writer of the model (bw_clen_left is only carried): the statement holds
   whatever the attribute is - right, absent or wrong (C02_cenc_example_delivery).  [In blockwriter.rs the attribute
   stops the output once that many bytes have been written; the model hides this inside the oracle.] *)
Theorem C02_cenc_recoverable_delivers : forall E oti transfer content ce toi max fid files inst md5 clen pkts,
  let L := lenN_ transfer in
  nocode_ok oti L -> ce <> CNull -> cenc_entry_for files inst toi oti L ce md5 clen ->
  inflate_oracle_blocks E ce oti transfer content ->
  writer_accepts E toi -> writes_succeed E toi -> md5_good E content md5 ->
  L <= max -> nb_blocks_of oti L <= 4097 ->
  Forall (fun p => genuine_pkt oti transfer p = true) pkts ->
  close_flag_ok oti L pkts ->
  recoverable oti L pkts = true ->
  let (o, c) := receive E fid files inst toi max pkts in
  r_state o = Completed
  /\ C02Full.ShapeDone content (toi, 0%nat) toi c
  /\ forall m, complete_exact content (m, calls_of (toi, 0%nat) (c_log c)) = true
                /\ P_C02_object (recoverable oti L pkts) content [(m, calls_of (toi, 0%nat) (c_log c))] = true.
Proof. exact cenc_recoverable_delivers. Qed.
Print Assumptions C02_cenc_recoverable_delivers.

(* the hypothesis and the FDT entry, unfolded once *)
Theorem C02_cenc_statements : forall cut E ce oti transfer content files inst toi L md5 clen a,
  (inflate_oracle_on cut E ce transfer content <->
     exists dl : N -> N,
       dl 0 = 0 /\ (forall x y, x <= y -> dl x <= dl y)
       /\ (forall a, cut a -> a < lenN_ transfer ->
             e_inflate E ce (firstn (N.to_nat a) transfer) false = Some (firstn (N.to_nat (dl a)) content))
       /\ e_inflate E ce transfer true = Some content)
  /\ (inflate_oracle_ok E ce transfer content <-> inflate_oracle_on (fun _ => True) E ce transfer content)
  /\ (inflate_oracle_blocks E ce oti transfer content <-> inflate_oracle_on (block_cut oti (lenN_ transfer)) E ce transfer content)
  /\ (block_cut oti L a <->
        let '(al, as_, nal, n) := partition_of oti L in exists s, s < n /\ a = N.min L (sym_off al as_ nal s * ro_e oti))
  /\ (cenc_entry_for files inst toi oti L ce md5 clen <->
        exists f, find (fun f => ff_toi f =? toi) files = Some f /\ ff_cenc f = ce
                  /\ match ff_oti f with Some x => Some x | None => inst end = Some oti
                  /\ ff_tlen f = L /\ ff_md5 f = md5 /\ ff_clen f = clen).
Proof. intros. repeat split; intros H; exact H. Qed.
Print Assumptions C02_cenc_statements.

Theorem C02_cenc_streaming_decoder_suffices : forall E ce oti transfer content,
  inflate_oracle_ok E ce transfer content -> inflate_oracle_blocks E ce oti transfer content.
Proof. exact inflate_oracle_ok_blocks. Qed.
Print Assumptions C02_cenc_streaming_decoder_suffices.

(* non-vacuity: a toy content encoding (a 2-byte header, then the content; the decoder drops the header) satisfies the
   stronger hypothesis for every content and header *)
Theorem C02_cenc_oracle_hypothesis_satisfiable : forall ce h1 h2 content,
  inflate_oracle_ok env_toy ce (h1 :: h2 :: content) content.
Proof. exact toy_oracle_ok. Qed.
Print Assumptions C02_cenc_oracle_hypothesis_satisfiable.

(* the 5-byte object behind the header [31; 139]: 7 transfer bytes, E = 2, B = 2, blocks [31;139][1;2] and [3;4][5];
   packets shuffled and duplicated; MD5 (toy digest = identity) of the content; Content-Length right / absent / wrong;
   the theorem applies (exc_delivery_by_theorem).  With E = 1 the first block is the header alone: nothing new, no
   write() call for it *)
Example C02_cenc_example_delivery :
  forallb (genuine_pkt ex_oti exc_transfer) exc_pkts = true
  /\ recoverable ex_oti 7 exc_pkts = true
  /\ summary 7 (receive env_toy 1 (exc_files CGzip (Some exc_content) (Some 5)) None 7 1000 exc_pkts)
     = (Completed, [CallOpen true; CallWrite [1; 2] true; CallWrite [3; 4; 5] true; CallComplete])
  /\ summary 7 (receive env_toy 1 (exc_files CZlib None None) None 7 1000 exc_pkts)
     = (Completed, [CallOpen true; CallWrite [1; 2] true; CallWrite [3; 4; 5] true; CallComplete])
  /\ summary 7 (receive env_toy 1 (exc_files CDeflate None (Some 1)) None 7 1000 exc_pkts)
     = (Completed, [CallOpen true; CallWrite [1; 2] true; CallWrite [3; 4; 5] true; CallComplete])
  /\ summary 7 (receive env_toy 1 [mk_ff 7 CGzip (Some exc1_oti) 7 None (Some 5) false] None 7 1000 exc1_pkts)
     = (Completed, [CallOpen true; CallWrite [1; 2] true; CallWrite [3; 4] true; CallWrite [5] true; CallComplete]).
Proof. vm_compute. repeat split. Qed.

(* the MD5 of the FDT entry is that of the content: with the MD5 of the transfer bytes everything is written, then error();
   the oracle hypothesis is needed: a decoder answering other bytes, no MD5: wrong bytes, Completed *)
Example C02_cenc_guards :
  summary 7 (receive env_toy 1 (exc_files CGzip (Some exc_transfer) (Some 5)) None 7 1000 exc_pkts)
  = (Errored, [CallOpen true; CallWrite [1; 2] true; CallWrite [3; 4; 5] true; CallError])
  /\ summary 7 (receive env_wrong 1 (exc_files CGzip None (Some 5)) None 7 1000 exc_pkts)
     = (Completed, [CallOpen true; CallWrite [9; 9] true; CallWrite [9; 9; 9] true; CallComplete]).
Proof. vm_compute. repeat split. Qed.

(* the receiver level (recv_run from recv0 / ctx0), through the interface of Proofs/C02SessionRS.v (no change to it).
   FDT first: the object is created from the FDT entry, whose Content-Encoding is the one applied; the EXT_CENC of the
   object's packets is UNCONSTRAINED (absent, equal or different: ignored) *)
Theorem C02_cenc_session_fdt_first_delivers :
  forall E parse_fdt cfg oti transfer content ce toi md5 clen now pf id foti d inst pkts,
  let L := lenN_ transfer in
  nocode_ok oti L -> ce <> CNull -> toi <> 0 ->
  fdt_pkt_ok pf id foti d -> parse_fdt d = Some inst -> fdt_live cfg inst pf now ->
  cenc_entry_for (fi_files inst) (fi_oti inst) toi oti L ce md5 clen ->
  inflate_oracle_blocks E ce oti transfer content ->
  writer_accepts E toi -> writes_succeed E toi -> md5_good E content md5 ->
  L <= cf_max_cache cfg -> nb_blocks_of oti L <= 4097 ->
  Forall (fun p => a_toi p = toi) pkts ->
  Forall (fun p => genuine_pkt oti transfer p = true) pkts ->
  close_flag_ok oti L pkts ->
  recoverable oti L pkts = true ->
  let '(_, r, c) := recv_run E parse_fdt cfg recv0 (map (fun p => RvPush p now) (pf :: pkts)) ctx0 in
  session_delivered cfg inst content toi r c.
Proof. exact cenc_session_fdt_first_delivers. Qed.
Print Assumptions C02_cenc_session_fdt_first_delivers.

(* FDT late: pkts1 (EXT_FTI = (oti, L); EXT_CENC = cx, absent or equal to the entry's ce; any close-object flag) arrive
   before the instance and are decoded without writer; the instance opens the writer and flushes through the inflater *)
Theorem C02_cenc_session_fdt_late_delivers :
  forall E parse_fdt cfg oti transfer content ce cx toi md5 clen now pf id foti d inst pkts1 pkts2,
  let L := lenN_ transfer in
  nocode_ok oti L -> ce <> CNull -> toi <> 0 ->
  fdt_pkt_ok pf id foti d -> parse_fdt d = Some inst -> fdt_live cfg inst pf now ->
  cenc_entry_for (fi_files inst) (fi_oti inst) toi oti L ce md5 clen ->
  cx = None \/ cx = Some ce ->
  inflate_oracle_blocks E ce oti transfer content ->
  writer_accepts E toi -> writes_succeed E toi -> md5_good E content md5 ->
  L <= cf_max_cache cfg -> nb_blocks_of oti L <= 4097 ->
  Forall (fun p => a_toi p = toi) (pkts1 ++ pkts2) ->
  Forall (fun p => genuine_pkt oti transfer p = true) (pkts1 ++ pkts2) ->
  Forall (fun p => a_oti p = Some (oti, L) /\ a_cenc p = cx) pkts1 ->
  close_flag_ok_after (recoverable oti L) pkts1 pkts2 ->
  recoverable oti L (pkts1 ++ pkts2) = true ->
  let '(_, r, c) := recv_run E parse_fdt cfg recv0 (map (fun p => RvPush p now) (pkts1 ++ pf :: pkts2)) ctx0 in
  session_delivered cfg inst content toi r c.
Proof. exact cenc_session_fdt_late_delivers. Qed.
Print Assumptions C02_cenc_session_fdt_late_delivers.

(* non-vacuity, receive-once: FDT first with the Content-Encoding in the FDT only / also in band / in band and
   DISAGREEING (EXT_CENC = null on every packet: the FDT entry wins, the object is inflated); FDT late with EXT_FTI and
   EXT_CENC = gzip, or no EXT_CENC, on the three early packets; both theorems apply (cenc_session_by_theorem) *)
Example C02_cenc_session_example :
  sess_env env_toy (txc_parse CGzip (Some exc_content)) (tx_cfg true false) (tx_fdt None :: exc_pkts)
  = ([POk; POk; POk; POk; POk; POk], [], [7], [], cenc_log)
  /\ sess_env env_toy (txc_parse CGzip (Some exc_content)) (tx_cfg true false)
       (tx_fdt None :: map (with_ext None (Some CGzip)) exc_pkts)
     = ([POk; POk; POk; POk; POk; POk], [], [7], [], cenc_log)
  /\ sess_env env_toy (txc_parse CGzip (Some exc_content)) (tx_cfg true false)
       (tx_fdt None :: map (with_ext None (Some CNull)) exc_pkts)
     = ([POk; POk; POk; POk; POk; POk], [], [7], [], cenc_log)
  /\ sess_env env_toy (txc_parse CGzip (Some exc_content)) (tx_cfg true false)
       (map (with_ext (Some (ex_oti, 7)) (Some CGzip)) (firstn 3 exc_pkts) ++ tx_fdt None :: skipn 3 exc_pkts)
     = ([POk; POk; POk; POk; POk; POk], [], [7], [], cenc_log)
  /\ sess_env env_toy (txc_parse CGzip (Some exc_content)) (tx_cfg true false)
       (map (with_ext (Some (ex_oti, 7)) None) (firstn 3 exc_pkts) ++ tx_fdt None :: skipn 3 exc_pkts)
     = ([POk; POk; POk; POk; POk; POk], [], [7], [], cenc_log)
  /\ cenc_log = [EvBuilder 7 WStore; EvOpen (7, 0%nat) true; EvWrite (7, 0%nat) [1; 2] true; EvWrite (7, 0%nat) [3; 4; 5] true;
                 EvComplete (7, 0%nat)].
Proof. vm_compute. repeat split. Qed.

Example C02_cenc_session_by_theorem :
  (let '(_, r, c) := recv_run env_toy (txc_parse CGzip (Some exc_content)) (tx_cfg true false) recv0
                              (map (fun p => RvPush p 100%Z) (tx_fdt None :: exc_pkts)) ctx0 in
   session_delivered (tx_cfg true false) (txc_inst CGzip (Some exc_content)) exc_content 7 r c)
  /\ (let '(_, r, c) := recv_run env_toy (txc_parse CGzip (Some exc_content)) (tx_cfg true false) recv0
                              (map (fun p => RvPush p 100%Z)
                                   (map (with_ext (Some (ex_oti, 7)) (Some CGzip)) (firstn 3 exc_pkts) ++ tx_fdt None :: skipn 3 exc_pkts)) ctx0 in
      session_delivered (tx_cfg true false) (txc_inst CGzip (Some exc_content)) exc_content 7 r c).
Proof. exact cenc_session_by_theorem. Qed.

(* EXT_CENC and the FDT entry DISAGREE, and a packet precedes the FDT instance: the packet's EXT_CENC wins (set_cenc_from_pkt
   runs first; attach_fdt keeps a Content-Encoding that is already set).  EXT_CENC = null against Content-Encoding gzip: the
   transfer-encoded bytes are written as they are - error() when the entry has the MD5 of the content, COMPLETED with the
   header in front when it has none.  EXT_CENC = gzip against an entry without Content-Encoding: inflated, delivered *)
Example C02_cenc_ext_cenc_before_fdt_wins :
  sess_env env_toy (txc_parse CGzip (Some exc_content)) (tx_cfg true false)
    (with_ext (Some (ex_oti, 7)) (Some CNull) (src_pkt 7 1 1 false [5]) :: tx_fdt None :: exc_pkts)
  = ([POk; POk; POk; POk; POk; POk; POk], [], [], [7],
     [EvBuilder 7 WStore; EvOpen (7, 0%nat) true; EvWrite (7, 0%nat) [31; 139; 1; 2] true; EvWrite (7, 0%nat) [3; 4; 5] true;
      EvError (7, 0%nat)])
  /\ sess_env env_toy (txc_parse CGzip None) (tx_cfg true false)
       (with_ext (Some (ex_oti, 7)) (Some CNull) (src_pkt 7 1 1 false [5]) :: tx_fdt None :: exc_pkts)
     = ([POk; POk; POk; POk; POk; POk; POk], [], [7], [],
        [EvBuilder 7 WStore; EvOpen (7, 0%nat) true; EvWrite (7, 0%nat) [31; 139; 1; 2] true; EvWrite (7, 0%nat) [3; 4; 5] true;
         EvComplete (7, 0%nat)])
  /\ sess_env env_toy (txc_parse CNull (Some exc_content)) (tx_cfg true false)
       (with_ext (Some (ex_oti, 7)) (Some CGzip) (src_pkt 7 1 1 false [5]) :: tx_fdt None :: exc_pkts)
     = ([POk; POk; POk; POk; POk; POk; POk], [], [7], [], cenc_log).
Proof. exact cenc_ext_cenc_before_fdt_wins. Qed.

(* C01 corollary.  Compression is outside the sender model: the model is handed [transfer] - what compress(content)
   returned: that is the oracle hypothesis - and sends it like any buffer (Model/BlockEnc.v).  One uninterrupted transfer
   over the identity channel (wire_pkts of Proofs/C01Full.v), after any genuine flag-free packets, into a receiver whose
   FDT entry carries the Content-Encoding: the CONTENT is delivered ([delivered] as in C01_clean_channel_nocode) *)
Theorem C02_cenc_clean_channel :
  forall rep raptor_src c transfer content ce oti E toi max fid files inst md5 clen pre,
  c_fec c = NoCode -> filedesc_accepts c = true -> c_tlen c = lenN transfer -> 0 < c_tlen c ->
  (1 <= c_window c)%nat -> c_e c < 65536 ->
  oti_matches c oti -> ce <> CNull -> cenc_entry_for files inst toi oti (c_tlen c) ce md5 clen ->
  inflate_oracle_blocks E ce oti transfer content ->
  writer_accepts E toi -> writes_succeed E toi -> md5_good E content md5 ->
  c_tlen c <= max -> nb_blocks_of oti (c_tlen c) <= 4097 ->
  Forall (fun q => genuine_pkt oti transfer q = true) pre ->
  Forall (fun q => a_close_obj q = false) pre ->
  delivered E fid files inst toi max content (pre ++ wire_pkts rep raptor_src c transfer toi).
Proof. exact cenc_clean_channel. Qed.
Print Assumptions C02_cenc_clean_channel.

Example C02_cenc_clean_channel_example :
  map (fun p => (p_sbn p, p_esi p, p_payload p, p_close p)) (transfer_pkts no_rep no_rsrc exc_cfg exc_transfer)
  = [(0, 0, [31; 139], false); (1, 0, [3; 4], false); (0, 1, [1; 2], false); (1, 1, [5], true)]
  /\ summary 7 (receive env_toy 1 (exc_files CGzip (Some exc_content) (Some 5)) None 7 1000
                  (wire_pkts no_rep no_rsrc exc_cfg exc_transfer 7))
     = (Completed, [CallOpen true; CallWrite [1; 2] true; CallWrite [3; 4; 5] true; CallComplete]).
Proof. exact cenc_clean_channel_example. Qed.
(* ===== end block: C02Cenc ===== *)

From FluteV Require Import Proofs.C02EmptyD48.
(* ===== block: D48 ===== *)
(* D48 (ObjectReceiver::attach_fdt): an empty object (transfer length 0) has no block to wait for - the packet that
   created the receiver was the whole object and may have come before the FDT.  attach_fdt now completes such an
   object as soon as it has its OTI and its writer.  Before the repair an empty object whose lone packet (FTI in-band)
   had arrived before the FDT was opened by the FDT and never completed (found on real sender sessions whose FDT is
   repeated after the last transfer).
   Object level: a fresh receiver of TOI toi <> 0 is pushed ONE packet p that carries EXT_FTI (oti, transfer length
   0) and a payload id that parses under oti's scheme (any flags, any EXT_CENC): the packet is consumed, nothing is
   called (no FDT entry, hence no writer: D37).  The FDT entry (any transfer length in it: the in-band one stands)
   is then attached: builder, open, complete, no write; packets that follow change nothing. *)
Theorem C02_empty_object_before_fdt_delivers : forall E fid files inst f toi max oti p post,
  find (fun f => ff_toi f =? toi) files = Some f ->
  toi <> 0 -> a_toi p = toi -> writer_accepts E toi ->
  a_oti p = Some (oti, 0) -> a_pid_with (ro_fec oti) p <> None ->
  (let (o1, c1) := or_push E p (or_new toi max) ctx0 in
   r_state o1 = Receiving /\ r_writer o1 = None /\ c_log c1 = [])
  /\ (let (o, c) := receive_cached E fid files inst toi max [p] post in
      r_state o = Completed /\ r_writer o = Some ((toi, 0%nat), WClosed)
      /\ c_log c = [EvBuilder toi WStore; EvOpen (toi, 0%nat) true; EvComplete (toi, 0%nat)]).
Proof.
  intros E fid files inst f toi max oti p post H1 H2 H3 [A1 A2] H4 H5.
  exact (empty_object_before_fdt_delivers E fid files inst f toi max oti p H1 H2 H3 A1 A2 H4 H5 post).
Qed.
Print Assumptions C02_empty_object_before_fdt_delivers.

(* the OTI only in the FDT (packets without EXT_FTI are cached): C02_cached_empty_object_delivers without its two
   premises on the packets - none has to parse, none has to exist *)
Theorem C02_empty_object_delivers_d48 : forall E fid files inst f toi max oti pre post,
  find (fun f => ff_toi f =? toi) files = Some f ->
  match ff_oti f with Some x => Some x | None => inst end = Some oti ->
  ff_tlen f = 0 -> toi <> 0 -> writer_accepts E toi ->
  Forall cacheable pre -> cache_fits max 0 pre = true ->
  let (o, c) := receive_cached E fid files inst toi max pre post in
  r_state o = Completed /\ c_log c = [EvBuilder toi WStore; EvOpen (toi, 0%nat) true; EvComplete (toi, 0%nat)].
Proof.
  intros E fid files inst f toi max oti pre post H1 H2 H3 H4 [A1 A2].
  exact (empty_cached_delivers_d48 E fid files inst f toi max oti H1 H2 H3 H4 A1 A2 pre post).
Qed.
Print Assumptions C02_empty_object_delivers_d48.

(* TOI 7, 0 bytes; the packet: EXT_FTI (ex_oti, 0), payload id (0,0), no payload, close-object flag.  Before the
   FDT entry: Receiving, no call; with the entry: open, complete; a repeated packet changes nothing.  (Before the
   repair the second line was (Receiving, [CallOpen true]): only a further packet of the object completed it.) *)
Example C02_empty_object_before_fdt_example :
  summary 7 (C02Full.run env_ok [ex0_pkt_fti] (or_new 7 1000, ctx0)) = (Receiving, [])
  /\ summary 7 (receive_cached env_ok 1 ex0_files None 7 1000 [ex0_pkt_fti] []) = (Completed, [CallOpen true; CallComplete])
  /\ summary 7 (receive_cached env_ok 1 ex0_files None 7 1000 [ex0_pkt_fti] [ex0_pkt_fti])
     = (Completed, [CallOpen true; CallComplete]).
Proof. exact ex_empty_before_fdt. Qed.
(* ===== end block: D48 ===== *)
