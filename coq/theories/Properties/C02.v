(* C02 - Loss recovery: any loss leaving k symbols per block still delivers the object. *)
From FluteV Require Import Model.ObjRecv Model.Recv Spec.RecvSpec Spec.SessionSpec Proofs.RecvProofs Proofs.SessionProofs Proofs.C02Full Proofs.C02Session.
Open Scope N_scope.

(* Object-level statement, proved for the No-Code scheme without content encoding (Proofs/C02Full.v).
   A fresh object receiver for [toi] (or_new) has the FDT entry of the object attached (or_attach, from
   ctx0: OTI [oti], transfer length L = |content| > 0, MD5 [md5], cenc null) and is then fed [pkts] in
   order (receive = fold of or_push).  Premises:
   - nocode_ok: ro_fec = FNoCode, E > 0, B > 0, L > 0, L + E < 2^64 (no u64 overflow in block_length);
   - the writer builder stores the object, open() and every write() succeed, the MD5 is absent or matches;
   - L <= max_size_allocated (the receiver's buffer limit, default 10 MiB)  [memory_limit_refuted];
   - the object has at most 4097 source blocks (window of 2 * MAX_PREALLOCATED_BLOCKS)  [block_window_refuted];
   - every packet is genuine: payload id (sbn, esi) of a source symbol of the RFC 5052 partition, payload =
     the content slice of that symbol (last symbol possibly short); ANY order, ANY duplication;
   - a packet carrying the close-object flag arrives only once the packets up to and including it are
     recoverable (trivial when no packet carries it; true for the in-order last packet)  [close_flag_early_refuted];
   - recoverable = blocks_recoverable false 0 ks 0 (the (sbn, esi) that arrived): every source symbol of
     every block occurs at least once.
   Conclusion: the object is Completed; the log is exactly builder, open, writes whose concatenation is
   [content], one complete (ShapeDone); hence complete_exact and P_C02_object hold for its writer.
   Not covered here: Reed-Solomon / Raptor / RaptorQ (the decoders are oracles of the model), content
   encodings, and the session level above or_attach (FDT reception, Model/Recv.v). *)
Theorem C02_nocode_recoverable_delivers : forall E oti content toi max fid files inst md5 pkts,
  let L := lenN_ content in
  nocode_ok oti L -> fdt_entry_for files inst toi oti L md5 ->
  writer_accepts E toi -> writes_succeed E toi -> md5_good E content md5 ->
  L <= max -> nb_blocks_of oti L <= 4097 ->
  Forall (fun p => genuine_pkt oti content p = true) pkts ->
  close_flag_ok oti L pkts ->
  recoverable oti L pkts = true ->
  let (o, c) := receive E fid files inst toi max pkts in
  r_state o = Completed
  /\ ShapeDone content (toi, 0%nat) toi c
  /\ forall m, complete_exact content (m, calls_of (toi, 0%nat) (c_log c)) = true
                /\ P_C02_object (recoverable oti L pkts) content [(m, calls_of (toi, 0%nat) (c_log c))] = true.
Proof. exact nocode_recoverable_delivers. Qed.
Print Assumptions C02_nocode_recoverable_delivers.

(* no packet carries the close-object flag (carousel / intermediate transfers): the flag premise holds *)
Theorem C02_no_close_flag : forall oti L pkts,
  Forall (fun p => a_close_obj p = false) pkts -> close_flag_ok oti L pkts.
Proof. exact close_flag_ok_noflag. Qed.
Print Assumptions C02_no_close_flag.

(* the close-object flag on the last packet only, of a recoverable list (in-order last transfer, C01) *)
Theorem C02_close_flag_on_last_packet : forall oti L pre p,
  Forall (fun q => a_close_obj q = false) pre -> recoverable oti L (pre ++ [p]) = true ->
  close_flag_ok oti L (pre ++ [p]).
Proof. exact close_flag_ok_last. Qed.
Print Assumptions C02_close_flag_on_last_packet.

(* (1) a block is complete exactly when every source symbol is stored: concat_src succeeds iff all
   of ESI i .. i+n-1 are present *)
Theorem C02_block_reassembles_iff_all_symbols : forall sh n i,
  (forall j, i <= j < i + N.of_nat n -> has_esi j sh = true) <-> concat_src n i sh <> None.
Proof. exact concat_src_spec. Qed.
Print Assumptions C02_block_reassembles_iff_all_symbols.

(* (2) duplicates never change what is stored (first copy wins) *)
Theorem C02_duplicates_are_harmless : forall E oti, ro_fec oti = FNoCode ->
  forall toi sbn esi payload b i d,
  get_esi i (bd_shards b) = Some d ->
  get_esi i (bd_shards (fst (bd_push E toi oti sbn esi payload b))) = Some d.
Proof. exact nocode_first_copy_wins. Qed.
Print Assumptions C02_duplicates_are_harmless.

(* (3) an object that has completed or failed ignores every further packet (late duplicates, the
   packets of later transfers) *)
Theorem C02_closed_object_ignores_packets : forall E p o c,
  r_state o <> Receiving -> or_push E p o c = (o, c).
Proof. exact closed_object_ignores_packets. Qed.
Print Assumptions C02_closed_object_ignores_packets.

Example C02_example_premise :
  blocks_recoverable false 0 [2; 1] 0 [(0,0); (0,1); (1,0); (0,1)] = true
  /\ blocks_recoverable false 0 [2; 1] 0 [(0,0); (1,0)] = false
  /\ blocks_recoverable true 1 [2; 1] 0 [(0,2); (0,1); (1,1)] = true
  /\ P_C02_object true [7] [] = false.
Proof. vm_compute. repeat split. Qed.

(* non-vacuity: a 5-byte object in 2 blocks (E = 2, B = 2, last symbol short), its packets shuffled and
   duplicated: the premises hold, the theorem applies, and the model delivers [1;2;3;4] then [5] *)
Example C02_example_delivery :
  forallb (genuine_pkt ex_oti ex_content) ex_pkts = true
  /\ recoverable ex_oti 5 ex_pkts = true
  /\ map pid_of ex_pkts = [(1, 0); (0, 1); (1, 0); (0, 0); (0, 1)]
  /\ summary 7 (receive env_ok 1 ex_files None 7 1000 ex_pkts)
     = (Completed, [CallOpen true; CallWrite [1; 2; 3; 4] true; CallWrite [5] true; CallComplete]).
Proof. vm_compute. repeat split. Qed.

(* each guard of the theorem is needed: the same kind of genuine, recoverable reception fails when the
   close-object flag arrives early, when the object exceeds max_size_allocated, when it has more than
   4097 blocks and a far block arrives first (Proofs/C02Full.v) *)
Example C02_guards_are_needed :
  fst (summary 7 (receive env_ok 1 ex_files None 7 1000 ex_pkts_flag_first)) = Interrupted
  /\ fst (summary 7 (receive env_ok 1 ex2_files None 7 3 ex2_pkts)) = Errored.
Proof. vm_compute. repeat split. Qed.

(* ---------------- the session level: Model/Recv.v, Proofs/C02Session.v ----------------
   The receiver as a whole (recv_run from recv0 / ctx0) is fed ONE FDT instance, carried by one packet [pf] of TOI 0,
   and the packets of the No-Code object [toi] <> 0, all at the same receiver time [now].  Premises beyond those of
   C02_nocode_recoverable_delivers (whose max is now cf_max_cache cfg, the limit push_obj gives or_new):
   - fdt_pkt_ok pf id foti d (what push_fdt_obj / fr_push / the inner object receiver need): TOI 0, EXT_FDT = id,
     EXT_FTI = (foti, |d|) with foti a No-Code OTI, EXT_CENC absent or null, 0 < |d| <= 1 MiB (the FDT receiver's
     own limit), and the document d is the packet's single source symbol (genuine_pkt, recoverable for [pf] alone);
   - parse_fdt d = Some inst (the parser is an oracle), and inst lists toi with the object's OTI, length, MD5, cenc null
     (fdt_entry_for, the instance OTI as fallback);
   - fdt_live cfg inst pf now: cf_exp_check = false, or Expires >= the sender's clock (EXT_TIME of pf if present, else
     now)  [C02_session_fdt_expired_refuted];
   - every object packet has a_toi = toi, is genuine; any order, any duplication; close flag as in close_flag_ok.
   Conclusion (session_delivered): whatever else the run did (a duplicate after completion may open a second writer
   (toi,1), see C02_session_surprises), the calls of the object's first writer (toi,0) are exactly
   open(ok) . write* . complete with the written bytes = content (delivered_calls), hence complete_exact; and when
   cf_once = true and the entry is not Cache-Control:no-cache, the whole log is builder/open/writes/complete
   (ShapeDone), the object has left rv_objects, rv_error is empty and rv_completed = [toi]. *)
Theorem C02_session_fdt_first_delivers : forall E parse_fdt cfg oti content toi md5 now pf id foti d inst pkts,
  let L := lenN_ content in
  nocode_ok oti L -> toi <> 0 ->
  fdt_pkt_ok pf id foti d -> parse_fdt d = Some inst -> fdt_live cfg inst pf now ->
  fdt_entry_for (fi_files inst) (fi_oti inst) toi oti L md5 ->
  writer_accepts E toi -> writes_succeed E toi -> md5_good E content md5 ->
  L <= cf_max_cache cfg -> nb_blocks_of oti L <= 4097 ->
  Forall (fun p => a_toi p = toi) pkts ->
  Forall (fun p => genuine_pkt oti content p = true) pkts ->
  close_flag_ok oti L pkts ->
  recoverable oti L pkts = true ->
  let '(_, r, c) := recv_run E parse_fdt cfg recv0 (map (fun p => RvPush p now) (pf :: pkts)) ctx0 in
  session_delivered cfg inst content toi r c.
Proof. exact session_fdt_first_delivers. Qed.
Print Assumptions C02_session_fdt_first_delivers.

(* FDT late: the packets pkts1 arrive BEFORE the FDT instance and carry EXT_FTI = (oti, L), no EXT_CENC and no
   close-object flag [C02_session_close_flag_before_fdt_refuted]: they are decoded without FDT and without writer
   (nothing is logged); the instance then opens the writer and flushes the completed blocks from block 0; pkts2 follow.
   genuine / close_flag_ok / recoverable are those of the whole list pkts1 ++ pkts2.  pkts1 = [] is the theorem above. *)
Theorem C02_session_fdt_late_delivers : forall E parse_fdt cfg oti content toi md5 now pf id foti d inst pkts1 pkts2,
  let L := lenN_ content in
  nocode_ok oti L -> toi <> 0 ->
  fdt_pkt_ok pf id foti d -> parse_fdt d = Some inst -> fdt_live cfg inst pf now ->
  fdt_entry_for (fi_files inst) (fi_oti inst) toi oti L md5 ->
  writer_accepts E toi -> writes_succeed E toi -> md5_good E content md5 ->
  L <= cf_max_cache cfg -> nb_blocks_of oti L <= 4097 ->
  Forall (fun p => a_toi p = toi) (pkts1 ++ pkts2) ->
  Forall (fun p => genuine_pkt oti content p = true) (pkts1 ++ pkts2) ->
  Forall (fun p => a_oti p = Some (oti, L) /\ a_cenc p = None /\ a_close_obj p = false) pkts1 ->
  close_flag_ok oti L (pkts1 ++ pkts2) ->
  recoverable oti L (pkts1 ++ pkts2) = true ->
  let '(_, r, c) := recv_run E parse_fdt cfg recv0 (map (fun p => RvPush p now) (pkts1 ++ pf :: pkts2)) ctx0 in
  session_delivered cfg inst content toi r c.
Proof. exact session_fdt_late_delivers. Qed.
Print Assumptions C02_session_fdt_late_delivers.

(* the vocabulary of the two theorems, unfolded once *)
Theorem C02_session_statements : forall cfg inst content toi r c pf id foti d now,
  (session_delivered cfg inst content toi r c <->
   (exists ws, calls_of (toi, 0%nat) (c_log c) = CallOpen true :: ws ++ [CallComplete]
               /\ Forall (fun cl => match cl with CallWrite _ _ => True | _ => False end) ws
               /\ written ws = content)
   /\ (forall m, complete_exact content (m, calls_of (toi, 0%nat) (c_log c)) = true)
   /\ (cf_once cfg = true -> entry_nocache inst toi = false ->
       rv_objects r = [] /\ rv_completed r = [toi] /\ rv_error r = [] /\ ShapeDone content (toi, 0%nat) toi c))
  /\ (fdt_pkt_ok pf id foti d <->
      a_toi pf = 0 /\ a_fdt_id pf = Some id /\ a_oti pf = Some (foti, lenN_ d)
      /\ (a_cenc pf = None \/ a_cenc pf = Some CNull)
      /\ nocode_ok foti (lenN_ d) /\ lenN_ d <= 1048576
      /\ genuine_pkt foti d pf = true /\ recoverable foti (lenN_ d) [pf] = true)
  /\ (fdt_live cfg inst pf now <->
      cf_exp_check cfg = false
      \/ exists ex, fi_expires inst = Some ex /\ (ex <? match a_sct pf with Some t => t | None => now end)%Z = false).
Proof. intros. split; [reflexivity|split; reflexivity]. Qed.
Print Assumptions C02_session_statements.

(* non-vacuity: a toy parser (the document "<>" is the instance listing TOI 7), the FDT packet, then ex_pkts
   (shuffled, duplicated), receive-once: every packet is accepted, TOI 7 ends in rv_completed, the log is the
   delivery; the same with three packets (EXT_FTI) before the FDT packet; both also follow from the theorems
   (ex_session_by_theorem, ex_session_late_by_theorem in Proofs/C02Session.v) *)
Example C02_session_example :
  sess (tx_parse false None) (tx_cfg true false) (tx_fdt None :: ex_pkts)
  = ([POk; POk; POk; POk; POk; POk], [], [7], [], delivered_log)
  /\ sess (tx_parse false None) (tx_cfg true false) (map with_fti (firstn 3 ex_pkts) ++ tx_fdt None :: skipn 3 ex_pkts)
     = ([POk; POk; POk; POk; POk; POk], [], [7], [], delivered_log).
Proof. vm_compute. split; reflexivity. Qed.

(* fdt_live is needed: expiry check on and no Expires, or Expires behind the receiver's clock and no EXT_TIME:
   the instance is never attached, the packets stay cached, nothing is delivered *)
Example C02_session_fdt_expired_refuted :
  sess (tx_parse false None) (tx_cfg true true) (tx_fdt None :: ex_pkts) = ([POk; POk; POk; POk; POk; POk], [7], [], [], [])
  /\ sess (tx_parse false (Some 50%Z)) (tx_cfg true true) (tx_fdt None :: ex_pkts) = ([POk; POk; POk; POk; POk; POk], [7], [], [], [])
  /\ sess (tx_parse false (Some 50%Z)) (tx_cfg true true) (tx_fdt (Some 40%Z) :: ex_pkts)
     = ([POk; POk; POk; POk; POk; POk], [], [7], [], delivered_log).
Proof. exact fdt_expired_refuted. Qed.

(* "no close-object flag before the FDT instance" is needed: the complete in-order transfer (EXT_FTI on every packet,
   B flag on the last) followed by the FDT instance delivers NOTHING - the decoded object is interrupted for want of a
   writer and error-listed; the same packets after the FDT instance are delivered *)
Example C02_session_close_flag_before_fdt_refuted :
  forallb (genuine_pkt ex_oti ex_content) (map with_fti ex_pkts_inorder) = true
  /\ recoverable ex_oti 5 (map with_fti ex_pkts_inorder) = true
  /\ sess (tx_parse false None) (tx_cfg true false) (map with_fti ex_pkts_inorder ++ [tx_fdt None])
     = ([POk; POk; POk; POk], [], [], [7], [])
  /\ sess (tx_parse false None) (tx_cfg true false) (tx_fdt None :: map with_fti ex_pkts_inorder)
     = ([POk; POk; POk; POk], [], [7], [], delivered_log).
Proof. exact close_flag_before_fdt_refuted. Qed.

(* after the delivery: a no-cache object is re-created by any late duplicate (second writer (7,1) opened, also with
   receive-once); with receive-once off a duplicate of symbol (0,0) restarts the reception *)
Example C02_session_surprises :
  sess (tx_parse true None) (tx_cfg true false) (tx_fdt None :: ex_pkts)
  = ([POk; POk; POk; POk; POk; POk], [7], [], [], delivered_log ++ [EvBuilder 7 WStore; EvOpen (7, 1%nat) true])
  /\ sess (tx_parse false None) (tx_cfg false false) (tx_fdt None :: ex_pkts ++ [src_pkt 7 0 0 false [1; 2]])
     = ([POk; POk; POk; POk; POk; POk; POk], [7], [], [], delivered_log ++ [EvBuilder 7 WStore; EvOpen (7, 1%nat) true]).
Proof. vm_compute. split; reflexivity. Qed.

