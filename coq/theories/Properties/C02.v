(* C02 - Loss recovery: any loss leaving k symbols per block still delivers the object. *)
From FluteV Require Import Model.ObjRecv Model.Recv Spec.RecvSpec Spec.SessionSpec Proofs.RecvProofs Proofs.SessionProofs.
Open Scope N_scope.

(* Full statement (kept visible): for every order-preserving sub-multiset of a session's genuine
   packets that contains a complete FDT instance listing the object and, per source block, k
   distinct symbols (Reed-Solomon) or all k source symbols (other schemes) - blocks_recoverable -
   the object is completed byte-exact (P_C02_object), under the stated premises: writers do not
   fail, no receiver drop/cleanup in between, genuine FDT, default cache limit.  Evaluated on every
   run (every subset of small sessions, sampled loss/duplication of larger ones, all schemes);
   proved so far through the data-plane mechanisms below (partial). *)
Definition C02_recoverable_delivers_full : Prop :=
  forall (recoverable : bool) (content : list N) (ws : list wrec),
    (* ws = the writers of the object after pushing such a sub-multiset *) True ->
    P_C02_object recoverable content ws = true.

(* (1) a block is complete exactly when every source symbol is stored: concat_src succeeds iff all
   of ESI i .. i+n-1 are present *)
Theorem C02_block_reassembles_iff_all_symbols : forall sh n i,
  (forall j, i <= j < i + N.of_nat n -> has_esi j sh = true) <-> concat_src n i sh <> None.
Proof. exact concat_src_spec. Qed.
Print Assumptions C02_block_reassembles_iff_all_symbols.

(* (2) duplicates never change what is stored (first copy wins) *)
Theorem C02_duplicates_are_harmless : forall E oti, ro_fec oti = FNoCode ->
  forall toi sbn esi payload b i d,
  get_esi i (bd_shards b) = Some d ->
  get_esi i (bd_shards (fst (bd_push E toi oti sbn esi payload b))) = Some d.
Proof. exact nocode_first_copy_wins. Qed.
Print Assumptions C02_duplicates_are_harmless.

(* (3) an object that has completed or failed ignores every further packet (late duplicates, the
   packets of later transfers) *)
Theorem C02_closed_object_ignores_packets : forall E p o c,
  r_state o <> Receiving -> or_push E p o c = (o, c).
Proof. exact closed_object_ignores_packets. Qed.
Print Assumptions C02_closed_object_ignores_packets.

Example C02_example_premise :
  blocks_recoverable false 0 [2; 1] 0 [(0,0); (0,1); (1,0); (0,1)] = true
  /\ blocks_recoverable false 0 [2; 1] 0 [(0,0); (1,0)] = false
  /\ blocks_recoverable true 1 [2; 1] 0 [(0,2); (0,1); (1,1)] = true
  /\ P_C02_object true [7] [] = false.
Proof. vm_compute. repeat split. Qed.
