(* C02 - Loss recovery: any loss leaving k symbols per block still delivers the object. *)
From FluteV Require Import Model.ObjRecv Model.Recv Spec.RecvSpec Spec.SessionSpec Proofs.RecvProofs Proofs.SessionProofs Proofs.C02Full.
Open Scope N_scope.

(* Object-level statement, proved for the No-Code scheme without content encoding (Proofs/C02Full.v).
   A fresh object receiver for [toi] (or_new) has the FDT entry of the object attached (or_attach, from
   ctx0: OTI [oti], transfer length L = |content| > 0, MD5 [md5], cenc null) and is then fed [pkts] in
   order (receive = fold of or_push).  Premises:
   - nocode_ok: ro_fec = FNoCode, E > 0, B > 0, L > 0, L + E < 2^64 (no u64 overflow in block_length);
   - the writer builder stores the object, open() and every write() succeed, the MD5 is absent or matches;
   - L <= max_size_allocated (the receiver's buffer limit, default 10 MiB)  [memory_limit_refuted];
   - the object has at most 4097 source blocks (window of 2 * MAX_PREALLOCATED_BLOCKS)  [block_window_refuted];
   - every packet is genuine: payload id (sbn, esi) of a source symbol of the RFC 5052 partition, payload =
     the content slice of that symbol (last symbol possibly short); ANY order, ANY duplication;
   - a packet carrying the close-object flag arrives only once the packets up to and including it are
     recoverable (trivial when no packet carries it; true for the in-order last packet)  [close_flag_early_refuted];
   - recoverable = blocks_recoverable false 0 ks 0 (the (sbn, esi) that arrived): every source symbol of
     every block occurs at least once.
   Conclusion: the object is Completed; the log is exactly builder, open, writes whose concatenation is
   [content], one complete (ShapeDone); hence complete_exact and P_C02_object hold for its writer.
   Not covered here: Reed-Solomon / Raptor / RaptorQ (the decoders are oracles of the model), content
   encodings, and the session level above or_attach (FDT reception, Model/Recv.v). *)
Theorem C02_nocode_recoverable_delivers : forall E oti content toi max fid files inst md5 pkts,
  let L := lenN_ content in
  nocode_ok oti L -> fdt_entry_for files inst toi oti L md5 ->
  writer_accepts E toi -> writes_succeed E toi -> md5_good E content md5 ->
  L <= max -> nb_blocks_of oti L <= 4097 ->
  Forall (fun p => genuine_pkt oti content p = true) pkts ->
  close_flag_ok oti L pkts ->
  recoverable oti L pkts = true ->
  let (o, c) := receive E fid files inst toi max pkts in
  r_state o = Completed
  /\ ShapeDone content (toi, 0%nat) toi c
  /\ forall m, complete_exact content (m, calls_of (toi, 0%nat) (c_log c)) = true
                /\ P_C02_object (recoverable oti L pkts) content [(m, calls_of (toi, 0%nat) (c_log c))] = true.
Proof. exact nocode_recoverable_delivers. Qed.
Print Assumptions C02_nocode_recoverable_delivers.

(* no packet carries the close-object flag (carousel / intermediate transfers): the flag premise holds *)
Theorem C02_no_close_flag : forall oti L pkts,
  Forall (fun p => a_close_obj p = false) pkts -> close_flag_ok oti L pkts.
Proof. exact close_flag_ok_noflag. Qed.
Print Assumptions C02_no_close_flag.

(* the close-object flag on the last packet only, of a recoverable list (in-order last transfer, C01) *)
Theorem C02_close_flag_on_last_packet : forall oti L pre p,
  Forall (fun q => a_close_obj q = false) pre -> recoverable oti L (pre ++ [p]) = true ->
  close_flag_ok oti L (pre ++ [p]).
Proof. exact close_flag_ok_last. Qed.
Print Assumptions C02_close_flag_on_last_packet.

(* (1) a block is complete exactly when every source symbol is stored: concat_src succeeds iff all
   of ESI i .. i+n-1 are present *)
Theorem C02_block_reassembles_iff_all_symbols : forall sh n i,
  (forall j, i <= j < i + N.of_nat n -> has_esi j sh = true) <-> concat_src n i sh <> None.
Proof. exact concat_src_spec. Qed.
Print Assumptions C02_block_reassembles_iff_all_symbols.

(* (2) duplicates never change what is stored (first copy wins) *)
Theorem C02_duplicates_are_harmless : forall E oti, ro_fec oti = FNoCode ->
  forall toi sbn esi payload b i d,
  get_esi i (bd_shards b) = Some d ->
  get_esi i (bd_shards (fst (bd_push E toi oti sbn esi payload b))) = Some d.
Proof. exact nocode_first_copy_wins. Qed.
Print Assumptions C02_duplicates_are_harmless.

(* (3) an object that has completed or failed ignores every further packet (late duplicates, the
   packets of later transfers) *)
Theorem C02_closed_object_ignores_packets : forall E p o c,
  r_state o <> Receiving -> or_push E p o c = (o, c).
Proof. exact closed_object_ignores_packets. Qed.
Print Assumptions C02_closed_object_ignores_packets.

Example C02_example_premise :
  blocks_recoverable false 0 [2; 1] 0 [(0,0); (0,1); (1,0); (0,1)] = true
  /\ blocks_recoverable false 0 [2; 1] 0 [(0,0); (1,0)] = false
  /\ blocks_recoverable true 1 [2; 1] 0 [(0,2); (0,1); (1,1)] = true
  /\ P_C02_object true [7] [] = false.
Proof. vm_compute. repeat split. Qed.

(* non-vacuity: a 5-byte object in 2 blocks (E = 2, B = 2, last symbol short), its packets shuffled and
   duplicated: the premises hold, the theorem applies, and the model delivers [1;2;3;4] then [5] *)
Example C02_example_delivery :
  forallb (genuine_pkt ex_oti ex_content) ex_pkts = true
  /\ recoverable ex_oti 5 ex_pkts = true
  /\ map pid_of ex_pkts = [(1, 0); (0, 1); (1, 0); (0, 0); (0, 1)]
  /\ summary 7 (receive env_ok 1 ex_files None 7 1000 ex_pkts)
     = (Completed, [CallOpen true; CallWrite [1; 2; 3; 4] true; CallWrite [5] true; CallComplete]).
Proof. vm_compute. repeat split. Qed.

(* each guard of the theorem is needed: the same kind of genuine, recoverable reception fails when the
   close-object flag arrives early, when the object exceeds max_size_allocated, when it has more than
   4097 blocks and a far block arrives first (Proofs/C02Full.v) *)
Example C02_guards_are_needed :
  fst (summary 7 (receive env_ok 1 ex_files None 7 1000 ex_pkts_flag_first)) = Interrupted
  /\ fst (summary 7 (receive env_ok 1 ex2_files None 7 3 ex2_pkts)) = Errored.
Proof. vm_compute. repeat split. Qed.
