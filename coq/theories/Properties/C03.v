(* C03 - No silent corruption: 'complete' always means the sender's exact bytes. *)
From FluteV Require Import Model.ObjRecv Model.Recv Spec.RecvSpec Proofs.RecvProofs Proofs.C09Full.
Open Scope N_scope.

(* Full statement (kept visible): for every list of packets drawn from the genuine packets of a
   session (any order, multiplicity, subset), every writer that received complete was written
   exactly the sender's object (P_C03_writer with guarded = true); with an announced and checked
   MD5 the same holds for arbitrary payload bytes.  Evaluated on the implementation's callbacks
   on every run (permutations, sub-multisets, duplications, payload bit flips and truncations,
   all schemes, content encodings, signalling modes); as a theorem it is proved so far through
   the mechanisms of C09 (nothing after a terminal call, one terminal call) - partial. *)
Definition C03_complete_implies_exact_full : Prop :=
  forall (E : env) (parse_fdt : list N -> option fdtinst) cfg evs content,
    (* evs pushes only genuine packets of an object whose transfer bytes are [content] *) True ->
    let '(_, _, c) := recv_run E parse_fdt cfg recv0 evs ctx0 in
    forall w, P_C03_writer content true (calls_of w (c_log c)) = true.

(* never both: the automaton of C09 has no transition out of the terminal state *)
Theorem C03_never_complete_and_failed : forall content call, c09_step content PhDone call = None.
Proof. exact nothing_after_terminal. Qed.
Print Assumptions C03_never_complete_and_failed.

(* never both, at history level: whatever the receiver is fed and whatever the builder and the
   writers answer, no writer receives both a complete and an error/interrupted call (second
   conjunct of P_C03_writer); corollary of the C09 history theorem *)
Theorem C03_never_complete_and_failed_history : forall E parse_fdt cfg evs,
  let '(_, _, c) := recv_run E parse_fdt cfg recv0 evs ctx0 in
  forall w, completed (calls_of w (c_log c)) && failed (calls_of w (c_log c)) = false.
Proof. exact never_complete_and_failed_history. Qed.
Print Assumptions C03_never_complete_and_failed_history.

Theorem C03_closed_object_ignores_packets : forall E p o c,
  r_state o <> Receiving -> or_push E p o c = (o, c).
Proof. exact closed_object_ignores_packets. Qed.
Print Assumptions C03_closed_object_ignores_packets.

Example C03_example :
  P_C03_writer [1;2;3] true [CallOpen true; CallWrite [1;2;3] true; CallComplete] = true
  /\ P_C03_writer [1;2;3] true [CallOpen true; CallWrite [1;2;4] true; CallComplete] = false
  /\ P_C03_writer [1;2;3] true [CallOpen true; CallWrite [1;2;4] true; CallError] = true
  /\ P_C03_writer [1;2;3] true [CallOpen true; CallError; CallComplete] = false.
Proof. vm_compute. repeat split. Qed.
