(* C03 - No silent corruption: 'complete' always means the sender's exact bytes. *)
From FluteV Require Import Model.ObjRecv Model.Recv Spec.RecvSpec Proofs.RecvProofs Proofs.C09Full Proofs.C02Full.
Open Scope N_scope.

(* Object-level statement, proved for the No-Code scheme without content encoding (Proofs/C02Full.v):
   a fresh object receiver with the FDT entry of the object attached (OTI, L = |content| > 0, MD5, cenc
   null; the builder stores it and open() succeeds) is fed ANY list of genuine packets - any order, any
   multiplicity, any subset, with or without the close-object flag - whatever write() answers, whatever
   the MD5 check says, whatever max_size_allocated and the number of blocks are.  Then for every writer:
   the bytes written so far are a prefix of [content], and P_C03_writer holds with guarded = true
   (completed implies written = content; never both completed and failed).  The statement quantifies
   over every packet list, hence holds at every point of a reception.
   Not covered: the other FEC schemes, content encodings, altered payloads guarded by MD5, and the
   session level above or_attach (Model/Recv.v). *)
Theorem C03_nocode_complete_implies_exact : forall E oti content toi max fid files inst md5 pkts,
  let L := lenN_ content in
  nocode_ok oti L -> fdt_entry_for files inst toi oti L md5 -> writer_accepts E toi ->
  Forall (fun p => genuine_pkt oti content p = true) pkts ->
  let (o, c) := receive E fid files inst toi max pkts in
  forall w, is_prefix (written (calls_of w (c_log c))) content = true
            /\ P_C03_writer content true (calls_of w (c_log c)) = true.
Proof. exact nocode_safety. Qed.
Print Assumptions C03_nocode_complete_implies_exact.

(* never both: the automaton of C09 has no transition out of the terminal state *)
Theorem C03_never_complete_and_failed : forall content call, c09_step content PhDone call = None.
Proof. exact nothing_after_terminal. Qed.
Print Assumptions C03_never_complete_and_failed.

Theorem C03_closed_object_ignores_packets : forall E p o c,
  r_state o <> Receiving -> or_push E p o c = (o, c).
Proof. exact closed_object_ignores_packets. Qed.
Print Assumptions C03_closed_object_ignores_packets.

(* never both, at history level: whatever the receiver is fed and whatever the builder and the
   writers answer, no writer receives both a complete and an error/interrupted call (second
   conjunct of P_C03_writer); corollary of the C09 history theorem *)
Theorem C03_never_complete_and_failed_history : forall E parse_fdt cfg evs,
  let '(_, _, c) := recv_run E parse_fdt cfg recv0 evs ctx0 in
  forall w, completed (calls_of w (c_log c)) && failed (calls_of w (c_log c)) = false.
Proof. exact never_complete_and_failed_history. Qed.
Print Assumptions C03_never_complete_and_failed_history.

Example C03_example :
  P_C03_writer [1;2;3] true [CallOpen true; CallWrite [1;2;3] true; CallComplete] = true
  /\ P_C03_writer [1;2;3] true [CallOpen true; CallWrite [1;2;4] true; CallComplete] = false
  /\ P_C03_writer [1;2;3] true [CallOpen true; CallWrite [1;2;4] true; CallError] = true
  /\ P_C03_writer [1;2;3] true [CallOpen true; CallError; CallComplete] = false.
Proof. vm_compute. repeat split. Qed.

(* non-vacuity: a strict subset of the packets of a 2-block object (block 1 and half of block 0), then the
   close-object flag early: nothing but prefixes is ever written, and no complete is issued *)
Example C03_example_partial_reception :
  forallb (genuine_pkt ex_oti ex_content) (firstn 3 ex_pkts) = true
  /\ summary 7 (receive env_ok 1 ex_files None 7 1000 (firstn 3 ex_pkts)) = (Receiving, [CallOpen true])
  /\ summary 7 (receive env_ok 1 ex_files None 7 1000 ex_pkts_flag_first) = (Interrupted, [CallOpen true; CallInterrupted]).
Proof. vm_compute. repeat split. Qed.
