(* C03 - No silent corruption: 'complete' always means the sender's exact bytes. *)
From FluteV Require Import Model.ObjRecv Model.Recv Spec.RecvSpec Proofs.RecvProofs Proofs.C09Full Proofs.C02Full Proofs.C02RS.
Open Scope N_scope.

(* Object-level statement, proved for the No-Code scheme without content encoding (Proofs/C02Full.v):
   a fresh object receiver with the FDT entry of the object attached (OTI, L = |content| > 0, MD5, cenc
   null; the builder stores it and open() succeeds) is fed ANY list of genuine packets - any order, any
   multiplicity, any subset, with or without the close-object flag - whatever write() answers, whatever
   the MD5 check says, whatever max_size_allocated and the number of blocks are.  Then for every writer:
   the bytes written so far are a prefix of [content], and P_C03_writer holds with guarded = true
   (completed implies written = content; never both completed and failed).  The statement quantifies
   over every packet list, hence holds at every point of a reception.
   Not covered: the other FEC schemes, content encodings, altered payloads guarded by MD5, and the
   session level above or_attach (Model/Recv.v). *)
Theorem C03_nocode_complete_implies_exact : forall E oti content toi max fid files inst md5 pkts,
  let L := lenN_ content in
  nocode_ok oti L -> fdt_entry_for files inst toi oti L md5 -> writer_accepts E toi ->
  Forall (fun p => genuine_pkt oti content p = true) pkts ->
  let (o, c) := receive E fid files inst toi max pkts in
  forall w, is_prefix (written (calls_of w (c_log c))) content = true
            /\ P_C03_writer content true (calls_of w (c_log c)) = true.
Proof. exact nocode_safety. Qed.
Print Assumptions C03_nocode_complete_implies_exact.

(* never both: the automaton of C09 has no transition out of the terminal state *)
Theorem C03_never_complete_and_failed : forall content call, c09_step content PhDone call = None.
Proof. exact nothing_after_terminal. Qed.
Print Assumptions C03_never_complete_and_failed.

Theorem C03_closed_object_ignores_packets : forall E p o c,
  r_state o <> Receiving -> or_push E p o c = (o, c).
Proof. exact closed_object_ignores_packets. Qed.
Print Assumptions C03_closed_object_ignores_packets.

(* never both, at history level: whatever the receiver is fed and whatever the builder and the
   writers answer, no writer receives both a complete and an error/interrupted call (second
   conjunct of P_C03_writer); corollary of the C09 history theorem *)
Theorem C03_never_complete_and_failed_history : forall E parse_fdt cfg evs,
  let '(_, _, c) := recv_run E parse_fdt cfg recv0 evs ctx0 in
  forall w, completed (calls_of w (c_log c)) && failed (calls_of w (c_log c)) = false.
Proof. exact never_complete_and_failed_history. Qed.
Print Assumptions C03_never_complete_and_failed_history.

Example C03_example :
  P_C03_writer [1;2;3] true [CallOpen true; CallWrite [1;2;3] true; CallComplete] = true
  /\ P_C03_writer [1;2;3] true [CallOpen true; CallWrite [1;2;4] true; CallComplete] = false
  /\ P_C03_writer [1;2;3] true [CallOpen true; CallWrite [1;2;4] true; CallError] = true
  /\ P_C03_writer [1;2;3] true [CallOpen true; CallError; CallComplete] = false.
Proof. vm_compute. repeat split. Qed.

(* non-vacuity: a strict subset of the packets of a 2-block object (block 1 and half of block 0), then the
   close-object flag early: nothing but prefixes is ever written, and no complete is issued *)
Example C03_example_partial_reception :
  forallb (genuine_pkt ex_oti ex_content) (firstn 3 ex_pkts) = true
  /\ summary 7 (receive env_ok 1 ex_files None 7 1000 (firstn 3 ex_pkts)) = (Receiving, [CallOpen true])
  /\ summary 7 (receive env_ok 1 ex_files None 7 1000 ex_pkts_flag_first) = (Interrupted, [CallOpen true; CallInterrupted]).
Proof. vm_compute. repeat split. Qed.

(* ---------------- Reed-Solomon GF(2^8): FEC 5 (FRS28) and FEC 129 (FRS28US), Proofs/C02RS.v ----------------
   Same setting as C03_nocode_complete_implies_exact, for ANY list of genuine source and repair packets, whatever
   the parity, max_size_allocated, the number of blocks, write() and the MD5 are.  The decoder is an oracle; the
   EXPLICIT, TRUSTED hypothesis is rs_oracle_sound E oti content rep toi: called for a block with at least k genuine
   shards, the decoder either fails or answers the padded source block.  With fewer than k shards the model does not
   call it; the hypothesis is needed: C03_rs_wrong_decoder_corrupts. *)
Theorem C03_rs_complete_implies_exact : forall E oti content rep toi max fid files inst md5 pkts,
  let L := lenN_ content in
  rs_scheme_ok oti L -> fdt_entry_for files inst toi oti L md5 -> writer_accepts E toi ->
  rs_oracle_sound E oti content rep toi ->
  Forall (fun p => rs_genuine_pkt oti content rep p = true) pkts ->
  let (o, c) := receive E fid files inst toi max pkts in
  forall w, is_prefix (written (calls_of w (c_log c))) content = true
            /\ P_C03_writer content true (calls_of w (c_log c)) = true.
Proof. exact rs_safety. Qed.
Print Assumptions C03_rs_complete_implies_exact.

Theorem C03_rs_oracle_sound_statement : forall E oti content rep toi,
  rs_oracle_sound E oti content rep toi <->
  (forall s size sh d, s < nb_blocks_of oti (lenN_ content) ->
     rs_k oti (lenN_ content) s <= N.of_nat (length sh) ->
     NoDup (map fst sh)
     /\ Forall (fun p => fst p < rs_k oti (lenN_ content) s + ro_parity oti
                         /\ snd p = rs_symbol oti content rep s (fst p)) sh ->
     e_fec E toi (ro_fec oti) s (rs_k oti (lenN_ content) s) (ro_e oti) size sh = Some d ->
     d = rs_block oti content s).
Proof. intros. reflexivity. Qed.
Print Assumptions C03_rs_oracle_sound_statement.

Theorem C03_rs_mds_decoder_is_sound : forall E oti content rep toi,
  rs_oracle_mds E oti content rep toi -> rs_oracle_sound E oti content rep toi.
Proof. exact rs_oracle_mds_sound. Qed.
Print Assumptions C03_rs_mds_decoder_is_sound.

(* non-vacuity: the toy XOR decoder is sound; a strict subset (block 1 only) writes nothing *)
Example C03_rs_example_partial_reception :
  rs_oracle_sound env_xor exr_oti exr_content exr_rep 7
  /\ forallb (rs_genuine_pkt exr_oti exr_content exr_rep) (firstn 3 exr_pkts) = true
  /\ summary 7 (receive env_xor 1 exr_files None 7 1000 (firstn 3 exr_pkts)) = (Receiving, [CallOpen true]).
Proof. split; [exact (rs_oracle_mds_sound _ _ _ _ _ xor_dec_mds)|]. vm_compute. repeat split. Qed.

(* the hypothesis is needed: genuine packets, a decoder answering a wrong block, no MD5: wrong bytes, Completed *)
Example C03_rs_wrong_decoder_corrupts :
  forallb (rs_genuine_pkt exr_oti exr_content exr_rep) exr_pkts = true
  /\ summary 7 (receive env_bad 1 exr_files None 7 1000 exr_pkts)
     = (Completed, [CallOpen true; CallWrite [9; 9; 9; 9] true; CallWrite [9] true; CallComplete]).
Proof. exact rs_wrong_decoder_corrupts. Qed.

(* ---------------- RaptorQ (FEC 6) and Raptor (FEC 1), Proofs/C02RS.v ----------------
   Safety for any genuine packets - whatever their sizes, the scheme-specific information and the number of symbols
   of a block are - under the EXPLICIT, TRUSTED hypothesis fq_oracle_sound (given genuine symbols with distinct ESI -
   Raptor: zero-padded to ceil(block length / k) as the block decoder stores them, RaptorQ: all of E bytes, the others
   being discarded (fixes D10) - the decoder fails or answers the block of the object, padded only if it is the last;
   unfolded in C02_fq_oracle_statements). *)
Theorem C03_fq_complete_implies_exact : forall E oti content enc toi max fid files inst md5 pkts,
  let L := lenN_ content in
  fq_scheme_ok oti L -> fdt_entry_for files inst toi oti L md5 -> writer_accepts E toi ->
  fq_oracle_sound E oti content enc toi ->
  Forall (fun p => fq_genuine_pkt oti content enc p = true) pkts ->
  let (o, c) := receive E fid files inst toi max pkts in
  forall w, is_prefix (written (calls_of w (c_log c))) content = true
            /\ P_C03_writer content true (calls_of w (c_log c)) = true.
Proof. exact fq_safety. Qed.
Print Assumptions C03_fq_complete_implies_exact.

Example C03_fq_example_partial_reception :
  forallb (fq_genuine_pkt exq_oti exr_content exq_enc) (firstn 4 exq_pkts) = true
  /\ summary 7 (receive env_sys 1 exq_files None 7 1000 (firstn 4 exq_pkts)) = (Receiving, [CallOpen true]).
Proof. vm_compute. repeat split. Qed.

(* RaptorQ: a symbol whose size is not E is discarded, nothing wrong is written; parameters the decoder refuses: Errored,
   nothing written *)
Example C03_fq_example_discarded_and_refused :
  summary 7 (receive env_sys 1 exq_files None 7 1000 exf_pkts) = (Receiving, [CallOpen true; CallWrite [1; 2; 3; 4] true])
  /\ summary 7 (receive env_sys 1 (exd_files (1, 1, 4)) None 7 1000 exq_pkts) = (Errored, [CallOpen true; CallError]).
Proof. vm_compute. repeat split. Qed.

(* ===== block: C03Session ===== *)
(* C03 at the RECEIVER level (Model/Recv.v, recv_run from recv0/ctx0) and its MD5 clause; Proofs/C03Session.v.
   Every statement is about the writers (toi, n), n = 0, 1, ...: the successive object instances of one TOI (with
   receive-once off, or Cache-Control no-cache, an object is received again after completion).
   Events: ANY list of recv_run events.  Packets of TOI 0 (FDT instances: any id, complete or not, any order, duplicates,
   any FEC), packets of other TOIs (not necessarily genuine), unparsable datagrams, RvCleanup with arbitrary expired
   sets and RvDrop are unconstrained; the builder, open() and write() oracles of E are arbitrary.
   fdt_lists: every instance the parse_fdt oracle yields that lists [toi] lists it with this OTI, this transfer length,
   no content encoding (and, for the MD5 clause, the digest of the content). *)
From FluteV Require Import Proofs.C03Session.

(* G1 + G2: the packets of [toi] are genuine No-Code packets (any subset, order, multiplicity, transfer, with or without
   close flags, before or after the FDT instance) whose EXT_FTI / EXT_CENC, if present, agree with the object
   (pkt_ext_ok - needed: C03_ext_fti_needed, C03_ext_cenc_needed); whatever the MD5 attribute and the other traffic *)
Theorem C03_session_nocode_complete_implies_exact : forall E parse_fdt cfg oti content toi evs,
  let L := lenN_ content in
  toi <> 0 -> nocode_ok oti L -> fdt_lists parse_fdt toi oti L (fun _ => True) ->
  Forall (ev_genuine oti content toi) evs ->
  let '(_, _, c) := recv_run E parse_fdt cfg recv0 evs ctx0 in
  forall n, is_prefix (written (calls_of (toi, n) (c_log c))) content = true
            /\ P_C03_writer content true (calls_of (toi, n) (c_log c)) = true.
Proof. exact nocode_session_safety. Qed.
Print Assumptions C03_session_nocode_complete_implies_exact.

(* G1: the same when only the FDT and the object are on the channel *)
Theorem C03_session_nocode_single_object : forall E parse_fdt cfg oti content toi evs,
  let L := lenN_ content in
  toi <> 0 -> nocode_ok oti L -> fdt_lists parse_fdt toi oti L (fun _ => True) ->
  Forall (ev_single oti content toi) evs ->
  let '(_, _, c) := recv_run E parse_fdt cfg recv0 evs ctx0 in
  forall n, is_prefix (written (calls_of (toi, n) (c_log c))) content = true
            /\ P_C03_writer content true (calls_of (toi, n) (c_log c)) = true.
Proof. exact nocode_session_safety_single. Qed.
Print Assumptions C03_session_nocode_single_object.

Theorem C03_session_premises_statement : forall oti content toi L parse_fdt md5c E e p,
  (ev_genuine oti content toi e <->
     match e with
     | RvPush p _ => a_toi p = toi -> genuine_pkt oti content p = true /\ pkt_ext_ok oti (lenN_ content) p
     | _ => True
     end)
  /\ (pkt_ext_ok oti L p <->
        (a_oti p = None \/ a_oti p = Some (oti, L)) /\ (a_cenc p = None \/ a_cenc p = Some CNull))
  /\ (pkt_len_ok L p <->
        match a_oti p with None => True | Some (_, l) => l = L end /\ (a_cenc p = None \/ a_cenc p = Some CNull))
  /\ (ev_anybytes L toi e <-> match e with RvPush p _ => a_toi p = toi -> pkt_len_ok L p | _ => True end)
  /\ (fdt_lists parse_fdt toi oti L md5c <->
        forall d i f, parse_fdt d = Some i -> find (fun f => ff_toi f =? toi) (fi_files i) = Some f ->
          ff_cenc f = CNull /\ match ff_oti f with Some x => Some x | None => fi_oti i end = Some oti
          /\ ff_tlen f = L /\ md5c (ff_md5 f))
  /\ (md5_injective_at E content <->
        forall b, length b = length content -> e_md5 E b = e_md5 E content -> b = content).
Proof. intros. do 5 (split; [reflexivity|]). reflexivity. Qed.
Print Assumptions C03_session_premises_statement.

(* G3 (MD5 clause), receiver level.  The packets of [toi] are ARBITRARY - any payload id, any payload bytes (in
   particular packets of the right shape with altered bytes: shaped_pkt), any OTI in EXT_FTI provided the announced
   transfer length is that of the object, no EXT_CENC other than null - and the FDT may announce ANY FEC scheme: the
   entry carries the MD5 of the content, the writer checks it (e_md5_enabled), and MD5 is IDEALISED as collision-free
   on byte strings of the length of the content (md5_injective_at: a trusted, false-in-principle hypothesis).
   Then a complete means exactly the content (and never complete + error).  No hypothesis on the FEC decoder oracle. *)
Theorem C03_md5_session_complete_implies_exact : forall E parse_fdt cfg oti content toi evs,
  let L := lenN_ content in
  toi <> 0 -> 0 < L -> e_md5_enabled E = true -> md5_injective_at E content ->
  fdt_lists parse_fdt toi oti L (fun m => m = Some (e_md5 E content)) ->
  Forall (ev_anybytes L toi) evs ->
  let '(_, _, c) := recv_run E parse_fdt cfg recv0 evs ctx0 in
  forall n, P_C03_writer content true (calls_of (toi, n) (c_log c)) = true.
Proof. exact md5_session_safety. Qed.
Print Assumptions C03_md5_session_complete_implies_exact.

(* G3, object level (the setting of C03_nocode_complete_implies_exact) *)
Theorem C03_md5_object_complete_implies_exact : forall E oti content toi max fid files inst pkts,
  let L := lenN_ content in
  toi <> 0 -> 0 < L -> e_md5_enabled E = true -> md5_injective_at E content ->
  fdt_entry_for files inst toi oti L (Some (e_md5 E content)) ->
  Forall (fun p => a_toi p = toi /\ pkt_len_ok L p) pkts ->
  let (o, c) := receive E fid files inst toi max pkts in
  forall n, P_C03_writer content true (calls_of (toi, n) (c_log c)) = true.
Proof. exact md5_object_safety. Qed.
Print Assumptions C03_md5_object_complete_implies_exact.

(* packets of the right shape (genuine up to the payload bytes) are an instance of "arbitrary" *)
Theorem C03_genuine_is_shaped : forall oti content p,
  genuine_pkt oti content p = true -> shaped_pkt oti (lenN_ content) p = true.
Proof. exact genuine_is_shaped. Qed.
Print Assumptions C03_genuine_is_shaped.

(* G3, second half (object level, No-Code): every source symbol is received, all packets carry the bytes of ANOTHER
   byte string of the same length (payloads altered consistently: duplicates of a symbol carry the same altered
   bytes): the object is never completed and its writer ends with error()/interrupted, whatever write() answers and
   whatever the memory limit and the close flags are *)
Theorem C03_md5_altered_ends_in_error : forall E oti content content' toi max fid files inst pkts,
  let L := lenN_ content in
  toi <> 0 -> nocode_ok oti L -> length content' = length content -> content' <> content ->
  e_md5_enabled E = true -> md5_injective_at E content ->
  fdt_entry_for files inst toi oti L (Some (e_md5 E content)) -> writer_accepts E toi ->
  Forall (fun p => genuine_pkt oti content' p = true /\ a_toi p = toi /\ pkt_len_ok L p) pkts ->
  recoverable oti L pkts = true ->
  let (o, c) := receive E fid files inst toi max pkts in
  (r_state o = Errored \/ r_state o = Interrupted)
  /\ failed (calls_of (toi, 0%nat) (c_log c)) = true /\ completed (calls_of (toi, 0%nat) (c_log c)) = false.
Proof. exact md5_altered_ends_in_error. Qed.
Print Assumptions C03_md5_altered_ends_in_error.

(* non-vacuity: a complete transfer, a time-out, then a PARTIAL second transfer of the same TOI (receive-once off)
   interleaved with a packet of another TOI: the second writer (7,1) receives a strict prefix; the theorem applies *)
Example C03_session_example_second_transfer :
  Forall (ev_genuine ex_oti ex_content 7) c3_evs_two
  /\ c3_log env_ok None c3_evs_two
     = [EvBuilder 7 WStore; EvOpen (7, 0%nat) true; EvWrite (7, 0%nat) [1; 2; 3; 4] true; EvWrite (7, 0%nat) [5] true;
        EvComplete (7, 0%nat);
        EvBuilder 7 WStore; EvOpen (7, 1%nat) true; EvWrite (7, 1%nat) [1; 2; 3; 4] true]
  /\ (let '(_, _, c) := recv_run env_ok (c3_parse None) c3_cfg recv0 c3_evs_two ctx0 in
      forall n, is_prefix (written (calls_of (7, n) (c_log c))) ex_content = true
                /\ P_C03_writer ex_content true (calls_of (7, n) (c_log c)) = true).
Proof. split; [exact c3_evs_two_ok|]. split; [vm_compute; reflexivity|exact c3_two_transfers_by_theorem]. Qed.

(* non-vacuity of the MD5 clause: one payload byte altered in transit ([3;4] -> [3;9]; toy digest = identity): all blocks
   are received and written, the digest differs, the writer ends with error(); without the MD5 attribute the same
   session is COMPLETED with the wrong bytes *)
Example C03_md5_example_altered_payload :
  c3_log c3_env (Some ex_content) (c3_sess c3_env (Some ex_content) (c3_fdt :: c3_pkts_altered))
  = [EvBuilder 7 WStore; EvOpen (7, 0%nat) true; EvWrite (7, 0%nat) [1; 2; 3; 9] true; EvWrite (7, 0%nat) [5] true;
     EvError (7, 0%nat)]
  /\ forallb (shaped_pkt ex_oti 5) c3_pkts_altered = true
  /\ forallb (genuine_pkt ex_oti ex_content) c3_pkts_altered = false
  /\ c3_log c3_env None (c3_sess c3_env None (c3_fdt :: c3_pkts_altered))
     = [EvBuilder 7 WStore; EvOpen (7, 0%nat) true; EvWrite (7, 0%nat) [1; 2; 3; 9] true; EvWrite (7, 0%nat) [5] true;
        EvComplete (7, 0%nat)].
Proof. vm_compute. repeat split. Qed.

Example C03_md5_example_by_theorem :
  (let '(_, _, c) := recv_run c3_env (c3_parse (Some ex_content)) c3_cfg recv0
                               (c3_sess c3_env (Some ex_content) (c3_fdt :: c3_pkts_altered)) ctx0 in
   forall n, P_C03_writer ex_content true (calls_of (7, n) (c_log c)) = true)
  /\ (let (o, c) := receive c3_env 1 (fi_files (c3_inst (Some ex_content))) None 7 1000 c3_pkts_altered in
      (r_state o = Errored \/ r_state o = Interrupted)
      /\ failed (calls_of (7, 0%nat) (c_log c)) = true /\ completed (calls_of (7, 0%nat) (c_log c)) = false).
Proof. exact c3_altered_by_theorem. Qed.

(* pkt_ext_ok is needed (genuine payloads, no MD5): a first packet announcing transfer length 4 in EXT_FTI wins over the
   FDT instance (5): completed with 4 bytes; a first packet with EXT_CENC = zlib wins over the FDT entry (no
   encoding): the writer receives what the inflater makes of the bytes *)
Example C03_ext_fti_needed :
  genuine_pkt ex_oti ex_content (c3_with (Some (ex_oti, 4)) None (src_pkt 7 0 0 false [1; 2])) = true
  /\ c3_log env_ok None (c3_sess env_ok None
       [c3_with (Some (ex_oti, 4)) None (src_pkt 7 0 0 false [1; 2]); c3_fdt; src_pkt 7 0 1 false [3; 4]])
     = [EvBuilder 7 WStore; EvOpen (7, 0%nat) true; EvWrite (7, 0%nat) [1; 2; 3; 4] true; EvComplete (7, 0%nat)].
Proof. exact ext_fti_needed_refuted. Qed.
Example C03_ext_cenc_needed :
  genuine_pkt ex_oti ex_content (c3_with None (Some CZlib) (src_pkt 7 0 0 false [1; 2])) = true
  /\ c3_log c3_env None (c3_sess c3_env None
       [c3_with None (Some CZlib) (src_pkt 7 0 0 false [1; 2]); c3_fdt; src_pkt 7 0 1 false [3; 4]; src_pkt 7 1 0 false [5]])
     = [EvBuilder 7 WStore; EvOpen (7, 0%nat) true; EvWrite (7, 0%nat) [9; 9; 9; 9] true; EvWrite (7, 0%nat) [9] true;
        EvComplete (7, 0%nat)].
Proof. exact ext_cenc_needed_refuted. Qed.
(* G4: the same receiver-level statement for Reed-Solomon GF(2^8) (FEC 5, 129): genuine source and repair packets of
   [toi] among arbitrary other traffic, under the EXPLICIT, TRUSTED hypothesis rs_oracle_sound (see
   C03_rs_oracle_sound_statement); needed: C03_rs_wrong_decoder_corrupts *)
Theorem C03_session_rs_complete_implies_exact : forall E parse_fdt cfg oti content rep toi evs,
  let L := lenN_ content in
  toi <> 0 -> rs_scheme_ok oti L -> rs_oracle_sound E oti content rep toi ->
  fdt_lists parse_fdt toi oti L (fun _ => True) ->
  Forall (ev_rs_genuine oti content rep toi) evs ->
  let '(_, _, c) := recv_run E parse_fdt cfg recv0 evs ctx0 in
  forall n, is_prefix (written (calls_of (toi, n) (c_log c))) content = true
            /\ P_C03_writer content true (calls_of (toi, n) (c_log c)) = true.
Proof. exact rs_session_safety. Qed.
Print Assumptions C03_session_rs_complete_implies_exact.

(* ... and for RaptorQ (FEC 6) / Raptor (FEC 1), under fq_oracle_sound *)
Theorem C03_session_fq_complete_implies_exact : forall E parse_fdt cfg oti content enc toi evs,
  let L := lenN_ content in
  toi <> 0 -> fq_scheme_ok oti L -> fq_oracle_sound E oti content enc toi ->
  fdt_lists parse_fdt toi oti L (fun _ => True) ->
  Forall (ev_fq_genuine oti content enc toi) evs ->
  let '(_, _, c) := recv_run E parse_fdt cfg recv0 evs ctx0 in
  forall n, is_prefix (written (calls_of (toi, n) (c_log c))) content = true
            /\ P_C03_writer content true (calls_of (toi, n) (c_log c)) = true.
Proof. exact fq_session_safety. Qed.
Print Assumptions C03_session_fq_complete_implies_exact.

Theorem C03_session_rs_premises_statement : forall oti content rep enc toi e,
  (ev_rs_genuine oti content rep toi e <->
     match e with
     | RvPush p _ => a_toi p = toi -> rs_genuine_pkt oti content rep p = true /\ pkt_ext_ok oti (lenN_ content) p
     | _ => True
     end)
  /\ (ev_fq_genuine oti content enc toi e <->
        match e with
        | RvPush p _ => a_toi p = toi -> fq_genuine_pkt oti content enc p = true /\ pkt_ext_ok oti (lenN_ content) p
        | _ => True
        end).
Proof. intros. split; reflexivity. Qed.
Print Assumptions C03_session_rs_premises_statement.

(* non-vacuity (Reed-Solomon, toy XOR decoder): two packets before the FDT instance, the instance, the rest - block 0 is
   rebuilt from one source symbol and the parity symbol - then the start of a second transfer *)
Example C03_session_rs_example :
  Forall (ev_rs_genuine exr_oti exr_content exr_rep 7) c3r_evs
  /\ (let '(_, _, c) := recv_run env_xor c3r_parse c3_cfg recv0 c3r_evs ctx0 in c_log c)
     = [EvBuilder 7 WStore; EvOpen (7, 0%nat) true; EvWrite (7, 0%nat) [1; 2; 3; 4] true; EvWrite (7, 0%nat) [5] true;
        EvComplete (7, 0%nat);
        EvBuilder 7 WStore; EvOpen (7, 1%nat) true; EvWrite (7, 1%nat) [1; 2; 3; 4] true]
  /\ (let '(_, _, c) := recv_run env_xor c3r_parse c3_cfg recv0 c3r_evs ctx0 in
      forall n, is_prefix (written (calls_of (7, n) (c_log c))) exr_content = true
                /\ P_C03_writer exr_content true (calls_of (7, n) (c_log c)) = true).
Proof. split; [exact c3r_evs_ok|]. split; [vm_compute; reflexivity|exact c3r_by_theorem]. Qed.
(* ===== end block: C03Session ===== *)

From FluteV Require Import Proofs.C02Cenc.
(* ===== block: C02Cenc ===== *)
(* C03 for CONTENT-ENCODED objects (Content-Encoding gzip / deflate / zlib), No-Code, object level; Proofs/C02Cenc.v.
   The setting of C03_nocode_complete_implies_exact with the packets carrying the transfer-encoded bytes [transfer], the
   FDT entry carrying Content-Encoding ce <> null (cenc_entry_for: any MD5, any Content-Length attribute), under the
   EXPLICIT, TRUSTED hypothesis inflate_oracle_blocks on the inflate oracle (unfolded in C02_cenc_statements): ANY list of
   genuine packets of [transfer] - any order, multiplicity, subset, with or without the close-object flag - whatever
   write() answers, whatever the MD5 check says, whatever max_size_allocated and the number of blocks are.  Then for
   every writer the bytes written so far are a prefix of the CONTENT, completed implies written = content, never both
   completed and failed.  The hypothesis is needed: C03_cenc_wrong_inflater_corrupts.
   Not covered: the receiver level for arbitrary event lists (section Walk of Proofs/C03Session.v fixes cenc = null and
   one byte string for what the packets carry and what is written), the oracle FEC schemes with a content encoding. *)
Theorem C03_cenc_complete_implies_exact : forall E oti transfer content ce toi max fid files inst md5 clen pkts,
  let L := lenN_ transfer in
  nocode_ok oti L -> ce <> CNull -> cenc_entry_for files inst toi oti L ce md5 clen ->
  inflate_oracle_blocks E ce oti transfer content -> writer_accepts E toi ->
  Forall (fun p => genuine_pkt oti transfer p = true) pkts ->
  let (o, c) := receive E fid files inst toi max pkts in
  forall w, is_prefix (written (calls_of w (c_log c))) content = true
            /\ P_C03_writer content true (calls_of w (c_log c)) = true.
Proof. exact cenc_safety. Qed.
Print Assumptions C03_cenc_complete_implies_exact.

(* non-vacuity: the toy decoder satisfies the hypothesis; block 1 and half of block 0: nothing is written; block 0
   complete and half of block 1: the decoded part of block 0 (the header is dropped), no complete *)
Example C03_cenc_example_partial_reception :
  inflate_oracle_blocks env_toy CGzip ex_oti exc_transfer exc_content
  /\ summary 7 (receive env_toy 1 (exc_files CGzip (Some exc_content) (Some 5)) None 7 1000 (firstn 3 exc_pkts))
     = (Receiving, [CallOpen true])
  /\ summary 7 (receive env_toy 1 (exc_files CGzip (Some exc_content) (Some 5)) None 7 1000 (skipn 1 exc_pkts))
     = (Receiving, [CallOpen true; CallWrite [1; 2] true]).
Proof. split; [exact (inflate_oracle_ok_blocks _ _ _ _ _ (toy_oracle_ok CGzip 31 139 exc_content))|]. vm_compute. repeat split. Qed.

(* the hypothesis is needed: genuine packets, an inflater answering other bytes, no MD5: wrong bytes, Completed *)
Example C03_cenc_wrong_inflater_corrupts :
  forallb (genuine_pkt ex_oti exc_transfer) exc_pkts = true
  /\ summary 7 (receive env_wrong 1 (exc_files CGzip None (Some 5)) None 7 1000 exc_pkts)
     = (Completed, [CallOpen true; CallWrite [9; 9] true; CallWrite [9; 9; 9] true; CallComplete]).
Proof. vm_compute. repeat split. Qed.
(* ===== end block: C02Cenc ===== *)
