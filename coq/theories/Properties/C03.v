(* C03 - No silent corruption: 'complete' always means the sender's exact bytes. *)
From FluteV Require Import Model.ObjRecv Model.Recv Spec.RecvSpec Proofs.RecvProofs Proofs.C09Full Proofs.C02Full Proofs.C02RS.
Open Scope N_scope.

(* Object-level statement, proved for the No-Code scheme without content encoding (Proofs/C02Full.v):
   a fresh object receiver with the FDT entry of the object attached (OTI, L = |content| > 0, MD5, cenc
   null; the builder stores it and open() succeeds) is fed ANY list of genuine packets - any order, any
   multiplicity, any subset, with or without the close-object flag - whatever write() answers, whatever
   the MD5 check says, whatever max_size_allocated and the number of blocks are.  Then for every writer:
   the bytes written so far are a prefix of [content], and P_C03_writer holds with guarded = true
   (completed implies written = content; never both completed and failed).  The statement quantifies
   over every packet list, hence holds at every point of a reception.
   Not covered: the other FEC schemes, content encodings, altered payloads guarded by MD5, and the
   session level above or_attach (Model/Recv.v). *)
Theorem C03_nocode_complete_implies_exact : forall E oti content toi max fid files inst md5 pkts,
  let L := lenN_ content in
  nocode_ok oti L -> fdt_entry_for files inst toi oti L md5 -> writer_accepts E toi ->
  Forall (fun p => genuine_pkt oti content p = true) pkts ->
  let (o, c) := receive E fid files inst toi max pkts in
  forall w, is_prefix (written (calls_of w (c_log c))) content = true
            /\ P_C03_writer content true (calls_of w (c_log c)) = true.
Proof. exact nocode_safety. Qed.
Print Assumptions C03_nocode_complete_implies_exact.

(* never both: the automaton of C09 has no transition out of the terminal state *)
Theorem C03_never_complete_and_failed : forall content call, c09_step content PhDone call = None.
Proof. exact nothing_after_terminal. Qed.
Print Assumptions C03_never_complete_and_failed.

Theorem C03_closed_object_ignores_packets : forall E p o c,
  r_state o <> Receiving -> or_push E p o c = (o, c).
Proof. exact closed_object_ignores_packets. Qed.
Print Assumptions C03_closed_object_ignores_packets.

(* never both, at history level: whatever the receiver is fed and whatever the builder and the
   writers answer, no writer receives both a complete and an error/interrupted call (second
   conjunct of P_C03_writer); corollary of the C09 history theorem *)
Theorem C03_never_complete_and_failed_history : forall E parse_fdt cfg evs,
  let '(_, _, c) := recv_run E parse_fdt cfg recv0 evs ctx0 in
  forall w, completed (calls_of w (c_log c)) && failed (calls_of w (c_log c)) = false.
Proof. exact never_complete_and_failed_history. Qed.
Print Assumptions C03_never_complete_and_failed_history.

Example C03_example :
  P_C03_writer [1;2;3] true [CallOpen true; CallWrite [1;2;3] true; CallComplete] = true
  /\ P_C03_writer [1;2;3] true [CallOpen true; CallWrite [1;2;4] true; CallComplete] = false
  /\ P_C03_writer [1;2;3] true [CallOpen true; CallWrite [1;2;4] true; CallError] = true
  /\ P_C03_writer [1;2;3] true [CallOpen true; CallError; CallComplete] = false.
Proof. vm_compute. repeat split. Qed.

(* non-vacuity: a strict subset of the packets of a 2-block object (block 1 and half of block 0), then the
   close-object flag early: nothing but prefixes is ever written, and no complete is issued *)
Example C03_example_partial_reception :
  forallb (genuine_pkt ex_oti ex_content) (firstn 3 ex_pkts) = true
  /\ summary 7 (receive env_ok 1 ex_files None 7 1000 (firstn 3 ex_pkts)) = (Receiving, [CallOpen true])
  /\ summary 7 (receive env_ok 1 ex_files None 7 1000 ex_pkts_flag_first) = (Interrupted, [CallOpen true; CallInterrupted]).
Proof. vm_compute. repeat split. Qed.

(* ---------------- Reed-Solomon GF(2^8): FEC 5 (FRS28) and FEC 129 (FRS28US), Proofs/C02RS.v ----------------
   Same setting as C03_nocode_complete_implies_exact, for ANY list of genuine source and repair packets, whatever
   the parity, max_size_allocated, the number of blocks, write() and the MD5 are.  The decoder is an oracle; the
   EXPLICIT, TRUSTED hypothesis is rs_oracle_sound E oti content rep toi: called for a block with at least k genuine
   shards, the decoder either fails or answers the padded source block.  With fewer than k shards the model does not
   call it; the hypothesis is needed: C03_rs_wrong_decoder_corrupts. *)
Theorem C03_rs_complete_implies_exact : forall E oti content rep toi max fid files inst md5 pkts,
  let L := lenN_ content in
  rs_scheme_ok oti L -> fdt_entry_for files inst toi oti L md5 -> writer_accepts E toi ->
  rs_oracle_sound E oti content rep toi ->
  Forall (fun p => rs_genuine_pkt oti content rep p = true) pkts ->
  let (o, c) := receive E fid files inst toi max pkts in
  forall w, is_prefix (written (calls_of w (c_log c))) content = true
            /\ P_C03_writer content true (calls_of w (c_log c)) = true.
Proof. exact rs_safety. Qed.
Print Assumptions C03_rs_complete_implies_exact.

Theorem C03_rs_oracle_sound_statement : forall E oti content rep toi,
  rs_oracle_sound E oti content rep toi <->
  (forall s size sh d, s < nb_blocks_of oti (lenN_ content) ->
     rs_k oti (lenN_ content) s <= N.of_nat (length sh) ->
     NoDup (map fst sh)
     /\ Forall (fun p => fst p < rs_k oti (lenN_ content) s + ro_parity oti
                         /\ snd p = rs_symbol oti content rep s (fst p)) sh ->
     e_fec E toi (ro_fec oti) s (rs_k oti (lenN_ content) s) (ro_e oti) size sh = Some d ->
     d = rs_block oti content s).
Proof. intros. reflexivity. Qed.
Print Assumptions C03_rs_oracle_sound_statement.

Theorem C03_rs_mds_decoder_is_sound : forall E oti content rep toi,
  rs_oracle_mds E oti content rep toi -> rs_oracle_sound E oti content rep toi.
Proof. exact rs_oracle_mds_sound. Qed.
Print Assumptions C03_rs_mds_decoder_is_sound.

(* non-vacuity: the toy XOR decoder is sound; a strict subset (block 1 only) writes nothing *)
Example C03_rs_example_partial_reception :
  rs_oracle_sound env_xor exr_oti exr_content exr_rep 7
  /\ forallb (rs_genuine_pkt exr_oti exr_content exr_rep) (firstn 3 exr_pkts) = true
  /\ summary 7 (receive env_xor 1 exr_files None 7 1000 (firstn 3 exr_pkts)) = (Receiving, [CallOpen true]).
Proof. split; [exact (rs_oracle_mds_sound _ _ _ _ _ xor_dec_mds)|]. vm_compute. repeat split. Qed.

(* the hypothesis is needed: genuine packets, a decoder answering a wrong block, no MD5: wrong bytes, Completed *)
Example C03_rs_wrong_decoder_corrupts :
  forallb (rs_genuine_pkt exr_oti exr_content exr_rep) exr_pkts = true
  /\ summary 7 (receive env_bad 1 exr_files None 7 1000 exr_pkts)
     = (Completed, [CallOpen true; CallWrite [9; 9; 9; 9] true; CallWrite [9] true; CallComplete]).
Proof. exact rs_wrong_decoder_corrupts. Qed.

(* ---------------- RaptorQ (FEC 6) and Raptor (FEC 1), Proofs/C02RS.v ----------------
   Safety for any genuine packets - whatever their sizes, the scheme-specific information and the number of symbols
   of a block are - under the EXPLICIT, TRUSTED hypothesis fq_oracle_sound (given genuine symbols with distinct ESI -
   Raptor: zero-padded to ceil(block length / k) as the block decoder stores them, RaptorQ: all of E bytes, the others
   being discarded (fixes D10) - the decoder fails or answers the block of the object, padded only if it is the last;
   unfolded in C02_fq_oracle_statements). *)
Theorem C03_fq_complete_implies_exact : forall E oti content enc toi max fid files inst md5 pkts,
  let L := lenN_ content in
  fq_scheme_ok oti L -> fdt_entry_for files inst toi oti L md5 -> writer_accepts E toi ->
  fq_oracle_sound E oti content enc toi ->
  Forall (fun p => fq_genuine_pkt oti content enc p = true) pkts ->
  let (o, c) := receive E fid files inst toi max pkts in
  forall w, is_prefix (written (calls_of w (c_log c))) content = true
            /\ P_C03_writer content true (calls_of w (c_log c)) = true.
Proof. exact fq_safety. Qed.
Print Assumptions C03_fq_complete_implies_exact.

Example C03_fq_example_partial_reception :
  forallb (fq_genuine_pkt exq_oti exr_content exq_enc) (firstn 4 exq_pkts) = true
  /\ summary 7 (receive env_sys 1 exq_files None 7 1000 (firstn 4 exq_pkts)) = (Receiving, [CallOpen true]).
Proof. vm_compute. repeat split. Qed.

(* RaptorQ: a symbol whose size is not E is discarded, nothing wrong is written; parameters the decoder refuses: Errored,
   nothing written *)
Example C03_fq_example_discarded_and_refused :
  summary 7 (receive env_sys 1 exq_files None 7 1000 exf_pkts) = (Receiving, [CallOpen true; CallWrite [1; 2; 3; 4] true])
  /\ summary 7 (receive env_sys 1 (exd_files (1, 1, 4)) None 7 1000 exq_pkts) = (Errored, [CallOpen true; CallError]).
Proof. vm_compute. repeat split. Qed.
