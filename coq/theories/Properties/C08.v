(* C08 - Each transfer carries every source symbol once at RFC offsets; end flags last.
   Only property theorems, Print Assumptions and non-vacuity examples. *)
From FluteV Require Import Model.Partition Model.BlockEnc Spec.C07Spec Spec.C08Spec Proofs.BlockEncProofs Proofs.C08Full.
Open Scope N_scope.

(* (1) The window scheduler of BlockEncoder::read, for ANY list of blocks with distinct SBNs,
   any window >= 1, any state reachable with the stated invariant [wf]: a transfer that is not
   interrupted (a) ends with "nothing to send" without panic or fuel exhaustion, (b) emits for
   every block exactly that block's shards - each encoding symbol once, in increasing position,
   with its ESI and payload - whatever the interleaving, and (c) carries the close-object flag
   on the last packet only, and there iff the transfer is closable (= last transfer). *)
Theorem C08_each_symbol_once_in_order_flag_last : forall c SRC, (1 <= c_window c)%nat ->
  forall fuel s, wf c SRC s -> (tot s < fuel)%nat -> (0 < tot s)%nat \/ s_nb_sent s <> 0 ->
  let outs := enc_run fuel c [] s in
  let ps := pkts_of outs in
  last outs ONone = ONone
  /\ Forall (fun o => match o with OPkt _ | ONone => True | _ => False end) outs
  /\ (forall sbn, map view_p (filter (fun p => p_sbn p =? sbn) ps) = map view_sh (pend s sbn))
  /\ ((0 < tot s)%nat -> flags_ok (c_closable c) ps).
Proof. exact enc_run_complete_proof. Qed.
Print Assumptions C08_each_symbol_once_in_order_flag_last.

(* (2) one step of the scheduler, forced or not: what is emitted is the head of one block's
   pending shards, every other block is untouched, byte accounting is exact, and the flag is
   force || (closable && all source bytes out && window drained) *)
Theorem C08_read_step : forall c force fuel s o s',
  (length (all_wbs s) < fuel)%nat -> (1 <= c_window c)%nat ->
  NoDup (map wb_sbn (all_wbs s)) ->
  read_loop fuel c force s = (o, s') ->
  NoDup (map wb_sbn (all_wbs s')) /\ s_stopped s' = s_stopped s /\ step_post c force s o s'.
Proof. exact read_loop_spec. Qed.
Print Assumptions C08_read_step.

(* (3) the read made after the object was removed (force_close_object): whatever it emits
   carries the close flag, and the encoder is silent afterwards *)
Theorem C08_forced_read_closes_and_stops : forall c s o s', (1 <= c_window c)%nat ->
  NoDup (map wb_sbn (all_wbs s)) ->
  enc_read c true s = (o, s') ->
  s_stopped s' = true /\ (forall p, o = OPkt p -> p_close p = true) /\ o <> OOutOfFuel.
Proof. exact forced_read_closes_and_stops. Qed.
Print Assumptions C08_forced_read_closes_and_stops.

Theorem C08_stopped_is_silent : forall c force s, s_stopped s = true -> enc_read c force s = (ONone, s).
Proof. exact stopped_is_silent. Qed.
Print Assumptions C08_stopped_is_silent.

(* (4) an empty object is exactly the lone empty packet with the close flag, then nothing *)
Theorem C08_empty_object_lone_packet : forall c f s, (1 <= c_window c)%nat ->
  NoDup (map wb_sbn (all_wbs s)) -> s_stopped s = false -> tot s = 0%nat -> s_nb_sent s = 0 ->
  (c_debug c && negb (c_tlen c =? 0)) = false ->
  enc_run (S (S f)) c [] s = [OPkt lone_pkt; ONone].
Proof. exact empty_object_lone_packet. Qed.
Print Assumptions C08_empty_object_lone_packet.

(* (5) the invariant [wf] holds initially for any block list with distinct SBNs whose source
   bytes reach the transfer length and exceed it by less than any block's source bytes *)
Theorem C08_wf_init : forall c blocks,
  NoDup (map bk_sbn blocks) ->
  c_tlen c <= src_total (est_init blocks) ->
  (forall b, In b blocks -> src_total (est_init blocks) < c_tlen c + src_of_wb (to_wb b)) ->
  wf c (src_total (est_init blocks)) (est_init blocks).
Proof. exact wf_init. Qed.
Print Assumptions C08_wf_init.

(* (6) Full statement: for every configuration FileDesc::new accepts and every buffer content of
   the announced transfer length, with the FEC oracles producing c_parity repair symbols per block
   (and the raptor-code crate cutting E-byte symbols, i.e. outside the recorded class D30), the
   packets of an uninterrupted transfer satisfy the executable predicate P_C08_transfer: every
   SBN is below the RFC 5052 block count; per block the ESIs are strictly increasing, K and the
   source flag are right, the source symbols are exactly ESI 0..K-1 and each carries the E-byte
   slice of the content at the RFC offset of (block, symbol) (zero-padded or short for the last
   one), at most c_parity repair symbols; the close flag is on the last packet only, iff closable;
   an empty object is the lone empty packet. *)
Theorem C08_transfer_full :
  forall rep raptor_src c content,
    filedesc_accepts c = true -> c_tlen c = lenN content -> known_D30 c = false ->
    (c_debug c && negb (c_tlen c =? 0)) = false -> (1 <= c_window c)%nat ->
    (forall buf k, raptor_src buf k = Some (chunks (N.to_nat (c_e c)) buf)) ->
    (forall f sbn buf k p, length (rep f sbn buf k p) = N.to_nat p) ->
    let blocks := blocks_of_buffer rep raptor_src c content in
    P_C08_transfer c content None (pkts_of (enc_run (S (S (total_shards blocks))) c [] (est_init blocks))) = true.
Proof. exact C08_transfer_full_proof. Qed.
Print Assumptions C08_transfer_full.

(* non-vacuity: a concrete two-block Reed-Solomon-like transfer satisfies wf and is scheduled *)
Example C08_example :
  let c := mk_ecfg RS28 4 3 1 2 true 20 true in
  let blocks := blocks_of_buffer (fun _ _ _ _ p => repeat [9;9;9;9] (N.to_nat p)) (fun _ _ => None) c
                  [1;2;3;4;5;6;7;8;9;10;11;12;13;14;15;16;17;18;19;20] in
  map (fun o => match o with OPkt p => (p_sbn p, p_esi p, p_close p) | _ => (99, 99, false) end)
      (enc_run 20 c [] (est_init blocks))
  = [(0,0,false); (1,0,false); (0,1,false); (1,1,false); (0,2,false); (1,2,false); (0,3,true); (99,99,false)].
Proof. vm_compute. reflexivity. Qed.
