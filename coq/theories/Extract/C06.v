From Coq Require Import Extraction ExtrOcamlBasic.
From FluteV Require Import Model.Bytes Model.AlcTypes Model.Lct Model.Ntp Model.Alc Model.AlcFixed Spec.C06Spec.
Extraction Language OCaml.
Extraction "../ocaml/gen/c06_model.ml"
  push_lct_header parse_lct_header get_ext get_ext_unfixed new_alc_pkt parse_alc_pkt get_sender_current_time
  parse_payload_id observe_parse observe_parse_fixed system_time_to_ntp system_time_to_ntp_unfixed ntp_to_system_time
  rfc5651_encode rfc5651_decode rfc_alc_encode rfc_alc_decode mk_rfc_pkt x_fdt x_cenc x_time x_fti pid_fields
  wf_pkt parse_demand build_in_range known_d32_build known_d32_parse
  P_C06_build P_C06_parse P_C06_lct P_C06_ntp.
