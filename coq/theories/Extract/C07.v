From Coq Require Import Extraction ExtrOcamlBasic.
From FluteV Require Import Model.Partition Spec.C07Spec.
Extraction Language OCaml.
Extraction "../ocaml/gen/c07_model.ml" block_partitioning block_length block_partitioning64 block_length64
  reconstructed_b sender_slices receiver_lengths div_ceil
  P_C07_partition P_C07_block_length P_C07_wire_lengths P_C07_reconstruction rfc_partition rfc_block_lengths.
