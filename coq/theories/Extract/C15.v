From Coq Require Import Extraction ExtrOcamlBasic.
From FluteV Require Import Model.Toi Spec.C15Spec.
Extraction Language OCaml.
Extraction "../ocaml/gen/c15_model.ml" run render_out dec_value canonical_dec sender_new state_after live_vals h_of_tsi toi_field_bytes toi_field_len
  be_decode to_decimal alloc_new allocate release
  P_C15_history P_C15_wire fresh_ok field_ok fdt_ok.
