From Coq Require Import Extraction ExtrOcamlBasic.
From FluteV Require Import Model.TsiFilter Model.Multi Spec.C18Spec.
Extraction Language OCaml.
Extraction "../ocaml/gen/c18_model.ml" tf_run tf_is_valid minit mstep mrun mdrop mlife mcleanup_unfixed
  is_expired live key_eqb ep_eqb is_key op_sel ev_sel lk_trace life_trace out_trace
  accepts P_C18_filter expected_processed step_processed run_processed P_C18_processed
  P_C18_listener_trace P_C18_listener_late_trace P_C18_isolation P_C18_writer_args not_remove.
