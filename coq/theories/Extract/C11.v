From Coq Require Import Extraction ExtrOcamlBasic.
From FluteV Require Import Model.SenderCtl Spec.SenderSpec Spec.FdtCloseSpec.
Extraction Language OCaml.
Extraction "../ocaml/gen/c11_model.ml" init_st step run_ops files_view evlog Z.of_N Z.to_N N.of_nat N.to_nat Z.div Z.modulo Z.add Z.mul Z.sub Z.ltb N.ltb N.eqb
  P_C11 P_C12_wire P_C12_counter c12_objs P_C13_priority P_C14_start_time P_C14_pacing P_C14_carousel_gap in_D23 sender_read P_C13_events known_D27 known_D42 P_C12_close_flag P_C08_fdt_close_flag.
