From Coq Require Import Extraction ExtrOcamlBasic.
From FluteV Require Import Model.Path Spec.C05Spec.
Extraction Language OCaml.
Extraction "../ocaml/gen/c05_model.ml" components join strip_slash map_path map_path_unfixed
  wstep wrun wfinal wresults winit walk prefixes predict pmem path_eqb str_eqb
  P_C05_confined P_C05_complete_stored P_C05_failed_leaves_no_file protocol_ok completes dest_exists
  length (* [length] only so that type nat exists for the shared ocaml/conv_inc.ml *).
