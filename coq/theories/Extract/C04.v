From Coq Require Import Extraction ExtrOcamlBasic.
From FluteV Require Import Spec.C04Spec Model.AlcFixed Proofs.C04Proofs.
Extraction Language OCaml.
Extraction "../ocaml/gen/c04_model.ml"
  observe_fixed parse_alc_pkt_fixed get_sender_current_time_fixed parse_payload_id_fixed outcome_of_res
  P_C04_call P_C04_calls P_C04_parse P_C04_usable P_C04_bounded P_C04_case mk_case heap_bound
  N.of_nat N.to_nat N.ltb N.eqb N.leb.
