From Coq Require Import Extraction ExtrOcamlBasic.
From FluteV Require Import Model.Xml Model.SenderCtl Model.FdtInst Model.FdtRecv Spec.C10Spec.
Extraction Language OCaml.
Extraction "../ocaml/gen/c10_model.ml"
  init_st step files_view evlog current_fdt_will_expire
  Z.of_N Z.to_N N.of_nat N.to_nat Z.div Z.modulo Z.add Z.mul Z.sub Z.ltb N.ltb N.eqb
  parse_fdt print_fdt utf8_ok
  get_fdt_instance instance_at metas_of find_meta listed_tois instances filedesc_oti
  P_C10_instance P_C10_content P_C10_wellformed P_C10_meta P_C10_ids P_C10_window
  P_C10_superseded in_D22 in_D38 expiry_instant recv_meta b64_decode dec_is.
