From Coq Require Import Extraction ExtrOcamlBasic.
From FluteV Require Import Model.Partition Model.BlockEnc Model.StreamPos Spec.C07Spec Spec.C08Spec.
Extraction Language OCaml.
Extraction "../ocaml/gen/c08_model.ml" blocks_of_buffer blocks_of_stream transfer_blocks est_init enc_run total_shards
  P_C08_transfer eqb_pkts rfc_partition lenN filedesc_accepts known_D30.
