From Coq Require Import Extraction ExtrOcamlBasic.
From FluteV Require Import Model.Expiry Spec.C19Spec.
Extraction Language OCaml.
Extraction "../ocaml/gen/c19_model.ml" system_time_to_ntp ntp_to_system_time parse_u32 expires_of
  run outputs r_init
  P_C19_sound P_C19_silent P_C19_same P_C19_session all_sct uniform_sct session_events se_expires_ntp session_ok session_ok_unchecked in_range.
