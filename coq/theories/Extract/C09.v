From Coq Require Import Extraction ExtrOcamlBasic.
From FluteV Require Import Model.BlockEnc Model.ObjRecv Model.Recv Spec.RecvSpec Spec.C17Spec Spec.SessionSpec.
Extraction Language OCaml.
Extraction "../ocaml/gen/c09_model.ml" recv_step recv0 ctx0 calls_of P_C09_writer P_C03_writer P_C17_heap P_C17_heap_cfg P_C17_bounds P_C17_cleanup_releases recv_ledger recv_items P_C01_object P_C01_refused_above_maximum P_C02_object blocks_recoverable filedesc_accepts
  block_partitioning Z.of_N Z.to_N N.of_nat N.to_nat Z.add Z.sub Z.ltb N.ltb N.eqb N.mul N.div N.modulo.
