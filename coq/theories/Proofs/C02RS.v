(* Object-level delivery (C02) and safety (C03) theorems for the FEC schemes whose decoder is the ORACLE
   [e_fec] of the environment, on the object-receiver model (Model/ObjRecv.v):
     Reed-Solomon GF(2^8) (FEC 5 = FRS28, FEC 129 = FRS28US): rs_recoverable_delivers, rs_safety;
     RaptorQ (FEC 6) and Raptor (FEC 1):                      fq_recoverable_delivers, fq_safety.
   The decoders are NOT modelled.  Their correctness is carried by explicit hypotheses, stated once:
   rs_oracle_mds / rs_oracle_sound and fq_oracle_complete / fq_oracle_sound; they are part of the trusted
   base and appear in the theorem statements.
   The No-Code development is Proofs/C02Full.v; the lemmas that do not depend on the scheme are reused from
   there, the block invariant and everything above it are re-proved here for the four schemes at once
   (section RSDelivery, parameter cls = Reed-Solomon or not).
   Model/ObjRecv.v after fixes D10 / D28 / D33 / D34: RaptorQ discards a symbol whose size is not E and refuses scheme
   parameters outside the raptorq crate's range; Raptor pads a short symbol with zeros up to ceil(block length / k)
   and refuses k outside 1..8192; FEC 2 (FRS2M) has no decoder at all.
   After D47: BlockDecoder::push discards a symbol longer than E for every scheme: delivery needs payloads of at most E
   bytes ([sized]; Reed-Solomon: premise rs_rep_sized on the sender's repair symbols, RaptorQ / Raptor: fq_sized_pkt);
   safety needs nothing new. *)
From FluteV Require Import Proofs.D48Step Model.Partition Spec.C07Spec Proofs.PartitionProofs Model.ObjRecv
  Spec.RecvSpec Spec.SessionSpec Proofs.SessionProofs Proofs.C02Full.
From Coq Require Import Lia FinFun.
Open Scope N_scope.

Arguments N.add : simpl never. Arguments N.mul : simpl never. Arguments N.sub : simpl never.
Arguments N.eqb : simpl never. Arguments N.ltb : simpl never. Arguments N.leb : simpl never.
Arguments N.div : simpl never. Arguments N.modulo : simpl never. Arguments N.min : simpl never.

(* ================= byte strings (complements of C02Full) ================= *)
Lemma take_app_le n (a b : list N) : n <= lenN_ a -> take n (a ++ b) = take n a.
Proof.
  unfold take, lenN_. intros H. rewrite firstn_app.
  replace (N.to_nat n - length a)%nat with 0%nat by lia. cbn [firstn]. apply app_nil_r.
Qed.
Lemma drop_app_le n (a b : list N) : n <= lenN_ a -> drop n (a ++ b) = drop n a ++ b.
Proof.
  unfold drop, lenN_. intros H. rewrite skipn_app.
  replace (N.to_nat n - length a)%nat with 0%nat by lia. reflexivity.
Qed.
Lemma take_take a b (l : list N) : take a (take b l) = take (N.min a b) l.
Proof. unfold take. rewrite firstn_firstn. f_equal. lia. Qed.
Lemma lenN_repeat (x : N) m : lenN_ (repeat x m) = N.of_nat m.
Proof. unfold lenN_. rewrite repeat_length. reflexivity. Qed.
Lemma pad_to_ge t (x : list N) : t <= lenN_ x -> pad_to t x = x.
Proof. intros H. unfold pad_to. replace (N.to_nat (t - lenN_ x)) with 0%nat by lia. apply app_nil_r. Qed.

(* the object padded with zeros to a whole number of encoding symbols: what the Reed-Solomon encoder
   works on (fec/rscodec.rs create_shards resizes the last chunk of a block to E with zeros) *)
Definition pad_content (e : N) (content : list N) : list N :=
  content ++ repeat 0 (N.to_nat (div_ceil (lenN_ content) e * e - lenN_ content)).

Lemma filter_map_fst (f : N -> bool) (sh : list (N * list N)) :
  map fst (filter (fun p => f (fst p)) sh) = filter f (map fst sh).
Proof.
  induction sh as [|p sh IH]; cbn [filter map]; [reflexivity|].
  destruct (f (fst p)); cbn [map]; rewrite IH; reflexivity.
Qed.

(* all k source symbols are stored when the count of stored ESI below k is k *)
Lemma count_lt_full k sh : NoDup (map fst sh) -> count_lt k sh = k -> forall j, j < k -> has_esi j sh = true.
Proof.
  intros ND H j Hj. unfold count_lt in H.
  set (l := map fst (filter (fun p : N * list N => fst p <? k) sh)).
  assert (Hl : l = filter (fun x => x <? k) (map fst sh)) by apply (filter_map_fst (fun x => x <? k)).
  assert (In j l).
  { apply (count_eq_all l k).
    - rewrite Hl. apply NoDup_filter. exact ND.
    - intros x Hx. rewrite Hl in Hx. apply filter_In in Hx. destruct Hx as [_ Hx]. apply N.ltb_lt in Hx. exact Hx.
    - unfold l. rewrite map_length. exact H.
    - exact Hj. }
  rewrite Hl in H0. apply filter_In in H0. apply has_esi_in. apply H0.
Qed.

(* ================= the padded object and its blocks ================= *)
Section Pad.
  Variable oti : roti.
  Variable content : list N.
  Variables al as_ nal n : N.
  Let e := ro_e oti.
  Let b := ro_b oti.
  Let L := lenN_ content.
  Let T := div_ceil L e.
  Hypothesis He : 0 < e.
  Hypothesis Hb : 0 < b.
  Hypothesis HL : 0 < L.
  Hypothesis Hpart : block_partitioning b L e = (al, as_, nal, n).

  Notation PF lem := (lem b e L al as_ nal n Hb He HL Hpart) (only parsing).
  Notation kof := (k_of al as_ nal).
  Notation sof := (soff al as_ nal).
  Notation bof := (boff e L al as_ nal).
  Notation bln := (blen e L al as_ nal).

  Definition cpad : list N := pad_content e content.
  (* encoding symbol j of the padded object; block s of the padded object (k symbols of E bytes) *)
  Definition psym (j : N) : list N := take e (drop (j * e) cpad).
  Definition pblk (s : N) : list N := take (kof s * e) (drop (sof s * e) cpad).

  Lemma part_T : partition_ok b T al as_ nal n /\ exists r, L + r = T * e /\ r < e.
  Proof.
    pose proof (partition_covers_proof b L e Hb He HL) as P. rewrite Hpart in P. destruct P as [P _].
    split; [exact P|]. apply ceil_witness. exact He.
  Qed.

  Lemma lenN_cpad : lenN_ cpad = T * e.
  Proof.
    destruct part_T as (_ & r & HT & Hr). unfold cpad, pad_content.
    rewrite lenN_app, lenN_repeat. fold L T. lia.
  Qed.

  Lemma soff_k_le s : s < n -> sof s + kof s <= T.
  Proof.
    intros Hs. destruct part_T as (P & _). unfold soff, k_of. rewrite <- (sym_off_succ al as_ nal s).
    rewrite <- (sym_off_total _ _ _ _ _ _ P). apply sym_off_mono. lia.
  Qed.
  Lemma pblk_len s : s < n -> lenN_ (pblk s) = kof s * e.
  Proof.
    intros Hs. unfold pblk. rewrite lenN_take, lenN_drop, lenN_cpad.
    pose proof (soff_k_le s Hs). nia.
  Qed.

  (* the padded block agrees with the block of the object on its first blen bytes, and is not longer
     unless it is the last block *)
  Lemma pblk_good s : s < n ->
    take (bln s) (pblk s) = blk_bytes oti content al as_ nal s /\ (s + 1 < n -> lenN_ (pblk s) = bln s).
  Proof.
    intros Hs. destruct (PF blen_spec s Hs) as (B1 & B2 & B3). destruct (PF boff_lt s Hs) as [B4 B5].
    split.
    - unfold pblk. rewrite take_take. replace (N.min (bln s) (kof s * e)) with (bln s) by lia.
      unfold cpad, pad_content. rewrite drop_app_le by (fold L; lia).
      rewrite take_app_le by (rewrite lenN_drop; fold L; lia).
      unfold blk_bytes. fold e L. rewrite B4. reflexivity.
    - intros Hs1. rewrite (pblk_len s Hs). destruct (PF boff_lt (s + 1) Hs1) as [C1 C2].
      unfold soff in C1. rewrite (sym_off_succ al as_ nal s) in C1. fold (sof s) (kof s) in C1. rewrite N.mul_add_distr_r in C1. lia.
  Qed.

  (* a symbol of the padded object has E bytes; the Raptor decoder's symbol size is at most E *)
  Lemma psym_len j : j < T -> lenN_ (psym j) = e.
  Proof.
    intros Hj. unfold psym. rewrite lenN_take, lenN_drop, lenN_cpad.
    assert ((j + 1) * e <= T * e) by (apply N.mul_le_mono_r; lia). lia.
  Qed.
  Lemma rss_le s : s < n -> raptor_symbol_size (bln s) (kof s) <= e.
  Proof.
    intros Hs. destruct (PF blen_spec s Hs) as (B1 & _ & _). pose proof (PF k_pos s) as Kp.
    unfold raptor_symbol_size. replace (N.max (kof s) 1) with (kof s) by lia.
    destruct (div_ceil_is_ceil (bln s) (kof s) Kp) as [_ C]. apply C. lia.
  Qed.

  (* reassembling stored source symbols of the padded object *)
  Lemma concat_src_pad kk o sh :
    Forall (fun p : N * list N => fst p < kk -> snd p = psym (o + fst p)) sh ->
    forall m i d, i + N.of_nat m <= kk -> concat_src m i sh = Some d ->
    d = take (N.of_nat m * e) (drop ((o + i) * e) cpad).
  Proof.
    intros F. induction m as [|m IH]; intros i d Hi; cbn [concat_src].
    - intros [= <-]. reflexivity.
    - destruct (get_esi i sh) as [d1|] eqn:G; [|discriminate].
      destruct (concat_src m (i + 1) sh) as [r|] eqn:C; [|discriminate]. intros [= <-].
      apply get_esi_in in G. rewrite Forall_forall in F. specialize (F _ G). cbn [fst snd] in F.
      assert (Hi' : i + 1 + N.of_nat m <= kk) by lia.
      rewrite (IH _ _ Hi' C), F by lia. unfold psym.
      replace ((o + (i + 1)) * e) with ((o + i) * e + e) by lia.
      rewrite <- drop_add, take_add. f_equal. lia.
  Qed.
End Pad.

(* ================= reception with a decoder oracle ================= *)
(* the schemes whose decoder is the oracle e_fec: Reed-Solomon (FEC 5, 129), RaptorQ (6), Raptor (1) *)
Definition fec_oracle (f : rfec) : bool := match f with FNoCode | FRS2M => false | _ => true end.

Section RSDelivery.
  Variable E : env.
  Variable oti : roti.
  Variable content : list N.
  Variable rep : N -> N -> list N.        (* the sender's encoder: sbn, esi (Reed-Solomon: repair symbols only) *)
  Variable w : wid.
  Variable toi : N.
  Variable md5 : option (list N).
  Variable max : N.
  Variables al as_ nal n : N.
  Let e := ro_e oti.
  Let b := ro_b oti.
  Let L := lenN_ content.
  Let T := div_ceil L e.
  Let par := ro_parity oti.
  Hypothesis Hfec : fec_oracle (ro_fec oti) = true.
  Hypothesis He : 0 < e.
  Hypothesis Hb : 0 < b.
  Hypothesis HL : 0 < L.
  Hypothesis Hu64 : L + e < U64.
  Hypothesis Hpart : block_partitioning b L e = (al, as_, nal, n).

  Notation PF lem := (lem b e L al as_ nal n Hb He HL Hpart) (only parsing).
  Notation PP lem := (lem oti content al as_ nal n He Hb HL Hpart) (only parsing).
  Notation kof := (k_of al as_ nal).
  Notation sof := (soff al as_ nal).
  Notation bof := (boff e L al as_ nal).
  Notation bln := (blen e L al as_ nal).
  Notation blkb := (blk_bytes oti content al as_ nal).
  Notation pblock := (pblk oti content al as_ nal).
  Notation psymb := (psym oti content).

  (* cls: Reed-Solomon (the block decoder of the model counts the shards, bounds the ESI and reassembles a
     block itself when all its source symbols are stored); otherwise RaptorQ / Raptor (every push asks the oracle) *)
  Definition cls : bool := match ro_fec oti with FRS28 | FRS28US => true | _ => false end.
  Definition us : bool := match ro_fec oti with FRS28US => true | _ => false end.
  Lemma us_cls : us = true -> cls = true.
  Proof. unfold us, cls. destruct (ro_fec oti); congruence. Qed.

  (* the decoder of every block can be created (ReedSolomon::new succeeds: rs_ok; RaptorQ / Raptor: the
     scheme-specific information is present): needed for delivery only *)
  (* RaptorQDecoder::new / RaptorDecoder::new accept a block of k symbols (fixes D28, D34) *)
  Definition fq_dec_ok (k : N) : bool :=
    match ro_fec oti, ro_scheme oti with
    | FRaptorQ, Some (_, nn, al_) =>
      negb ((e =? 0) || (al_ =? 0) || negb (e mod al_ =? 0) || (nn =? 0) || (k =? 0) || (RAPTORQ_KMAX <? k))
    | FRaptor, Some _ => negb ((k =? 0) || (RAPTOR_KMAX <? k))
    | _, _ => false
    end.
  Definition InitOk : Prop :=
    forall s, s < n -> (if cls then rs_ok (kof s) par else fq_dec_ok (kof s)) = true.

  (* ---------- memory accounting ---------- *)
  (* bytes the receiver accounts for a block: its length, but k * E for FEC 129 (the source block
     length carried by the packet is used) *)
  Definition M : N := if us then T * e else L.
  Definition coff (s : N) : N := N.min M (sof s * e).
  Definition bsz (s : N) : N := coff (s + 1) - coff s.
  Lemma coff_mono s s' : s <= s' -> coff s <= coff s'.
  Proof.
    intros H. unfold coff, soff. pose proof (sym_off_mono al as_ nal s s' H).
    assert (sym_off al as_ nal s * e <= sym_off al as_ nal s' * e) by (apply N.mul_le_mono_r; assumption). lia.
  Qed.
  Lemma coff_le s : coff s <= M.
  Proof. unfold coff. lia. Qed.
  Lemma bsz_spec s : s < n -> bsz s = if us then kof s * e else bln s.
  Proof.
    intros Hs. unfold bsz, coff, M. destruct us.
    - pose proof (PP soff_k_le s Hs) as K. fold T in K.
      unfold soff at 1. rewrite (sym_off_succ al as_ nal s). fold (sof s) (kof s).
      assert ((sof s + kof s) * e <= T * e) by (apply N.mul_le_mono_r; exact K).
      rewrite N.mul_add_distr_r in *. lia.
    - reflexivity.
  Qed.

  (* the genuine encoding symbol (s, i).  Reed-Solomon: a source symbol of the padded object, or the sender's
     repair symbol; RaptorQ / Raptor: whatever the sender's encoder produces for (s, i) *)
  Definition esym (s i : N) : list N := if cls && (i <? kof s) then psymb (sof s + i) else rep s i.
  Definition esi_ok (s i : N) : Prop := cls = true -> i < kof s + par.
  (* what the block decoder stores for a payload: Raptor pads it with zeros up to the size of the largest
     source symbol of the block, ceil(block length / k) (fixes D10) *)
  Definition stored (s : N) (x : list N) : list N :=
    match ro_fec oti with FRaptor => pad_to (raptor_symbol_size (bsz s) (kof s)) x | _ => x end.
  (* RaptorQ keeps only the symbols of E bytes (fixes D10) *)
  Definition sizedq (x : list N) : Prop := ro_fec oti = FRaptorQ -> lenN_ x = e.
  (* D47: every scheme discards a symbol longer than E before it reaches the decoder; a payload is kept when
     it has at most E bytes and, for RaptorQ, exactly E *)
  Definition sized (x : list N) : Prop := lenN_ x <= e /\ sizedq x.
  Definition accb (x : list N) : bool := match ro_fec oti with FRaptorQ => lenN_ x =? e | _ => true end.
  Definition shard_ok (s : N) (p : N * list N) : Prop :=
    esi_ok s (fst p) /\ snd p = stored s (esym s (fst p)) /\ sizedq (snd p).
  Lemma stored_cls s x : cls = true -> stored s x = x.
  Proof. clear Hfec. unfold cls, stored. intros H. destruct (ro_fec oti); try discriminate H; reflexivity. Qed.
  Lemma accb_sized x : accb x = true <-> sizedq x.
  Proof.
    clear Hfec. unfold accb, sizedq. destruct (ro_fec oti); try (split; [intros _ X; discriminate X|reflexivity]).
    split; [intros H _; apply N.eqb_eq; exact H|intros H; apply N.eqb_eq; apply H; reflexivity].
  Qed.
  Lemma sized_stored s x : sizedq x -> sizedq (stored s x).
  Proof. clear Hfec. unfold sizedq, stored. intros H F. rewrite F in *. apply H. reflexivity. Qed.

  (* what a decoded block must be: the block of the object, possibly followed by padding if it is the last *)
  Definition Good (s : N) (d : list N) : Prop := take (bln s) d = blkb s /\ (s + 1 < n -> lenN_ d = bln s).
  (* when the model may consult the oracle / when the oracle is expected to answer *)
  Definition Callable (s : N) (sh : list (N * list N)) : Prop := cls = true -> kof s <= N.of_nat (length sh).
  Definition Decodable (s : N) (sh : list (N * list N)) : Prop :=
    if cls then kof s <= N.of_nat (length sh) else forall j, j < kof s -> has_esi j sh = true.

  (* THE ORACLE: it never answers a wrong block when it is given genuine symbols (Reed-Solomon: at least k) *)
  Hypothesis Hsound : forall s sh d, s < n -> Callable s sh ->
    NoDup (map fst sh) -> Forall (shard_ok s) sh ->
    e_fec E toi (ro_fec oti) s (kof s) e (bsz s) sh = Some d -> Good s d.
  (* ... and it does answer when the symbols suffice (Reed-Solomon: any k; RaptorQ / Raptor: all k source symbols) *)
  Definition Mds : Prop := forall s sh, s < n -> Decodable s sh ->
    NoDup (map fst sh) -> Forall (shard_ok s) sh ->
    e_fec E toi (ro_fec oti) s (kof s) e (bsz s) sh <> None.

  Lemma good_pblk s : s < n -> Good s (pblock s).
  Proof. intros Hs. destruct (PP pblk_good s Hs) as [G1 G2]. split; [exact G1|exact G2]. Qed.

  (* ---------- the block invariant ---------- *)
  Record BlockInit (s : N) (d : bdec) : Prop := {
    bi_init : bd_init d = true;
    bi_k : bd_k d = kof s;
    bi_size : bd_size d = bsz s;
    bi_alloc : bd_alloc d = true;
    bi_lt : s < n;
    bi_nodup : NoDup (map fst (bd_shards d));
    bi_shards : Forall (shard_ok s) (bd_shards d);
    bi_open : bd_completed d = false ->
              bd_data d = None /\ (Mds -> ~ Decodable s (bd_shards d));
    bi_done : bd_completed d = true -> exists dd, bd_data d = Some dd /\ Good s dd
  }.
  Definition BlockOk (s : N) (d : bdec) : Prop :=
    (bd_init d = false -> bd_completed d = false) /\ (bd_init d = true -> BlockInit s d).

  Lemma blockok_new s : BlockOk s bdec_new.
  Proof. split; [reflexivity|discriminate]. Qed.

  (* bd_push of a Reed-Solomon block that is allocated, not completed and has no data yet *)
  Lemma bd_push_long t s esi payload d : e < lenN_ payload ->
    bd_completed d = false -> bd_alloc d = true -> bd_push E t oti s esi payload d = (d, false).
  Proof.
    intros Hl Hc Ha. unfold bd_push. rewrite Hc, Ha. cbn [negb]. fold e.
    destruct (N.ltb_spec e (lenN_ payload)) as [_|G]; [reflexivity|lia].
  Qed.
  Lemma bd_push_rs t s esi payload d : cls = true -> lenN_ payload <= e ->
    bd_completed d = false -> bd_alloc d = true -> bd_data d = None ->
    bd_push E t oti s esi payload d =
    (let k := bd_k d in
     let sh := if (esi <? k + par) && negb (has_esi esi (bd_shards d))
               then bd_shards d ++ [(esi, payload)] else bd_shards d in
     let data := if k <=? N.of_nat (length sh) then
                   (if count_lt k sh =? k then concat_src (N.to_nat k) 0 sh
                    else e_fec E t (ro_fec oti) s k e (bd_size d) sh)
                 else None in
     (mk_bdec (is_some_b data) true (bd_size d) k sh data true, false)).
  Proof.
    intros Hcls Hl Hc Ha Hd. unfold bd_push. rewrite Hc, Ha, Hd. cbn [negb]. fold par e.
    destruct (N.ltb_spec e (lenN_ payload)) as [G|_]; [lia|].
    unfold cls in Hcls. destruct (ro_fec oti); try discriminate Hcls; cbv iota beta zeta; rewrite andb_true_r; reflexivity.
  Qed.
  (* ... of a RaptorQ / Raptor block *)
  Lemma bd_push_fq t s esi payload d : cls = false -> lenN_ payload <= e ->
    bd_completed d = false -> bd_alloc d = true -> bd_data d = None ->
    bd_push E t oti s esi payload d =
    (let k := bd_k d in
     let pl := match ro_fec oti with FRaptor => pad_to (raptor_symbol_size (bd_size d) k) payload | _ => payload end in
     let sh := if accb payload && negb (has_esi esi (bd_shards d)) then bd_shards d ++ [(esi, pl)] else bd_shards d in
     let data := e_fec E t (ro_fec oti) s k e (bd_size d) sh in
     (mk_bdec (is_some_b data) true (bd_size d) k sh data true, false)).
  Proof.
    intros Hcls Hl Hc Ha Hd. unfold bd_push. rewrite Hc, Ha, Hd. cbn [negb]. fold par e.
    destruct (N.ltb_spec e (lenN_ payload)) as [G|_]; [lia|].
    unfold cls in Hcls. unfold accb. destruct (ro_fec oti); try discriminate Hcls; try discriminate Hfec;
      cbv iota beta zeta; rewrite andb_true_r; reflexivity.
  Qed.

  Lemma push_shards s esi payload (acc : bool) sh0 : NoDup (map fst sh0) -> Forall (shard_ok s) sh0 ->
    esi_ok s esi -> payload = stored s (esym s esi) -> (acc = true -> sizedq payload) ->
    let sh := if acc && negb (has_esi esi sh0) then sh0 ++ [(esi, payload)] else sh0 in
    NoDup (map fst sh) /\ Forall (shard_ok s) sh /\ (acc = true -> has_esi esi sh = true)
    /\ (forall i, has_esi i sh0 = true -> has_esi i sh = true).
  Proof.
    intros I6 I7 Hesi Hpay Hsz sh. split; [|split; [|split]].
    - unfold sh. destruct acc; cbn [andb]; [|exact I6]. destruct (has_esi esi sh0) eqn:H; cbn [negb]; [exact I6|].
      rewrite map_app. cbn [map fst]. apply NoDup_app_single; [exact I6|].
      intros C. apply has_esi_in in C. congruence.
    - unfold sh. destruct acc; cbn [andb]; [|exact I7]. destruct (has_esi esi sh0); cbn [negb]; [exact I7|].
      apply Forall_app. split; [exact I7|]. constructor; [|constructor]. split; [|split]; cbn [fst snd]; auto.
    - intros ->. unfold sh. cbn [andb]. destruct (has_esi esi sh0) eqn:H; cbn [negb]; [exact H|].
      apply has_esi_in. rewrite map_app. apply in_or_app. right. left. reflexivity.
    - intros i H. unfold sh. destruct (acc && negb (has_esi esi sh0)); [|exact H].
      apply has_esi_in. rewrite map_app. apply in_or_app. left. apply has_esi_in. exact H.
  Qed.

  Lemma push_finish s sh data : s < n -> NoDup (map fst sh) -> Forall (shard_ok s) sh ->
    (data = None /\ (Mds -> ~ Decodable s sh)) \/ (exists dd, data = Some dd /\ Good s dd) ->
    BlockInit s (mk_bdec (is_some_b data) true (bsz s) (kof s) sh data true).
  Proof.
    intros Hs S1 S2 [[-> Hopen]|(dd & -> & G)];
      constructor; cbn [bd_init bd_k bd_size bd_alloc bd_shards bd_completed bd_data is_some_b]; try assumption; try reflexivity.
    - intros _. split; [reflexivity|exact Hopen].
    - discriminate.
    - discriminate.
    - intros _. exists dd. split; [reflexivity|exact G].
  Qed.

  (* the symbol is stored (or was already) provided RaptorQ accepts its size *)
  Lemma bd_push_ok s esi payload d :
    BlockInit s d -> bd_completed d = false -> esi_ok s esi -> payload = esym s esi ->
    let r := bd_push E toi oti s esi payload d in
    snd r = false /\ BlockInit s (fst r) /\ (sized payload -> has_esi esi (bd_shards (fst r)) = true)
    /\ (forall i, has_esi i (bd_shards d) = true -> has_esi i (bd_shards (fst r)) = true).
  Proof.
    intros BI Hc Hesi Hpay. pose proof BI as [I1 I2 I3 I4 I5 I6 I7 I8 I9]. destruct (I8 Hc) as [Hd _].
    cbv zeta. destruct (N.ltb_spec e (lenN_ payload)) as [Hlong|Hl].
    { (* D47: too long, discarded *)
      rewrite (bd_push_long toi s esi payload d Hlong Hc I4). cbn [fst snd].
      split; [reflexivity|]. split; [exact BI|]. split; [intros [Hz _]; lia|intros i H; exact H]. }
    destruct cls eqn:Hcls.
    - assert (Hpay' : payload = stored s (esym s esi)) by (rewrite stored_cls by exact Hcls; exact Hpay).
      assert (Hsz : true = true -> sizedq payload).
      { intros _ F. unfold cls in Hcls. rewrite F in Hcls. discriminate. }
      destruct (push_shards s esi payload true (bd_shards d) I6 I7 Hesi Hpay' Hsz) as (S1 & S2 & S3 & S4).
      cbv zeta in S1, S2, S3, S4. cbn [andb] in S1, S2, S3, S4. specialize (S3 eq_refl).
      rewrite (bd_push_rs toi s esi payload d Hcls Hl Hc I4 Hd). cbv zeta. rewrite I2, I3.
      pose proof (Hesi Hcls) as Hlt. destruct (N.ltb_spec esi (kof s + par)) as [_|G]; [|lia]. cbn [andb].
      set (sh := if negb (has_esi esi (bd_shards d)) then bd_shards d ++ [(esi, payload)] else bd_shards d) in *.
      clearbody sh. cbn [fst snd]. split; [reflexivity|]. split; [|split; [intros _; exact S3|exact S4]].
      apply push_finish; [exact I5|exact S1|exact S2|].
      destruct (N.leb_spec (kof s) (N.of_nat (length sh))) as [Hk|Hk].
      2:{ left. split; [reflexivity|]. intros _. unfold Decodable. rewrite Hcls. lia. }
      destruct (N.eqb_spec (count_lt (kof s) sh) (kof s)) as [Hall|Hnot].
      + (* every source symbol is stored: the block is reassembled without the decoder *)
        right. exists (pblock s). split; [|apply good_pblk; exact I5].
        assert (All : forall j, 0 <= j < 0 + N.of_nat (N.to_nat (kof s)) -> has_esi j sh = true).
        { intros j Hj. apply (count_lt_full (kof s) sh S1 Hall). lia. }
        apply (concat_src_spec sh) in All.
        destruct (concat_src (N.to_nat (kof s)) 0 sh) as [dat|] eqn:C; [|congruence].
        f_equal. rewrite (concat_src_pad oti content He Hb HL (kof s) (sof s) sh) with (m := N.to_nat (kof s)) (i := 0) (d := dat).
        * unfold pblk. fold e. f_equal; [lia|]. f_equal. lia.
        * eapply Forall_impl; [|exact S2]. intros p (_ & Hp & _) Hlt'. rewrite Hp. rewrite stored_cls by exact Hcls.
          unfold esym. rewrite Hcls. cbn [andb].
          destruct (N.ltb_spec (fst p) (kof s)); [reflexivity|lia].
        * lia.
        * exact C.
      + destruct (e_fec E toi (ro_fec oti) s (kof s) e (bsz s) sh) as [dd|] eqn:O.
        * right. exists dd. split; [reflexivity|]. exact (Hsound s sh dd I5 (fun _ => Hk) S1 S2 O).
        * left. split; [reflexivity|]. intros HM HD. exact (HM s sh I5 HD S1 S2 O).
    - rewrite (bd_push_fq toi s esi payload d Hcls Hl Hc I4 Hd). cbv zeta. rewrite I2, I3. fold (stored s payload).
      assert (Hpay' : stored s payload = stored s (esym s esi)) by (rewrite Hpay; reflexivity).
      assert (Hsz : accb payload = true -> sizedq (stored s payload)).
      { intros H. apply sized_stored. apply accb_sized. exact H. }
      destruct (push_shards s esi (stored s payload) (accb payload) (bd_shards d) I6 I7 Hesi Hpay' Hsz) as (S1 & S2 & S3 & S4).
      cbv zeta in S1, S2, S3, S4.
      set (sh := if accb payload && negb (has_esi esi (bd_shards d))
                 then bd_shards d ++ [(esi, stored s payload)] else bd_shards d) in *.
      clearbody sh. cbn [fst snd]. split; [reflexivity|].
      split; [|split; [intros [_ Hz]; apply S3; apply accb_sized; exact Hz|exact S4]].
      apply push_finish; [exact I5|exact S1|exact S2|].
      destruct (e_fec E toi (ro_fec oti) s (kof s) e (bsz s) sh) as [dd|] eqn:O.
      + right. exists dd. split; [reflexivity|].
        refine (Hsound s sh dd I5 _ S1 S2 O). intros C. congruence.
      + left. split; [reflexivity|]. intros HM HD. exact (HM s sh I5 HD S1 S2 O).
  Qed.

  (* ---------- memory accounting: bytes of the initialised blocks still in the window ---------- *)
  Fixpoint asum (s : N) (l : list bdec) : N :=
    match l with [] => 0 | d :: r => (if bd_init d then bsz s else 0) + asum (s + 1) r end.

  Lemma asum_bound l : forall s, asum s l <= coff (s + N.of_nat (length l)) - coff s.
  Proof.
    induction l as [|d l IH]; intros s; cbn [asum length]; [lia|].
    specialize (IH (s + 1)).
    pose proof (coff_mono s (s + 1) ltac:(lia)) as M1.
    pose proof (coff_mono (s + 1) (s + 1 + N.of_nat (length l)) ltac:(lia)) as M2.
    replace (s + N.of_nat (S (length l))) with (s + 1 + N.of_nat (length l)) by lia.
    unfold bsz. destruct (bd_init d); lia.
  Qed.
  Lemma asum_le_M l s : asum s l <= M.
  Proof. pose proof (asum_bound l s). pose proof (coff_le (s + N.of_nat (length l))). lia. Qed.

  Lemma asum_app_new l m : forall s, asum s (l ++ repeat bdec_new m) = asum s l.
  Proof.
    induction l as [|d l IH]; intros s; cbn [app asum].
    - revert s. induction m as [|m IHm]; intros s; cbn [repeat asum bd_init bdec_new]; [reflexivity|]. rewrite IHm. lia.
    - rewrite IH. reflexivity.
  Qed.
  Lemma nth_upd_eq' i f l d0 : (i < length l)%nat -> nth i (upd_nthb i f l) d0 = f (nth i l d0).
  Proof. revert i. induction l as [|x l IH]; intros [|i] H; cbn [upd_nthb length nth] in *; try lia; auto. apply IH. lia. Qed.
  Lemma nth_upd_ne' i j f l d0 : j <> i -> nth j (upd_nthb i f l) d0 = nth j l d0.
  Proof.
    revert i j. induction l as [|x l IH]; intros [|i] [|j] H; cbn [upd_nthb nth]; try reflexivity; try congruence.
    apply IH. congruence.
  Qed.
  Lemma asum_upd_same i f l : forall s, bd_init (f (nth i l bdec_new)) = bd_init (nth i l bdec_new) ->
    asum s (upd_nthb i f l) = asum s l.
  Proof.
    revert i. induction l as [|x l IH]; intros [|i] s H; cbn [upd_nthb asum nth] in *; try reflexivity.
    - rewrite H. reflexivity.
    - rewrite IH by exact H. reflexivity.
  Qed.
  Lemma asum_upd_new i f l : forall s, (i < length l)%nat ->
    bd_init (nth i l bdec_new) = false -> bd_init (f (nth i l bdec_new)) = true ->
    asum s (upd_nthb i f l) = asum s l + bsz (s + N.of_nat i).
  Proof.
    revert i. induction l as [|x l IH]; intros [|i] s Hi H0 H1; cbn [upd_nthb asum nth length] in *; try lia.
    - rewrite H0, H1. replace (s + N.of_nat 0) with s by lia. lia.
    - rewrite IH by (try lia; assumption). replace (s + 1 + N.of_nat i) with (s + N.of_nat (S i)) by lia. lia.
  Qed.

  (* ---------- the log (shapes of C02Full) ---------- *)
  Notation SRecv := (ShapeRecv content w toi).
  Notation SDone := (ShapeDone content w toi).
  Notation SErr := (ShapeErr content w toi).

  (* ---------- the object invariant ---------- *)
  Record Static (o : objrecv) : Prop := {
    st_state : r_state o = Receiving;
    st_toi : r_toi o = toi;
    st_oti : r_oti o = Some oti;
    st_tlen : r_tlen o = Some L;
    st_cenc : r_cenc o = Some CNull;
    st_fdt : r_fdt_id o <> None;
    st_cache : r_cache o = [];
    st_csz : r_cache_size o = 0;
    st_al : r_al o = al;
    st_as : r_as o = as_;
    st_nal : r_nal o = nal;
    st_md5 : r_md5 o = md5;
    st_max : r_max o = max;
    st_writer : r_writer o = Some (w, WOpened)
  }.

  Record BwInv (off : N) (bw : bwriter) : Prop := {
    bw_1 : bw_sbn bw = off;
    bw_2 : bw_left bw = L - bof off;
    bw_3 : bw_cenc bw = CNull;
    bw_4 : bw_acc bw = take (bof off) content;
    bw_5 : bw_md5 bw = None
  }.

  Record Dyn (o : objrecv) (c : ctx) : Prop := {
    dy_bw : exists bw, r_bw o = Some bw /\ BwInv (r_off o) bw;
    dy_off : r_off o < n;
    dy_nb : 0 < r_off o + N.of_nat (length (r_blocks o));
    dy_blocks : forall i, BlockOk (r_off o + N.of_nat i) (nth i (r_blocks o) bdec_new);
    dy_alloc : r_alloc_size o <= asum (r_off o) (r_blocks o);
    dy_log : SRecv c (bof (r_off o))
  }.
  Definition Flushed (o : objrecv) : Prop := bd_completed (nth 0 (r_blocks o) bdec_new) = false.
  Definition Pre (o : objrecv) (c : ctx) : Prop := Static o /\ Dyn o c.
  Definition Struct (o : objrecv) (c : ctx) : Prop := Static o /\ Dyn o c /\ Flushed o.

  Definition LiveOne (s i : N) (o : objrecv) : Prop :=
    s < r_off o \/
    (r_off o <= s /\
     let d := nth (N.to_nat (s - r_off o)) (r_blocks o) bdec_new in
     bd_init d = true /\ (bd_completed d = true \/ has_esi i (bd_shards d) = true)).
  Definition Mono (o o' : objrecv) : Prop := forall s i, LiveOne s i o -> LiveOne s i o'.

  Ltac prj := cbn [r_state r_toi r_oti r_cache r_cache_size r_max r_blocks r_off r_tlen r_cenc r_md5 r_md5chk
                   r_al r_as r_nal r_writer r_bw r_fdt_id r_nb_alloc r_alloc_size r_clen r_nocache] in *.

  Lemma static_set_blocks o bl off nb sz bw : Static o -> Static (set_blocks o bl off nb sz bw).
  Proof. intros []. constructor; unfold set_blocks; prj; assumption. Qed.

  Lemma or_push_static o c p : Static o -> 0 < nb_block o ->
    or_push E p o c = match push_to_block E p o c with
                      | (ROk o5, c5) => (o5, c5)
                      | (RErr o5, c5) => error o5 false c5
                      end.
  Proof.
    intros [S1 S0 S2 S3 S4 S5 S6 S7 S8 S9 S10 S11 S12 S13] Hnb. destruct o. prj. subst r_state r_oti r_tlen r_cenc r_cache r_cache_size r_writer.
    destruct r_fdt_id as [fid|]; [|congruence].
    unfold or_push. prj.
    match goal with |- context [init_partition ?x] => set (o0 := x) end.
    assert (Hnb0 : 0 < nb_block o0) by exact Hnb.
    assert (I1 : init_partition o0 = o0).
    { unfold init_partition. destruct (N.ltb_spec 0 (nb_block o0)) as [_|G]; [reflexivity|lia]. }
    assert (I2 : init_writer E o0 c = (o0, c)) by reflexivity.
    assert (I3 : push_from_cache E o0 c = (o0, c)).
    { unfold push_from_cache, cache_replay_blocked. change (r_oti o0) with (Some oti). cbv iota beta.
      destruct (N.eqb_spec (nb_block o0) 0) as [G|_]; [lia|]. reflexivity. }
    rewrite I1, I2. cbv iota beta. change (ObjRecv.r_state o0) with Receiving. cbv iota beta.
    rewrite I3. cbv iota beta. change (ObjRecv.r_state o0) with Receiving. cbv iota beta.
    change (ObjRecv.r_oti o0) with (Some oti). cbv iota beta. reflexivity.
  Qed.

  (* ---------- the block writer ---------- *)
  (* what the block writer takes from the padded block is the block of the object *)
  Lemma good_cut off left dd : off < n -> Good off dd -> left = L - bof off ->
    (if lenN_ dd <? left then dd else firstn (N.to_nat left) dd) = blkb off.
  Proof.
    intros Hs [G1 G2] ->.
    destruct (lenN_blk oti content al as_ nal n He Hb HL Hu64 Hpart off Hs) as (B1 & B2 & B3). fold e L in B1, B2, B3.
    destruct (N.lt_ge_cases (off + 1) n) as [Hn|Hn].
    - specialize (G2 Hn). destruct (PF boff_lt (off + 1) Hn) as [_ C2].
      destruct (N.ltb_spec (lenN_ (dd)) (L - bof off)) as [_|G]; [|lia].
      rewrite <- G1. symmetry. apply take_all. lia.
    - assert (Hl : bof (off + 1) = L) by (apply (PF boff_ge); lia).
      replace (L - bof off) with (bln off) by lia.
      destruct (N.ltb_spec (lenN_ (dd)) (bln off)) as [G|G].
      + rewrite <- G1. symmetry. apply take_all. lia.
      + exact G1.
  Qed.

  Lemma bw_write_ok off d bw c : BwInv off bw -> BlockInit off d -> bd_completed d = true ->
    let ok := e_write_ok E w (wcount c w) in
    let c1 := inc_wcount (logc c (EvWrite w (blkb off) ok)) w in
    exists bw', bw_write E w off d bw c = ((if ok then BwOk bw' else BwErr), c1)
      /\ BwInv (off + 1) (mk_bw (bw_sbn bw') (bw_left bw') (bw_clen_left bw') (bw_cenc bw') (bw_inited bw')
                                (bw_dead bw') (bw_acc bw') (bw_md5ctx bw') None)
      /\ (bw_md5 bw' = None \/ (off + 1 = n /\ bw_md5 bw' = Some (e_md5 E content))).
  Proof.
    intros [W1 W2 W3 W4 W5] BI Hc. destruct (bi_done _ _ BI Hc) as (dd & Hd & Hg). pose proof (bi_lt _ _ BI) as Hs.
    destruct (lenN_blk oti content al as_ nal n He Hb HL Hu64 Hpart off Hs) as (B1 & B2 & B3). fold e L in B1, B2, B3.
    cbv zeta. unfold bw_write. rewrite W1, N.eqb_refl. cbn [negb]. rewrite Hd, W3.
    rewrite (good_cut off (bw_left bw) dd Hs Hg W2).
    unfold do_write.
    set (ok := e_write_ok E w (wcount c w)).
    assert (Hacc : bw_acc bw ++ blkb off = take (bof (off + 1)) content).
    { rewrite W4. unfold blk_bytes. fold e L. rewrite take_add, B2. reflexivity. }
    eexists. split; [destruct ok; reflexivity|]. split.
    - constructor; cbn [bw_sbn bw_left bw_cenc bw_acc bw_md5]; try reflexivity.
      + rewrite W2, B1. lia.
      + exact Hacc.
    - cbn [bw_md5]. destruct (N.eqb_spec (bw_left bw - lenN_ (blkb off)) 0) as [Z|NZ]; cbn [andb]; [|left; exact W5].
      destruct (bw_md5ctx bw); [|left; exact W5]. right.
      assert (Hn : off + 1 = n).
      { destruct (N.lt_ge_cases (off + 1) n) as [G|G]; [|lia].
        destruct (PF boff_lt (off + 1) G) as [_ G2]. rewrite W2, B1 in Z. lia. }
      split; [exact Hn|]. rewrite Hacc, Hn. rewrite (PF boff_ge n) by lia.
      rewrite take_all by (unfold L; lia). reflexivity.
  Qed.

  Lemma nth_tl' {A} i (l : list A) d0 : nth i (tl l) d0 = nth (S i) l d0.
  Proof. destruct l; destruct i; reflexivity. Qed.

  (* ---------- outcomes ---------- *)
  Definition NiceEnv : Prop := (forall i, e_write_ok E w i = true) /\ md5_good E content md5.
  Definition ErrPending (o : objrecv) (c : ctx) : Prop :=
    r_writer o = Some (w, WOpened) /\ exists off, SRecv c off.

  Definition WOut (nice : Prop) (o : objrecv) (r : res * ctx) : Prop :=
    match r with
    | (ROk o', c') => (Struct o' c' /\ Mono o o') \/ (r_state o' = Completed /\ SDone c')
                      \/ (r_state o' = Errored /\ SErr c' /\ ~ nice)
    | (RErr o', c') => ErrPending o' c' /\ ~ nice
    end.

  Lemma wout_trans nice o o1 r : Mono o o1 -> WOut nice o1 r -> WOut nice o r.
  Proof.
    intros M0. destruct r as [[o'|o'] c']; cbn [WOut]; [|tauto].
    intros [[S1 M1]|H]; [left|right; exact H]. split; [exact S1|]. intros s i H. apply M1, M0, H.
  Qed.

  Lemma acc_step' s : s < n -> take (bof s) content ++ blkb s = take (bof (s + 1)) content.
  Proof. intros Hs. exact (acc_step oti content al as_ nal n He Hb HL Hu64 Hpart s Hs). Qed.

  (* write_blocks started at the first block of the window: flushes every completed block in order *)
  Lemma wb_loop : forall fuel o c, Pre o c -> (length (r_blocks o) <= fuel)%nat ->
    WOut NiceEnv o (write_blocks E fuel (r_off o) o c).
  Proof.
    induction fuel as [|f IH]; intros o c [St Dy] Hlen.
    - cbn [write_blocks WOut]. left. split; [|intros s i H; exact H].
      split; [exact St|split; [exact Dy|]]. unfold Flushed. destruct (r_blocks o); [reflexivity|cbn in Hlen; lia].
    - cbn [write_blocks]. rewrite (st_writer _ St). destruct (dy_bw _ _ Dy) as (bw & Hbw & BW). rewrite Hbw.
      destruct (N.leb_spec (r_off o) (r_off o)) as [_|G]; [|lia]. cbn [andb].
      replace (r_off o - r_off o) with 0 by lia. change (N.to_nat 0) with 0%nat.
      destruct (r_blocks o) as [|d l] eqn:Hbl.
      { cbn [length N.of_nat]. destruct (N.ltb_spec 0 0) as [G|_]; [lia|]. cbn [WOut]. left.
        split; [|intros s i H; exact H]. split; [exact St|split; [exact Dy|]]. unfold Flushed. rewrite Hbl. reflexivity. }
      destruct (N.ltb_spec 0 (N.of_nat (length (d :: l)))) as [_|G]; [|cbn [length] in G; lia].
      cbn [nth]. destruct (bd_completed d) eqn:Hc; cbn [negb].
      2:{ cbn [WOut]. left. split; [|intros s i H; exact H]. split; [exact St|split; [exact Dy|]].
          unfold Flushed. rewrite Hbl. exact Hc. }
      assert (BI : BlockInit (r_off o) d).
      { pose proof (dy_blocks _ _ Dy 0%nat) as [B0 B1]. rewrite Hbl in B0, B1. cbn [nth] in B0, B1.
        replace (r_off o + N.of_nat 0) with (r_off o) in * by lia.
        destruct (bd_init d) eqn:Hi; [apply B1; reflexivity|rewrite B0 in Hc; [discriminate|reflexivity]]. }
      pose proof (dy_off _ _ Dy) as Hoff.
      destruct (bw_write_ok (r_off o) d bw c BW BI Hc) as (bw' & Hw & BW' & Hmd5). cbv zeta in Hw. rewrite Hw.
      set (c1 := inc_wcount (logc c (EvWrite w (blkb (r_off o)) (e_write_ok E w (wcount c w)))) w).
      assert (Sh1 : SRecv c1 (bof (r_off o + 1))).
      { eapply shape_write; [apply (dy_log _ _ Dy)|reflexivity|apply acc_step'; exact Hoff]. }
      destruct (e_write_ok E w (wcount c w)) eqn:Hok.
      2:{ cbn [WOut]. split; [split; [apply (st_writer _ St)|eexists; exact Sh1]|].
          intros [N1 _]. rewrite N1 in Hok. discriminate. }
      cbn [Nat.eqb tl]. cbv beta iota zeta.
      set (o1 := set_blocks o l (r_off o + 1) (r_nb_alloc o - 1) (r_alloc_size o - bd_size d) (Some bw')).
      assert (St1 : Static o1) by (apply static_set_blocks; exact St).
      assert (Hleft : bw_left bw' = L - bof (r_off o + 1)) by (apply (bw_2 _ _ BW')).
      assert (M1 : Mono o o1).
      { intros s i [H|[H1 H2]]; [left; unfold o1, set_blocks; prj; lia|].
        destruct (N.eq_dec s (r_off o)) as [->|Ne]; [left; unfold o1, set_blocks; prj; lia|].
        right. unfold o1, set_blocks; prj. split; [lia|]. rewrite Hbl in H2.
        replace (N.to_nat (s - r_off o)) with (S (N.to_nat (s - (r_off o + 1)))) in H2 by lia. exact H2. }
      destruct (N.eqb_spec (bw_left bw') 0) as [Z|NZ].
      + (* the last block has been written *)
        assert (Hn : r_off o + 1 = n).
        { destruct (N.lt_ge_cases (r_off o + 1) n) as [G|G]; [|lia].
          destruct (PF boff_lt (r_off o + 1) G) as [_ G2]. lia. }
        assert (ShL : SRecv c1 L).
        { rewrite Hn in Sh1. rewrite (PF boff_ge n) in Sh1 by lia. exact Sh1. }
        assert (Hw1 : r_writer o1 = Some (w, WOpened)) by apply (st_writer _ St1).
        set (valid := match r_md5 o1, bw_md5 bw' with Some want, Some got => eqb_bytes want got | _, _ => true end).
        destruct valid eqn:V.
        * destruct (complete_res w o1 c1 _ Hw1) as (o2 & Hcp & Hst). rewrite Hcp. cbn [WOut]. right; left.
          split; [exact Hst|]. eapply (shape_done oti content w toi He Hb HL Hu64); [exact ShL|reflexivity].
        * destruct (error_res w o1 c1 _ false Hw1) as (o2 & Hcp & Hst). rewrite Hcp. cbn [WOut]. right; right.
          split; [exact Hst|]. split; [eapply shape_err; [exact ShL|reflexivity|left; reflexivity]|].
          intros [_ G]. unfold md5_good in G. unfold valid in V. rewrite (st_md5 _ St1) in V.
          destruct md5 as [want|]; [|discriminate].
          destruct Hmd5 as [H|[_ H]]; rewrite H in V; [discriminate|congruence].
      + assert (Hn : r_off o + 1 < n).
        { destruct (N.lt_ge_cases (r_off o + 1) n) as [G|G]; [exact G|].
          rewrite (PF boff_ge (r_off o + 1)) in Hleft by lia. lia. }
        assert (P1 : Pre o1 c1).
        { split; [exact St1|]. constructor; unfold o1, set_blocks; prj.
          - exists bw'. split; [reflexivity|]. destruct Hmd5 as [H|[H _]]; [|lia].
            destruct BW' as [V1 V2 V3 V4 V5]. cbn [bw_sbn bw_left bw_cenc bw_acc bw_md5] in *. constructor; assumption.
          - exact Hn.
          - lia.
          - intros i. pose proof (dy_blocks _ _ Dy (S i)) as B. rewrite Hbl in B. cbn [nth] in B.
            replace (r_off o + 1 + N.of_nat i) with (r_off o + N.of_nat (S i)) by lia. exact B.
          - pose proof (dy_alloc _ _ Dy) as A. rewrite Hbl in A. cbn [asum] in A.
            rewrite (bi_init _ _ BI) in A. rewrite (bi_size _ _ BI). lia.
          - exact Sh1. }
        change (r_off o + 1) with (r_off o1).
        apply (wout_trans _ o o1); [exact M1|]. apply IH; [exact P1|].
        unfold o1, set_blocks; prj. cbn [length] in Hlen. lia.
  Qed.

  Definition bad (o : objrecv) : Prop := r_state o = Errored \/ r_state o = Interrupted.
  (* P: the payload has a size the decoder keeps (RaptorQ: E); only then is the symbol known to be stored *)
  Definition POut (P nice : Prop) (o : objrecv) (s i : N) (r : res * ctx) : Prop :=
    match r with
    | (ROk o', c') => (Struct o' c' /\ Mono o o' /\ (P -> LiveOne s i o')) \/ (r_state o' = Completed /\ SDone c')
                      \/ (bad o' /\ SErr c' /\ ~ nice)
    | (RErr o', c') => (exists ws, r_writer o' = Some (w, ws)) /\ (exists off, SRecv c' off) /\ ~ nice
    end.
  Lemma pout_weaken (P nice nice' : Prop) o s i r : (nice' -> nice) -> POut P nice o s i r -> POut P nice' o s i r.
  Proof. intros H. destruct r as [[o'|o'] c']; cbn [POut]; tauto. Qed.
  Lemma wout_pout (P : Prop) nice o o1 s i r : Mono o o1 -> (P -> LiveOne s i o1) -> WOut nice o1 r -> POut P nice o s i r.
  Proof.
    intros M0 Lv. destruct r as [[o'|o'] c']; cbn [WOut POut].
    - intros [[S1 M1]|[H|(H1 & H2 & H3)]]; [left|right; left; exact H|right; right].
      + split; [exact S1|]. split; [intros s' i' H; apply M1, M0, H|intros HP; apply M1, Lv, HP].
      + split; [left; exact H1|]. split; assumption.
    - intros [[H1 H2] H3]. split; [eexists; exact H1|]. split; assumption.
  Qed.

  Lemma p2b_tail o c sbn esi payload b1 nb sz :
    Struct o c -> r_off o <= sbn -> sbn < n ->
    let idx := N.to_nat (sbn - r_off o) in
    (idx < length (r_blocks o))%nat ->
    let d := nth idx (r_blocks o) bdec_new in
    bd_completed d = false -> BlockInit sbn b1 -> bd_completed b1 = false ->
    (bd_init d = true -> b1 = d /\ sz = r_alloc_size o) ->
    (bd_init d = false -> sz = r_alloc_size o + bsz sbn) ->
    esi_ok sbn esi -> payload = esym sbn esi ->
    POut (sized payload) NiceEnv o sbn esi
      (let (b2, pan) := bd_push E (r_toi o) oti sbn esi payload b1 in
       let c1 := if pan then panicc c else c in
       let o1 := set_blocks o (upd_nthb idx (fun _ => b2) (r_blocks o)) (r_off o) nb sz (r_bw o) in
       if bd_completed b2 then write_blocks E (S (length (r_blocks o1))) sbn o1 c1 else (ROk o1, c1)).
  Proof.
    intros (St & Dy & Fl) Hge Hlt idx Hidx d Hdc BI1 Hc1 Hinit Hnew Hesi Hpay.
    rewrite (st_toi _ St).
    destruct (bd_push_ok sbn esi payload b1 BI1 Hc1 Hesi Hpay) as (Q1 & Q2 & Q3 & Q4).
    destruct (bd_push E toi oti sbn esi payload b1) as [b2 pan]. cbn [fst snd] in Q1, Q2, Q3, Q4. subst pan.
    cbv zeta.
    set (o1 := set_blocks o (upd_nthb idx (fun _ => b2) (r_blocks o)) (r_off o) nb sz (r_bw o)).
    assert (Hsbn : r_off o + N.of_nat idx = sbn) by (unfold idx; lia).
    assert (P1 : Pre o1 c).
    { split; [apply static_set_blocks; exact St|]. constructor; unfold o1, set_blocks; prj.
      - exact (dy_bw _ _ Dy).
      - exact (dy_off _ _ Dy).
      - rewrite length_upd. exact (dy_nb _ _ Dy).
      - intros i. destruct (Nat.eq_dec i idx) as [->|Ne].
        + rewrite nth_upd_eq' by exact Hidx. rewrite Hsbn. split; [rewrite (bi_init _ _ Q2); discriminate|intros _; exact Q2].
        + rewrite nth_upd_ne' by exact Ne. apply (dy_blocks _ _ Dy).
      - pose proof (dy_alloc _ _ Dy) as A. destruct (bd_init d) eqn:Hi.
        + destruct (Hinit eq_refl) as [_ ->]. rewrite asum_upd_same; [exact A|]. fold d. rewrite Hi. apply (bi_init _ _ Q2).
        + rewrite (Hnew eq_refl). rewrite asum_upd_new; [rewrite Hsbn; lia|exact Hidx|exact Hi|apply (bi_init _ _ Q2)].
      - exact (dy_log _ _ Dy). }
    assert (M1 : Mono o o1).
    { intros s i [H|[H1 H2]]; [left; exact H|]. right. split; [exact H1|]. unfold o1, set_blocks; prj.
      destruct (Nat.eq_dec (N.to_nat (s - r_off o)) idx) as [Eq|Ne].
      - rewrite Eq in *. rewrite nth_upd_eq' by exact Hidx. fold d in H2. cbv zeta in H2. destruct H2 as [H2 H3].
        split; [apply (bi_init _ _ Q2)|]. right. destruct H3 as [H3|H3]; [congruence|].
        apply Q4. destruct (Hinit H2) as [-> _]. exact H3.
      - rewrite nth_upd_ne' by exact Ne. exact H2. }
    assert (Lv : sized payload -> LiveOne sbn esi o1).
    { intros Hz. specialize (Q3 Hz). right. split; [exact Hge|]. unfold o1, set_blocks; prj. fold idx. rewrite nth_upd_eq' by exact Hidx.
      split; [apply (bi_init _ _ Q2)|right; exact Q3]. }
    destruct (bd_completed b2) eqn:Hc2.
    2:{ cbn [POut]. left. split; [|split; [exact M1|exact Lv]]. destruct P1 as [S1 D1]. split; [exact S1|split; [exact D1|]].
        unfold Flushed, o1, set_blocks; prj. destruct (Nat.eq_dec 0 idx) as [Eq|Ne].
        - rewrite <- Eq in *. rewrite nth_upd_eq' by exact Hidx. exact Hc2.
        - rewrite nth_upd_ne' by exact Ne. exact Fl. }
    destruct (N.eq_dec sbn (r_off o)) as [Eq|Ne].
    - (* the first block of the window completed: flush *)
      rewrite Eq. change (r_off o) with (r_off o1) at 2.
      apply (wout_pout _ _ o o1); [exact M1|rewrite <- Eq; exact Lv|]. apply wb_loop; [exact P1|lia].
    - (* a later block completed: nothing can be written yet *)
      cbn [write_blocks]. destruct P1 as [S1 D1]. rewrite (st_writer _ S1).
      destruct (dy_bw _ _ D1) as (bw & Hbw & BW). rewrite Hbw.
      assert (R1 : r_off o1 = r_off o) by reflexivity. rewrite R1.
      assert (R2 : length (r_blocks o1) = length (r_blocks o)) by (unfold o1, set_blocks; prj; apply length_upd).
      rewrite R2.
      destruct (N.leb_spec (r_off o) sbn) as [_|G]; [|lia].
      destruct (N.ltb_spec (sbn - r_off o) (N.of_nat (length (r_blocks o)))) as [_|G]; [|unfold idx in Hidx; lia].
      cbn [andb]. fold idx.
      assert (R3 : nth idx (r_blocks o1) bdec_new = b2) by (unfold o1, set_blocks; prj; apply nth_upd_eq'; exact Hidx).
      rewrite R3, Hc2. cbn [negb]. unfold bw_write. rewrite (bw_1 _ _ BW), R1.
      destruct (N.eqb_spec (r_off o) sbn) as [G|_]; [congruence|]. cbn [negb POut].
      left. split; [|split; [exact M1|exact Lv]]. split; [exact S1|split; [exact D1|]].
      unfold Flushed, o1, set_blocks; prj. rewrite nth_upd_ne'; [exact Fl|]. unfold idx. lia.
  Qed.

  Lemma pout_mono (P : Prop) nice o o0 s i r : Mono o o0 -> POut P nice o0 s i r -> POut P nice o s i r.
  Proof.
    intros M0. destruct r as [[o'|o'] c']; cbn [POut]; [|tauto].
    intros [(S1 & M1 & L1)|H]; [left|right; exact H]. split; [exact S1|]. split; [|exact L1].
    intros s' i' H. apply M1, M0, H.
  Qed.

  (* a packet is genuine for (oti, content, rep) at (sbn, esi); a FEC-129 packet carries the number of
     source symbols of its block *)
  Definition sblv (s : N) : option N := if us then Some (kof s) else None.
  Definition genuine_at (p : apkt) (sbn esi : N) : Prop :=
    a_pid_with (ro_fec oti) p = Some (sbn, esi, sblv sbn) /\ sbn < n /\ esi_ok sbn esi
    /\ a_payload p = esym sbn esi.

  Definition Nice2 : Prop := NiceEnv /\ M <= max /\ n <= 4097 /\ InitOk.

  Lemma p2b o c p sbn esi : Struct o c -> genuine_at p sbn esi ->
    POut (sized (a_payload p)) Nice2 o sbn esi (push_to_block2 E p o c).
  Proof.
    intros S0 (Hpid & Hlt & Hesi & Hpay). pose proof S0 as (St & Dy & Fl).
    unfold push_to_block2. rewrite (st_oti _ St), (st_tlen _ St), Hpid.
    destruct (N.eqb_spec L 0) as [G|_]; [lia|].
    destruct (N.ltb_spec sbn (r_off o)) as [Hold|Hge].
    { cbn [POut]. left. split; [exact S0|]. split; [intros ? ? H; exact H|intros _; left; exact Hold]. }
    assert (Hnb : nb_blocks_of oti L = n) by (unfold nb_blocks_of; fold b e; rewrite Hpart; reflexivity).
    assert (Hchk : match sblv sbn with None => nb_blocks_of oti L <=? sbn | Some _ => false end = false).
    { unfold sblv. destruct us; [reflexivity|]. rewrite Hnb. apply N.leb_gt. exact Hlt. }
    rewrite Hchk.
    set (len := N.of_nat (length (r_blocks o))). set (off := sbn - r_off o).
    destruct ((len <=? off) && (4096 <? off)) eqn:X.
    { cbn [POut]. split; [exists WOpened; apply (st_writer _ St)|]. split; [eexists; apply (dy_log _ _ Dy)|].
      intros (_ & _ & Hn & _). apply andb_true_iff in X. destruct X as [_ X]. apply N.ltb_lt in X. unfold off in X. lia. }
    cbv zeta.
    set (bl0 := if len <=? off then r_blocks o ++ repeat bdec_new (N.to_nat off + 1 - length (r_blocks o)) else r_blocks o).
    assert (F : (forall i, nth i bl0 bdec_new = nth i (r_blocks o) bdec_new)
                /\ (forall s, asum s bl0 = asum s (r_blocks o))
                /\ (N.to_nat off < length bl0)%nat /\ (length (r_blocks o) <= length bl0)%nat).
    { unfold bl0. destruct (N.leb_spec len off) as [G|G]; unfold len in G.
      - split; [intros i; apply nth_app_new|]. split; [intros s; apply asum_app_new|].
        rewrite app_length, repeat_length. lia.
      - split; [reflexivity|]. split; [reflexivity|]. lia. }
    destruct F as (F1 & F2 & F3 & F4). clearbody bl0.
    set (o0 := set_blocks o bl0 (r_off o) (r_nb_alloc o) (r_alloc_size o) (r_bw o)).
    assert (S0' : Struct o0 c).
    { split; [apply static_set_blocks; exact St|]. split.
      - constructor; unfold o0, set_blocks; prj.
        + exact (dy_bw _ _ Dy).
        + exact (dy_off _ _ Dy).
        + pose proof (dy_nb _ _ Dy). lia.
        + intros i. rewrite F1. apply (dy_blocks _ _ Dy).
        + rewrite F2. exact (dy_alloc _ _ Dy).
        + exact (dy_log _ _ Dy).
      - unfold Flushed, o0, set_blocks; prj. rewrite F1. exact Fl. }
    assert (M0 : Mono o o0).
    { intros s i [H|[H1 H2]]; [left; exact H|right; split; [exact H1|]]. unfold o0, set_blocks; prj. rewrite F1. exact H2. }
    set (d := nth (N.to_nat off) bl0 bdec_new).
    assert (Bd : BlockOk sbn d).
    { unfold d. rewrite F1. replace sbn with (r_off o + N.of_nat (N.to_nat off)) at 1 by (unfold off; lia).
      apply (dy_blocks _ _ Dy). }
    destruct (bd_completed d) eqn:Hc.
    { cbn [POut]. left. split; [exact S0'|]. split; [exact M0|]. intros _. right. split; [exact Hge|].
      unfold o0, set_blocks; prj. fold off. fold d. split; [|left; exact Hc].
      destruct (bd_init d) eqn:Hi; [reflexivity|]. destruct Bd as [B0 _]. rewrite B0 in Hc by exact Hi. discriminate. }
    destruct (bd_init d) eqn:Hi.
    - cbv iota beta.
      apply (pout_weaken _ NiceEnv); [intros H; apply H|]. apply (pout_mono _ _ o o0); [exact M0|].
      assert (BId : BlockInit sbn d) by (destruct Bd as [_ B1]; apply B1; exact Hi).
      refine (p2b_tail o0 c sbn esi (a_payload p) d (r_nb_alloc o) (r_alloc_size o) S0' Hge Hlt F3 Hc BId Hc _ _ Hesi Hpay).
      + intros _. split; reflexivity.
      + intros G. change (bd_init d = false) in G. congruence.
    - rewrite (st_al _ St), (st_as _ St), (st_nal _ St).
      change (if sbn <? nal then al else as_) with (kof sbn). fold e.
      assert (Hk : match sblv sbn with Some v => v | None => kof sbn end = kof sbn)
        by (unfold sblv; destruct us; reflexivity).
      rewrite Hk.
      assert (Hbl : match sblv sbn with
                    | Some _ => Some (kof sbn * e)
                    | None => block_length64 al as_ nal L e sbn
                    end = Some (bsz sbn)).
      { rewrite (bsz_spec sbn Hlt). unfold sblv. destruct us; [reflexivity|]. apply (PF bl64 Hu64 sbn Hlt). }
      rewrite Hbl.
      destruct ((2 <=? r_nb_alloc o) && (r_max o <? r_alloc_size o + bsz sbn)) eqn:Y.
      { cbn [POut]. split; [exists WOpened; apply (st_writer _ St)|]. split; [eexists; apply (dy_log _ _ Dy)|].
        intros (_ & Hm & _). apply andb_true_iff in Y. destruct Y as [_ Y]. apply N.ltb_lt in Y.
        rewrite (st_max _ St) in Y. pose proof (dy_alloc _ _ Dy) as A. rewrite <- F2 in A.
        pose proof (asum_upd_new (N.to_nat off) (fun x => mk_bdec false true 0 0 [] None false) bl0 (r_off o) F3 Hi eq_refl) as U.
        pose proof (asum_le_M (upd_nthb (N.to_nat off) (fun x => mk_bdec false true 0 0 [] None false) bl0) (r_off o)) as B.
        replace (r_off o + N.of_nat (N.to_nat off)) with sbn in U by (unfold off; lia). lia. }
      assert (Hinit : bd_init_block oti (kof sbn) (bsz sbn) d
                      = if (if cls then rs_ok (kof sbn) par else fq_dec_ok (kof sbn))
                        then Some (mk_bdec (bd_completed d) true (bsz sbn) (kof sbn) [] None true) else None).
      { unfold bd_init_block. rewrite Hi. fold par e. unfold cls, fq_dec_ok.
        destruct (ro_fec oti); try discriminate Hfec; try reflexivity.
        - destruct (ro_scheme oti) as [[[z nn] al_]|]; [|reflexivity].
          destruct ((e =? 0) || (al_ =? 0) || negb (e mod al_ =? 0) || (nn =? 0) || (kof sbn =? 0) || (RAPTORQ_KMAX <? kof sbn));
            reflexivity.
        - destruct (ro_scheme oti) as [x|]; [|reflexivity].
          destruct ((kof sbn =? 0) || (RAPTOR_KMAX <? kof sbn)); reflexivity. }
      rewrite Hinit. destruct (if cls then rs_ok (kof sbn) par else fq_dec_ok (kof sbn)) eqn:R.
      2:{ cbn [POut]. split; [exists WOpened; apply (st_writer _ St)|]. split; [eexists; apply (dy_log _ _ Dy)|].
          intros (_ & _ & _ & Hr). specialize (Hr sbn Hlt). destruct cls; rewrite Hr in R; discriminate. }
      cbv iota beta.
      apply (pout_weaken _ NiceEnv); [intros H; apply H|]. apply (pout_mono _ _ o o0); [exact M0|].
      set (b1 := mk_bdec (bd_completed d) true (bsz sbn) (kof sbn) [] None true).
      assert (BI1 : BlockInit sbn b1).
      { constructor; unfold b1; cbn [bd_init bd_k bd_size bd_alloc bd_shards bd_completed bd_data length map]; try reflexivity; try assumption.
        - constructor.
        - constructor.
        - intros _. split; [reflexivity|]. intros _. pose proof (PF k_pos sbn) as Kp. unfold Decodable.
          destruct cls; [cbn [length N.of_nat]; lia|]. intros HD. specialize (HD 0 Kp). discriminate HD.
        - rewrite Hc. discriminate. }
      refine (p2b_tail o0 c sbn esi (a_payload p) b1 (r_nb_alloc o + 1) (r_alloc_size o + bsz sbn) S0' Hge Hlt F3 Hc BI1 Hc _ _ Hesi Hpay).
      + intros G. change (bd_init d = true) in G. congruence.
      + intros _. reflexivity.
  Qed.

  (* the close-object flag is harmless when it arrives with (or after) the packet that completes the
     object: it must not leave any receiving successor state *)
  Definition FlagOk (o : objrecv) (p : apkt) (s i : N) : Prop :=
    a_close_obj p = true -> forall o1 c1, Struct o1 c1 -> Mono o o1 -> (sized (a_payload p) -> LiveOne s i o1) -> False.

  Lemma ptb o c p sbn esi : Struct o c -> genuine_at p sbn esi ->
    POut (sized (a_payload p)) (Nice2 /\ FlagOk o p sbn esi) o sbn esi (push_to_block E p o c).
  Proof.
    intros S0 G. pose proof (p2b o c p sbn esi S0 G) as H. unfold push_to_block.
    destruct (push_to_block2 E p o c) as [[o1|o1] c1].
    2:{ apply (pout_weaken _ Nice2); [tauto|exact H]. }
    destruct (a_close_obj p) eqn:Hcl; [|apply (pout_weaken _ Nice2); [tauto|exact H]].
    cbn [POut] in H. destruct H as [(S1 & M1 & L1)|[(H1 & H2)|(H1 & H2 & H3)]].
    - pose proof S1 as (St1 & Dy1 & _). rewrite (st_state _ St1), (st_writer _ St1).
      destruct (error_res w o1 c1 _ true (st_writer _ St1)) as (o2 & Hcp & Hst). rewrite Hcp. cbn [POut].
      right; right. split; [right; exact Hst|]. split; [|intros [_ G']; exact (G' Hcl o1 c1 S1 M1 L1)].
      eapply shape_err; [apply (dy_log _ _ Dy1)|reflexivity|right; reflexivity].
    - rewrite H1. cbn [POut]. right; left. split; assumption.
    - cbn [POut]. destruct H1 as [H1|H1]; rewrite H1; right; right; (split; [|split; [exact H2|tauto]]);
        [left|right]; exact H1.
  Qed.

  Definition StepOut (P nice : Prop) (o : objrecv) (s i : N) (r : objrecv * ctx) : Prop :=
    let (o', c') := r in
    (Struct o' c' /\ Mono o o' /\ (P -> LiveOne s i o')) \/ (r_state o' = Completed /\ SDone c')
    \/ (bad o' /\ SErr c' /\ ~ nice).

  Lemma step o c p sbn esi : Struct o c -> genuine_at p sbn esi ->
    StepOut (sized (a_payload p)) (Nice2 /\ FlagOk o p sbn esi) o sbn esi (or_push E p o c).
  Proof.
    intros S0 G. pose proof S0 as (St & Dy & _).
    rewrite or_push_static; [|exact St|unfold nb_block; exact (dy_nb _ _ Dy)].
    pose proof (ptb o c p sbn esi S0 G) as H.
    destruct (push_to_block E p o c) as [[o1|o1] c1]; cbn [POut StepOut] in *; [exact H|].
    destruct H as ((ws & Hw) & (off & Sh) & Hn).
    destruct (error_res w o1 c1 _ false Hw) as (o2 & Hcp & Hst). rewrite Hcp.
    right; right. split; [left; exact Hst|]. split; [|exact Hn].
    eapply shape_err; [exact Sh|reflexivity|left; reflexivity].
  Qed.

  (* ---------- runs ---------- *)
  Definition rs_pid (p : apkt) : N * N :=
    match a_pid_with (ro_fec oti) p with Some (s, i, _) => (s, i) | None => (0, 0) end.
  Definition genuine (p : apkt) : Prop := genuine_at p (fst (rs_pid p)) (snd (rs_pid p)).
  Definition sbl_okb (s : N) (x : option N) : bool :=
    match x with Some v => us && (v =? kof s) | None => negb us end.
  Definition genuineb (p : apkt) : bool :=
    match a_pid_with (ro_fec oti) p with
    | Some (s, i, x) => sbl_okb s x && (s <? n) && (negb cls || (i <? kof s + par)) && eqb_bytes (a_payload p) (esym s i)
    | None => false
    end.
  Lemma genuineb_spec p : genuineb p = true -> genuine p.
  Proof.
    unfold genuineb, genuine, genuine_at, rs_pid.
    destruct (a_pid_with (ro_fec oti) p) as [[[s i] x]|]; try discriminate. cbn [fst snd].
    intros H. apply andb_true_iff in H. destruct H as [H H3]. apply andb_true_iff in H. destruct H as [H H2].
    apply andb_true_iff in H. destruct H as [H0 H1].
    apply N.ltb_lt in H1. apply eqb_bytes_eq in H3.
    assert (H2' : esi_ok s i).
    { intros C. rewrite C in H2. cbn [negb orb] in H2. apply N.ltb_lt in H2. exact H2. }
    split; [|auto]. f_equal. f_equal. unfold sbl_okb, sblv in *. destruct x as [v|]; destruct us; try discriminate; [|reflexivity].
    cbn [andb] in H0. apply N.eqb_eq in H0. congruence.
  Qed.

  (* T2 (safety): whatever genuine packets are pushed, in whatever order and multiplicity *)
  Definition RunOut (r : objrecv * ctx) : Prop :=
    let (o', c') := r in
    Struct o' c' \/ (r_state o' = Completed /\ SDone c') \/ (bad o' /\ SErr c').

  Lemma run_safe pkts : forall o c, Struct o c -> Forall genuine pkts -> RunOut (run E pkts (o, c)).
  Proof.
    induction pkts as [|p pkts IH]; intros o c S0 G; [left; exact S0|].
    inversion G as [|? ? Gp Gr]; subst. unfold run. cbn [fold_left fst snd].
    pose proof (step o c p _ _ S0 Gp) as H. destruct (or_push E p o c) as [o1 c1]. cbn [StepOut] in H.
    destruct H as [(S1 & _)|[(H1 & H2)|(H1 & H2 & _)]].
    - apply IH; assumption.
    - fold (run E pkts (o1, c1)). rewrite run_closed by congruence. right; left. split; assumption.
    - fold (run E pkts (o1, c1)). rewrite run_closed by (destruct H1; congruence). right; right. split; assumption.
  Qed.

  (* T1 (delivery) *)
  Definition LiveAll (seen : list (N * N)) (o : objrecv) : Prop := forall s i, In (s, i) seen -> LiveOne s i o.

  (* Reed-Solomon: every block has k distinct symbols in the list; RaptorQ / Raptor: all its source symbols *)
  Definition covered (l : list (N * N)) : Prop :=
    forall s, s < n -> exists esis, NoDup esis
      /\ (if cls then kof s <= N.of_nat (length esis) else forall j, j < kof s -> In j esis)
      /\ forall i, In i esis -> In (s, i) l.

  Lemma covered_incl l l' : incl l l' -> covered l -> covered l'.
  Proof.
    intros I C s Hs. destruct (C s Hs) as (esis & H1 & H2 & H3). exists esis. split; [exact H1|]. split; [exact H2|].
    intros i Hi. apply I, H3, Hi.
  Qed.

  Lemma struct_not_covered o c seen : Mds -> Struct o c -> LiveAll seen o -> covered seen -> False.
  Proof.
    intros HM (St & Dy & Fl) Lv Cov. pose proof (dy_off _ _ Dy) as Hoff.
    set (d := nth 0 (r_blocks o) bdec_new).
    destruct (Cov _ Hoff) as (esis & ND & Hlen & Hin).
    assert (A : forall i, In i esis -> bd_init d = true /\ has_esi i (bd_shards d) = true).
    { intros i Hi. destruct (Lv _ _ (Hin _ Hi)) as [H|[_ H]]; [lia|].
      replace (N.to_nat (r_off o - r_off o)) with 0%nat in H by lia. fold d in H. cbv zeta in H.
      destruct H as [H1 [H2|H2]]; [|split; assumption]. unfold Flushed in Fl. fold d in Fl. congruence. }
    pose proof (PF k_pos (r_off o)) as Kp.
    assert (Hne : exists i0, In i0 esis).
    { destruct cls; [|exists 0; apply Hlen; exact Kp].
      destruct esis as [|i0 esis']; [cbn [length N.of_nat] in Hlen; lia|exists i0; left; reflexivity]. }
    destruct Hne as (i0 & Hi0). destruct (A i0 Hi0) as [Hi _].
    pose proof (dy_blocks _ _ Dy 0%nat) as [_ B]. fold d in B. replace (r_off o + N.of_nat 0) with (r_off o) in B by lia.
    specialize (B Hi). destruct (bi_open _ _ B Fl) as [_ Hopen]. apply (Hopen HM). unfold Decodable.
    destruct cls.
    - assert (length esis <= length (map fst (bd_shards d)))%nat.
      { apply NoDup_incl_length; [exact ND|]. intros x Hx. apply has_esi_in. apply A. exact Hx. }
      rewrite map_length in H. lia.
    - intros j Hj. apply A. apply Hlen. exact Hj.
  Qed.

  (* a packet carrying the close-object flag arrives only once the object is recoverable *)
  Definition close_ok (seen : list (N * N)) (pkts : list apkt) : Prop :=
    forall pre p post, pkts = pre ++ p :: post -> a_close_obj p = true ->
      covered (map rs_pid (pre ++ [p]) ++ seen).

  Lemma run_live pkts : forall o c seen, Mds -> Struct o c -> LiveAll seen o -> Nice2 ->
    Forall genuine pkts -> Forall (fun p => sized (a_payload p)) pkts -> close_ok seen pkts ->
    let (o', c') := run E pkts (o, c) in
    (Struct o' c' /\ LiveAll (List.rev (map rs_pid pkts) ++ seen) o') \/ (r_state o' = Completed /\ SDone c').
  Proof.
    induction pkts as [|p pkts IH]; intros o c seen HM S0 Lv Nc G Z Cl; [left; split; assumption|].
    inversion G as [|? ? Gp Gr]; subst. inversion Z as [|? ? Zp Zr]; subst. unfold run. cbn [fold_left fst snd].
    pose proof (step o c p _ _ S0 Gp) as H. destruct (or_push E p o c) as [o1 c1]. cbn [StepOut] in H.
    assert (LvP : forall o2, Mono o o2 -> LiveOne (fst (rs_pid p)) (snd (rs_pid p)) o2 -> LiveAll (rs_pid p :: seen) o2).
    { intros o2 M2 L2 s i [Eq|Hin]; [rewrite Eq in L2; exact L2|apply M2, Lv, Hin]. }
    destruct H as [(S1 & M1 & L1)|[(H1 & H2)|(_ & _ & H3)]].
    - fold (run E pkts (o1, c1)).
      specialize (IH o1 c1 (rs_pid p :: seen) HM S1 (LvP o1 M1 (L1 Zp)) Nc Gr Zr).
      assert (Cl1 : close_ok (rs_pid p :: seen) pkts).
      { intros pre q post Eq Hq. specialize (Cl (p :: pre) q post). rewrite Eq in Cl.
        specialize (Cl eq_refl Hq). revert Cl. apply covered_incl. intros x Hx. cbn [app map] in Hx.
        destruct Hx as [Hx|Hx]; [apply in_or_app; right; left; exact Hx|].
        apply in_app_or in Hx. apply in_or_app. destruct Hx as [Hx|Hx]; [left; exact Hx|right; right; exact Hx]. }
      specialize (IH Cl1).
      destruct (run E pkts (o1, c1)) as [o' c']. cbn [map List.rev]. rewrite <- app_assoc. exact IH.
    - fold (run E pkts (o1, c1)). rewrite run_closed by congruence. right. split; assumption.
    - exfalso. apply H3. split; [exact Nc|]. intros Hcl o2 c2 S2 M2 L2.
      apply (struct_not_covered o2 c2 (rs_pid p :: seen) HM S2 (LvP o2 M2 (L2 Zp))).
      generalize (Cl [] p pkts eq_refl Hcl). apply covered_incl. intros x Hx. exact Hx.
  Qed.

  Theorem deliver pkts o c : Mds -> Struct o c -> Nice2 -> Forall genuine pkts ->
    Forall (fun p => sized (a_payload p)) pkts ->
    close_ok [] pkts -> covered (map rs_pid pkts) ->
    let (o', c') := run E pkts (o, c) in r_state o' = Completed /\ SDone c'.
  Proof.
    intros HM S0 Nc G Z Cl Cov. pose proof (run_live pkts o c [] HM S0 (fun s i H => match H with end) Nc G Z Cl) as H.
    destruct (run E pkts (o, c)) as [o' c']. destruct H as [(S1 & Lv)|H]; [exfalso|exact H].
    apply (struct_not_covered o' c' _ HM S1 Lv). revert Cov. apply covered_incl.
    intros x Hx. rewrite app_nil_r. apply -> in_rev. exact Hx.
  Qed.

  Lemma runout_safe r : RunOut r -> SafeLog content (c_log (snd r)).
  Proof.
    destruct r as [o' c']. cbn [RunOut snd].
    intros [(_ & Dy & _)|[(_ & evs & H1 & H2 & H3)|(_ & evs & off & t & H1 & Ht & H2 & H3)]].
    - destruct (dy_log _ _ Dy) as (evs & H1 & H2 & H3). rewrite H1, <- (app_nil_r evs).
      eapply (safe_shape oti content w toi He Hb HL Hu64); [exact H2|exact H3|left; reflexivity].
    - rewrite H1. apply (safe_shape oti content w toi He Hb HL Hu64 evs L); [exact H2|rewrite H3; symmetry; apply take_all; unfold L; lia|].
      right; left. split; [reflexivity|exact H3].
    - rewrite H1. apply (safe_shape oti content w toi He Hb HL Hu64 evs off); [exact H2|exact H3|]. right; right. destruct Ht as [->| ->]; [left|right]; reflexivity.
  Qed.

  (* ---------- the state right after the FDT entry has been attached ---------- *)
  Lemma attach_struct fid files inst f :
    w = (toi, 0%nat) ->
    find (fun f => ff_toi f =? toi) files = Some f ->
    ff_cenc f = CNull -> match ff_oti f with Some x => Some x | None => inst end = Some oti ->
    ff_tlen f = L -> ff_md5 f = md5 ->
    e_builder E toi 0%nat = WStore -> e_open_ok E w = true ->
    exists o0 c0, or_attach E fid files inst (or_new toi max) ctx0 = (true, o0, c0) /\ Struct o0 c0.
  Proof.
    intros Hw Hfind Hce Hoti Htl Hmd5 Hbld Hopen.
    unfold or_attach, or_new. prj. rewrite Hfind, Hoti, Htl, Hce, Hmd5. cbv iota beta.
    unfold init_partition at 1. unfold nb_block at 1. prj.
    change (0 <? 0 + N.of_nat (length (@nil bdec))) with false. cbv iota beta. fold b e. rewrite Hpart. cbv iota beta.
    unfold init_writer. prj. change (ncalls ctx0 toi) with 0%nat. rewrite Hbld. cbv iota beta zeta.
    rewrite <- Hw, Hopen. cbn [negb]. destruct (N.eqb_spec L 0) as [G|HL0]; [lia|]. prj.
    try (d48_skip HL0).
    match goal with |- context [push_from_cache E ?x ?y] => set (o3 := x); set (c3 := y) end.
    pose proof (PF n_pos) as Hn.
    set (m := N.to_nat (N.min n 2048)) in *.
    assert (Hm : (0 < m)%nat) by (unfold m; lia).
    assert (Hlen : length (r_blocks o3) = m) by (unfold o3; prj; apply repeat_length).
    assert (Hnb : 0 < nb_block o3) by (unfold nb_block; rewrite Hlen; unfold o3; prj; lia).
    assert (I3 : push_from_cache E o3 c3 = (o3, c3)).
    { unfold push_from_cache, cache_replay_blocked. change (r_oti o3) with (Some oti). cbv iota beta.
      destruct (N.eqb_spec (nb_block o3) 0) as [G|_]; [lia|]. reflexivity. }
    assert (Hn0 : nth 0 (r_blocks o3) bdec_new = bdec_new) by (unfold o3; prj; apply nth_repeat).
    assert (I4 : write_blocks E (S (length (r_blocks o3))) 0 o3 c3 = (ROk o3, c3)).
    { cbn [write_blocks]. change (r_writer o3) with (Some (w, WOpened)). cbv iota beta.
      change (r_bw o3) with (Some (bw_new L (ff_clen f) CNull (match md5 with Some _ => e_md5_enabled E | None => false end))).
      cbv iota beta. change (r_off o3) with 0.
      destruct (N.leb_spec 0 0) as [_|G]; [|lia]. replace (0 - 0) with 0 by lia.
      destruct (N.ltb_spec 0 (N.of_nat (length (r_blocks o3)))) as [_|G]; [|lia]. cbn [andb].
      change (N.to_nat 0) with 0%nat. rewrite Hn0. reflexivity. }
    rewrite I3, I4. cbv iota beta. rewrite I3. exists o3, c3. split; [reflexivity|].
    split; [|split].
    - constructor; unfold o3; prj; try reflexivity. discriminate.
    - constructor; unfold o3; prj.
      + eexists. split; [reflexivity|]. constructor; cbn [bw_new bw_sbn bw_left bw_cenc bw_acc bw_md5]; try reflexivity.
        * rewrite (PF boff_0). lia.
        * rewrite (PF boff_0). reflexivity.
      + exact Hn.
      + rewrite repeat_length. fold m. lia.
      + intros i. rewrite nth_repeat. apply blockok_new.
      + lia.
      + exists []. split; [unfold c3, hdr; cbn; rewrite Hw; reflexivity|]. split; [reflexivity|].
        rewrite (PF boff_0). reflexivity.
    - unfold Flushed. rewrite Hn0. reflexivity.
  Qed.
End RSDelivery.

(* ================= recoverability (Spec/SessionSpec) implies coverage ================= *)
Lemma block_rec_rs par k s got : block_recoverable true par k s got = true ->
  exists esis, NoDup esis /\ k <= N.of_nat (length esis) /\ forall i, In i esis -> In (s, i) got.
Proof.
  unfold block_recoverable. intros H. apply N.leb_le in H.
  set (mine := distinct (map snd (filter (fun p : N * N => fst p =? s) got))) in *.
  exists (filter (fun x => x <? k + par) mine). split; [apply NoDup_filter, distinct_nodup|]. split; [exact H|].
  intros i Hin. apply filter_In in Hin. destruct Hin as [Hin _]. apply (proj1 (distinct_in _ _)) in Hin.
  apply in_map_iff in Hin. destruct Hin as ([s' i'] & Heq & Hp). cbn [snd] in Heq. subst i'.
  apply filter_In in Hp. destruct Hp as [Hp Hs]. cbn [fst] in Hs. apply N.eqb_eq in Hs. subst s'. exact Hp.
Qed.

Lemma recoverable_covered_rs oti al as_ nal n got : cls oti = true ->
  blocks_recoverable true (ro_parity oti) (map (k_of al as_ nal) (below n)) 0 got = true -> covered oti al as_ nal n got.
Proof.
  intros Hcls H s Hs. unfold below in H.
  pose proof (blocks_rec_all true (ro_parity oti) (k_of al as_ nal) got (N.to_nat n) 0%nat H (N.to_nat s) ltac:(lia)) as B.
  replace (N.of_nat (N.to_nat s)) with s in B by lia. rewrite Hcls.
  destruct (block_rec_rs _ _ _ _ B) as (esis & H1 & H2 & H3). exists esis. auto.
Qed.
Lemma recoverable_covered_fq oti al as_ nal n got : cls oti = false ->
  blocks_recoverable false 0 (map (k_of al as_ nal) (below n)) 0 got = true -> covered oti al as_ nal n got.
Proof.
  intros Hcls H s Hs. unfold below in H.
  pose proof (blocks_rec_all false 0 (k_of al as_ nal) got (N.to_nat n) 0%nat H (N.to_nat s) ltac:(lia)) as B.
  replace (N.of_nat (N.to_nat s)) with s in B by lia. rewrite Hcls.
  exists (below (k_of al as_ nal s)). split; [apply nodup_below|]. split; [intros j Hj; apply in_below; exact Hj|].
  intros i Hi. apply in_below in Hi. exact (block_rec_in _ _ _ B i Hi).
Qed.

(* ================= the object-level statements: Reed-Solomon ================= *)
(* source symbols of block s; the genuine encoding symbol (s, i): symbol number (offset of s) + i of the
   zero-padded object for i < k, the sender's repair symbol [rep s i] otherwise; the padded source block *)
Definition rs_k (oti : roti) (L s : N) : N :=
  let '(al, as_, nal, _) := partition_of oti L in k_of al as_ nal s.
Definition rs_symbol (oti : roti) (content : list N) (rep : N -> N -> list N) (s i : N) : list N :=
  let '(al, as_, nal, _) := partition_of oti (lenN_ content) in
  if i <? k_of al as_ nal s then psym oti content (soff al as_ nal s + i) else rep s i.
Definition rs_block (oti : roti) (content : list N) (s : N) : list N :=
  let '(al, as_, nal, _) := partition_of oti (lenN_ content) in pblk oti content al as_ nal s.

(* the shards handed to the decoder are genuine for block s: distinct ESI below k + parity, each with the
   encoding symbol the sender produced for it *)
Definition rs_shards_genuine (oti : roti) (content : list N) (rep : N -> N -> list N) (s : N)
  (sh : list (N * list N)) : Prop :=
  NoDup (map fst sh)
  /\ Forall (fun p => fst p < rs_k oti (lenN_ content) s + ro_parity oti
                      /\ snd p = rs_symbol oti content rep s (fst p)) sh.

(* THE TRUSTED HYPOTHESIS ON THE DECODER ORACLE (reed_solomon_erasure reconstruct + concatenation of the
   source shards, fec/rscodec.rs decode), for the object [content] sent with repair symbols [rep]:
   - sound: called for a block s with at least k genuine shards, whatever it answers is the padded block;
   - MDS:   ... it does answer (any k of the k + parity symbols suffice).
   Nothing is assumed when it is called with fewer than k shards (the model never does: bd_push tests
   k <= number of stored shards first, and reassembles without the oracle when all k source symbols are
   stored) or with shards that are not genuine; the block-size argument is not constrained. *)
Definition rs_oracle_sound (E : env) (oti : roti) (content : list N) (rep : N -> N -> list N) (toi : N) : Prop :=
  forall s size sh d, s < nb_blocks_of oti (lenN_ content) ->
    rs_k oti (lenN_ content) s <= N.of_nat (length sh) -> rs_shards_genuine oti content rep s sh ->
    e_fec E toi (ro_fec oti) s (rs_k oti (lenN_ content) s) (ro_e oti) size sh = Some d ->
    d = rs_block oti content s.
Definition rs_oracle_mds (E : env) (oti : roti) (content : list N) (rep : N -> N -> list N) (toi : N) : Prop :=
  forall s size sh, s < nb_blocks_of oti (lenN_ content) ->
    rs_k oti (lenN_ content) s <= N.of_nat (length sh) -> rs_shards_genuine oti content rep s sh ->
    e_fec E toi (ro_fec oti) s (rs_k oti (lenN_ content) s) (ro_e oti) size sh = Some (rs_block oti content s).

Lemma rs_oracle_mds_sound E oti content rep toi :
  rs_oracle_mds E oti content rep toi -> rs_oracle_sound E oti content rep toi.
Proof. intros H s size sh d Hs Hk G O. rewrite (H s size sh Hs Hk G) in O. congruence. Qed.

(* a packet is genuine for (oti, content, rep): payload id (sbn, esi) with sbn a block of the partition and
   esi < k + parity, for FEC 129 the source block length field = k, payload = the encoding symbol *)
Definition rs_genuine_pkt (oti : roti) (content : list N) (rep : N -> N -> list N) (p : apkt) : bool :=
  let '(al, as_, nal, n) := partition_of oti (lenN_ content) in genuineb oti content rep al as_ nal n p.

(* the recoverability premise of Spec/SessionSpec, Reed-Solomon branch: every block has k distinct ESI
   below k + parity among the packets *)
Definition rs_recoverable (oti : roti) (L : N) (pkts : list apkt) : bool :=
  blocks_recoverable true (ro_parity oti) (source_ks oti L) 0 (map (rs_pid oti) pkts).

Definition rs_close_flag_ok (oti : roti) (L : N) (pkts : list apkt) : Prop :=
  forall pre p post, pkts = pre ++ p :: post -> a_close_obj p = true -> rs_recoverable oti L (pre ++ [p]) = true.

Lemma rs_close_flag_ok_noflag oti L pkts : Forall (fun p => a_close_obj p = false) pkts -> rs_close_flag_ok oti L pkts.
Proof.
  intros F pre p post -> Hp. rewrite Forall_forall in F.
  assert (a_close_obj p = false) by (apply F; apply in_or_app; right; left; reflexivity). congruence.
Qed.

Definition rs_scheme_ok (oti : roti) (L : N) : Prop :=
  (ro_fec oti = FRS28 \/ ro_fec oti = FRS28US) /\ 0 < ro_e oti /\ 0 < ro_b oti /\ 0 < L /\ L + ro_e oti < U64.
(* ReedSolomon::new(k, parity) succeeds for every block: 0 < parity, k + parity <= 256 *)
Definition rs_blocks_ok (oti : roti) (L : N) : Prop :=
  forallb (fun k => rs_ok k (ro_parity oti)) (source_ks oti L) = true.
(* bytes the receiver accounts for the blocks of the object: its length, but for FEC 129 every block counts
   k * E (the source block length of the payload id is used), i.e. the length rounded up to a symbol *)
Definition rs_mem_need (oti : roti) (L : N) : N :=
  match ro_fec oti with FRS28US => div_ceil L (ro_e oti) * ro_e oti | _ => L end.

Lemma rs_is_cls oti : ro_fec oti = FRS28 \/ ro_fec oti = FRS28US -> cls oti = true /\ fec_oracle (ro_fec oti) = true.
Proof. unfold cls. intros [H|H]; rewrite H; split; reflexivity. Qed.

Lemma rs_blocks_ok_spec oti L al as_ nal n : cls oti = true -> partition_of oti L = (al, as_, nal, n) ->
  rs_blocks_ok oti L -> InitOk oti al as_ nal n.
Proof.
  intros Hcls Hp H s Hs. rewrite Hcls. unfold rs_blocks_ok, source_ks in H. rewrite Hp in H. rewrite forallb_forall in H.
  apply H. apply in_map. apply in_below. exact Hs.
Qed.

Section TopRS.
  Variables (E : env) (oti : roti) (content : list N) (rep : N -> N -> list N) (toi : N).
  Variables al as_ nal n : N.
  Hypothesis Hcls : cls oti = true.
  Hypothesis He : 0 < ro_e oti.
  Hypothesis Hb : 0 < ro_b oti.
  Hypothesis HL : 0 < lenN_ content.
  Hypothesis Hpart : partition_of oti (lenN_ content) = (al, as_, nal, n).

  Lemma rs_shards_conv s sh : Forall (shard_ok oti content rep al as_ nal s) sh ->
    Forall (fun p => fst p < k_of al as_ nal s + ro_parity oti
                     /\ snd p = (if fst p <? k_of al as_ nal s then psym oti content (soff al as_ nal s + fst p) else rep s (fst p))) sh.
  Proof.
    intros F. eapply Forall_impl; [|exact F]. intros p (H1 & H2 & _). split; [exact (H1 Hcls)|].
    rewrite H2, stored_cls by exact Hcls. unfold esym. rewrite Hcls. reflexivity.
  Qed.

  Lemma top_sound : rs_oracle_sound E oti content rep toi ->
    forall s sh d, s < n -> Callable oti al as_ nal s sh ->
      NoDup (map fst sh) -> Forall (shard_ok oti content rep al as_ nal s) sh ->
      e_fec E toi (ro_fec oti) s (k_of al as_ nal s) (ro_e oti) (bsz oti content al as_ nal s) sh = Some d ->
      Good oti content al as_ nal n s d.
  Proof.
    intros H s sh d Hs Hk ND F O. specialize (H s (bsz oti content al as_ nal s) sh d).
    unfold rs_shards_genuine, rs_k, rs_symbol, rs_block, nb_blocks_of in H. fold (partition_of oti (lenN_ content)) in H.
    rewrite Hpart in H. rewrite H; [|exact Hs|exact (Hk Hcls)|split; [exact ND|apply rs_shards_conv; exact F]|exact O].
    apply good_pblk; assumption.
  Qed.
  Lemma top_mds : rs_oracle_mds E oti content rep toi -> Mds E oti content rep toi al as_ nal n.
  Proof.
    intros H s sh Hs Hk ND F. specialize (H s (bsz oti content al as_ nal s) sh).
    unfold rs_shards_genuine, rs_k, rs_symbol, rs_block, nb_blocks_of in H. fold (partition_of oti (lenN_ content)) in H.
    rewrite Hpart in H. unfold Decodable in Hk. rewrite Hcls in Hk.
    rewrite H; [discriminate|exact Hs|exact Hk|split; [exact ND|apply rs_shards_conv; exact F]].
  Qed.
End TopRS.

Lemma M_mem_need oti content : M oti content = rs_mem_need oti (lenN_ content).
Proof. unfold M, us, rs_mem_need. destruct (ro_fec oti); reflexivity. Qed.

Lemma rs_genuine_pkt_spec oti content rep al as_ nal n pkts :
  partition_of oti (lenN_ content) = (al, as_, nal, n) ->
  Forall (fun p => rs_genuine_pkt oti content rep p = true) pkts -> Forall (genuine oti content rep al as_ nal n) pkts.
Proof.
  intros Hp F. eapply Forall_impl; [|exact F]. intros p H. unfold rs_genuine_pkt in H. rewrite Hp in H.
  apply genuineb_spec. exact H.
Qed.

(* D47: a symbol longer than E is discarded by the block decoder.  The source symbols of a genuine packet are
   symbols of the padded object (E bytes); the repair symbols are the sender's: they must fit too *)
Definition rs_rep_sized (oti : roti) (rep : N -> N -> list N) : Prop := forall s i, lenN_ (rep s i) <= ro_e oti.
Lemma psym_le oti content j : lenN_ (psym oti content j) <= ro_e oti.
Proof. unfold psym. rewrite lenN_take. lia. Qed.
Lemma esym_le oti content rep al as_ nal s i : rs_rep_sized oti rep -> lenN_ (esym oti content rep al as_ nal s i) <= ro_e oti.
Proof. intros H. unfold esym. destruct (cls oti && _); [apply psym_le|apply H]. Qed.
Lemma rs_genuine_sized oti content rep al as_ nal n p :
  ro_fec oti = FRS28 \/ ro_fec oti = FRS28US -> rs_rep_sized oti rep ->
  genuine oti content rep al as_ nal n p -> sized oti (a_payload p).
Proof.
  intros Hf Hr (_ & _ & _ & Hp). split; [rewrite Hp; apply esym_le; exact Hr|].
  intros F. destruct Hf as [X|X]; rewrite X in F; discriminate.
Qed.

(* T1rs - C02 for Reed-Solomon: every recoverable reception (k distinct symbols of every block among
   ESI < k + parity, any order, any duplication) delivers the object byte-exact, GIVEN an MDS decoder *)
Theorem rs_recoverable_delivers E oti content rep toi max fid files inst md5 pkts :
  let L := lenN_ content in
  rs_scheme_ok oti L -> rs_blocks_ok oti L -> fdt_entry_for files inst toi oti L md5 ->
  writer_accepts E toi -> writes_succeed E toi -> md5_good E content md5 ->
  rs_oracle_mds E oti content rep toi -> rs_rep_sized oti rep ->
  rs_mem_need oti L <= max -> nb_blocks_of oti L <= 4097 ->
  Forall (fun p => rs_genuine_pkt oti content rep p = true) pkts ->
  rs_close_flag_ok oti L pkts ->
  rs_recoverable oti L pkts = true ->
  let (o, c) := receive E fid files inst toi max pkts in
  r_state o = Completed
  /\ ShapeDone content (toi, 0%nat) toi c
  /\ forall m, complete_exact content (m, calls_of (toi, 0%nat) (c_log c)) = true
                /\ P_C02_object (rs_recoverable oti L pkts) content [(m, calls_of (toi, 0%nat) (c_log c))] = true.
Proof.
  intros L (Hrsf & He & Hb & HL & Hu) Hrs (f & F1 & F2 & F3 & F4 & F5) (A1 & A2) Hwr Hmd5 Hor Hrz Hmax Hn G Cl Rec.
  destruct (rs_is_cls oti Hrsf) as [Hcls Hfec].
  destruct (partition_of oti L) as [[[al as_] nal] n] eqn:Hpart.
  pose proof (top_sound E oti content rep toi al as_ nal n Hcls He Hb HL Hpart (rs_oracle_mds_sound _ _ _ _ _ Hor)) as Hsound.
  pose proof (top_mds E oti content rep toi al as_ nal n Hcls Hpart Hor) as HM.
  pose proof Hpart as Hpart'. unfold partition_of in Hpart'.
  destruct (attach_struct E oti content rep (toi, 0%nat) toi md5 max al as_ nal n He Hb HL Hu Hpart' fid files inst f
              eq_refl F1 F2 F3 F4 F5 A1 A2) as (o0 & c0 & Hat & S0).
  unfold receive. rewrite Hat.
  assert (Hnb : nb_blocks_of oti L = n) by (unfold nb_blocks_of; rewrite Hpart'; reflexivity).
  assert (Cov : forall l, rs_recoverable oti L l = true -> covered oti al as_ nal n (map (rs_pid oti) l)).
  { intros l H. apply (recoverable_covered_rs oti); [exact Hcls|]. unfold rs_recoverable, source_ks in H. rewrite Hpart in H. exact H. }
  pose proof (deliver E oti content rep (toi, 0%nat) toi md5 max al as_ nal n Hfec He Hb HL Hu Hpart' Hsound pkts o0 c0 HM S0) as D.
  assert (D' : let (o', c') := run E pkts (o0, c0) in r_state o' = Completed /\ ShapeDone content (toi, 0%nat) toi c').
  { apply D.
    - split; [split; [exact Hwr|exact Hmd5]|]. split; [rewrite M_mem_need; exact Hmax|]. split; [rewrite <- Hnb; exact Hn|].
      apply (rs_blocks_ok_spec oti L); assumption.
    - apply rs_genuine_pkt_spec; [exact Hpart|exact G].
    - eapply Forall_impl; [|apply rs_genuine_pkt_spec; [exact Hpart|exact G]].
      intros p Hp. exact (rs_genuine_sized oti content rep al as_ nal n p Hrsf Hrz Hp).
    - intros pre p post Eq Hp. rewrite app_nil_r. apply Cov. apply (Cl pre p post Eq Hp).
    - apply Cov. exact Rec. }
  destruct (run E pkts (o0, c0)) as [o c]. destruct D' as [D1 D2].
  split; [exact D1|]. split; [exact D2|]. intros m.
  pose proof (done_exact content (toi, 0%nat) toi c m D2) as Ex. split; [exact Ex|].
  unfold P_C02_object. cbn [existsb]. rewrite Ex. cbn [orb]. apply orb_true_r.
Qed.

(* T2rs - C03 for Reed-Solomon (safety): any genuine packets (source and repair), any order, multiplicity,
   subset, with or without the close-object flag, whatever write() answers, whatever the MD5, the memory
   limit, the number of blocks and the parity are: GIVEN a decoder that never answers a wrong block from at
   least k genuine symbols, what every writer received is a prefix of the object and complete means exact *)
Theorem rs_safety E oti content rep toi max fid files inst md5 pkts :
  let L := lenN_ content in
  rs_scheme_ok oti L -> fdt_entry_for files inst toi oti L md5 -> writer_accepts E toi ->
  rs_oracle_sound E oti content rep toi ->
  Forall (fun p => rs_genuine_pkt oti content rep p = true) pkts ->
  let (o, c) := receive E fid files inst toi max pkts in
  forall w, is_prefix (written (calls_of w (c_log c))) content = true
            /\ P_C03_writer content true (calls_of w (c_log c)) = true.
Proof.
  intros L (Hrsf & He & Hb & HL & Hu) (f & F1 & F2 & F3 & F4 & F5) (A1 & A2) Hor G.
  destruct (rs_is_cls oti Hrsf) as [Hcls Hfec].
  destruct (partition_of oti L) as [[[al as_] nal] n] eqn:Hpart.
  pose proof (top_sound E oti content rep toi al as_ nal n Hcls He Hb HL Hpart Hor) as Hsound.
  pose proof Hpart as Hpart'. unfold partition_of in Hpart'.
  destruct (attach_struct E oti content rep (toi, 0%nat) toi md5 max al as_ nal n He Hb HL Hu Hpart' fid files inst f
              eq_refl F1 F2 F3 F4 F5 A1 A2) as (o0 & c0 & Hat & S0).
  unfold receive. rewrite Hat.
  pose proof (run_safe E oti content rep (toi, 0%nat) toi md5 max al as_ nal n Hfec He Hb HL Hu Hpart' Hsound pkts o0 c0 S0
                (rs_genuine_pkt_spec _ _ _ _ _ _ _ _ Hpart G)) as R.
  apply (runout_safe E oti content rep (toi, 0%nat) toi md5 max al as_ nal n He Hb HL Hu) in R.
  destruct (run E pkts (o0, c0)) as [o c]. exact R.
Qed.

Print Assumptions rs_recoverable_delivers.
Print Assumptions rs_safety.

(* ================= the oracle is consulted only with at least k shards ================= *)
(* two environments whose decoders agree whenever at least k shards are passed are indistinguishable to a
   Reed-Solomon block decoder: with fewer than k shards the model does not call the oracle at all *)
Lemma rs_oracle_only_with_k_shards E E' t oti s esi pl d :
  ro_fec oti = FRS28 \/ ro_fec oti = FRS28US -> e_debug E = e_debug E' ->
  (forall sh, bd_k d <= N.of_nat (length sh) ->
     e_fec E t (ro_fec oti) s (bd_k d) (ro_e oti) (bd_size d) sh = e_fec E' t (ro_fec oti) s (bd_k d) (ro_e oti) (bd_size d) sh) ->
  bd_push E t oti s esi pl d = bd_push E' t oti s esi pl d.
Proof.
  intros Hfec Hdbg H. unfold bd_push. rewrite Hdbg.
  destruct (bd_completed d); [reflexivity|]. destruct (bd_alloc d); [|reflexivity]. cbn [negb].
  destruct (bd_data d) as [dd|]; [destruct Hfec as [Hf|Hf]; rewrite Hf; reflexivity|].
  destruct Hfec as [Hf|Hf]; rewrite Hf in *; cbv iota beta zeta;
    match goal with |- context [?k <=? N.of_nat (length ?sh)] =>
      destruct (N.leb_spec k (N.of_nat (length sh))) as [G|G]; [rewrite (H sh G)|]; reflexivity end.
Qed.

(* ================= concrete instances ================= *)
(* a toy systematic code with one parity symbol (the XOR of the k source symbols) and its erasure decoder:
   a missing source symbol is the XOR of the k symbols that are present *)
Definition xor_bytes (a b : list N) : list N := map (fun p => N.lxor (fst p) (snd p)) (combine a b).
Definition xor_dec (toi : N) (f : rfec) (sbn k e size : N) (sh : list (N * list N)) : option (list N) :=
  let x := fold_left xor_bytes (map snd sh) (repeat 0 (N.to_nat e)) in
  Some (concat (map (fun i => match get_esi i sh with Some d => d | None => x end) (below k))).
Definition env_xor : env :=
  mk_env false false (fun _ _ => WStore) (fun _ => true) (fun _ _ => true)
         xor_dec (fun _ => []) (fun _ _ _ => None).
(* FEC 5 payload id: 24-bit SBN, 8-bit ESI; FEC 129: 32-bit SBN, 16-bit source block length, 16-bit ESI *)
Definition rs_pidb (sbn esi : N) : list N := [sbn / 65536; (sbn / 256) mod 256; sbn mod 256; esi].
Definition rs_pkt (toi sbn esi : N) (close : bool) (payload : list N) : apkt :=
  mk_apkt toi close false None None None None 5 (rs_pidb sbn esi) payload (lenN_ payload).
Definition us_pidb (sbn sbl esi : N) : list N :=
  [sbn / 16777216; (sbn / 65536) mod 256; (sbn / 256) mod 256; sbn mod 256; sbl / 256; sbl mod 256; esi / 256; esi mod 256].
Definition us_pkt (toi sbn sbl esi : N) (close : bool) (payload : list N) : apkt :=
  mk_apkt toi close false None None None None 129 (us_pidb sbn sbl esi) payload (lenN_ payload).

(* a 5-byte object, E = 2, B = 2, one parity symbol per block: block 0 = [1;2] [3;4] + parity [2;6],
   block 1 = the padded symbol [5;0] + parity [5;0] *)
Definition exr_oti : roti := mk_roti FRS28 2 2 1 None.
Definition exr_content : list N := [1; 2; 3; 4; 5].
Definition exr_rep (s i : N) : list N := if s =? 0 then [2; 6] else [5; 0].
Definition exr_files : list fdtfile := [mk_ff 7 CNull (Some exr_oti) 5 None None false].
(* block 0 from its parity and its first source symbol, block 1 from its parity only; shuffled, duplicated *)
Definition exr_pkts : list apkt :=
  [rs_pkt 7 1 1 false [5; 0]; rs_pkt 7 0 2 false [2; 6]; rs_pkt 7 1 1 false [5; 0];
   rs_pkt 7 0 0 false [1; 2]; rs_pkt 7 0 2 false [2; 6]].

Example exr_premises :
  partition_of exr_oti 5 = (2, 1, 1, 2)
  /\ forallb (rs_genuine_pkt exr_oti exr_content exr_rep) exr_pkts = true
  /\ map (rs_pid exr_oti) exr_pkts = [(1, 1); (0, 2); (1, 1); (0, 0); (0, 2)]
  /\ rs_recoverable exr_oti 5 exr_pkts = true
  /\ rs_recoverable exr_oti 5 (firstn 3 exr_pkts) = false
  /\ rs_block exr_oti exr_content 0 = [1; 2; 3; 4] /\ rs_block exr_oti exr_content 1 = [5; 0].
Proof. vm_compute. repeat split. Qed.

Example exr_delivery_computed :
  summary 7 (receive env_xor 1 exr_files None 7 1000 exr_pkts)
  = (Completed, [CallOpen true; CallWrite [1; 2; 3; 4] true; CallWrite [5] true; CallComplete]).
Proof. vm_compute. reflexivity. Qed.

Lemma sh_is_map (P : N -> Prop) (f : N -> list N) (sh : list (N * list N)) :
  Forall (fun p => P (fst p) /\ snd p = f (fst p)) sh ->
  sh = map (fun i => (i, f i)) (map fst sh) /\ Forall P (map fst sh).
Proof.
  induction 1 as [|[a pa] sh [H1 H2] _ [IH1 IH2]]; cbn [map fst snd] in *; [split; [reflexivity|constructor]|].
  subst pa. split; [f_equal; exact IH1|constructor; assumption].
Qed.

(* the toy decoder satisfies the oracle hypothesis for this object: the hypothesis is satisfiable *)
Lemma xor_dec_mds : rs_oracle_mds env_xor exr_oti exr_content exr_rep 7.
Proof.
  intros s size sh Hs Hk [ND F].
  replace (nb_blocks_of exr_oti (lenN_ exr_content)) with 2 in Hs by (vm_compute; reflexivity).
  apply (sh_is_map (fun i => i < rs_k exr_oti (lenN_ exr_content) s + ro_parity exr_oti)
                   (rs_symbol exr_oti exr_content exr_rep s)) in F. destruct F as [Esh Fl].
  rewrite <- (map_length fst) in Hk. set (l := map fst sh) in *. clearbody l. subst sh.
  assert (Hs' : s = 0 \/ s = 1) by lia.
  destruct Hs' as [-> | ->].
  - replace (rs_k exr_oti (lenN_ exr_content) 0 + ro_parity exr_oti) with 3 in Fl by (vm_compute; reflexivity).
    replace (rs_k exr_oti (lenN_ exr_content) 0) with 2 in * by (vm_compute; reflexivity).
    destruct l as [|a [|b0 [|c0 [|d0 l]]]]; cbn [length] in Hk; try lia.
    all: repeat match goal with H : Forall _ (_ :: _) |- _ => inversion H; clear H; subst end.
    all: repeat match goal with H : ?x < 3 |- _ =>
           let H' := fresh in assert (H' : x = 0 \/ x = 1 \/ x = 2) by lia; clear H; destruct H' as [->|[->| ->]] end.
    all: try (vm_compute; reflexivity).
    all: exfalso; repeat match goal with H : NoDup (_ :: _) |- _ => inversion H; clear H; subst end; cbn [In] in *; tauto.
  - replace (rs_k exr_oti (lenN_ exr_content) 1 + ro_parity exr_oti) with 2 in Fl by (vm_compute; reflexivity).
    replace (rs_k exr_oti (lenN_ exr_content) 1) with 1 in * by (vm_compute; reflexivity).
    destruct l as [|a [|b0 [|c0 l]]]; cbn [length] in Hk; try lia.
    all: repeat match goal with H : Forall _ (_ :: _) |- _ => inversion H; clear H; subst end.
    all: repeat match goal with H : ?x < 2 |- _ =>
           let H' := fresh in assert (H' : x = 0 \/ x = 1) by lia; clear H; destruct H' as [->| ->] end.
    all: try (vm_compute; reflexivity).
    all: exfalso; repeat match goal with H : NoDup (_ :: _) |- _ => inversion H; clear H; subst end; cbn [In] in *; tauto.
Qed.

Lemma exr_rep_sized : rs_rep_sized exr_oti exr_rep.
Proof. intros s i. unfold exr_rep. destruct (s =? 0); vm_compute; discriminate. Qed.

(* the delivery theorem applies to this instance: its premises, the oracle hypothesis included, are satisfiable *)
Example exr_delivery_by_theorem :
  let (o, c) := receive env_xor 1 exr_files None 7 1000 exr_pkts in
  r_state o = Completed
  /\ complete_exact exr_content (mk_ometa [] None None None None [] None (0, 0), calls_of (7, 0%nat) (c_log c)) = true.
Proof.
  pose proof (rs_recoverable_delivers env_xor exr_oti exr_content exr_rep 7 1000 1 exr_files None None exr_pkts) as H.
  cbv zeta in H.
  assert (P : let (o, c) := receive env_xor 1 exr_files None 7 1000 exr_pkts in
              r_state o = Completed /\ ShapeDone exr_content (7, 0%nat) 7 c
              /\ forall m, complete_exact exr_content (m, calls_of (7, 0%nat) (c_log c)) = true
                           /\ P_C02_object (rs_recoverable exr_oti (lenN_ exr_content) exr_pkts) exr_content [(m, calls_of (7, 0%nat) (c_log c))] = true).
  { apply H.
    - split; [left; reflexivity|]. repeat split; vm_compute; reflexivity.
    - vm_compute. reflexivity.
    - exists (mk_ff 7 CNull (Some exr_oti) 5 None None false). repeat split.
    - split; reflexivity.
    - intros i. reflexivity.
    - exact I.
    - exact xor_dec_mds.
    - exact exr_rep_sized.
    - vm_compute. discriminate.
    - vm_compute. discriminate.
    - repeat constructor.
    - apply rs_close_flag_ok_noflag. repeat constructor.
    - vm_compute. reflexivity. }
  destruct (receive env_xor 1 exr_files None 7 1000 exr_pkts) as [o c]. destruct P as (P1 & _ & P3).
  split; [exact P1|apply P3].
Qed.

(* the safety theorem applies to a strict, unrecoverable subset (block 1 only): nothing is written *)
Example exr_safety_partial :
  summary 7 (receive env_xor 1 exr_files None 7 1000 (firstn 3 exr_pkts)) = (Receiving, [CallOpen true]).
Proof. vm_compute. reflexivity. Qed.

(* THE ORACLE HYPOTHESIS IS NEEDED: with a decoder that answers a wrong block the model writes it and, no MD5
   being given, completes the object with wrong bytes (the receiver trusts the decoder) *)
Definition env_bad : env :=
  mk_env false false (fun _ _ => WStore) (fun _ => true) (fun _ _ => true)
         (fun _ _ _ _ _ _ _ => Some [9; 9; 9; 9]) (fun _ => []) (fun _ _ _ => None).
Example rs_wrong_decoder_corrupts :
  forallb (rs_genuine_pkt exr_oti exr_content exr_rep) exr_pkts = true
  /\ summary 7 (receive env_bad 1 exr_files None 7 1000 exr_pkts)
     = (Completed, [CallOpen true; CallWrite [9; 9; 9; 9] true; CallWrite [9] true; CallComplete]).
Proof. vm_compute. repeat split. Qed.

(* REFUTATION A (parity = 0, or k + parity > 256): ReedSolomon::new fails at the first packet of a block and the
   object is Errored, although every source symbol arrives (recoverable: k distinct ESI below k + 0) *)
Definition exz_oti : roti := mk_roti FRS28 2 2 0 None.
Definition exz_files : list fdtfile := [mk_ff 7 CNull (Some exz_oti) 5 None None false].
Definition exz_pkts : list apkt := [rs_pkt 7 0 0 false [1; 2]; rs_pkt 7 0 1 false [3; 4]; rs_pkt 7 1 0 false [5; 0]].
Example rs_parity_zero_refuted :
  forallb (rs_genuine_pkt exz_oti exr_content exr_rep) exz_pkts = true
  /\ rs_recoverable exz_oti 5 exz_pkts = true
  /\ forallb (fun k => rs_ok k (ro_parity exz_oti)) (source_ks exz_oti 5) = false
  /\ summary 7 (receive env_xor 1 exz_files None 7 1000 exz_pkts) = (Errored, [CallOpen true; CallError]).
Proof. vm_compute. repeat split. Qed.

(* REFUTATION C (D47, rs_rep_sized is needed): the same reception with repair symbols of 3 bytes for E = 2 (the
   encoder [exl_rep]): every packet is genuine for exl_rep and the reception is recoverable, but the block decoder
   discards the two repair symbols, the decoder is never consulted and the object stays Receiving *)
Definition exl_rep (s i : N) : list N := exr_rep s i ++ [0].
Definition exl_pkts : list apkt :=
  [rs_pkt 7 1 1 false [5; 0; 0]; rs_pkt 7 0 2 false [2; 6; 0]; rs_pkt 7 1 1 false [5; 0; 0];
   rs_pkt 7 0 0 false [1; 2]; rs_pkt 7 0 2 false [2; 6; 0]].
Example rs_long_repair_refuted :
  forallb (rs_genuine_pkt exr_oti exr_content exl_rep) exl_pkts = true
  /\ rs_recoverable exr_oti 5 exl_pkts = true
  /\ lenN_ (exl_rep 0 2) = 3 /\ ro_e exr_oti = 2
  /\ summary 7 (receive env_xor 1 exr_files None 7 1000 exl_pkts) = (Receiving, [CallOpen true]).
Proof. vm_compute. repeat split. Qed.

(* FEC 129: 5 bytes, E = 2, B = 1 (3 blocks of one symbol), one parity symbol per block (a copy) *)
Definition exu_oti : roti := mk_roti FRS28US 2 1 1 None.
Definition exu_rep (s i : N) : list N := if s =? 0 then [1; 2] else if s =? 1 then [3; 4] else [5; 0].
Definition exu_files : list fdtfile := [mk_ff 7 CNull (Some exu_oti) 5 None None false].
Definition exu_pkts : list apkt :=
  [us_pkt 7 2 1 1 false [5; 0]; us_pkt 7 1 1 0 false [3; 4]; us_pkt 7 0 1 1 false [1; 2]].
Lemma exu_rep_sized : rs_rep_sized exu_oti exu_rep.
Proof. intros s i. unfold exu_rep. destruct (s =? 0); [|destruct (s =? 1)]; vm_compute; discriminate. Qed.

(* REFUTATION B (FEC 129, max_size_allocated = transfer length): the receiver accounts k * E = 2 bytes for the
   last block whose length is 1, so 3 blocks need 6 > 5 bytes: Errored with the limit 5, delivered with 6 *)
Example rs129_memory_limit_refuted :
  partition_of exu_oti 5 = (1, 1, 0, 3)
  /\ forallb (rs_genuine_pkt exu_oti exr_content exu_rep) exu_pkts = true
  /\ map (rs_pid exu_oti) exu_pkts = [(2, 1); (1, 0); (0, 1)]
  /\ rs_recoverable exu_oti 5 exu_pkts = true
  /\ rs_mem_need exu_oti 5 = 6
  /\ summary 7 (receive env_xor 1 exu_files None 7 5 exu_pkts) = (Errored, [CallOpen true; CallError])
  /\ summary 7 (receive env_xor 1 exu_files None 7 6 exu_pkts)
     = (Completed, [CallOpen true; CallWrite [1; 2] true; CallWrite [3; 4] true; CallWrite [5] true; CallComplete]).
Proof. vm_compute. repeat split. Qed.

Lemma xor_dec_mds_129 : rs_oracle_mds env_xor exu_oti exr_content exu_rep 7.
Proof.
  intros s size sh Hs Hk [ND F].
  replace (nb_blocks_of exu_oti (lenN_ exr_content)) with 3 in Hs by (vm_compute; reflexivity).
  apply (sh_is_map (fun i => i < rs_k exu_oti (lenN_ exr_content) s + ro_parity exu_oti)
                   (rs_symbol exu_oti exr_content exu_rep s)) in F. destruct F as [Esh Fl].
  rewrite <- (map_length fst) in Hk. set (l := map fst sh) in *. clearbody l. subst sh.
  assert (Hs' : s = 0 \/ s = 1 \/ s = 2) by lia.
  destruct Hs' as [-> | [-> | ->]].
  all: match type of Fl with Forall (fun i => i < ?x) _ => replace x with 2 in Fl by (vm_compute; reflexivity) end.
  all: match type of Hk with ?x <= _ => replace x with 1 in * by (vm_compute; reflexivity) end.
  all: destruct l as [|a [|b0 [|c0 l]]]; cbn [length] in Hk; try lia.
  all: repeat match goal with H : Forall _ (_ :: _) |- _ => inversion H; clear H; subst end.
  all: repeat match goal with H : ?x < 2 |- _ =>
         let H' := fresh in assert (H' : x = 0 \/ x = 1) by lia; clear H; destruct H' as [->| ->] end.
  all: try (vm_compute; reflexivity).
  all: exfalso; repeat match goal with H : NoDup (_ :: _) |- _ => inversion H; clear H; subst end; cbn [In] in *; tauto.
Qed.

(* the delivery theorem applies to the FEC 129 instance with the tight limit rs_mem_need = 6 *)
Example exu_delivery_by_theorem :
  let (o, c) := receive env_xor 1 exu_files None 7 6 exu_pkts in
  r_state o = Completed
  /\ complete_exact exr_content (mk_ometa [] None None None None [] None (0, 0), calls_of (7, 0%nat) (c_log c)) = true.
Proof.
  pose proof (rs_recoverable_delivers env_xor exu_oti exr_content exu_rep 7 6 1 exu_files None None exu_pkts) as H.
  cbv zeta in H.
  assert (P : let (o, c) := receive env_xor 1 exu_files None 7 6 exu_pkts in
              r_state o = Completed /\ ShapeDone exr_content (7, 0%nat) 7 c
              /\ forall m, complete_exact exr_content (m, calls_of (7, 0%nat) (c_log c)) = true
                           /\ P_C02_object (rs_recoverable exu_oti (lenN_ exr_content) exu_pkts) exr_content [(m, calls_of (7, 0%nat) (c_log c))] = true).
  { apply H.
    - split; [right; reflexivity|]. repeat split; vm_compute; reflexivity.
    - vm_compute. reflexivity.
    - exists (mk_ff 7 CNull (Some exu_oti) 5 None None false). repeat split.
    - split; reflexivity.
    - intros i. reflexivity.
    - exact I.
    - exact xor_dec_mds_129.
    - exact exu_rep_sized.
    - vm_compute. discriminate.
    - vm_compute. discriminate.
    - repeat constructor.
    - apply rs_close_flag_ok_noflag. repeat constructor.
    - vm_compute. reflexivity. }
  destruct (receive env_xor 1 exu_files None 7 6 exu_pkts) as [o c]. destruct P as (P1 & _ & P3).
  split; [exact P1|apply P3].
Qed.

(* ================= the object-level statements: RaptorQ (FEC 6) and Raptor (FEC 1) ================= *)
(* The block decoder of the model asks the oracle after every push.  It stores a symbol with a new ESI,
   RaptorQ: only if its size is E (any other size is discarded, fixes D10);
   Raptor:  padded with zeros up to ceil(block length / k), the size of the largest source symbol (fixes D10).
   [enc s i] is the encoding symbol the sender's encoder produces for (sbn, esi) = (s, i), source and repair
   alike (universally quantified: the codes are not modelled). *)
Definition obj_block (oti : roti) (content : list N) (s : N) : list N :=
  let '(al, as_, nal, _) := partition_of oti (lenN_ content) in blk_bytes oti content al as_ nal s.
Definition obj_block_len (oti : roti) (L s : N) : N :=
  let '(al, as_, nal, _) := partition_of oti L in blen (ro_e oti) L al as_ nal s.
(* what the block decoder of block s hands to the decoder for a received payload x *)
Definition fq_stored (oti : roti) (L s : N) (x : list N) : list N :=
  match ro_fec oti with
  | FRaptor => pad_to (raptor_symbol_size (obj_block_len oti L s) (rs_k oti L s)) x
  | _ => x
  end.
(* the shards handed to the decoder are genuine for block s: distinct ESI, each the (Raptor: zero-padded) encoding
   symbol the sender produced for it; RaptorQ: all of E bytes *)
Definition fq_shards_genuine (oti : roti) (L : N) (enc : N -> N -> list N) (s : N) (sh : list (N * list N)) : Prop :=
  NoDup (map fst sh)
  /\ Forall (fun p => snd p = fq_stored oti L s (enc s (fst p))
                      /\ (ro_fec oti = FRaptorQ -> lenN_ (snd p) = ro_e oti)) sh.
(* a decoded block: the bytes of the block; the last block may be followed by padding (the RaptorQ decoder
   returns k * E bytes, the Raptor decoder the block length it was created with) *)
Definition fq_block_good (oti : roti) (content : list N) (s : N) (d : list N) : Prop :=
  exists z, d = obj_block oti content s ++ z /\ (s + 1 < nb_blocks_of oti (lenN_ content) -> z = []).

(* THE TRUSTED HYPOTHESES ON THE DECODER ORACLE, called with k and the block length of the RFC 5052 partition:
   - sound:    given genuine symbols with distinct ESI (any number of them), whatever it answers is the block;
   - complete: given genuine symbols among which all k source symbols (ESI < k), it does answer. *)
Definition fq_oracle_sound (E : env) (oti : roti) (content : list N) (enc : N -> N -> list N) (toi : N) : Prop :=
  forall s sh d, s < nb_blocks_of oti (lenN_ content) -> fq_shards_genuine oti (lenN_ content) enc s sh ->
    e_fec E toi (ro_fec oti) s (rs_k oti (lenN_ content) s) (ro_e oti) (obj_block_len oti (lenN_ content) s) sh = Some d ->
    fq_block_good oti content s d.
Definition fq_oracle_complete (E : env) (oti : roti) (content : list N) (enc : N -> N -> list N) (toi : N) : Prop :=
  forall s sh, s < nb_blocks_of oti (lenN_ content) -> fq_shards_genuine oti (lenN_ content) enc s sh ->
    (forall j, j < rs_k oti (lenN_ content) s -> has_esi j sh = true) ->
    e_fec E toi (ro_fec oti) s (rs_k oti (lenN_ content) s) (ro_e oti) (obj_block_len oti (lenN_ content) s) sh <> None.

Definition fq_genuine_pkt (oti : roti) (content : list N) (enc : N -> N -> list N) (p : apkt) : bool :=
  let '(al, as_, nal, n) := partition_of oti (lenN_ content) in genuineb oti content enc al as_ nal n p.
(* RaptorQ: the payload has exactly E bytes (the sender pads the last source symbol); Raptor (D47): at most E bytes
   (a longer symbol is discarded by the block decoder); needed for DELIVERY only *)
Definition fq_sized_pkt (oti : roti) (p : apkt) : bool :=
  match ro_fec oti with FRaptorQ => lenN_ (a_payload p) =? ro_e oti | _ => lenN_ (a_payload p) <=? ro_e oti end.
(* the recoverability premise of Spec/SessionSpec for the other schemes: every source symbol of every block *)
Definition fq_recoverable (oti : roti) (L : N) (pkts : list apkt) : bool :=
  blocks_recoverable false 0 (source_ks oti L) 0 (map (rs_pid oti) pkts).
Definition fq_close_flag_ok (oti : roti) (L : N) (pkts : list apkt) : Prop :=
  forall pre p post, pkts = pre ++ p :: post -> a_close_obj p = true -> fq_recoverable oti L (pre ++ [p]) = true.
Lemma fq_close_flag_ok_noflag oti L pkts : Forall (fun p => a_close_obj p = false) pkts -> fq_close_flag_ok oti L pkts.
Proof.
  intros F pre p post -> Hp. rewrite Forall_forall in F.
  assert (a_close_obj p = false) by (apply F; apply in_or_app; right; left; reflexivity). congruence.
Qed.
Definition fq_scheme_ok (oti : roti) (L : N) : Prop :=
  (ro_fec oti = FRaptorQ \/ ro_fec oti = FRaptor) /\ 0 < ro_e oti /\ 0 < ro_b oti /\ 0 < L /\ L + ro_e oti < U64.
(* the decoder of every block can be created (fixes D28, D34):
   RaptorQ: scheme-specific information (Z, N, Al) present with Al <> 0, E mod Al = 0, N <> 0, and k <= 56403;
   Raptor:  scheme-specific information present and k <= 8192 *)
Definition fq_blocks_ok (oti : roti) (L : N) : Prop :=
  forallb (fq_dec_ok oti) (source_ks oti L) = true.

Lemma fq_is_fq oti : ro_fec oti = FRaptorQ \/ ro_fec oti = FRaptor ->
  cls oti = false /\ us oti = false /\ fec_oracle (ro_fec oti) = true.
Proof. unfold cls, us. intros [H|H]; rewrite H; repeat split; reflexivity. Qed.

Lemma fq_blocks_ok_spec oti L al as_ nal n : cls oti = false -> partition_of oti L = (al, as_, nal, n) ->
  fq_blocks_ok oti L -> InitOk oti al as_ nal n.
Proof.
  intros Hcls Hp H s Hs. rewrite Hcls. unfold fq_blocks_ok, source_ks in H. rewrite Hp in H. rewrite forallb_forall in H.
  apply H. apply in_map. apply in_below. exact Hs.
Qed.

Section TopFQ.
  Variables (E : env) (oti : roti) (content : list N) (enc : N -> N -> list N) (toi : N).
  Variables al as_ nal n : N.
  Hypothesis Hcls : cls oti = false.
  Hypothesis Hus : us oti = false.
  Hypothesis He : 0 < ro_e oti.
  Hypothesis Hb : 0 < ro_b oti.
  Hypothesis HL : 0 < lenN_ content.
  Hypothesis Hu : lenN_ content + ro_e oti < U64.
  Hypothesis Hpart : partition_of oti (lenN_ content) = (al, as_, nal, n).

  Lemma fq_bsz s : s < n -> bsz oti content al as_ nal s = blen (ro_e oti) (lenN_ content) al as_ nal s.
  Proof. intros Hs. rewrite (bsz_spec oti content al as_ nal n He Hb HL Hu Hpart s Hs), Hus. reflexivity. Qed.
  Lemma fq_stored_eq s x : s < n -> stored oti content al as_ nal s x = fq_stored oti (lenN_ content) s x.
  Proof. intros Hs. unfold stored, fq_stored, obj_block_len, rs_k. rewrite Hpart, (fq_bsz s Hs). reflexivity. Qed.
  Lemma fq_shards_conv s sh : s < n -> Forall (shard_ok oti content enc al as_ nal s) sh ->
    Forall (fun p => snd p = fq_stored oti (lenN_ content) s (enc s (fst p))
                     /\ (ro_fec oti = FRaptorQ -> lenN_ (snd p) = ro_e oti)) sh.
  Proof.
    intros Hs F. eapply Forall_impl; [|exact F]. intros p (_ & H2 & H3). split; [|exact H3].
    rewrite H2, (fq_stored_eq _ _ Hs). unfold esym. rewrite Hcls. reflexivity.
  Qed.

  Lemma fq_good s d : s < n -> fq_block_good oti content s d -> Good oti content al as_ nal n s d.
  Proof.
    intros Hs (z & -> & Hz). unfold obj_block, nb_blocks_of in *. fold (partition_of oti (lenN_ content)) in *.
    rewrite Hpart in *.
    destruct (lenN_blk oti content al as_ nal n He Hb HL Hu Hpart s Hs) as (B1 & _ & _).
    split.
    - rewrite take_app_le by lia. apply take_all. lia.
    - intros Hs1. rewrite (Hz Hs1), app_nil_r. exact B1.
  Qed.

  Lemma top_sound_fq : fq_oracle_sound E oti content enc toi ->
    forall s sh d, s < n -> Callable oti al as_ nal s sh ->
      NoDup (map fst sh) -> Forall (shard_ok oti content enc al as_ nal s) sh ->
      e_fec E toi (ro_fec oti) s (k_of al as_ nal s) (ro_e oti) (bsz oti content al as_ nal s) sh = Some d ->
      Good oti content al as_ nal n s d.
  Proof.
    intros H s sh d Hs _ ND F O. specialize (H s sh d). rewrite (fq_bsz s Hs) in O.
    pose proof (fq_shards_conv s sh Hs F) as F'.
    unfold fq_shards_genuine, rs_k, obj_block_len, nb_blocks_of in H. fold (partition_of oti (lenN_ content)) in H.
    rewrite Hpart in H. apply fq_good; [exact Hs|].
    apply H; [exact Hs|split; [exact ND|exact F']|exact O].
  Qed.
  Lemma top_complete_fq : fq_oracle_complete E oti content enc toi -> Mds E oti content enc toi al as_ nal n.
  Proof.
    intros H s sh Hs Hk ND F. specialize (H s sh). rewrite (fq_bsz s Hs).
    pose proof (fq_shards_conv s sh Hs F) as F'.
    unfold fq_shards_genuine, rs_k, obj_block_len, nb_blocks_of in H. fold (partition_of oti (lenN_ content)) in H.
    rewrite Hpart in H. unfold Decodable in Hk. rewrite Hcls in Hk.
    apply H; [exact Hs|split; [exact ND|exact F']|exact Hk].
  Qed.
End TopFQ.

Lemma fq_genuine_pkt_spec oti content enc al as_ nal n pkts :
  partition_of oti (lenN_ content) = (al, as_, nal, n) ->
  Forall (fun p => fq_genuine_pkt oti content enc p = true) pkts -> Forall (genuine oti content enc al as_ nal n) pkts.
Proof.
  intros Hp F. eapply Forall_impl; [|exact F]. intros p H. unfold fq_genuine_pkt in H. rewrite Hp in H.
  apply genuineb_spec. exact H.
Qed.
Lemma fq_sized_pkt_spec oti pkts :
  Forall (fun p => fq_sized_pkt oti p = true) pkts -> Forall (fun p => sized oti (a_payload p)) pkts.
Proof.
  intros F. eapply Forall_impl; [|exact F]. intros p H. unfold fq_sized_pkt in H. unfold sized, sizedq.
  destruct (ro_fec oti); try (apply N.leb_le in H; split; [exact H|discriminate]).
  apply N.eqb_eq in H. split; [lia|intros _; exact H].
Qed.

(* T1fq - C02 for RaptorQ / Raptor: a reception with every source symbol of every block (plus any repair
   symbols, any order, any duplication) delivers the object byte-exact, GIVEN a sound decoder that answers
   when all source symbols are present.  (Recovery from fewer source symbols is entirely the decoder's.) *)
Theorem fq_recoverable_delivers E oti content enc toi max fid files inst md5 pkts :
  let L := lenN_ content in
  fq_scheme_ok oti L -> fq_blocks_ok oti L -> fdt_entry_for files inst toi oti L md5 ->
  writer_accepts E toi -> writes_succeed E toi -> md5_good E content md5 ->
  fq_oracle_sound E oti content enc toi -> fq_oracle_complete E oti content enc toi ->
  L <= max -> nb_blocks_of oti L <= 4097 ->
  Forall (fun p => fq_genuine_pkt oti content enc p = true) pkts ->
  Forall (fun p => fq_sized_pkt oti p = true) pkts ->
  fq_close_flag_ok oti L pkts ->
  fq_recoverable oti L pkts = true ->
  let (o, c) := receive E fid files inst toi max pkts in
  r_state o = Completed
  /\ ShapeDone content (toi, 0%nat) toi c
  /\ forall m, complete_exact content (m, calls_of (toi, 0%nat) (c_log c)) = true
                /\ P_C02_object (fq_recoverable oti L pkts) content [(m, calls_of (toi, 0%nat) (c_log c))] = true.
Proof.
  intros L (Hf & He & Hb & HL & Hu) Hsch (f & F1 & F2 & F3 & F4 & F5) (A1 & A2) Hwr Hmd5 Hos Hoc Hmax Hn G Z Cl Rec.
  destruct (fq_is_fq oti Hf) as (Hcls & Hus & Hfec).
  destruct (partition_of oti L) as [[[al as_] nal] n] eqn:Hpart.
  pose proof Hpart as Hpart'. unfold partition_of in Hpart'.
  pose proof (top_sound_fq E oti content enc toi al as_ nal n Hcls Hus He Hb HL Hu Hpart Hos) as Hsound.
  pose proof (top_complete_fq E oti content enc toi al as_ nal n Hcls Hus He Hb HL Hu Hpart Hoc) as HM.
  destruct (attach_struct E oti content enc (toi, 0%nat) toi md5 max al as_ nal n He Hb HL Hu Hpart' fid files inst f
              eq_refl F1 F2 F3 F4 F5 A1 A2) as (o0 & c0 & Hat & S0).
  unfold receive. rewrite Hat.
  assert (Hnb : nb_blocks_of oti L = n) by (unfold nb_blocks_of; rewrite Hpart'; reflexivity).
  assert (Cov : forall l, fq_recoverable oti L l = true -> covered oti al as_ nal n (map (rs_pid oti) l)).
  { intros l H. apply (recoverable_covered_fq oti); [exact Hcls|]. unfold fq_recoverable, source_ks in H. rewrite Hpart in H. exact H. }
  pose proof (deliver E oti content enc (toi, 0%nat) toi md5 max al as_ nal n Hfec He Hb HL Hu Hpart' Hsound pkts o0 c0 HM S0) as D.
  assert (D' : let (o', c') := run E pkts (o0, c0) in r_state o' = Completed /\ ShapeDone content (toi, 0%nat) toi c').
  { apply D.
    - split; [split; [exact Hwr|exact Hmd5]|]. split; [unfold M; rewrite Hus; exact Hmax|]. split; [rewrite <- Hnb; exact Hn|].
      apply (fq_blocks_ok_spec oti L); assumption.
    - apply fq_genuine_pkt_spec; [exact Hpart|exact G].
    - apply fq_sized_pkt_spec. exact Z.
    - intros pre p post Eq Hp. rewrite app_nil_r. apply Cov. apply (Cl pre p post Eq Hp).
    - apply Cov. exact Rec. }
  destruct (run E pkts (o0, c0)) as [o c]. destruct D' as [D1 D2].
  split; [exact D1|]. split; [exact D2|]. intros m.
  pose proof (done_exact content (toi, 0%nat) toi c m D2) as Ex. split; [exact Ex|].
  unfold P_C02_object. cbn [existsb]. rewrite Ex. cbn [orb]. apply orb_true_r.
Qed.

(* T2fq - C03 for RaptorQ / Raptor (safety): any genuine packets (whatever their size, whatever the scheme-specific
   information and k are), GIVEN a sound decoder *)
Theorem fq_safety E oti content enc toi max fid files inst md5 pkts :
  let L := lenN_ content in
  fq_scheme_ok oti L -> fdt_entry_for files inst toi oti L md5 -> writer_accepts E toi ->
  fq_oracle_sound E oti content enc toi ->
  Forall (fun p => fq_genuine_pkt oti content enc p = true) pkts ->
  let (o, c) := receive E fid files inst toi max pkts in
  forall w, is_prefix (written (calls_of w (c_log c))) content = true
            /\ P_C03_writer content true (calls_of w (c_log c)) = true.
Proof.
  intros L (Hf & He & Hb & HL & Hu) (f & F1 & F2 & F3 & F4 & F5) (A1 & A2) Hos G.
  destruct (fq_is_fq oti Hf) as (Hcls & Hus & Hfec).
  destruct (partition_of oti L) as [[[al as_] nal] n] eqn:Hpart.
  pose proof Hpart as Hpart'. unfold partition_of in Hpart'.
  pose proof (top_sound_fq E oti content enc toi al as_ nal n Hcls Hus He Hb HL Hu Hpart Hos) as Hsound.
  destruct (attach_struct E oti content enc (toi, 0%nat) toi md5 max al as_ nal n He Hb HL Hu Hpart' fid files inst f
              eq_refl F1 F2 F3 F4 F5 A1 A2) as (o0 & c0 & Hat & S0).
  unfold receive. rewrite Hat.
  pose proof (run_safe E oti content enc (toi, 0%nat) toi md5 max al as_ nal n Hfec He Hb HL Hu Hpart' Hsound pkts o0 c0 S0
                (fq_genuine_pkt_spec _ _ _ _ _ _ _ _ Hpart G)) as R.
  apply (runout_safe E oti content enc (toi, 0%nat) toi md5 max al as_ nal n He Hb HL Hu) in R.
  destruct (run E pkts (o0, c0)) as [o c]. exact R.
Qed.

Print Assumptions fq_recoverable_delivers.
Print Assumptions fq_safety.

(* ---------- RaptorQ / Raptor: a toy oracle and concrete instances ---------- *)
(* a systematic code whose decoder only knows how to reassemble the source symbols (it ignores repair symbols
   and fails while a source symbol is missing): it satisfies both oracle hypotheses for EVERY object, with the
   padded slices as source symbols and arbitrary repair symbols [rep] *)
Definition sys_dec (toi : N) (f : rfec) (sbn k e size : N) (sh : list (N * list N)) : option (list N) :=
  concat_src (N.to_nat k) 0 sh.
Definition env_sys : env :=
  mk_env false false (fun _ _ => WStore) (fun _ => true) (fun _ _ => true)
         sys_dec (fun _ => []) (fun _ _ _ => None).

Lemma sys_dec_oracle E oti content rep toi :
  (forall t f s k e size sh, e_fec E t f s k e size sh = sys_dec t f s k e size sh) ->
  0 < ro_e oti -> 0 < ro_b oti -> 0 < lenN_ content ->
  fq_oracle_sound E oti content (rs_symbol oti content rep) toi
  /\ fq_oracle_complete E oti content (rs_symbol oti content rep) toi.
Proof.
  intros HE He Hb HL. split.
  - intros s sh d Hs [ND F] O. rewrite HE in O. unfold sys_dec in O.
    unfold fq_block_good, fq_stored, obj_block, rs_symbol, rs_k, nb_blocks_of, obj_block_len in *.
    fold (partition_of oti (lenN_ content)) in *.
    destruct (partition_of oti (lenN_ content)) as [[[al as_] nal] n] eqn:Hpart.
    pose proof Hpart as Hpart'. unfold partition_of in Hpart'.
    assert (Hd : d = pblk oti content al as_ nal s).
    { rewrite (concat_src_pad oti content He Hb HL (k_of al as_ nal s) (soff al as_ nal s) sh) with (m := N.to_nat (k_of al as_ nal s)) (i := 0) (d := d).
      - unfold pblk. f_equal; [lia|]. f_equal. lia.
      - eapply Forall_impl; [|exact F]. intros p [Hp _] Hlt. cbv beta in Hp. rewrite Hp.
        destruct (N.ltb_spec (fst p) (k_of al as_ nal s)) as [_|X]; [|lia].
        destruct (ro_fec oti); try reflexivity. apply pad_to_ge.
        pose proof (soff_k_le oti content al as_ nal n He Hb HL Hpart' s Hs) as K.
        rewrite (psym_len oti content al as_ nal n He Hb HL Hpart') by lia.
        apply (rss_le oti content al as_ nal n He Hb HL Hpart' s Hs).
      - lia.
      - exact O. }
    destruct (pblk_good oti content al as_ nal n He Hb HL Hpart' s Hs) as [G1 G2].
    exists (drop (blen (ro_e oti) (lenN_ content) al as_ nal s) d). split.
    + rewrite <- G1, <- Hd. unfold take, drop. symmetry. apply firstn_skipn.
    + intros Hs1. specialize (G2 Hs1). rewrite <- Hd in G2. unfold drop. apply skipn_all2. unfold lenN_ in G2 at 1. lia.
  - intros s sh Hs _ Hall. rewrite HE. unfold sys_dec. apply (concat_src_spec sh). intros j Hj. apply Hall. lia.
Qed.

(* RaptorQ payload id: 8-bit SBN, 24-bit ESI; Raptor: 16-bit SBN, 16-bit ESI *)
Definition rq_pidb (sbn esi : N) : list N := [sbn; esi / 65536; (esi / 256) mod 256; esi mod 256].
Definition rq_pkt (toi sbn esi : N) (close : bool) (payload : list N) : apkt :=
  mk_apkt toi close false None None None None 6 (rq_pidb sbn esi) payload (lenN_ payload).
Definition rp_pkt (toi sbn esi : N) (close : bool) (payload : list N) : apkt :=
  mk_apkt toi close false None None None None 1 (mk_pid sbn esi) payload (lenN_ payload).

(* the 5-byte object, E = 2, B = 2, RaptorQ; the repair symbols of the toy code are junk that the toy decoder ignores *)
Definition exq_oti : roti := mk_roti FRaptorQ 2 2 1 (Some (1, 1, 1)).
Definition exq_rep (s i : N) : list N := [7; 7].
Definition exq_enc : N -> N -> list N := rs_symbol exq_oti exr_content exq_rep.
Definition exq_files : list fdtfile := [mk_ff 7 CNull (Some exq_oti) 5 None None false].
Definition exq_pkts : list apkt :=
  [rq_pkt 7 1 0 false [5; 0]; rq_pkt 7 0 5 false [7; 7]; rq_pkt 7 0 1 false [3; 4]; rq_pkt 7 1 0 false [5; 0];
   rq_pkt 7 0 0 false [1; 2]].

Example exq_premises :
  forallb (fq_genuine_pkt exq_oti exr_content exq_enc) exq_pkts = true
  /\ forallb (fq_sized_pkt exq_oti) exq_pkts = true
  /\ forallb (fq_dec_ok exq_oti) (source_ks exq_oti 5) = true
  /\ map (rs_pid exq_oti) exq_pkts = [(1, 0); (0, 5); (0, 1); (1, 0); (0, 0)]
  /\ fq_recoverable exq_oti 5 exq_pkts = true
  /\ fq_recoverable exq_oti 5 (firstn 4 exq_pkts) = false
  /\ summary 7 (receive env_sys 1 exq_files None 7 1000 exq_pkts)
     = (Completed, [CallOpen true; CallWrite [1; 2; 3; 4] true; CallWrite [5] true; CallComplete])
  /\ summary 7 (receive env_sys 1 exq_files None 7 1000 (firstn 4 exq_pkts)) = (Receiving, [CallOpen true]).
Proof. vm_compute. repeat split. Qed.

Example exq_delivery_by_theorem :
  let (o, c) := receive env_sys 1 exq_files None 7 1000 exq_pkts in
  r_state o = Completed
  /\ complete_exact exr_content (mk_ometa [] None None None None [] None (0, 0), calls_of (7, 0%nat) (c_log c)) = true.
Proof.
  pose proof (fq_recoverable_delivers env_sys exq_oti exr_content exq_enc 7 1000 1 exq_files None None exq_pkts) as H.
  cbv zeta in H.
  destruct (sys_dec_oracle env_sys exq_oti exr_content exq_rep 7 (fun _ _ _ _ _ _ _ => eq_refl)
              ltac:(vm_compute; reflexivity) ltac:(vm_compute; reflexivity) ltac:(vm_compute; reflexivity)) as [Os Oc].
  assert (P : let (o, c) := receive env_sys 1 exq_files None 7 1000 exq_pkts in
              r_state o = Completed /\ ShapeDone exr_content (7, 0%nat) 7 c
              /\ forall m, complete_exact exr_content (m, calls_of (7, 0%nat) (c_log c)) = true
                           /\ P_C02_object (fq_recoverable exq_oti (lenN_ exr_content) exq_pkts) exr_content [(m, calls_of (7, 0%nat) (c_log c))] = true).
  { apply H.
    - split; [left; reflexivity|]. repeat split; vm_compute; reflexivity.
    - vm_compute. reflexivity.
    - exists (mk_ff 7 CNull (Some exq_oti) 5 None None false). repeat split.
    - split; reflexivity.
    - intros i. reflexivity.
    - exact I.
    - exact Os.
    - exact Oc.
    - vm_compute. discriminate.
    - vm_compute. discriminate.
    - repeat constructor.
    - repeat constructor.
    - apply fq_close_flag_ok_noflag. repeat constructor.
    - vm_compute. reflexivity. }
  destruct (receive env_sys 1 exq_files None 7 1000 exq_pkts) as [o c]. destruct P as (P1 & _ & P3).
  split; [exact P1|apply P3].
Qed.

(* the same object with Raptor (FEC 1) *)
Definition exp_oti : roti := mk_roti FRaptor 2 2 1 (Some (1, 1, 1)).
Definition exp_files : list fdtfile := [mk_ff 7 CNull (Some exp_oti) 5 None None false].
Definition exp_pkts : list apkt :=
  [rp_pkt 7 1 0 false [5; 0]; rp_pkt 7 0 1 false [3; 4]; rp_pkt 7 0 9 false [7; 7]; rp_pkt 7 0 0 false [1; 2]].
Example exp_delivery_computed :
  forallb (fq_genuine_pkt exp_oti exr_content (rs_symbol exp_oti exr_content exq_rep)) exp_pkts = true
  /\ forallb (fq_dec_ok exp_oti) (source_ks exp_oti 5) = true
  /\ fq_recoverable exp_oti 5 exp_pkts = true
  /\ summary 7 (receive env_sys 1 exp_files None 7 1000 exp_pkts)
     = (Completed, [CallOpen true; CallWrite [1; 2; 3; 4] true; CallWrite [5] true; CallComplete]).
Proof. vm_compute. repeat split. Qed.

Example exp_delivery_by_theorem :
  let (o, c) := receive env_sys 1 exp_files None 7 1000 exp_pkts in
  r_state o = Completed
  /\ complete_exact exr_content (mk_ometa [] None None None None [] None (0, 0), calls_of (7, 0%nat) (c_log c)) = true.
Proof.
  pose proof (fq_recoverable_delivers env_sys exp_oti exr_content (rs_symbol exp_oti exr_content exq_rep)
                7 1000 1 exp_files None None exp_pkts) as H.
  cbv zeta in H.
  destruct (sys_dec_oracle env_sys exp_oti exr_content exq_rep 7 (fun _ _ _ _ _ _ _ => eq_refl)
              ltac:(vm_compute; reflexivity) ltac:(vm_compute; reflexivity) ltac:(vm_compute; reflexivity)) as [Os Oc].
  assert (P : let (o, c) := receive env_sys 1 exp_files None 7 1000 exp_pkts in
              r_state o = Completed /\ ShapeDone exr_content (7, 0%nat) 7 c
              /\ forall m, complete_exact exr_content (m, calls_of (7, 0%nat) (c_log c)) = true
                           /\ P_C02_object (fq_recoverable exp_oti (lenN_ exr_content) exp_pkts) exr_content [(m, calls_of (7, 0%nat) (c_log c))] = true).
  { apply H.
    - split; [right; reflexivity|]. repeat split; vm_compute; reflexivity.
    - vm_compute. reflexivity.
    - exists (mk_ff 7 CNull (Some exp_oti) 5 None None false). repeat split.
    - split; reflexivity.
    - intros i. reflexivity.
    - exact I.
    - exact Os.
    - exact Oc.
    - vm_compute. discriminate.
    - vm_compute. discriminate.
    - repeat constructor.
    - repeat constructor.
    - apply fq_close_flag_ok_noflag. repeat constructor.
    - vm_compute. reflexivity. }
  destruct (receive env_sys 1 exp_files None 7 1000 exp_pkts) as [o c]. destruct P as (P1 & _ & P3).
  split; [exact P1|apply P3].
Qed.

(* Raptor, the receiver's padding at work: a 3-byte object, E = 2, one block of k = 2 symbols and 3 bytes; the
   sender's last source symbol is the 1-byte slice [3]; the block decoder stores it padded to ceil(3 / 2) = 2
   bytes, the toy decoder answers [1; 2; 3; 0] and the block writer keeps the 3 bytes of the object.
   The genuine symbols [enc] are the UNPADDED ones; what the oracle hypotheses speak about is fq_stored *)
Definition exs_oti : roti := mk_roti FRaptor 2 2 1 (Some (1, 1, 1)).
Definition exs_content : list N := [1; 2; 3].
Definition exs_enc (s i : N) : list N := if i =? 0 then [1; 2] else if i =? 1 then [3] else [7; 7].
Definition exs_files : list fdtfile := [mk_ff 7 CNull (Some exs_oti) 3 None None false].
Definition exs_pkts : list apkt := [rp_pkt 7 0 1 false [3]; rp_pkt 7 0 0 false [1; 2]].
Example raptor_short_symbol_is_padded :
  forallb (fq_genuine_pkt exs_oti exs_content exs_enc) exs_pkts = true
  /\ fq_recoverable exs_oti 3 exs_pkts = true
  /\ fq_stored exs_oti 3 0 (exs_enc 0 1) = [3; 0]
  /\ fst (bd_push env_sys 7 exs_oti 0 1 [3] (mk_bdec false true 3 2 [] None true))
     = mk_bdec false true 3 2 [(1, [3; 0])] None true
  /\ summary 7 (receive env_sys 1 exs_files None 7 1000 exs_pkts)
     = (Completed, [CallOpen true; CallWrite [1; 2; 3] true; CallComplete]).
Proof. vm_compute. repeat split. Qed.

(* REFUTATION C (RaptorQ / Raptor without scheme-specific information): the decoder cannot be created *)
Definition exn_oti : roti := mk_roti FRaptorQ 2 2 1 None.
Definition exn_files : list fdtfile := [mk_ff 7 CNull (Some exn_oti) 5 None None false].
Example fq_scheme_missing_refuted :
  forallb (fq_genuine_pkt exn_oti exr_content (rs_symbol exn_oti exr_content exq_rep)) exq_pkts = true
  /\ forallb (fq_sized_pkt exn_oti) exq_pkts = true
  /\ fq_recoverable exn_oti 5 exq_pkts = true
  /\ forallb (fq_dec_ok exn_oti) (source_ks exn_oti 5) = false
  /\ summary 7 (receive env_sys 1 exn_files None 7 1000 exq_pkts) = (Errored, [CallOpen true; CallError]).
Proof. vm_compute. repeat split. Qed.

(* REFUTATION D (RaptorQ scheme parameters outside the raptorq crate's range, fixes D28): with Al = 0, with E not a
   multiple of Al (E = 2, Al = 4), or with N = 0 sub-blocks the decoder of the first block cannot be created and the
   object is Errored although every source symbol arrives with the right size *)
Definition exd_oti (sch : N * N * N) : roti := mk_roti FRaptorQ 2 2 1 (Some sch).
Definition exd_files (sch : N * N * N) : list fdtfile := [mk_ff 7 CNull (Some (exd_oti sch)) 5 None None false].
Definition exd_bad (sch : N * N * N) : Prop :=
  forallb (fq_genuine_pkt (exd_oti sch) exr_content (rs_symbol (exd_oti sch) exr_content exq_rep)) exq_pkts = true
  /\ forallb (fq_sized_pkt (exd_oti sch)) exq_pkts = true
  /\ fq_recoverable (exd_oti sch) 5 exq_pkts = true
  /\ forallb (fq_dec_ok (exd_oti sch)) (source_ks (exd_oti sch) 5) = false
  /\ summary 7 (receive env_sys 1 (exd_files sch) None 7 1000 exq_pkts) = (Errored, [CallOpen true; CallError]).
Example rq_scheme_parameters_refuted : exd_bad (1, 1, 0) /\ exd_bad (1, 1, 4) /\ exd_bad (1, 0, 1).
Proof. vm_compute. repeat split. Qed.

(* REFUTATION E (more source symbols in a block than the decoder supports, fixes D28 / D34): RaptorQ with
   k = 56404 > K'_max = 56403, Raptor with k = 8193 > K_max = 8192 (E = 1, one block): the first genuine packet makes
   the object Errored; with k = K_max the same packet is stored *)
Definition exk_oti (f : rfec) (k : N) : roti := mk_roti f 1 k 1 (Some (1, 1, 1)).
Definition exk_files (f : rfec) (k : N) : list fdtfile := [mk_ff 7 CNull (Some (exk_oti f k)) k None None false].
Example fq_block_too_large_refuted :
  source_ks (exk_oti FRaptorQ 56404) 56404 = [56404]
  /\ forallb (fq_dec_ok (exk_oti FRaptorQ 56404)) [56404] = false
  /\ forallb (fq_dec_ok (exk_oti FRaptorQ 56403)) [56403] = true
  /\ summary 7 (receive env_sys 1 (exk_files FRaptorQ 56404) None 7 100000 [rq_pkt 7 0 0 false [1]])
     = (Errored, [CallOpen true; CallError])
  /\ summary 7 (receive env_sys 1 (exk_files FRaptorQ 56403) None 7 100000 [rq_pkt 7 0 0 false [1]])
     = (Receiving, [CallOpen true])
  /\ source_ks (exk_oti FRaptor 8193) 8193 = [8193]
  /\ forallb (fq_dec_ok (exk_oti FRaptor 8193)) [8193] = false
  /\ forallb (fq_dec_ok (exk_oti FRaptor 8192)) [8192] = true
  /\ summary 7 (receive env_sys 1 (exk_files FRaptor 8193) None 7 100000 [rp_pkt 7 0 0 false [1]])
     = (Errored, [CallOpen true; CallError])
  /\ summary 7 (receive env_sys 1 (exk_files FRaptor 8192) None 7 100000 [rp_pkt 7 0 0 false [1]])
     = (Receiving, [CallOpen true]).
Proof. vm_compute. repeat split. Qed.

(* REFUTATION F (RaptorQ symbol whose size is not E, fixes D10): a sender that does not pad the last source symbol
   ([5] instead of [5; 0]): every packet is genuine for that encoder and every source symbol arrives, but the 1-byte
   symbol is discarded by the block decoder and the object is never completed; fq_sized_pkt excludes it *)
Definition exf_enc (s i : N) : list N := if (s =? 1) && (i =? 0) then [5] else exq_enc s i.
Definition exf_pkts : list apkt :=
  [rq_pkt 7 0 0 false [1; 2]; rq_pkt 7 0 1 false [3; 4]; rq_pkt 7 1 0 false [5]].
Example rq_symbol_size_refuted :
  forallb (fq_genuine_pkt exq_oti exr_content exf_enc) exf_pkts = true
  /\ fq_recoverable exq_oti 5 exf_pkts = true
  /\ forallb (fq_dec_ok exq_oti) (source_ks exq_oti 5) = true
  /\ map (fq_sized_pkt exq_oti) exf_pkts = [true; true; false]
  /\ summary 7 (receive env_sys 1 exq_files None 7 1000 exf_pkts)
     = (Receiving, [CallOpen true; CallWrite [1; 2; 3; 4] true]).
Proof. vm_compute. repeat split. Qed.
