(* C02 / C16 at the receiver level (Model/Recv.v) with an FDT instance that spans SEVERAL packets.
   The FDT instance is received by an inner object receiver (fr_push: or_push E_fdt p o ctx0 on or_new 0 1 MiB, the
   writer log replayed by apply_fdt_log), so "the instance is received" is the object-level No-Code theorem of
   Proofs/C02Full.v at TOI 0 in the environment E_fdt.
   Part 1: the context frame of push_to_block (fr_push restarts every step from ctx0).
   Part 2: the FDT receiver (fr_push) on the invariant of C02Full.
   Part 3: the receiver (push_fdt_obj, push_obj) over the object-level interface of Proofs/C02SessionRS.v, any
           interleaving of FDT packets and object packets.
   Part 4: the statements for No-Code objects and the examples. *)
From FluteV Require Import Model.Partition Spec.C07Spec Proofs.PartitionProofs Model.ObjRecv Model.Recv
  Spec.RecvSpec Spec.SessionSpec Proofs.RecvProofs Proofs.SessionProofs Proofs.C02Full Proofs.C09Full
  Proofs.C02Session Proofs.C02RS Proofs.C02SessionRS.
From Coq Require Import Lia.
Open Scope N_scope.

Arguments N.add : simpl never. Arguments N.mul : simpl never. Arguments N.sub : simpl never.
Arguments N.eqb : simpl never. Arguments N.ltb : simpl never. Arguments N.leb : simpl never.
Arguments N.div : simpl never. Arguments N.modulo : simpl never. Arguments N.min : simpl never.

Ltac prj := cbn [r_state r_toi r_oti r_cache r_cache_size r_max r_blocks r_off r_tlen r_cenc r_md5 r_md5chk
                 r_al r_as r_nal r_writer r_bw r_fdt_id r_nb_alloc r_alloc_size r_clen r_nocache] in *.

(* ================= 1. the context frame of push_to_block ================= *)
(* when the answer of write() does not depend on the number of earlier writes, the result of push_to_block and the
   events it appends to the log do not depend on the context it starts from *)
Definition FrameOf {A} (F : ctx -> A * ctx) : Prop :=
  exists (a : A) (dl : list wev), forall c, exists c', F c = (a, c') /\ c_log c' = c_log c ++ dl.

Lemma fo_ret {A} (a : A) : FrameOf (fun c => (a, c)).
Proof. exists a, []. intros c. exists c. split; [reflexivity|]. rewrite app_nil_r. reflexivity. Qed.

Lemma fo_ret_panic {A} (a : A) : FrameOf (fun c => (a, panicc c)).
Proof. exists a, []. intros c. exists (panicc c). split; [reflexivity|]. rewrite app_nil_r. reflexivity. Qed.

Lemma fo_bind {A B} (F : ctx -> A * ctx) (G : A -> ctx -> B * ctx) :
  FrameOf F -> (forall a, FrameOf (G a)) -> FrameOf (fun c => let (a, c1) := F c in G a c1).
Proof.
  intros (a & dl & HF) HG. destruct (HG a) as (b & dl2 & HG2). exists b, (dl ++ dl2). intros c.
  destruct (HF c) as (c1 & E1 & L1). destruct (HG2 c1) as (c2 & E2 & L2). exists c2. rewrite E1. split; [exact E2|].
  rewrite L2, L1, app_assoc. reflexivity.
Qed.

Lemma fo_ext {A} (F F' : ctx -> A * ctx) : (forall c, F c = F' c) -> FrameOf F -> FrameOf F'.
Proof. intros H (a & dl & HF). exists a, dl. intros c. rewrite <- H. apply HF. Qed.

Lemma fo_pre {A} (h : ctx -> ctx) (G : ctx -> A * ctx) :
  (forall c, c_log (h c) = c_log c) -> FrameOf G -> FrameOf (fun c => G (h c)).
Proof.
  intros H (a & dl & HG). exists a, dl. intros c. destruct (HG (h c)) as (c' & E1 & L1). exists c'.
  split; [exact E1|]. rewrite L1, H. reflexivity.
Qed.

Ltac fo_bind_tac lem :=
  match goal with
  | |- FrameOf (fun c => let (a, c1) := ?F c in @?G a c1) => apply (fo_bind F G); [apply lem|]
  end.


Section CtxFrame.
  Variable E : env.
  Hypothesis Hwc : forall w i j, e_write_ok E w i = e_write_ok E w j.

  Lemma fo_do_write w data : FrameOf (do_write E w data).
  Proof.
    exists (e_write_ok E w 0%nat), [EvWrite w data (e_write_ok E w 0%nat)]. intros c. eexists.
    unfold do_write. rewrite (Hwc w (wcount c w) 0%nat). split; reflexivity.
  Qed.

  Lemma fo_bw_write w sbn b bw : FrameOf (bw_write E w sbn b bw).
  Proof.
    change (FrameOf (fun c => bw_write E w sbn b bw c)). unfold bw_write.
    destruct (negb (bw_sbn bw =? sbn)); [apply fo_ret|].
    destruct (bd_data b) as [data0|]; [|apply fo_ret].
    cbv zeta.
    set (data := if lenN_ data0 <? bw_left bw then data0 else firstn (N.to_nat (bw_left bw)) data0). clearbody data.
    destruct (bw_cenc bw).
    - fo_bind_tac fo_do_write. intros ok. destruct ok; apply fo_ret.
    - destruct (bw_dead bw && negb (lenN_ data =? 0)); [apply fo_ret|].
      destruct (e_inflate E CZlib (bw_acc bw) false) as [before|]; [|apply fo_ret].
      destruct (e_inflate E CZlib (bw_acc bw ++ data) (bw_left bw - lenN_ data =? 0)) as [after|]; [|apply fo_ret].
      destruct (skipn (length before) after) as [|x fresh].
      + apply fo_ret.
      + fo_bind_tac fo_do_write. intros ok. destruct ok; apply fo_ret.
    - destruct (bw_dead bw && negb (lenN_ data =? 0)); [apply fo_ret|].
      destruct (e_inflate E CDeflate (bw_acc bw) false) as [before|]; [|apply fo_ret].
      destruct (e_inflate E CDeflate (bw_acc bw ++ data) (bw_left bw - lenN_ data =? 0)) as [after|]; [|apply fo_ret].
      destruct (skipn (length before) after) as [|x fresh].
      + apply fo_ret.
      + fo_bind_tac fo_do_write. intros ok. destruct ok; apply fo_ret.
    - destruct (bw_dead bw && negb (lenN_ data =? 0)); [apply fo_ret|].
      destruct (e_inflate E CGzip (bw_acc bw) false) as [before|]; [|apply fo_ret].
      destruct (e_inflate E CGzip (bw_acc bw ++ data) (bw_left bw - lenN_ data =? 0)) as [after|]; [|apply fo_ret].
      destruct (skipn (length before) after) as [|x fresh].
      + apply fo_ret.
      + fo_bind_tac fo_do_write. intros ok. destruct ok; apply fo_ret.
  Qed.

  Lemma fo_complete o : FrameOf (complete o).
  Proof.
    change (FrameOf (fun c => complete o c)). unfold complete. destruct (r_writer o) as [[w ws]|]; [|apply fo_ret].
    eexists _, [EvComplete w]. intros c. eexists. split; reflexivity.
  Qed.
  Lemma fo_error o i : FrameOf (error o i).
  Proof.
    change (FrameOf (fun c => error o i c)). unfold error. destruct (r_writer o) as [[w ws]|]; [|apply fo_ret].
    eexists _, [if i then EvInterrupted w else EvError w]. intros c. eexists. split; reflexivity.
  Qed.

  Lemma fo_write_blocks : forall fuel sbn o, FrameOf (write_blocks E fuel sbn o).
  Proof.
    induction fuel as [|f IH]; intros sbn o;
      [change (FrameOf (fun c => write_blocks E O sbn o c))|change (FrameOf (fun c => write_blocks E (S f) sbn o c))];
      cbn [write_blocks]; [apply fo_ret|].
    destruct (r_writer o) as [[w ws]|]; [|apply fo_ret].
    destruct ws; try apply fo_ret.
    destruct (r_bw o) as [bw|]; [|apply fo_ret].
    destruct ((r_off o <=? sbn) && (sbn - r_off o <? N.of_nat (length (r_blocks o)))); [|apply fo_ret].
    cbv zeta.
    destruct (negb (bd_completed (nth (N.to_nat (sbn - r_off o)) (r_blocks o) bdec_new))); [apply fo_ret|].
    fo_bind_tac fo_bw_write. intros r. destruct r as [|bw'| |]; try apply fo_ret; [|apply fo_ret_panic].
    destruct (Nat.eqb (N.to_nat (sbn - r_off o)) 0); cbv beta iota zeta.
    - destruct (bw_left bw' =? 0); [|apply IH].
      match goal with |- context [if ?v then _ else _] => destruct v end.
      + fo_bind_tac fo_complete. intros o2. apply fo_ret.
      + fo_bind_tac fo_error. intros o2. apply fo_ret.
    - destruct (bw_left bw' =? 0); [|apply IH].
      match goal with |- context [if ?v then _ else _] => destruct v end.
      + fo_bind_tac fo_complete. intros o2. apply fo_ret.
      + fo_bind_tac fo_error. intros o2. apply fo_ret.
  Qed.

  Lemma fo_push_to_block2 p o : FrameOf (push_to_block2 E p o).
  Proof.
    change (FrameOf (fun c => push_to_block2 E p o c)). unfold push_to_block2.
    destruct (r_oti o) as [oti|]; [|apply fo_ret_panic].
    destruct (r_tlen o) as [tlen|]; [|apply fo_ret_panic].
    destruct (a_pid_with (ro_fec oti) p) as [[[sbn esi] sbl]|]; [|apply fo_ret].
    destruct (tlen =? 0).
    { destruct (r_writer o); [|apply fo_ret]. fo_bind_tac fo_complete. intros o1. apply fo_ret. }
    destruct (sbn <? r_off o); [apply fo_ret|].
    destruct (match sbl with None => nb_blocks_of oti tlen <=? sbn | Some _ => false end); [apply fo_ret|].
    destruct ((N.of_nat (length (r_blocks o)) <=? sbn - r_off o) && (4096 <? sbn - r_off o)); [apply fo_ret|].
    cbv zeta.
    match goal with |- context [bd_completed ?b] => destruct (bd_completed b) end; [apply fo_ret|].
    match goal with |- context [match ?x with None => _ | Some _ => _ end] =>
      destruct x as [[[[b1 nb] sz]|]|] end; [|apply fo_ret|apply fo_ret_panic].
    destruct (bd_push E (r_toi o) oti sbn esi (a_payload p) b1) as [b2 pan].
    destruct (bd_completed b2).
    - destruct pan.
      + refine (fo_pre panicc (write_blocks E _ _ _) _ (fo_write_blocks _ _ _)). reflexivity.
      + apply fo_write_blocks.
    - destruct pan; [apply fo_ret_panic|apply fo_ret].
  Qed.

  Lemma fo_push_to_block p o : FrameOf (push_to_block E p o).
  Proof.
    change (FrameOf (fun c => push_to_block E p o c)). unfold push_to_block.
    fo_bind_tac fo_push_to_block2. intros r. destruct r as [o1|o1]; [|apply fo_ret].
    destruct (a_close_obj p); [|apply fo_ret].
    destruct (r_state o1); try apply fo_ret.
    destruct (r_writer o1); [|apply fo_ret].
    fo_bind_tac fo_error. intros o2. apply fo_ret.
  Qed.
End CtxFrame.

(* ================= 2. the FDT receiver: an instance carried by several packets ================= *)
Lemma forallb_app_true {A} (g : A -> bool) a b : forallb g (a ++ b) = true -> forallb g a = true /\ forallb g b = true.
Proof. rewrite forallb_app. intros H. apply andb_true_iff in H. exact H. Qed.

Section FdtInner.
  Variable E : env.
  Variable parse_fdt : list N -> option fdtinst.
  Variable cfg : rconfig.
  Variables (id : N) (foti : roti) (d : list N) (inst : fdtinst) (now : Z).
  Variables al as_ nal n : N.
  Hypothesis Hfec : ro_fec foti = FNoCode.
  Hypothesis He : 0 < ro_e foti.
  Hypothesis Hb : 0 < ro_b foti.
  Hypothesis HL : 0 < lenN_ d.
  Hypothesis Hu64 : lenN_ d + ro_e foti < U64.
  Hypothesis Hpart : block_partitioning (ro_b foti) (lenN_ d) (ro_e foti) = (al, as_, nal, n).
  Hypothesis Hmax : lenN_ d <= 1048576.
  Hypothesis Hn : n <= 4097.
  Hypothesis Hparse : parse_fdt d = Some inst.

  Notation EF := (E_fdt E).
  Notation w0 := (0, 0%nat).
  Notation StructF := (C02Full.Struct foti d w0 0 None 1048576 al as_ nal n).
  Notation genF := (C02Full.genuine foti d al as_ nal n).
  Notation covF := (C02Full.covered al as_ nal n).
  Notation bofF := (boff (ro_e foti) (lenN_ d) al as_ nal).
  Notation LiveAll := C02Full.LiveAll.

  Lemma EF_wc : forall w i j, e_write_ok EF w i = e_write_ok EF w j.
  Proof. reflexivity. Qed.

  Lemma niceF : C02Full.Nice2 EF d w0 None 1048576 n.
  Proof. split; [split; [intros i; reflexivity|exact I]|]. split; assumption. Qed.

  (* what one genuine packet does to the inner object, whatever the context: the new object and the events *)
  Definition Outcome (o : objrecv) (seen : list (N * N)) (p : apkt) (o' : objrecv) (dl : list wev) : Prop :=
    (exists cg', StructF o' cg' /\ LiveAll (pid_of p :: seen) o' /\ forallb (is_write w0) dl = true
                 /\ take (bofF (r_off o)) d ++ wdata dl = take (bofF (r_off o')) d)
    \/ (r_state o' = Completed /\ exists dl0, dl = dl0 ++ [EvComplete w0] /\ forallb (is_write w0) dl0 = true
                                              /\ take (bofF (r_off o)) d ++ wdata dl0 = d)
    \/ ((r_state o' = Errored \/ r_state o' = Interrupted) /\ ~ (a_close_obj p = true -> covF (pid_of p :: seen))).

  Lemma inner_step o cg seen p : StructF o cg -> LiveAll seen o -> genF p ->
    exists o' dl, (forall c, exists c', or_push EF p o c = (o', c') /\ c_log c' = c_log c ++ dl) /\ Outcome o seen p o' dl.
  Proof.
    intros S0 Lv Gp. pose proof S0 as (St & Dy & _).
    assert (FO : FrameOf (or_push EF p o)).
    { apply (fo_ext (fun c => let (r, c5) := push_to_block EF p o c in
                              match r with ROk o5 => (o5, c5) | RErr o5 => error o5 false c5 end)).
      - intros c. symmetry. apply (C02Full.or_push_static EF foti d w0 None 1048576 al as_ nal He Hb HL Hu64 o c p St).
        unfold nb_block. exact (C02Full.dy_nb _ _ _ _ _ _ _ _ _ _ Dy).
      - fo_bind_tac (fo_push_to_block EF EF_wc). intros r. destruct r as [o5|o5]; [apply fo_ret|apply fo_error]. }
    destruct FO as (o' & dl & HF). exists o', dl. split; [exact HF|].
    destruct (HF cg) as (cg' & Eq & Lg).
    pose proof (C02Full.step EF foti d w0 0 None 1048576 al as_ nal n Hfec He Hb HL Hu64 Hpart o cg p _ _ S0 Gp) as H.
    rewrite Eq in H. cbn [C02Full.StepOut] in H.
    destruct (C02Full.dy_log _ _ _ _ _ _ _ _ _ _ Dy) as (evs & L0 & W0 & D0).
    assert (LvP : forall o2, C02Full.Mono o o2 -> C02Full.LiveOne (fst (pid_of p)) (snd (pid_of p)) o2 ->
                             LiveAll (pid_of p :: seen) o2).
    { intros o2 M2 L2 s i [Eq2|Hin]; [rewrite Eq2 in L2; exact L2|apply M2, Lv, Hin]. }
    destruct H as [(S1 & M1 & L1)|[(H1 & evs' & L1' & W1 & D1)|(Hbad & _ & Hnn)]].
    - left. exists cg'. split; [exact S1|]. split; [apply LvP; assumption|].
      destruct S1 as (_ & Dy1 & _). destruct (C02Full.dy_log _ _ _ _ _ _ _ _ _ _ Dy1) as (evs' & L1' & W1 & D1).
      rewrite L1', L0, <- app_assoc in Lg. apply app_inv_head in Lg. subst evs'.
      apply forallb_app_true in W1. destruct W1 as [_ W1]. split; [exact W1|].
      rewrite wdata_app, D0 in D1. exact D1.
    - right; left. split; [exact H1|].
      rewrite L1', L0, <- app_assoc in Lg. apply app_inv_head in Lg.
      destruct (exists_last (l := dl)) as (dl0 & x & ->).
      { intros ->. rewrite app_nil_r in Lg. subst evs. apply forallb_app_true in W0. destruct W0 as [_ W0].
        cbn [forallb is_write] in W0. discriminate. }
      rewrite app_assoc in Lg. apply app_inj_tail in Lg. destruct Lg as [Lg <-]. subst evs'.
      exists dl0. split; [reflexivity|]. apply forallb_app_true in W1. destruct W1 as [_ W1]. split; [exact W1|].
      rewrite wdata_app, D0 in D1. exact D1.
    - right; right. split; [exact Hbad|]. intros Cl. apply Hnn. split; [exact niceF|]. intros Hcl o2 c2 S2 M2 L2.
      apply (C02Full.struct_not_covered foti d w0 0 None 1048576 al as_ nal n He Hb HL Hu64 Hpart o2 c2 (pid_of p :: seen) S2 (LvP o2 M2 L2)).
      exact (Cl Hcl).
  Qed.

  (* ---------- fr_push ---------- *)
  Definition sct_or_now (p : apkt) : Z := match a_sct p with Some t => t | None => now end.
  (* not expired at sender time t *)
  Definition live_at (t : Z) : Prop :=
    cf_exp_check cfg = false \/ exists ex, fi_expires inst = Some ex /\ (ex <? t)%Z = false.
  Definition off_time (off : option (Z * bool)) : Z :=
    match off with Some (x, true) => (now - x)%Z | Some (x, false) => (now + x)%Z | None => now end.
  Definition new_off (p : apkt) (old : option (Z * bool)) : option (Z * bool) :=
    match a_sct p with
    | Some t => if (t <? now)%Z then Some ((now - t)%Z, true) else Some ((t - now)%Z, false)
    | None => old
    end.

  Lemma new_off_live p old : live_at (sct_or_now p) -> (a_sct p = None -> live_at (off_time old)) ->
    live_at (off_time (new_off p old)).
  Proof.
    unfold sct_or_now, new_off. destruct (a_sct p) as [t|]; intros H1 H2; [|apply H2; reflexivity].
    destruct (t <? now)%Z; cbn [off_time].
    - replace (now - (now - t))%Z with t by lia. exact H1.
    - replace (now + (t - now))%Z with t by lia. exact H1.
  Qed.

  (* a packet of the instance: TOI 0, EXT_FDT = id, EXT_FTI = (foti, |d|), no content encoding, genuine for (foti, d),
     and its EXT_TIME (or the receiver's clock) is not behind the instance's Expires when the receiver checks it *)
  Definition FdtPkt (p : apkt) : Prop :=
    a_toi p = 0 /\ a_fdt_id p = Some id /\ a_oti p = Some (foti, lenN_ d)
    /\ (a_cenc p = None \/ a_cenc p = Some CNull) /\ genF p /\ live_at (sct_or_now p).

  Definition fdt_done_f (off : option (Z * bool)) : fdtrecv :=
    mk_fr id None d FComplete (Some inst) off (cf_exp_check cfg).

  Lemma done_good off : live_at (off_time off) -> fr_update_expired (fdt_done_f off) now = fdt_done_f off.
  Proof.
    intros Hl. unfold fr_update_expired, fr_is_expired, server_time, fdt_done_f. cbn [fr_state fr_check fr_inst fr_offset].
    destruct Hl as [->|(ex & Hex & Hlt)]; [reflexivity|]. unfold off_time in Hlt. rewrite Hex, Hlt, andb_false_r. reflexivity.
  Qed.

  (* the instance being received: the inner object is in the receiving state of C02Full, the symbols [seen] are
     accounted for, and fr_data is what its writer has been given *)
  Record FIn (seen : list (N * N)) (f : fdtrecv) : Prop := {
    fi_id : fr_id f = id;
    fi_st : fr_state f = FReceiving;
    fi_chk : fr_check f = cf_exp_check cfg;
    fi_live : live_at (off_time (fr_offset f));
    fi_obj : exists o cg, fr_obj f = Some o /\ StructF o cg /\ LiveAll seen o /\ fr_data f = take (bofF (r_off o)) d
  }.

  Definition PushRes (f0 : fdtrecv) (seen : list (N * N)) (p : apkt) (f2 : fdtrecv) : Prop :=
    (exists o' cg', f2 = mk_fr (fr_id f0) (Some o') (take (bofF (r_off o')) d) FReceiving (fr_inst f0) (fr_offset f0) (fr_check f0)
                    /\ StructF o' cg' /\ LiveAll (pid_of p :: seen) o')
    \/ f2 = mk_fr (fr_id f0) None d FComplete (Some inst) (fr_offset f0) (fr_check f0)
    \/ (fr_state f2 = FError /\ ~ (a_close_obj p = true -> covF (pid_of p :: seen))).

  Lemma finish f0 o seen p o' dl : Outcome o seen p o' dl -> fr_state f0 = FReceiving ->
    fr_data f0 = take (bofF (r_off o)) d ->
    let f1 := apply_fdt_log parse_fdt dl f0 in
    PushRes f0 seen p
      (match r_state o' with
       | Receiving => mk_fr (fr_id f1) (Some o') (fr_data f1) (fr_state f1) (fr_inst f1) (fr_offset f1) (fr_check f1)
       | Completed => mk_fr (fr_id f1) None (fr_data f1) (fr_state f1) (fr_inst f1) (fr_offset f1) (fr_check f1)
       | _ => mk_fr (fr_id f1) (Some o') (fr_data f1) FError (fr_inst f1) (fr_offset f1) (fr_check f1)
       end).
  Proof.
    intros Out Hst Hdat. cbv zeta.
    destruct Out as [(cg' & S1 & L1 & W1 & D1)|[(H1 & dl0 & -> & W1 & D1)|(Hbad & Hnc)]].
    - pose proof S1 as (St1 & _). rewrite (C02Full.st_state _ _ _ _ _ _ _ _ _ St1).
      rewrite (apply_log_writes parse_fdt w0 dl W1). cbn [fr_id fr_obj fr_data fr_state fr_inst fr_offset fr_check].
      left. exists o', cg'. split; [|split; assumption]. rewrite Hst, Hdat, D1. reflexivity.
    - rewrite H1. rewrite apply_log_app, (apply_log_writes parse_fdt w0 dl0 W1).
      cbn [apply_fdt_log fr_id fr_obj fr_data fr_state fr_inst fr_offset fr_check]. rewrite Hdat, D1, Hparse.
      cbn [fr_id fr_obj fr_data fr_state fr_inst fr_offset fr_check]. right; left. reflexivity.
    - right; right. split; [|exact Hnc]. destruct Hbad as [-> | ->]; reflexivity.
  Qed.

  (* one more packet of the instance *)
  Lemma fr_push_in seen f p : FIn seen f -> FdtPkt p ->
    exists f' pan, fr_push E parse_fdt p now f = (f', pan)
      /\ (FIn (pid_of p :: seen) f'
          \/ (f' = fdt_done_f (new_off p (fr_offset f)) /\ live_at (off_time (new_off p (fr_offset f))))
          \/ (fr_state f' = FError /\ ~ (a_close_obj p = true -> covF (pid_of p :: seen)))).
  Proof.
    intros [I1 I2 I3 I4 (o & cg & I5 & S0 & Lv & Hdat)] (Htoi & Hfid & Hoti & Hce & Gp & Hlp).
    destruct (inner_step o cg seen p S0 Lv Gp) as (o' & dl & HF & Out).
    destruct (HF ctx0) as (c1 & Eq & Lg). cbn [c_log ctx0 app] in Lg.
    unfold fr_push. cbn [fr_id fr_obj fr_data fr_state fr_inst fr_offset fr_check]. rewrite I5, Eq, Lg.
    fold (new_off p (fr_offset f)).
    set (f0 := mk_fr (fr_id f) (Some o) (fr_data f) (fr_state f) (fr_inst f) (new_off p (fr_offset f)) (fr_check f)).
    pose proof (finish f0 o seen p o' dl Out I2 Hdat) as R. cbv zeta in R.
    assert (Hlive : live_at (off_time (new_off p (fr_offset f)))) by (apply new_off_live; [exact Hlp|intros _; exact I4]).
    eexists _, _. split; [reflexivity|].
    destruct R as [(o2 & cg2 & -> & S2 & L2)|[-> |(R1 & R2)]].
    - left. constructor; cbn [f0 fr_id fr_obj fr_data fr_state fr_inst fr_offset fr_check]; try assumption; try reflexivity.
      exists o2, cg2. split; [reflexivity|split; [exact S2|split; [exact L2|reflexivity]]].
    - right; left. split; [|exact Hlive]. unfold fdt_done_f. cbn [f0 fr_id fr_offset fr_check]. rewrite I1, I3. reflexivity.
    - right; right. split; assumption.
  Qed.

  (* the first packet of the instance on a fresh FDT receiver *)
  Lemma fr_push_new p : FdtPkt p ->
    exists f' pan, fr_push E parse_fdt p now (fr_new cfg id) = (f', pan)
      /\ (FIn [pid_of p] f'
          \/ (f' = fdt_done_f (new_off p None) /\ live_at (off_time (new_off p None)))
          \/ (fr_state f' = FError /\ ~ (a_close_obj p = true -> covF [pid_of p]))).
  Proof.
    intros (Htoi & Hfid & Hoti & Hce & Gp & Hlp).
    destruct (inband_first EF foti d 1048576 al as_ nal n He Hb HL Hu64 Hpart p id Htoi Hfid Hoti Hce eq_refl eq_refl)
      as (o3 & c3 & S3 & Eq0).
    destruct (inner_step o3 c3 [] p S3 (fun s i H => match H with end) Gp) as (o' & dl & HF & Out).
    destruct (HF c3) as (c1 & Eq & Lg).
    pose proof S3 as (_ & Dy3 & _). destruct (C02Full.dy_log _ _ _ _ _ _ _ _ _ _ Dy3) as (evs3 & L3 & W3 & D3).
    unfold fr_push, fr_new. cbn [fr_id fr_obj fr_data fr_state fr_inst fr_offset fr_check]. rewrite Eq0, Eq, Lg, L3.
    fold (new_off p None).
    set (f0 := mk_fr id (Some (or_new 0 1048576)) [] FReceiving None (new_off p None) (cf_exp_check cfg)).
    unfold C02Full.hdr. cbn [app apply_fdt_log]. rewrite apply_log_app, (apply_log_writes parse_fdt w0 evs3 W3).
    cbn [f0 fr_id fr_obj fr_data fr_state fr_inst fr_offset fr_check app]. rewrite D3.
    set (f0' := mk_fr id (Some (or_new 0 1048576)) (take (bofF (r_off o3)) d) FReceiving None (new_off p None) (cf_exp_check cfg)).
    pose proof (finish f0' o3 [] p o' dl Out eq_refl eq_refl) as R. cbv zeta in R.
    assert (Hlive : live_at (off_time (new_off p None))).
    { apply new_off_live; [exact Hlp|]. intros Hs. unfold sct_or_now in Hlp. rewrite Hs in Hlp. exact Hlp. }
    eexists _, _. split; [reflexivity|].
    destruct R as [(o2 & cg2 & -> & S2 & L2)|[-> |(R1 & R2)]].
    - left. constructor; cbn [f0' fr_id fr_obj fr_data fr_state fr_inst fr_offset fr_check]; try assumption; try reflexivity.
      exists o2, cg2. split; [reflexivity|split; [exact S2|split; [exact L2|reflexivity]]].
    - right; left. split; [reflexivity|exact Hlive].
    - right; right. split; assumption.
  Qed.
End FdtInner.

(* ================= 3. the receiver: any interleaving of FDT packets and object packets ================= *)
Lemma in_firstn {A} n : forall (l : list A) x, In x (firstn n l) -> In x l.
Proof.
  induction n as [|n IH]; intros l x H; [destruct H|]. destruct l as [|y l]; [destruct H|].
  cbn [firstn] in H. destruct H as [->|H]; [left; reflexivity|right; apply IH; exact H].
Qed.

Definition set_recvs (r : recv) (x : list (N * fdtrecv)) : recv :=
  mk_recv (rv_objects r) (rv_completed r) (rv_error r) x (rv_fdt_current r) (rv_closed r).
Definition with_closed (b : bool) (r : recv) : recv :=
  mk_recv (rv_objects r) (rv_completed r) (rv_error r) (rv_fdt_receivers r) (rv_fdt_current r) b.

Section MultiSess.
  Variable E : env.
  Variable parse_fdt : list N -> option fdtinst.
  Variable cfg : rconfig.
  Variable content : list N.
  Variable toi : N.
  Variable now : Z.
  Hypothesis Htoi : toi <> 0.
  Notation max := (cf_max_cache cfg).
  Notation w := (toi, 0%nat).
  Variables (id : N) (inst : fdtinst) (f : fdtfile).
  Hypothesis Hfind : find (fun f => ff_toi f =? toi) (fi_files inst) = Some f.

  (* ---- the object-level interface of Proofs/C02SessionRS.v (section SessIface), plus I_fdtid and I_pan ---- *)
  Variable SP : objrecv -> ctx -> Prop.
  Variable LV : list (N * N) -> objrecv -> Prop.
  Variable gen : apkt -> Prop.
  Variable pid : apkt -> N * N.
  Variable cov : list (N * N) -> Prop.
  Hypothesis I_state : forall o c, SP o c -> r_state o = Receiving.
  Hypothesis I_writer : forall o c, SP o c -> r_writer o = Some (w, WOpened).
  Hypothesis I_nc : forall o c p, SP o c -> r_nocache (fst (or_push E p o c)) = r_nocache o.
  Hypothesis I_step : forall o c seen p, SP o c -> LV seen o -> gen p ->
    (a_close_obj p = true -> cov (pid p :: seen)) ->
    let (o2, c2) := or_push E p o c in
    (SP o2 c2 /\ LV (pid p :: seen) o2) \/ (r_state o2 = Completed /\ ShapeDone content w toi c2).
  Hypothesis I_notcov : forall o c seen, SP o c -> LV seen o -> cov seen -> False.
  Hypothesis I_attach : forall fid c, Blank c ->
    exists o0 c0, or_attach E fid (fi_files inst) (fi_oti inst) (or_new toi max) c = (true, o0, c0)
                  /\ SP o0 c0 /\ LV [] o0 /\ r_nocache o0 = ff_nocache f.
  Hypothesis I_fdtid : forall o c, SP o c -> r_fdt_id o <> None.
  Hypothesis I_pan : forall o c, SP o c -> SP o (panicc c).
  Variable PS : objrecv -> Prop.
  Variable pktpre : apkt -> Prop.
  Hypothesis J_state : forall o, PS o -> r_state o = Receiving.
  Hypothesis J_toi : forall p, pktpre p -> a_toi p = toi.
  Hypothesis J_first : forall c p, pktpre p ->
    exists o1, or_push E p (or_new toi max) c = (o1, c) /\ PS o1 /\ LV [pid p] o1.
  Hypothesis J_push : forall o c seen p, PS o -> LV seen o -> pktpre p ->
    exists o1, or_push E p o c = (o1, c) /\ PS o1 /\ LV (pid p :: seen) o1.
  Hypothesis J_attach : forall fid o c seen, PS o -> LV seen o -> Blank c ->
    exists o' c', or_attach E fid (fi_files inst) (fi_oti inst) o c = (true, o', c')
      /\ r_nocache o' = ff_nocache f
      /\ ((SP o' c' /\ LV seen o') \/ (r_state o' = Completed /\ ShapeDone content w toi c')).

  (* ---- the FDT instance ---- *)
  Variables (foti : roti) (d : list N) (alF asF nalF nF : N).
  Hypothesis HfecF : ro_fec foti = FNoCode.
  Hypothesis HeF : 0 < ro_e foti.
  Hypothesis HbF : 0 < ro_b foti.
  Hypothesis HLF : 0 < lenN_ d.
  Hypothesis Hu64F : lenN_ d + ro_e foti < U64.
  Hypothesis HpartF : block_partitioning (ro_b foti) (lenN_ d) (ro_e foti) = (alF, asF, nalF, nF).
  Hypothesis HmaxF : lenN_ d <= 1048576.
  Hypothesis HnF : nF <= 4097.
  Hypothesis Hparse : parse_fdt d = Some inst.

  Notation FPk := (FdtPkt cfg id foti d inst now alF asF nalF nF).
  Notation FInv := (FIn cfg id foti d inst now alF asF nalF nF).
  Notation covF := (C02Full.covered alF asF nalF nF).
  Notation doneF := (fdt_done_f cfg id d inst).
  Notation liveAt := (live_at cfg inst).
  Notation push := (fun p => RvPush p now).
  Notation DoneC := (DoneCore content toi f).
  Notation SessD := (SessDone cfg content toi f).
  Notation GRecv := (GRecvCore toi f SP LV).

  (* the FDT side of the receiver state *)
  Definition GoodF (F : fdtrecv) : Prop :=
    fr_id F = id /\ fr_state F = FComplete /\ fr_inst F = Some inst /\ fr_update_expired F now = F.
  Definition GoodCur (l : list fdtrecv) : Prop := l <> [] /\ Forall GoodF l.
  Definition PreSt (seenF : list (N * N)) (r : recv) : Prop :=
    (rv_fdt_receivers r = [] /\ seenF = []) \/ (exists fr, rv_fdt_receivers r = [(id, fr)] /\ FInv seenF fr).
  Definition AnySt (r : recv) : Prop := exists seenF, PreSt seenF r.

  Lemma doneF_good off : liveAt (off_time now off) -> GoodF (doneF off).
  Proof. intros H. split; [reflexivity|]. split; [reflexivity|]. split; [reflexivity|]. apply done_good. exact H. Qed.

  Lemma goodcur_cons F l : GoodF F -> (l = [] \/ GoodCur l) -> GoodCur (firstn 10 (F :: l)).
  Proof.
    intros HF Hl. split; [cbn [firstn]; discriminate|].
    assert (A : Forall GoodF (F :: l)).
    { constructor; [exact HF|]. destruct Hl as [->|[_ Hl]]; [constructor|exact Hl]. }
    rewrite Forall_forall in *. intros x Hx. apply A. eapply in_firstn. exact Hx.
  Qed.

  Lemma not_covF_nil : covF [] -> False.
  Proof.
    intros C. pose proof (n_pos _ _ _ _ _ _ _ HbF HeF HLF HpartF) as Hn0.
    pose proof (k_pos _ _ _ _ _ _ _ HbF HeF HLF HpartF 0) as Hk. exact (C 0 0 Hn0 Hk).
  Qed.

  Lemma prest_not_cov seenF r : PreSt seenF r -> covF seenF -> False.
  Proof.
    intros [[_ ->]|(fr & _ & [_ _ _ _ (o & cg & _ & S0 & Lv & _)])] C; [exact (not_covF_nil C)|].
    exact (C02Full.struct_not_covered foti d (0, 0%nat) 0 None 1048576 alF asF nalF nF HeF HbF HLF Hu64F HpartF o cg seenF S0 Lv C).
  Qed.

  (* what happens when the instance completes: it becomes the current one, is attached to the objects, ... *)
  Definition fdt_completion (F2 : fdtrecv) (r : recv) (c0 : ctx) : pres * recv * ctx :=
    let r1 := mk_recv (rv_objects r) (rv_completed r) (rv_error r) [] (F2 :: rv_fdt_current r) (rv_closed r) in
    let '(r2, c2, attached) := attach_all E id inst (map fst (rv_objects r1)) r1 c0 [] in
    let (r3, c3) := check_all cfg attached r2 c2 in
    let comp := match fi_files inst with
                | [] => rv_completed r3
                | _ => filter (fun t => existsb (fun f => ff_toi f =? t) (fi_files inst)) (rv_completed r3)
                end in
    (POk, mk_recv (rv_objects r3) comp (rv_error r3) (rv_fdt_receivers r3) (firstn 10 (rv_fdt_current r3)) (rv_closed r3), c3).

  (* one packet of the instance, when it is not ignored *)
  Lemma pfo seenF r c p : FPk p -> PreSt seenF r ->
    cf_once cfg && existsb (fun f => fr_id f =? id) (rv_fdt_current r) = false ->
    exists c0, (c0 = c \/ c0 = panicc c) /\
      ((exists fr', push_fdt_obj E parse_fdt cfg p now r c = (POk, set_recvs r [(id, fr')], c0) /\ FInv (pid_of p :: seenF) fr')
       \/ (push_fdt_obj E parse_fdt cfg p now r c = (PErr, set_recvs r [], c0)
           /\ ~ (a_close_obj p = true -> covF (pid_of p :: seenF)))
       \/ (exists off, liveAt (off_time now off)
                       /\ push_fdt_obj E parse_fdt cfg p now r c = fdt_completion (doneF off) r c0)).
  Proof.
    intros Hp Hst Honce. pose proof Hp as (_ & Hfid & _).
    unfold push_fdt_obj. rewrite Hfid, Honce. cbv zeta.
    destruct Hst as [[Hrcv ->]|(fr & Hrcv & Hin)]; rewrite Hrcv.
    - cbn [find existsb filter app]. cbn [fr_new fr_state].
      destruct (fr_push_new E parse_fdt cfg id foti d inst now alF asF nalF nF HfecF HeF HbF HLF Hu64F HpartF HmaxF HnF Hparse p Hp)
        as (f' & pan & Eq & Res).
      rewrite Eq. exists (if pan then panicc c else c). split; [destruct pan; [right|left]; reflexivity|].
      destruct Res as [Hin'|[(-> & Hl)|(Her & Hnc)]].
      + left. exists f'. rewrite (fi_st _ _ _ _ _ _ _ _ _ _ _ _ Hin'). cbv iota. rewrite (fi_st _ _ _ _ _ _ _ _ _ _ _ _ Hin'). cbv iota.
        split; [reflexivity|exact Hin'].
      + right; right. exists (new_off now p None). split; [exact Hl|].
        cbn [fr_state fdt_done_f]. fold (doneF (new_off now p None)). rewrite (done_good _ _ _ _ _ _ Hl).
        cbn [fr_state fr_inst fdt_done_f]. reflexivity.
      + right; left. rewrite Her. cbv iota. rewrite Her. cbv iota. split; [reflexivity|exact Hnc].
    - cbn [find existsb filter map fst snd]. rewrite N.eqb_refl. cbn [snd orb negb].
      rewrite (fi_st _ _ _ _ _ _ _ _ _ _ _ _ Hin). cbv iota.
      destruct (fr_push_in E parse_fdt cfg id foti d inst now alF asF nalF nF HfecF HeF HbF HLF Hu64F HpartF HmaxF HnF Hparse seenF fr p Hin Hp)
        as (f' & pan & Eq & Res).
      rewrite Eq. exists (if pan then panicc c else c). split; [destruct pan; [right|left]; reflexivity|].
      destruct Res as [Hin'|[(-> & Hl)|(Her & Hnc)]].
      + left. exists f'. rewrite (fi_st _ _ _ _ _ _ _ _ _ _ _ _ Hin'). cbv iota. rewrite (fi_st _ _ _ _ _ _ _ _ _ _ _ _ Hin'). cbv iota.
        split; [reflexivity|exact Hin'].
      + right; right. exists (new_off now p (fr_offset fr)). split; [exact Hl|].
        cbn [fr_state fdt_done_f]. fold (doneF (new_off now p (fr_offset fr))). rewrite (done_good _ _ _ _ _ _ Hl).
        cbn [fr_state fr_inst fdt_done_f]. reflexivity.
      + right; left. rewrite Her. cbv iota. rewrite Her. cbv iota. split; [reflexivity|exact Hnc].
  Qed.

  (* ---------- the completion of the instance in the three states of the object ---------- *)
  Lemma compl_none F2 r c0 : rv_objects r = [] -> rv_completed r = [] ->
    fdt_completion F2 r c0 = (POk, mk_recv [] [] (rv_error r) [] (firstn 10 (F2 :: rv_fdt_current r)) (rv_closed r), c0).
  Proof.
    intros Ho Hc. unfold fdt_completion. cbn [rv_objects]. rewrite Ho. cbn [map attach_all check_all].
    cbn [rv_objects rv_completed rv_error rv_fdt_receivers rv_fdt_current rv_closed]. rewrite Hc.
    destruct (fi_files inst); reflexivity.
  Qed.

  Lemma compl_attached F2 r c0 o : rv_objects r = [(toi, o)] -> rv_completed r = [] -> r_fdt_id o <> None ->
    fdt_completion F2 r c0
    = (POk, mk_recv [(toi, o)] [] (rv_error r) [] (firstn 10 (F2 :: rv_fdt_current r)) (rv_closed r), c0).
  Proof.
    intros Ho Hc Hfid. unfold fdt_completion. cbn [rv_objects]. rewrite Ho. cbn [map fst attach_all].
    unfold get_obj. cbn [rv_objects find fst]. rewrite N.eqb_refl. cbn [snd].
    unfold or_attach. destruct (r_fdt_id o) as [x|]; [|contradiction]. cbn [attach_all].
    unfold put_obj. cbn [existsb fst map]. rewrite N.eqb_refl. cbn [orb check_all].
    cbn [set_objects rv_objects rv_completed rv_error rv_fdt_receivers rv_fdt_current rv_closed]. rewrite Hc.
    destruct (fi_files inst); reflexivity.
  Qed.

  Lemma find_existsb' (files : list fdtfile) g : find (fun x => ff_toi x =? toi) files = Some g ->
    existsb (fun x => ff_toi x =? toi) files = true.
  Proof. intros H. apply find_some in H. apply existsb_exists. exists g. exact H. Qed.

  Lemma compl_pre F2 r c0 o seen : rv_objects r = [(toi, o)] -> rv_completed r = [] -> rv_error r = [] ->
    PS o -> LV seen o -> Blank c0 -> RI r c0 ->
    let '(x, r', c') := fdt_completion F2 r c0 in
    (GRecv seen r' c' \/ DoneC r' c')
    /\ rv_fdt_receivers r' = [] /\ rv_fdt_current r' = firstn 10 (F2 :: rv_fdt_current r).
  Proof.
    intros Hobjs Hcomp Herr PS0 Lv Bl0 R0.
    destruct (J_attach id o c0 seen PS0 Lv Bl0) as (o' & c' & Hat & Hnc & Hcase).
    assert (HP' : C09Full.Pre o' c').
    { assert (HP : C09Full.Pre o c0) by (eapply RInv_pre; [exact R0|rewrite Hobjs; left; reflexivity]).
      pose proof (or_attach_ext E id (fi_files inst) (fi_oti inst) o c0 HP) as X. rewrite Hat in X. exact (e_pre _ _ _ _ X). }
    assert (Hex : existsb (fun x => ff_toi x =? toi) (fi_files inst) = true) by (apply (find_existsb' _ f); exact Hfind).
    set (r2 := mk_recv [(toi, o')] (rv_completed r) (rv_error r) [] (F2 :: rv_fdt_current r) (rv_closed r)).
    assert (Eq2 : fdt_completion F2 r c0 =
                  (let (r3, c3) := check_state cfg toi r2 c' in
                   let comp := match fi_files inst with
                               | [] => rv_completed r3
                               | _ => filter (fun t => existsb (fun f => ff_toi f =? t) (fi_files inst)) (rv_completed r3)
                               end in
                   (POk, mk_recv (rv_objects r3) comp (rv_error r3) (rv_fdt_receivers r3) (firstn 10 (rv_fdt_current r3)) (rv_closed r3), c3))).
    { unfold fdt_completion. cbn [rv_objects]. rewrite Hobjs. cbn [map fst attach_all].
      unfold get_obj. cbn [rv_objects find fst]. rewrite N.eqb_refl. cbn [snd]. rewrite Hat.
      cbn [attach_all app check_all]. unfold put_obj. cbn [set_objects rv_objects rv_completed rv_error rv_fdt_receivers rv_fdt_current rv_closed existsb fst map].
      rewrite N.eqb_refl. cbn [orb].
      unfold set_objects. cbn [rv_objects rv_completed rv_error rv_fdt_receivers rv_fdt_current rv_closed]. fold r2.
      destruct (check_state cfg toi r2 c') as [r3 c3]. reflexivity. }
    rewrite Eq2. clear Eq2.
    destruct Hcase as [[S' Lv']|[H1 H2]].
    - assert (Ecs : check_state cfg toi r2 c' = (r2, c')).
      { unfold check_state, get_obj. cbn [r2 rv_objects find fst]. rewrite N.eqb_refl. cbn [snd].
        rewrite (I_state _ _ S'). reflexivity. }
      rewrite Ecs. cbv zeta.
      cbn [r2 rv_objects rv_completed rv_error rv_fdt_receivers rv_fdt_current rv_closed].
      split; [|split; reflexivity]. left. exists o'. cbn [rv_objects rv_completed rv_error].
      split; [reflexivity|]. split; [rewrite Hcomp; destruct (fi_files inst); reflexivity|]. split; [exact Herr|].
      split; [exact S'|]. split; [exact Lv'|exact Hnc].
    - destruct (check_state_done cfg content toi r2 c' o' eq_refl Hcomp H1 HP' H2) as [Eqc Ha]. rewrite Eqc. cbv zeta.
      cbn [r2 rv_objects rv_completed rv_error rv_fdt_receivers rv_fdt_current rv_closed].
      split; [|split; reflexivity]. right. unfold DoneCore. cbn [rv_objects rv_completed rv_error].
      split; [reflexivity|]. split; [|split; [exact Herr|split; [exact H2|exact Ha]]].
      rewrite Hnc. destruct (fi_files inst) as [|f0 fl] eqn:Ef; [discriminate Hfind|].
      destruct (ff_nocache f); [reflexivity|]. cbn [filter]. rewrite Hex. reflexivity.
  Qed.

  (* ---------- push_obj leaves the FDT side alone ---------- *)
  Definition fside (r : recv) : list (N * fdtrecv) * list fdtrecv := (rv_fdt_receivers r, rv_fdt_current r).

  Lemma remove_obj_fside k r c : fside (fst (remove_obj k r c)) = fside r.
  Proof. unfold remove_obj. destruct (get_obj r k); reflexivity. Qed.

  Lemma gc_error_fside : forall fuel r c, fside (fst (gc_error cfg fuel r c)) = fside r.
  Proof.
    induction fuel as [|n IH]; intros r c; cbn [gc_error]; [reflexivity|].
    destruct (cf_max_err cfg <? N.of_nat (length (rv_error r))); [|reflexivity].
    destruct (rv_error r) as [|t rest]; [reflexivity|].
    match goal with |- context [remove_obj t ?r1 c] =>
      pose proof (remove_obj_fside t r1 c) as K; destruct (remove_obj t r1 c) as [r2 c2] end.
    rewrite IH. exact K.
  Qed.

  Lemma check_state_fside t r c : fside (fst (check_state cfg t r c)) = fside r.
  Proof.
    unfold check_state. destruct (get_obj r t) as [o|]; [|reflexivity].
    destruct (r_state o); [reflexivity| | |].
    - rewrite remove_obj_fside. reflexivity.
    - match goal with |- context [gc_error cfg ?n ?r1 c] =>
        pose proof (gc_error_fside n r1 c) as K; destruct (gc_error cfg n r1 c) as [r2 c2] end.
      rewrite remove_obj_fside. exact K.
    - match goal with |- context [gc_error cfg ?n ?r1 c] =>
        pose proof (gc_error_fside n r1 c) as K; destruct (gc_error cfg n r1 c) as [r2 c2] end.
      rewrite remove_obj_fside. exact K.
  Qed.

  Lemma create_attach_good : forall cur o c, Forall GoodF cur -> fst (fst (create_attach E cur now o c)) = cur.
  Proof.
    induction cur as [|F rest IH]; intros o c G; cbn [create_attach]; [reflexivity|].
    pose proof (Forall_inv G) as (_ & G2 & G3 & G4). pose proof (Forall_inv_tail G) as Gr.
    rewrite G4, G2, G3.
    destruct (or_attach E (fr_id F) (fi_files inst) (fi_oti inst) o c) as [[ok o1] c1].
    destruct ok; [reflexivity|].
    specialize (IH o1 c1 Gr). destruct (create_attach E rest now o1 c1) as [[rest' o2] c2]. cbn [fst] in *. rewrite IH. reflexivity.
  Qed.

  Lemma push_tail_fside p r2 c : Forall GoodF (rv_fdt_current r2) ->
    fside (snd (fst (push_tail E cfg p now r2 c))) = fside r2.
  Proof.
    intros G. unfold push_tail. cbv zeta.
    destruct (get_obj r2 (a_toi p)) as [o|].
    - destruct (or_push E p o c) as [o2 c4].
      match goal with |- context [check_state cfg ?t ?r4 c4] =>
        pose proof (check_state_fside t r4 c4) as K; destruct (check_state cfg t r4 c4) as [r5 c5] end.
      exact K.
    - pose proof (create_attach_good (rv_fdt_current r2) (or_new (a_toi p) max) c G) as CA.
      destruct (create_attach E (rv_fdt_current r2) now (or_new (a_toi p) max) c) as [[cur o1] c1]. cbn [fst] in CA. subst cur.
      destruct (or_push E p o1 c1) as [o2 c4].
      match goal with |- context [check_state cfg ?t ?r4 c4] =>
        pose proof (check_state_fside t r4 c4) as K; destruct (check_state cfg t r4 c4) as [r5 c5] end.
      exact K.
  Qed.

  Lemma push_obj_fside p r c : Forall GoodF (rv_fdt_current r) ->
    fside (snd (fst (push_obj E cfg p now r c))) = fside r.
  Proof.
    intros G. unfold push_obj. fold (push_tail E cfg p now). cbv zeta.
    destruct (existsb (N.eqb (a_toi p)) (rv_completed r)).
    - destruct (cf_once cfg); [reflexivity|].
      destruct (is_first_symbol p) as [[|]|]; try reflexivity.
      cbn [rv_error].
      destruct (existsb (N.eqb (a_toi p)) (rv_error r)).
      + match goal with |- context [get_obj ?r2 _] => apply (push_tail_fside p r2 c); exact G end.
      + match goal with |- context [get_obj ?r2 _] => apply (push_tail_fside p r2 c); exact G end.
    - destruct (existsb (N.eqb (a_toi p)) (rv_error r)).
      + destruct (is_first_symbol p) as [[|]|]; try reflexivity.
        match goal with |- context [get_obj ?r2 _] => apply (push_tail_fside p r2 c); exact G end.
      + apply (push_tail_fside p r c); exact G.
  Qed.

  (* ---------- the states of the session ---------- *)
  (* A: the instance is not complete (no packet of it yet, or being received); the object is absent or decoding without
        FDT entry (packets with EXT_FTI).  B: the instance is current, no packet of the object yet.
     C: the instance is current, the object is attached and receiving.  D: delivered.
     In B, C (and D) a late copy of the instance may be in reception again (cf_once = false). *)
  Inductive St : list (N * N) -> list (N * N) -> recv -> ctx -> Prop :=
  | StA sF sO r c :
      rv_fdt_current r = [] -> PreSt sF r -> Blank c -> RI r c -> rv_completed r = [] -> rv_error r = [] ->
      ((rv_objects r = [] /\ sO = []) \/ (exists o, rv_objects r = [(toi, o)] /\ PS o /\ LV sO o)) ->
      St sF sO r c
  | StB sF r c :
      GoodCur (rv_fdt_current r) -> AnySt r -> Blank c -> RI r c ->
      rv_objects r = [] -> rv_completed r = [] -> rv_error r = [] -> St sF [] r c
  | StC sF sO r c : GoodCur (rv_fdt_current r) -> AnySt r -> RI r c -> GRecv sO r c -> St sF sO r c
  | StD sF sO r c :
      SessD r c -> (cf_once cfg = true -> ff_nocache f = false -> GoodCur (rv_fdt_current r)) -> St sF sO r c.

  Lemma St_closed b sF sO r c : St sF sO r c -> St sF sO (with_closed b r) c.
  Proof.
    intros [sF' sO' r' c' H1 H2 H3 H4 H5 H6 H7|sF' r' c' H1 H2 H3 H4 H5 H6 H7|sF' sO' r' c' H1 H2 H3 H4|sF' sO' r' c' H1 H2].
    - apply StA; assumption.
    - apply StB; assumption.
    - apply StC; assumption.
    - apply StD; [|exact H2]. destruct H1 as (R & F & Dc & B). split; [exact R|]. split; [exact F|]. split; [exact Dc|].
      intros Ho Hn. exact (B Ho Hn).
  Qed.

  Lemma blank_c0 c c0 : Blank c -> c0 = c \/ c0 = panicc c -> Blank c0.
  Proof. intros B [->| ->]; exact B. Qed.
  Lemma ri_c0 r c c0 : RI r c -> c0 = c \/ c0 = panicc c -> RI r c0.
  Proof. intros R [->| ->]; [exact R|]. eapply RInv_ceq; [| |exact R]; reflexivity. Qed.
  Lemma sp_c0 o c c0 : SP o c -> c0 = c \/ c0 = panicc c -> SP o c0.
  Proof. intros S [->| ->]; [exact S|apply I_pan; exact S]. Qed.

  Lemma once_ignored r c p : FPk p -> cf_once cfg = true -> GoodCur (rv_fdt_current r) ->
    push_fdt_obj E parse_fdt cfg p now r c = (POk, r, c).
  Proof.
    intros (_ & Hfid & _) Ho [Hne G]. unfold push_fdt_obj. rewrite Hfid, Ho.
    destruct (rv_fdt_current r) as [|F rest]; [contradiction|]. pose proof (Forall_inv G) as (G1 & _).
    cbn [existsb]. rewrite G1, N.eqb_refl. reflexivity.
  Qed.

  Lemma anyst_set r x : (x = [] \/ exists fr sF, x = [(id, fr)] /\ FInv sF fr) -> AnySt (set_recvs r x).
  Proof.
    intros [->|(fr & sF & -> & H)]; [exists []; left; split; reflexivity|].
    exists sF. right. exists fr. split; [reflexivity|exact H].
  Qed.

  (* ---------- a packet of the instance ---------- *)
  Lemma fdt_step sF sO r c p : St sF sO r c -> FPk p -> (a_close_obj p = true -> covF (pid_of p :: sF)) ->
    let '(x, r', c') := push_fdt_obj E parse_fdt cfg p now r c in St (pid_of p :: sF) sO r' c'.
  Proof.
    intros HS Hp Hflag. pose proof Hp as (_ & Hfid & _).
    destruct HS as [sF sO r c Hcur Hpre Bl R Hcomp Herr Hobj|sF r c Hg Hany Bl R Hobjs Hcomp Herr|sF sO r c Hg Hany R HG|sF sO r c HD Hgc].
    - (* A *)
      assert (Honce : cf_once cfg && existsb (fun f => fr_id f =? id) (rv_fdt_current r) = false).
      { rewrite Hcur. cbn [existsb]. apply andb_false_r. }
      pose proof (push_fdt_obj_inv E parse_fdt cfg p now r c R) as R'.
      destruct (pfo sF r c p Hp Hpre Honce) as (c0 & Hc0 & [(fr' & Eq & Hin')|[(Eq & Hnc)|(off & Hl & Eq)]]).
      + rewrite Eq. apply StA; unfold set_recvs; cbn [rv_objects rv_completed rv_error rv_fdt_receivers rv_fdt_current rv_closed]; try assumption.
        * right. exists fr'. split; [reflexivity|exact Hin'].
        * exact (blank_c0 _ _ Bl Hc0).
        * exact (ri_c0 _ _ _ R Hc0).
      + exfalso. apply Hnc. exact Hflag.
      + rewrite Eq in *. pose proof (doneF_good off Hl) as HF.
        pose proof (blank_c0 _ _ Bl Hc0) as Bl0. pose proof (ri_c0 _ _ _ R Hc0) as R0.
        destruct Hobj as [[Hobjs ->]|(o & Hobjs & PS0 & Lv)].
        * rewrite (compl_none _ _ _ Hobjs Hcomp) in *. unfold RI3 in R'. cbn [fst snd rv_objects] in R'.
          apply StB; cbn [rv_objects rv_completed rv_error rv_fdt_receivers rv_fdt_current rv_closed]; try assumption; try reflexivity.
          -- apply goodcur_cons; [exact HF|left; exact Hcur].
          -- exists []. left. split; reflexivity.
        * pose proof (compl_pre (doneF off) r c0 o sO Hobjs Hcomp Herr PS0 Lv Bl0 R0) as K.
          destruct (fdt_completion (doneF off) r c0) as [[x r'] c']. unfold RI3 in R'. cbn [fst snd] in R'.
          destruct K as ([G|D] & K1 & K2).
          -- apply StC; [rewrite K2; apply goodcur_cons; [exact HF|left; exact Hcur]| |exact R'|exact G].
             exists []. left. split; [exact K1|reflexivity].
          -- apply StD; [exact (done_core_sess cfg content toi f r' c' D R')|].
             intros _ _. rewrite K2. apply goodcur_cons; [exact HF|left; exact Hcur].
    - (* B *)
      destruct (cf_once cfg) eqn:Ho.
      { rewrite (once_ignored r c p Hp Ho Hg). apply StB; assumption. }
      assert (Honce : cf_once cfg && existsb (fun f => fr_id f =? id) (rv_fdt_current r) = false) by (rewrite Ho; reflexivity).
      pose proof (push_fdt_obj_inv E parse_fdt cfg p now r c R) as R'.
      destruct Hany as (sF' & Hpre).
      destruct (pfo sF' r c p Hp Hpre Honce) as (c0 & Hc0 & [(fr' & Eq & Hin')|[(Eq & Hnc)|(off & Hl & Eq)]]).
      + rewrite Eq. apply StB; try (unfold set_recvs; cbn [rv_objects rv_completed rv_error rv_fdt_receivers rv_fdt_current rv_closed]; assumption).
        * apply anyst_set. right. exists fr', (pid_of p :: sF'). split; [reflexivity|exact Hin'].
        * exact (blank_c0 _ _ Bl Hc0).
        * exact (ri_c0 _ _ _ R Hc0).
      + rewrite Eq. apply StB; try (unfold set_recvs; cbn [rv_objects rv_completed rv_error rv_fdt_receivers rv_fdt_current rv_closed]; assumption).
        * apply anyst_set. left. reflexivity.
        * exact (blank_c0 _ _ Bl Hc0).
        * exact (ri_c0 _ _ _ R Hc0).
      + rewrite Eq in *. pose proof (doneF_good off Hl) as HF.
        rewrite (compl_none _ _ _ Hobjs Hcomp) in *. unfold RI3 in R'. cbn [fst snd rv_objects] in R'.
        apply StB; cbn [rv_objects rv_completed rv_error rv_fdt_receivers rv_fdt_current rv_closed]; try assumption; try reflexivity.
        * apply goodcur_cons; [exact HF|right; exact Hg].
        * exists []. left. split; reflexivity.
        * exact (blank_c0 _ _ Bl Hc0).
    - (* C *)
      destruct (cf_once cfg) eqn:Ho.
      { rewrite (once_ignored r c p Hp Ho Hg). apply StC; assumption. }
      assert (Honce : cf_once cfg && existsb (fun f => fr_id f =? id) (rv_fdt_current r) = false) by (rewrite Ho; reflexivity).
      pose proof (push_fdt_obj_inv E parse_fdt cfg p now r c R) as R'.
      destruct Hany as (sF' & Hpre). destruct HG as (o & Hobjs & Hcomp & Herr & HSP & Lv & Hnc').
      destruct (pfo sF' r c p Hp Hpre Honce) as (c0 & Hc0 & [(fr' & Eq & Hin')|[(Eq & Hnc)|(off & Hl & Eq)]]).
      + rewrite Eq. apply StC; [exact Hg| |exact (ri_c0 _ _ _ R Hc0)|].
        * apply anyst_set. right. exists fr', (pid_of p :: sF'). split; [reflexivity|exact Hin'].
        * exists o. unfold set_recvs. cbn [rv_objects rv_completed rv_error]. repeat (split; [assumption|]).
          split; [exact (sp_c0 _ _ _ HSP Hc0)|split; assumption].
      + rewrite Eq. apply StC; [exact Hg| |exact (ri_c0 _ _ _ R Hc0)|].
        * apply anyst_set. left. reflexivity.
        * exists o. unfold set_recvs. cbn [rv_objects rv_completed rv_error]. repeat (split; [assumption|]).
          split; [exact (sp_c0 _ _ _ HSP Hc0)|split; assumption].
      + rewrite Eq in *. pose proof (doneF_good off Hl) as HF.
        rewrite (compl_attached _ _ _ o Hobjs Hcomp (I_fdtid o c HSP)) in *. unfold RI3 in R'. cbn [fst snd rv_objects] in R'.
        apply StC; cbn [rv_objects rv_completed rv_error rv_fdt_receivers rv_fdt_current rv_closed].
        * apply goodcur_cons; [exact HF|right; exact Hg].
        * exists []. left. split; reflexivity.
        * exact R'.
        * exists o. cbn [rv_objects rv_completed rv_error]. split; [reflexivity|]. split; [reflexivity|]. split; [exact Herr|].
          split; [exact (sp_c0 _ _ _ HSP Hc0)|split; assumption].
    - (* D *)
      destruct HD as (R & F & Dc & B).
      assert (Eqb : cf_once cfg = true -> ff_nocache f = false -> push_fdt_obj E parse_fdt cfg p now r c = (POk, r, c)).
      { intros Ho Hn. exact (once_ignored r c p Hp Ho (Hgc Ho Hn)). }
      pose proof (push_fdt_obj_frame E parse_fdt cfg w p now r c R F) as (R1 & F1 & S1).
      destruct (push_fdt_obj E parse_fdt cfg p now r c) as [[x r1] c1]. cbn [fst snd] in *.
      apply StD.
      + split; [exact R1|]. split; [exact F1|]. split.
        * unfold SameCalls in S1. rewrite S1. exact Dc.
        * intros Ho Hn. specialize (Eqb Ho Hn). inversion Eqb; subst x r1 c1. exact (B Ho Hn).
      + intros Ho Hn. specialize (Eqb Ho Hn). inversion Eqb; subst x r1 c1. exact (Hgc Ho Hn).
  Qed.

  (* ---------- a packet of the object ---------- *)
  Lemma push_obj_pre_first r c p :
    rv_objects r = [] -> rv_completed r = [] -> rv_error r = [] -> rv_fdt_current r = [] -> pktpre p ->
    exists o1, push_obj E cfg p now r c = (POk, mk_recv [(toi, o1)] [] [] (rv_fdt_receivers r) [] (rv_closed r), c)
               /\ PS o1 /\ LV [pid p] o1.
  Proof.
    intros Hobjs Hcomp Herr Hcur Pp. pose proof (J_toi p Pp) as Ht.
    destruct (J_first c p Pp) as (o1 & Eq & P1 & L1). exists o1. split; [|split; assumption].
    unfold push_obj. cbv zeta. rewrite Ht, Hcomp. cbn [existsb]. cbv iota beta. rewrite Herr. cbn [existsb]. cbv iota beta.
    unfold get_obj. rewrite Hobjs. cbn [find]. rewrite Hcur. cbn [create_attach]. rewrite Eq.
    cbn [rv_objects app]. unfold put_obj. cbn [existsb fst map]. rewrite N.eqb_refl. cbn [orb].
    unfold check_state, get_obj. cbn [set_objects rv_objects find fst]. rewrite N.eqb_refl. cbn [snd].
    rewrite (J_state _ P1). cbn [rv_completed rv_error rv_fdt_receivers rv_fdt_current rv_closed]. rewrite Hcomp, Herr. reflexivity.
  Qed.

  Lemma push_obj_pre sO r c p o :
    rv_objects r = [(toi, o)] -> rv_completed r = [] -> rv_error r = [] -> PS o -> LV sO o -> pktpre p ->
    exists o1, push_obj E cfg p now r c
               = (POk, mk_recv [(toi, o1)] [] [] (rv_fdt_receivers r) (rv_fdt_current r) (rv_closed r), c)
               /\ PS o1 /\ LV (pid p :: sO) o1.
  Proof.
    intros Hobjs Hcomp Herr PS0 Lv Pp. pose proof (J_toi p Pp) as Ht.
    destruct (J_push o c sO p PS0 Lv Pp) as (o1 & Eq & P1 & L1). exists o1. split; [|split; assumption].
    unfold push_obj. cbv zeta. rewrite Ht, Hcomp. cbn [existsb]. cbv iota beta. rewrite Herr. cbn [existsb]. cbv iota beta.
    unfold get_obj. rewrite Hobjs. cbn [find fst]. rewrite N.eqb_refl. cbn [snd]. rewrite Eq. rewrite Hobjs.
    unfold put_obj. cbn [existsb fst map]. rewrite N.eqb_refl. cbn [orb].
    unfold check_state, get_obj. cbn [set_objects rv_objects find fst]. rewrite N.eqb_refl. cbn [snd].
    rewrite (J_state _ P1). unfold set_objects. rewrite Hcomp, Herr. reflexivity.
  Qed.

  Lemma anyst_fside r r' : rv_fdt_receivers r' = rv_fdt_receivers r -> AnySt r -> AnySt r'.
  Proof. intros H (sF & Hp). exists sF. unfold PreSt in *. rewrite H. exact Hp. Qed.

  Lemma obj_step sF sO r c p : St sF sO r c -> a_toi p = toi -> gen p -> (~ covF sF -> pktpre p) ->
    (a_close_obj p = true -> cov (pid p :: sO)) ->
    let '(x, r', c') := push_obj E cfg p now r c in St sF (pid p :: sO) r' c'.
  Proof.
    intros HS Ht Gp Hpre' Hflag.
    destruct HS as [sF sO r c Hcur Hpre Bl R Hcomp Herr Hobj|sF r c Hg Hany Bl R Hobjs Hcomp Herr|sF sO r c Hg Hany R HG|sF sO r c HD Hgc].
    - (* A *)
      assert (Pp : pktpre p) by (apply Hpre'; intros C; exact (prest_not_cov sF r Hpre C)).
      pose proof (push_obj_inv E cfg p now r c R) as R'.
      destruct Hobj as [[Hobjs ->]|(o & Hobjs & PS0 & Lv)].
      + destruct (push_obj_pre_first r c p Hobjs Hcomp Herr Hcur Pp) as (o1 & Eq & P1 & L1). rewrite Eq in *.
        apply StA; cbn [rv_objects rv_completed rv_error rv_fdt_receivers rv_fdt_current rv_closed]; try assumption; try reflexivity.
        right. exists o1. split; [reflexivity|split; assumption].
      + destruct (push_obj_pre sO r c p o Hobjs Hcomp Herr PS0 Lv Pp) as (o1 & Eq & P1 & L1). rewrite Eq in *.
        apply StA; cbn [rv_objects rv_completed rv_error rv_fdt_receivers rv_fdt_current rv_closed]; try assumption; try reflexivity.
        right. exists o1. split; [reflexivity|split; assumption].
    - (* B *)
      destruct Hg as [Hne G]. destruct (rv_fdt_current r) as [|F2 rest] eqn:Hcur; [contradiction|].
      pose proof (Forall_inv G) as (_ & G2 & G3 & G4).
      pose proof (g_push_obj_first E cfg content toi now inst f SP LV gen pid cov I_state I_writer I_nc I_step I_attach
                    F2 rest r c p Hobjs Hcomp Herr Hcur G4 G2 G3 Bl R Ht Gp Hflag) as H.
      assert (G' : Forall GoodF (rv_fdt_current r)) by (rewrite Hcur; exact G).
      pose proof (push_obj_fside p r c G') as FS.
      destruct (push_obj E cfg p now r c) as [[x r'] c']. cbn [fst snd] in FS. unfold fside in FS. injection FS as FS1 FS2.
      assert (Hg' : GoodCur (rv_fdt_current r')) by (rewrite FS2, Hcur; split; [discriminate|exact G]).
      destruct H as [[H|H] R'].
      + apply StC; [exact Hg'|exact (anyst_fside r r' FS1 Hany)|exact R'|exact H].
      + apply StD; [exact (done_core_sess cfg content toi f r' c' H R')|intros _ _; exact Hg'].
    - (* C *)
      pose proof (g_push_obj_recv E cfg content toi now inst f SP LV gen pid cov I_state I_writer I_nc I_step I_attach
                    sO r c p HG R Ht Gp Hflag) as H.
      pose proof (push_obj_fside p r c (proj2 Hg)) as FS.
      destruct (push_obj E cfg p now r c) as [[x r'] c']. cbn [fst snd] in FS. unfold fside in FS. injection FS as FS1 FS2.
      assert (Hg' : GoodCur (rv_fdt_current r')) by (rewrite FS2; exact Hg).
      destruct H as [[H|H] R'].
      + apply StC; [exact Hg'|exact (anyst_fside r r' FS1 Hany)|exact R'|exact H].
      + apply StD; [exact (done_core_sess cfg content toi f r' c' H R')|intros _ _; exact Hg'].
    - (* D *)
      destruct HD as (R & F & Dc & B).
      assert (Eqb : cf_once cfg = true -> ff_nocache f = false -> push_obj E cfg p now r c = (POk, r, c)).
      { intros Ho Hn. destruct (B Ho Hn) as (D1 & D2 & _). rewrite Hn in D2.
        unfold push_obj. cbv zeta. rewrite Ht, D2. cbn [existsb]. rewrite N.eqb_refl. cbn [orb]. rewrite Ho. reflexivity. }
      pose proof (push_obj_frame E cfg w p now r c R F) as (R1 & F1 & S1).
      destruct (push_obj E cfg p now r c) as [[x r1] c1]. cbn [fst snd] in *.
      apply StD.
      + split; [exact R1|]. split; [exact F1|]. split.
        * unfold SameCalls in S1. rewrite S1. exact Dc.
        * intros Ho Hn. specialize (Eqb Ho Hn). inversion Eqb; subst x r1 c1. exact (B Ho Hn).
      + intros Ho Hn. specialize (Eqb Ho Hn). inversion Eqb; subst x r1 c1. exact (Hgc Ho Hn).
  Qed.

  (* ---------- the run ---------- *)
  (* the packets still to come, given the symbols of the instance (sF) and of the object (sO) received so far: each
     is a packet of the instance or of the object; a close-object flag comes only when its object is recoverable with
     it; a packet of the object that comes before the instance is recoverable carries EXT_FTI (pktpre); in the end
     both are recoverable *)
  Fixpoint WF (sF sO : list (N * N)) (evs : list apkt) : Prop :=
    match evs with
    | [] => covF sF /\ cov sO
    | p :: rest =>
      (FPk p /\ (a_close_obj p = true -> covF (pid_of p :: sF)) /\ WF (pid_of p :: sF) sO rest)
      \/ (a_toi p = toi /\ gen p /\ (~ covF sF -> pktpre p) /\ (a_close_obj p = true -> cov (pid p :: sO))
          /\ WF sF (pid p :: sO) rest)
    end.

  Notation closed_of p r :=
    (if a_close_sess p
     then mk_recv (rv_objects r) (rv_completed r) (rv_error r) (rv_fdt_receivers r) (rv_fdt_current r) true
     else r).

  Lemma St_closed_of sF sO r c p : St sF sO r c -> St sF sO (closed_of p r) c.
  Proof. intros H. destruct (a_close_sess p); [exact (St_closed true _ _ _ _ H)|exact H]. Qed.

  Lemma run_main evs : forall sF sO r c, St sF sO r c -> WF sF sO evs ->
    let '(_, r', c') := recv_run E parse_fdt cfg r (map push evs) c in SessD r' c'.
  Proof.
    induction evs as [|p evs IH]; intros sF sO r c HS HW.
    - cbn [map recv_run]. destruct HW as [CF CO].
      destruct HS as [sF sO r c Hcur Hpre Bl R Hcomp Herr Hobj|sF r c Hg Hany Bl R Hobjs Hcomp Herr|sF sO r c Hg Hany R HG|sF sO r c HD Hgc].
      + exfalso. exact (prest_not_cov sF r Hpre CF).
      + exfalso. destruct (I_attach 0 c Bl) as (o0 & c0 & _ & S0 & L0 & _). exact (I_notcov o0 c0 [] S0 L0 CO).
      + exfalso. destruct HG as (o & _ & _ & _ & HSP & Lv & _). exact (I_notcov o c sO HSP Lv CO).
      + exact HD.
    - cbn [map recv_run]. cbn [recv_step].
      pose proof (St_closed_of sF sO r c p HS) as HS0.
      destruct HW as [(Hp & Hflag & HW)|(Ht & Gp & Hpre & Hflag & HW)].
      + pose proof Hp as (Hz & _). rewrite Hz, N.eqb_refl.
        pose proof (fdt_step sF sO _ c p HS0 Hp Hflag) as H.
        destruct (push_fdt_obj E parse_fdt cfg p now (closed_of p r) c) as [[x r1] c1].
        specialize (IH _ _ r1 c1 H HW). destruct (recv_run E parse_fdt cfg r1 (map push evs) c1) as [[xs r2] c2]. exact IH.
      + rewrite Ht. destruct (N.eqb_spec toi 0) as [G|_]; [contradiction|].
        pose proof (obj_step sF sO _ c p HS0 Ht Gp Hpre Hflag) as H.
        destruct (push_obj E cfg p now (closed_of p r) c) as [[x r1] c1].
        specialize (IH _ _ r1 c1 H HW). destruct (recv_run E parse_fdt cfg r1 (map push evs) c1) as [[xs r2] c2]. exact IH.
  Qed.

  Lemma St0 : St [] [] recv0 ctx0.
  Proof.
    apply StA; try reflexivity.
    - left. split; reflexivity.
    - split; reflexivity.
    - exact RInv0.
    - left. split; reflexivity.
  Qed.

  (* the session theorem over the interface: any interleaving *)
  Theorem g_multi_fdt_delivers evs : WF [] [] evs ->
    let '(_, r, c) := recv_run E parse_fdt cfg recv0 (map push evs) ctx0 in SessD r c.
  Proof. intros HW. exact (run_main evs [] [] recv0 ctx0 St0 HW). Qed.
End MultiSess.

(* ================= 4. No-Code objects: the statements ================= *)
Definition isf (p : apkt) : bool := a_toi p =? 0.
Definition fdt_of (evs : list apkt) : list apkt := filter isf evs.
Definition obj_of (evs : list apkt) : list apkt := filter (fun p => negb (isf p)) evs.

(* a packet of the FDT instance [id], whose document is [d], sent with the No-Code OTI [foti] *)
Definition fdt_pkt_multi (cfg : rconfig) (inst : fdtinst) (now : Z) (id : N) (foti : roti) (d : list N) (p : apkt) : Prop :=
  a_toi p = 0 /\ a_fdt_id p = Some id /\ a_oti p = Some (foti, lenN_ d)
  /\ (a_cenc p = None \/ a_cenc p = Some CNull)
  /\ genuine_pkt foti d p = true /\ fdt_live cfg inst p now.

Section NoCodeMulti.
  Variable E : env.
  Variable parse_fdt : list N -> option fdtinst.
  Variable cfg : rconfig.
  Variable oti : roti.
  Variable content : list N.
  Variable toi : N.
  Variable md5 : option (list N).
  Variables al as_ nal n : N.
  Variable now : Z.
  Hypothesis Hfec : ro_fec oti = FNoCode.
  Hypothesis He : 0 < ro_e oti.
  Hypothesis Hb : 0 < ro_b oti.
  Hypothesis HL : 0 < lenN_ content.
  Hypothesis Hu64 : lenN_ content + ro_e oti < U64.
  Hypothesis Hpart : block_partitioning (ro_b oti) (lenN_ content) (ro_e oti) = (al, as_, nal, n).
  Hypothesis Htoi : toi <> 0.
  Notation max := (cf_max_cache cfg).
  Notation w := (toi, 0%nat).
  Hypothesis Hnice : C02Full.Nice2 E content w md5 max n.
  Hypothesis Hacc : writer_accepts E toi.
  Variables (id : N) (inst : fdtinst) (f : fdtfile).
  Hypothesis Hfind : find (fun f => ff_toi f =? toi) (fi_files inst) = Some f.
  Hypothesis Hce : ff_cenc f = CNull.
  Hypothesis Hfo : match ff_oti f with Some x => Some x | None => fi_oti inst end = Some oti.
  Hypothesis Htl : ff_tlen f = lenN_ content.
  Hypothesis Hmd5 : ff_md5 f = md5.
  Variables (foti : roti) (d : list N) (alF asF nalF nF : N).
  Hypothesis HfecF : ro_fec foti = FNoCode.
  Hypothesis HeF : 0 < ro_e foti.
  Hypothesis HbF : 0 < ro_b foti.
  Hypothesis HLF : 0 < lenN_ d.
  Hypothesis Hu64F : lenN_ d + ro_e foti < U64.
  Hypothesis HpartF : block_partitioning (ro_b foti) (lenN_ d) (ro_e foti) = (alF, asF, nalF, nF).
  Hypothesis HmaxF : lenN_ d <= 1048576.
  Hypothesis HnF : nF <= 4097.
  Hypothesis Hparse : parse_fdt d = Some inst.

  Notation SPn := (C02Full.Struct oti content w toi md5 max al as_ nal n).
  Notation genn := (C02Full.genuine oti content al as_ nal n).
  Notation covn := (C02Full.covered al as_ nal n).
  Notation covF := (C02Full.covered alF asF nalF nF).
  Notation PSn := (C02Session.PreS cfg oti content toi al as_ nal n).
  Notation pktpren := (C02Session.PktPre oti content toi al as_ nal n).
  Notation WFn := (WF cfg toi now id inst genn pid_of covn pktpren foti d alF asF nalF nF).
  Notation Lc := (lenN_ content).
  Notation Ld := (lenN_ d).

  Lemma ncm_fdtid o c : SPn o c -> r_fdt_id o <> None.
  Proof. intros (St & _). exact (C02Full.st_fdt _ _ _ _ _ _ _ _ _ St). Qed.
  Lemma ncm_pan o c : SPn o c -> SPn o (panicc c).
  Proof.
    intros (St & Dy & Fl). split; [exact St|]. split; [|exact Fl].
    destruct Dy as [D1 D2 D3 D4 D5 D6]. constructor; assumption.
  Qed.

  Lemma nocode_multi_core evs : WFn [] [] evs ->
    let '(_, r, c) := recv_run E parse_fdt cfg recv0 (map (fun p => RvPush p now) evs) ctx0 in
    SessDone cfg content toi f r c.
  Proof.
    intros HW.
    refine (g_multi_fdt_delivers E parse_fdt cfg content toi now Htoi id inst f Hfind SPn C02Full.LiveAll genn pid_of covn
              _ _ _ _ _ _ ncm_fdtid ncm_pan PSn pktpren _ _ _ _ _
              foti d alF asF nalF nF HfecF HeF HbF HLF Hu64F HpartF HmaxF HnF Hparse evs HW).
    - intros o c. apply nci_state.
    - intros o c. apply nci_writer.
    - intros o c p. apply (nci_nc E cfg oti content toi md5 al as_ nal n He Hb HL Hu64).
    - intros o c seen p. apply (nci_step E cfg oti content toi md5 al as_ nal n Hfec He Hb HL Hu64 Hpart Hnice).
    - intros o c seen. apply (nci_notcov cfg oti content toi md5 al as_ nal n He Hb HL Hu64 Hpart).
    - intros fid c. apply (nci_attach E cfg oti content toi md5 al as_ nal n He Hb HL Hu64 Hpart Hacc inst f Hfind Hce Hfo Htl Hmd5).
    - intros o. apply C02Session.ps_state.
    - intros p P. exact (proj1 P).
    - intros c p. apply (ncj_first E cfg oti content toi md5 al as_ nal n Hfec He Hb HL Hu64 Hpart Htoi Hnice f Htl).
    - intros o c seen p. apply (ncj_push E cfg oti content toi md5 al as_ nal n Hfec He Hb HL Hu64 Hpart Htoi Hnice f Htl).
    - intros fid o c seen. apply (attach_pre E cfg oti content toi md5 al as_ nal n He Hb HL Hu64 Hpart Htoi Hnice Hacc inst f Hfind Hce Htl Hmd5).
  Qed.

  (* ---------- from the executable premises to WF ---------- *)
  Lemma recF_cov l : recoverable foti Ld l = true -> covF (map pid_of l).
  Proof. intros H. apply recoverable_covered. unfold recoverable, source_ks, partition_of in H. rewrite HpartF in H. exact H. Qed.
  Lemma recO_cov l : recoverable oti Lc l = true -> covn (map pid_of l).
  Proof. intros H. apply recoverable_covered. unfold recoverable, source_ks, partition_of in H. rewrite Hpart in H. exact H. Qed.

  Lemma incl_snoc (pre : list apkt) p s : incl (map pid_of pre) s -> incl (map pid_of (pre ++ [p])) (pid_of p :: s).
  Proof.
    intros I x Hx. rewrite map_app in Hx. apply in_app_or in Hx. destruct Hx as [Hx|[<-|[]]]; [right; apply I; exact Hx|left; reflexivity].
  Qed.

  Lemma build_WF : forall evs preF preO sF sO,
    incl (map pid_of preF) sF -> incl (map pid_of preO) sO ->
    Forall (fun p => fdt_pkt_multi cfg inst now id foti d p \/ (a_toi p = toi /\ genuine_pkt oti content p = true)) evs ->
    (forall pre p post, evs = pre ++ p :: post -> a_toi p = toi -> recoverable foti Ld (preF ++ fdt_of pre) = false ->
                        a_oti p = Some (oti, Lc) /\ a_cenc p = None /\ a_close_obj p = false) ->
    (forall pre p post, fdt_of evs = pre ++ p :: post -> a_close_obj p = true -> recoverable foti Ld (preF ++ pre ++ [p]) = true) ->
    (forall pre p post, obj_of evs = pre ++ p :: post -> a_close_obj p = true -> recoverable oti Lc (preO ++ pre ++ [p]) = true) ->
    recoverable foti Ld (preF ++ fdt_of evs) = true -> recoverable oti Lc (preO ++ obj_of evs) = true ->
    WFn sF sO evs.
  Proof.
    induction evs as [|p evs IH]; intros preF preO sF sO IF IO Hcl H2 H3 H4 HrF HrO.
    - cbn [fdt_of obj_of filter] in HrF, HrO. rewrite app_nil_r in HrF, HrO. cbn [WF]. split.
      + exact (covered_incl' _ _ _ _ _ _ (recF_cov _ HrF) IF).
      + exact (covered_incl' _ _ _ _ _ _ (recO_cov _ HrO) IO).
    - pose proof (Forall_inv Hcl) as Hp. pose proof (Forall_inv_tail Hcl) as Hcl'. cbn [WF].
      destruct Hp as [(Hz & Hfid & Hoti & Hcenc & Hgen & Hlive)|[Ht Hgen]].
      + assert (Hisf : isf p = true) by (unfold isf; rewrite Hz; reflexivity).
        assert (E1 : forall l, fdt_of (p :: l) = p :: fdt_of l) by (intros l; unfold fdt_of; cbn [filter]; rewrite Hisf; reflexivity).
        assert (E2 : forall l, obj_of (p :: l) = obj_of l) by (intros l; unfold obj_of; cbn [filter]; rewrite Hisf; reflexivity).
        left. split; [|split].
        * split; [exact Hz|]. split; [exact Hfid|]. split; [exact Hoti|]. split; [exact Hcenc|]. split; [|exact Hlive].
          unfold genuine_pkt, partition_of in Hgen. rewrite HpartF in Hgen. apply C02Full.genuineb_spec. exact Hgen.
        * intros Hc. pose proof (H3 [] p (fdt_of evs) (E1 evs) Hc) as K. cbn [app] in K.
          exact (covered_incl' _ _ _ _ _ _ (recF_cov _ K) (incl_snoc preF p sF IF)).
        * apply (IH (preF ++ [p]) preO); try assumption.
          -- apply incl_snoc. exact IF.
          -- intros pre q post Eq Hq Hr. apply (H2 (p :: pre) q post); [rewrite Eq; reflexivity|exact Hq|].
             rewrite E1. rewrite <- app_assoc in Hr. exact Hr.
          -- intros pre q post Eq Hq. pose proof (H3 (p :: pre) q post) as K. rewrite E1, Eq in K. specialize (K eq_refl Hq).
             rewrite <- app_assoc. exact K.
          -- intros pre q post Eq Hq. apply (H4 pre q post); [rewrite E2; exact Eq|exact Hq].
          -- rewrite E1 in HrF. rewrite <- app_assoc. exact HrF.
          -- rewrite E2 in HrO. exact HrO.
      + assert (Hisf : isf p = false) by (unfold isf; rewrite Ht; apply N.eqb_neq; exact Htoi).
        assert (E1 : forall l, fdt_of (p :: l) = fdt_of l) by (intros l; unfold fdt_of; cbn [filter]; rewrite Hisf; reflexivity).
        assert (E2 : forall l, obj_of (p :: l) = p :: obj_of l) by (intros l; unfold obj_of; cbn [filter]; rewrite Hisf; reflexivity).
        assert (Gp : genn p).
        { unfold genuine_pkt, partition_of in Hgen. rewrite Hpart in Hgen. apply C02Full.genuineb_spec. exact Hgen. }
        right. split; [exact Ht|]. split; [exact Gp|]. split; [|split].
        * intros Hnc. pose proof (H2 [] p evs eq_refl Ht) as K. cbn [fdt_of filter] in K. rewrite app_nil_r in K.
          destruct (recoverable foti Ld preF) eqn:R.
          { exfalso. apply Hnc. exact (covered_incl' _ _ _ _ _ _ (recF_cov _ R) IF). }
          destruct (K eq_refl) as (K1 & K2 & _). split; [exact Ht|]. split; [exact K1|]. split; [exact K2|exact Gp].
        * intros Hc. pose proof (H4 [] p (obj_of evs) (E2 evs) Hc) as K. cbn [app] in K.
          exact (covered_incl' _ _ _ _ _ _ (recO_cov _ K) (incl_snoc preO p sO IO)).
        * apply (IH preF (preO ++ [p])); try assumption.
          -- apply incl_snoc. exact IO.
          -- intros pre q post Eq Hq Hr. apply (H2 (p :: pre) q post); [rewrite Eq; reflexivity|exact Hq|].
             rewrite E1. exact Hr.
          -- intros pre q post Eq Hq. apply (H3 pre q post); [rewrite E1; exact Eq|exact Hq].
          -- intros pre q post Eq Hq. pose proof (H4 (p :: pre) q post) as K. rewrite E2, Eq in K. specialize (K eq_refl Hq).
             rewrite <- app_assoc. exact K.
          -- rewrite E1 in HrF. exact HrF.
          -- rewrite E2 in HrO. rewrite <- app_assoc. exact HrO.
  Qed.
End NoCodeMulti.

(* ---------- the oracle schemes (Reed-Solomon, RaptorQ / Raptor): the same session theorem over the interface ---------- *)
Section RSMulti.
  Variable E : env.
  Variable parse_fdt : list N -> option fdtinst.
  Variable cfg : rconfig.
  Variable oti : roti.
  Variable content : list N.
  Variable rep : N -> N -> list N.
  Variable toi : N.
  Variable md5 : option (list N).
  Variables al as_ nal n : N.
  Variable now : Z.
  Hypothesis Hfec : fec_oracle (ro_fec oti) = true.
  Hypothesis He : 0 < ro_e oti.
  Hypothesis Hb : 0 < ro_b oti.
  Hypothesis HL : 0 < lenN_ content.
  Hypothesis Hu64 : lenN_ content + ro_e oti < U64.
  Hypothesis Hpart : block_partitioning (ro_b oti) (lenN_ content) (ro_e oti) = (al, as_, nal, n).
  Hypothesis Htoi : toi <> 0.
  Notation max := (cf_max_cache cfg).
  Notation w := (toi, 0%nat).
  Hypothesis Hsound : forall s sh d, s < n -> Callable oti al as_ nal s sh ->
    NoDup (map fst sh) -> Forall (shard_ok oti content rep al as_ nal s) sh ->
    e_fec E toi (ro_fec oti) s (k_of al as_ nal s) (ro_e oti) (bsz oti content al as_ nal s) sh = Some d ->
    Good oti content al as_ nal n s d.
  Hypothesis HM : Mds E oti content rep toi al as_ nal n.
  Hypothesis Hnice : C02RS.Nice2 E oti content w md5 max al as_ nal n.
  Hypothesis Hacc : writer_accepts E toi.
  Variables (id : N) (inst : fdtinst) (f : fdtfile).
  Hypothesis Hfind : find (fun f => ff_toi f =? toi) (fi_files inst) = Some f.
  Hypothesis Hce : ff_cenc f = CNull.
  Hypothesis Hfo : match ff_oti f with Some x => Some x | None => fi_oti inst end = Some oti.
  Hypothesis Htl : ff_tlen f = lenN_ content.
  Hypothesis Hmd5 : ff_md5 f = md5.
  Variables (foti : roti) (d : list N) (alF asF nalF nF : N).
  Hypothesis HfecF : ro_fec foti = FNoCode.
  Hypothesis HeF : 0 < ro_e foti.
  Hypothesis HbF : 0 < ro_b foti.
  Hypothesis HLF : 0 < lenN_ d.
  Hypothesis Hu64F : lenN_ d + ro_e foti < U64.
  Hypothesis HpartF : block_partitioning (ro_b foti) (lenN_ d) (ro_e foti) = (alF, asF, nalF, nF).
  Hypothesis HmaxF : lenN_ d <= 1048576.
  Hypothesis HnF : nF <= 4097.
  Hypothesis Hparse : parse_fdt d = Some inst.

  Notation SPr := (C02RS.Struct E oti content rep w toi md5 max al as_ nal n).
  Notation covr := (C02RS.covered oti al as_ nal n).
  Notation genr' := (genr oti content rep al as_ nal n).
  Notation PreR' := (PreR E cfg oti content rep toi al as_ nal n).
  Notation pktprer' := (pktprer oti content rep toi al as_ nal n).

  Lemma rsm_fdtid o c : SPr o c -> r_fdt_id o <> None.
  Proof. intros (St & _). exact (C02RS.st_fdt _ _ _ _ _ _ _ _ _ _ St). Qed.
  Lemma rsm_pan o c : SPr o c -> SPr o (panicc c).
  Proof.
    intros (St & Dy & Fl). split; [exact St|]. split; [|exact Fl].
    destruct Dy as [D1 D2 D3 D4 D5 D6]. constructor; assumption.
  Qed.

  (* the FDT instance (No-Code, several packets) and an object of an oracle scheme, any interleaving *)
  Theorem rs_multi_core evs :
    WF cfg toi now id inst genr' (rs_pid oti) covr pktprer' foti d alF asF nalF nF [] [] evs ->
    let '(_, r, c) := recv_run E parse_fdt cfg recv0 (map (fun p => RvPush p now) evs) ctx0 in
    SessDone cfg content toi f r c.
  Proof.
    intros HW.
    refine (g_multi_fdt_delivers E parse_fdt cfg content toi now Htoi id inst f Hfind SPr C02RS.LiveAll genr' (rs_pid oti) covr
              _ _ _ _ _ _ rsm_fdtid rsm_pan PreR' pktprer' _ _ _ _ _
              foti d alF asF nalF nF HfecF HeF HbF HLF Hu64F HpartF HmaxF HnF Hparse evs HW).
    - intros o c. apply rsi_state.
    - intros o c. apply rsi_writer.
    - intros o c p. apply (rsi_nc E cfg oti content rep toi md5 al as_ nal n); assumption.
    - intros o c seen p. apply (rsi_step E cfg oti content rep toi md5 al as_ nal n Hfec He Hb HL Hu64 Hpart Hsound HM Hnice).
    - intros o c seen. apply (rsi_notcov E cfg oti content rep toi md5 al as_ nal n); assumption.
    - intros fid c. apply (rsi_attach E cfg oti content rep toi md5 al as_ nal n He Hb HL Hu64 Hpart Htoi Hacc inst f Hfind Hce Hfo Htl Hmd5).
    - intros o. apply pr_state.
    - intros p P. exact (proj1 P).
    - intros c p. apply (rsj_first E cfg oti content rep toi md5 al as_ nal n Hfec He Hb HL Hu64 Hpart Htoi Hsound Hnice f Htl).
    - intros o c seen p. apply (rsj_push E cfg oti content rep toi md5 al as_ nal n Hfec He Hb HL Hu64 Hpart Htoi Hsound Hnice f Htl).
    - intros fid o c seen. apply (rattach_pre E cfg oti content rep toi md5 al as_ nal n He Hb HL Hu64 Hpart Htoi Hnice Hacc inst f Hfind Hce Htl Hmd5).
  Qed.
End RSMulti.
Print Assumptions rs_multi_core.

(* ---------- coverage implies the recoverability premise (as in Proofs/C01Full.v), hence monotonicity ---------- *)
Lemma block_rec_of_in' k s got : (forall i, i < k -> In (s, i) got) -> block_recoverable false 0 k s got = true.
Proof.
  intros H. unfold block_recoverable. apply N.eqb_eq.
  set (mine := distinct (map snd (filter (fun p : N * N => fst p =? s) got))).
  set (l := filter (fun x => x <? k) mine).
  assert (ND : NoDup l) by (apply NoDup_filter, distinct_nodup).
  assert (Lt : forall x, In x l -> x < k).
  { intros x Hx. apply filter_In in Hx. destruct Hx as [_ Hx]. apply N.ltb_lt in Hx. exact Hx. }
  assert (All : forall j, j < k -> In j l).
  { intros j Hj. apply filter_In. split; [|apply N.ltb_lt; exact Hj].
    apply distinct_in. apply in_map_iff. exists (s, j). split; [reflexivity|].
    apply filter_In. split; [apply H; exact Hj|cbn [fst]; apply N.eqb_refl]. }
  pose proof (count_le l k ND Lt). pose proof (count_all_le l k All). lia.
Qed.

Lemma blocks_rec_of_all' (f : N -> N) got : forall m a,
  (forall j, (a <= j < a + m)%nat -> block_recoverable false 0 (f (N.of_nat j)) (N.of_nat j) got = true) ->
  blocks_recoverable false 0 (map f (map N.of_nat (seq a m))) (N.of_nat a) got = true.
Proof.
  induction m as [|m IH]; intros a H; [reflexivity|]. cbn [seq map blocks_recoverable].
  rewrite (H a ltac:(lia)). cbn [andb].
  replace (N.of_nat a + 1) with (N.of_nat (S a)) by lia. apply IH. intros j Hj. apply H. lia.
Qed.

Lemma recoverable_incl oti L l l' : incl (map pid_of l) (map pid_of l') ->
  recoverable oti L l = true -> recoverable oti L l' = true.
Proof.
  intros I H. unfold recoverable, source_ks in *. destruct (partition_of oti L) as [[[al as_] nal] n].
  apply recoverable_covered in H. unfold below.
  apply (blocks_rec_of_all' (k_of al as_ nal) (map pid_of l') (N.to_nat n) 0%nat).
  intros j Hj. apply block_rec_of_in'. intros i Hi. apply I. apply H; [lia|exact Hi].
Qed.

(* ---------- lists ---------- *)
Lemma fdt_of_app a b : fdt_of (a ++ b) = fdt_of a ++ fdt_of b.
Proof. apply filter_app. Qed.
Lemma obj_of_app a b : obj_of (a ++ b) = obj_of a ++ obj_of b.
Proof. apply filter_app. Qed.
Lemma parts_of_objs toi l : toi <> 0 -> Forall (fun p => a_toi p = toi) l -> fdt_of l = [] /\ obj_of l = l.
Proof.
  intros Ht F. induction F as [|x l Hx F [IH1 IH2]]; [split; reflexivity|].
  assert (Hisf : isf x = false) by (unfold isf; rewrite Hx; apply N.eqb_neq; exact Ht).
  unfold fdt_of, obj_of in *. cbn [filter]. rewrite Hisf. cbn [negb]. rewrite IH1, IH2. split; reflexivity.
Qed.
Lemma parts_of_fdts l : Forall (fun p => a_toi p = 0) l -> fdt_of l = l /\ obj_of l = [].
Proof.
  intros F. induction F as [|x l Hx F [IH1 IH2]]; [split; reflexivity|].
  assert (Hisf : isf x = true) by (unfold isf; rewrite Hx; reflexivity).
  unfold fdt_of, obj_of in *. cbn [filter]. rewrite Hisf. cbn [negb]. rewrite IH1, IH2. split; reflexivity.
Qed.
Lemma in_parts x l : In x l -> (isf x = true /\ In x (fdt_of l)) \/ (isf x = false /\ In x (obj_of l)).
Proof.
  intros H. destruct (isf x) eqn:Hi; [left|right]; (split; [reflexivity|]); apply filter_In; (split; [exact H|]); rewrite Hi; reflexivity.
Qed.
Lemma app_eq_split {A} (a b : list A) : forall l1 x l2, l1 ++ x :: l2 = a ++ b ->
  In x a \/ exists l1', l1 = a ++ l1' /\ b = l1' ++ x :: l2.
Proof.
  induction a as [|y a IH]; intros l1 x l2 H; cbn [app] in *.
  - right. exists l1. split; [reflexivity|symmetry; exact H].
  - destruct l1 as [|z l1]; cbn [app] in H; injection H as H0 H.
    + left. left. symmetry. exact H0.
    + destruct (IH l1 x l2 H) as [Hin|(l1' & -> & ->)]; [left; right; exact Hin|].
      right. exists l1'. subst z. split; reflexivity.
Qed.
Lemma incl_map_app_r {A B} (g : A -> B) (a b : list A) : incl (map g b) (map g (a ++ b)).
Proof. intros x Hx. rewrite map_app. apply in_or_app. right. exact Hx. Qed.
Lemma incl_map_app_l {A B} (g : A -> B) (a b : list A) : incl (map g a) (map g (a ++ b)).
Proof. intros x Hx. rewrite map_app. apply in_or_app. left. exact Hx. Qed.

(* ---------- the statements ---------- *)
(* M2: ANY interleaving of packets of the FDT instance and packets of the object *)
Theorem session_multi_fdt_delivers E parse_fdt cfg oti content toi md5 now id foti d inst evs :
  let L := lenN_ content in
  let Ld := lenN_ d in
  nocode_ok oti L -> toi <> 0 ->
  nocode_ok foti Ld -> Ld <= 1048576 -> nb_blocks_of foti Ld <= 4097 ->
  parse_fdt d = Some inst ->
  fdt_entry_for (fi_files inst) (fi_oti inst) toi oti L md5 ->
  writer_accepts E toi -> writes_succeed E toi -> md5_good E content md5 ->
  L <= cf_max_cache cfg -> nb_blocks_of oti L <= 4097 ->
  Forall (fun p => fdt_pkt_multi cfg inst now id foti d p \/ (a_toi p = toi /\ genuine_pkt oti content p = true)) evs ->
  (forall pre p post, evs = pre ++ p :: post -> a_toi p = toi -> recoverable foti Ld (fdt_of pre) = false ->
                      a_oti p = Some (oti, L) /\ a_cenc p = None /\ a_close_obj p = false) ->
  close_flag_ok foti Ld (fdt_of evs) -> close_flag_ok oti L (obj_of evs) ->
  recoverable foti Ld (fdt_of evs) = true -> recoverable oti L (obj_of evs) = true ->
  let '(_, r, c) := recv_run E parse_fdt cfg recv0 (map (fun p => RvPush p now) evs) ctx0 in
  session_delivered cfg inst content toi r c.
Proof.
  intros L Ld (Hfec & He & Hb & HL & Hu) Htoi (HfecF & HeF & HbF & HLF & HuF) HmaxF HnF Hparse
         (f & F1 & F2 & F3 & F4 & F5) Hacc Hwr Hmd5 Hmax Hn Hcl Hpre ClF ClO RecF RecO.
  destruct (partition_of oti L) as [[[al as_] nal] n] eqn:Hpart. unfold partition_of in Hpart.
  destruct (partition_of foti Ld) as [[[alF asF] nalF] nF] eqn:HpartF. unfold partition_of in HpartF.
  assert (Hnb : nb_blocks_of oti L = n) by (unfold nb_blocks_of; rewrite Hpart; reflexivity).
  assert (HnbF : nb_blocks_of foti Ld = nF) by (unfold nb_blocks_of; rewrite HpartF; reflexivity).
  assert (Nc : C02Full.Nice2 E content (toi, 0%nat) md5 (cf_max_cache cfg) n).
  { split; [split; [exact Hwr|exact Hmd5]|]. split; [exact Hmax|]. rewrite <- Hnb. exact Hn. }
  rewrite HnbF in HnF.
  pose proof (nocode_multi_core E parse_fdt cfg oti content toi md5 al as_ nal n now Hfec He Hb HL Hu Hpart Htoi Nc Hacc
                id inst f F1 F2 F3 F4 F5 foti d alF asF nalF nF HfecF HeF HbF HLF HuF HpartF HmaxF HnF Hparse evs) as D.
  assert (D' : let '(_, r, c) := recv_run E parse_fdt cfg recv0 (map (fun p => RvPush p now) evs) ctx0 in
               SessDone cfg content toi f r c).
  { apply D.
    apply (build_WF cfg oti content toi al as_ nal n now Hpart Htoi id inst foti d alF asF nalF nF HpartF evs [] [] [] []);
      try assumption; try (intros x []). }
  destruct (recv_run E parse_fdt cfg recv0 (map (fun p => RvPush p now) evs) ctx0) as [[xs r] c].
  eapply sess_done_delivered; eassumption.
Qed.
Print Assumptions session_multi_fdt_delivers.

(* G: [mix] is any interleaving of packets of the instance (recoverable among themselves) and of packets of the object
   carrying EXT_FTI (no EXT_CENC, no close-object flag); then the rest of the object's packets, in any form *)
Theorem session_multi_fdt_mix_delivers E parse_fdt cfg oti content toi md5 now id foti d inst mix pkts :
  let L := lenN_ content in
  let Ld := lenN_ d in
  nocode_ok oti L -> toi <> 0 ->
  nocode_ok foti Ld -> Ld <= 1048576 -> nb_blocks_of foti Ld <= 4097 ->
  parse_fdt d = Some inst ->
  fdt_entry_for (fi_files inst) (fi_oti inst) toi oti L md5 ->
  writer_accepts E toi -> writes_succeed E toi -> md5_good E content md5 ->
  L <= cf_max_cache cfg -> nb_blocks_of oti L <= 4097 ->
  Forall (fun p => fdt_pkt_multi cfg inst now id foti d p \/ (a_toi p = toi /\ genuine_pkt oti content p = true)) mix ->
  Forall (fun p => a_oti p = Some (oti, L) /\ a_cenc p = None /\ a_close_obj p = false) (obj_of mix) ->
  Forall (fun p => a_toi p = toi) pkts ->
  Forall (fun p => genuine_pkt oti content p = true) pkts ->
  close_flag_ok foti Ld (fdt_of mix) -> recoverable foti Ld (fdt_of mix) = true ->
  close_flag_ok oti L (obj_of mix ++ pkts) -> recoverable oti L (obj_of mix ++ pkts) = true ->
  let '(_, r, c) := recv_run E parse_fdt cfg recv0 (map (fun p => RvPush p now) (mix ++ pkts)) ctx0 in
  session_delivered cfg inst content toi r c.
Proof.
  intros L Ld H1 Htoi H3 H4 H5 H6 H7 H8 H9 H10 H11 H12 Cm Pm Tp Gp ClF RecF ClO RecO.
  destruct (parts_of_objs toi pkts Htoi Tp) as [PF PO].
  apply (session_multi_fdt_delivers E parse_fdt cfg oti content toi md5 now id foti d inst (mix ++ pkts)); try assumption.
  - apply Forall_app. split; [exact Cm|]. rewrite Forall_forall in *. intros p Hp. right. split; [apply Tp|apply Gp]; exact Hp.
  - intros pre p post Eq Ht Hr. destruct (app_eq_split mix pkts pre p post (eq_sym Eq)) as [Hin|(pre' & -> & Eq2)].
    + destruct (in_parts p mix Hin) as [[Hi _]|[_ Hi]].
      * exfalso. unfold isf in Hi. apply N.eqb_eq in Hi. rewrite Ht in Hi. contradiction.
      * rewrite Forall_forall in Pm. exact (Pm p Hi).
    + exfalso. rewrite fdt_of_app in Hr.
      rewrite (recoverable_incl foti (lenN_ d) (fdt_of mix) (fdt_of mix ++ fdt_of pre') (incl_map_app_l _ _ _) RecF) in Hr. discriminate.
  - rewrite fdt_of_app, PF, app_nil_r. exact ClF.
  - rewrite obj_of_app, PO. exact ClO.
  - rewrite fdt_of_app, PF, app_nil_r. exact RecF.
  - rewrite obj_of_app, PO. exact RecO.
Qed.
Print Assumptions session_multi_fdt_mix_delivers.

(* M1: the packets of the instance first (any order, any duplication), then the packets of the object *)
Theorem session_multi_fdt_first_delivers E parse_fdt cfg oti content toi md5 now id foti d inst fpkts pkts :
  let L := lenN_ content in
  let Ld := lenN_ d in
  nocode_ok oti L -> toi <> 0 ->
  nocode_ok foti Ld -> Ld <= 1048576 -> nb_blocks_of foti Ld <= 4097 ->
  parse_fdt d = Some inst ->
  fdt_entry_for (fi_files inst) (fi_oti inst) toi oti L md5 ->
  writer_accepts E toi -> writes_succeed E toi -> md5_good E content md5 ->
  L <= cf_max_cache cfg -> nb_blocks_of oti L <= 4097 ->
  Forall (fdt_pkt_multi cfg inst now id foti d) fpkts ->
  close_flag_ok foti Ld fpkts -> recoverable foti Ld fpkts = true ->
  Forall (fun p => a_toi p = toi) pkts ->
  Forall (fun p => genuine_pkt oti content p = true) pkts ->
  close_flag_ok oti L pkts -> recoverable oti L pkts = true ->
  let '(_, r, c) := recv_run E parse_fdt cfg recv0 (map (fun p => RvPush p now) (fpkts ++ pkts)) ctx0 in
  session_delivered cfg inst content toi r c.
Proof.
  intros L Ld H1 Htoi H3 H4 H5 H6 H7 H8 H9 H10 H11 H12 Ff ClF RecF Tp Gp ClO RecO.
  assert (Tz : Forall (fun p => a_toi p = 0) fpkts).
  { rewrite Forall_forall in *. intros p Hp. exact (proj1 (Ff p Hp)). }
  destruct (parts_of_fdts fpkts Tz) as [PF PO].
  apply (session_multi_fdt_mix_delivers E parse_fdt cfg oti content toi md5 now id foti d inst fpkts pkts); try assumption.
  - rewrite Forall_forall in *. intros p Hp. left. exact (Ff p Hp).
  - rewrite PO. constructor.
  - rewrite PF. exact ClF.
  - rewrite PF. exact RecF.
  - rewrite PO. exact ClO.
  - rewrite PO. exact RecO.
Qed.
Print Assumptions session_multi_fdt_first_delivers.

Lemma in_skipn' {A} j (l : list A) x : In x (skipn j l) -> In x l.
Proof. intros H. rewrite <- (firstn_skipn j l). apply in_or_app. right. exact H. Qed.

(* C16, mid-FDT join: the receiver starts at ANY packet offset j of one transmission [fcyc] of the instance (carousel: no
   close-object flag on the FDT packets), gets the rest of it and one whole further transmission; meanwhile packets of
   the object carrying EXT_FTI arrive, interleaved in any way ([mix]); then the rest of the object's packets *)
Theorem session_mid_fdt_join_delivers E parse_fdt cfg oti content toi md5 now id foti d inst fcyc j pre mix pkts :
  let L := lenN_ content in
  let Ld := lenN_ d in
  nocode_ok oti L -> toi <> 0 ->
  nocode_ok foti Ld -> Ld <= 1048576 -> nb_blocks_of foti Ld <= 4097 ->
  parse_fdt d = Some inst ->
  fdt_entry_for (fi_files inst) (fi_oti inst) toi oti L md5 ->
  writer_accepts E toi -> writes_succeed E toi -> md5_good E content md5 ->
  L <= cf_max_cache cfg -> nb_blocks_of oti L <= 4097 ->
  Forall (fdt_pkt_multi cfg inst now id foti d) fcyc ->
  Forall (fun p => a_close_obj p = false) fcyc -> recoverable foti Ld fcyc = true ->
  fdt_of mix = skipn j fcyc ++ fcyc -> obj_of mix = pre ->
  Forall (fun p => a_toi p = toi) (pre ++ pkts) ->
  Forall (fun p => genuine_pkt oti content p = true) (pre ++ pkts) ->
  Forall (fun p => a_oti p = Some (oti, L) /\ a_cenc p = None /\ a_close_obj p = false) pre ->
  close_flag_ok oti L (pre ++ pkts) -> recoverable oti L (pre ++ pkts) = true ->
  let '(_, r, c) := recv_run E parse_fdt cfg recv0 (map (fun p => RvPush p now) (mix ++ pkts)) ctx0 in
  session_delivered cfg inst content toi r c.
Proof.
  intros L Ld H1 Htoi H3 H4 H5 H6 H7 H8 H9 H10 H11 H12 Ff Nf RecF Ef Eo T G Pp ClO RecO.
  apply Forall_app in T. destruct T as [T1 T2]. apply Forall_app in G. destruct G as [G1 G2].
  assert (InF : forall x, In x (skipn j fcyc ++ fcyc) -> In x fcyc).
  { intros x Hx. apply in_app_or in Hx. destruct Hx as [Hx|Hx]; [exact (in_skipn' j fcyc x Hx)|exact Hx]. }
  apply (session_multi_fdt_mix_delivers E parse_fdt cfg oti content toi md5 now id foti d inst mix pkts); try assumption.
  - rewrite Forall_forall in *. intros p Hp. destruct (in_parts p mix Hp) as [[_ Hi]|[_ Hi]].
    + left. rewrite Ef in Hi. exact (Ff p (InF p Hi)).
    + right. rewrite Eo in Hi. split; [exact (T1 p Hi)|exact (G1 p Hi)].
  - rewrite Eo. exact Pp.
  - rewrite Ef. apply close_flag_ok_noflag. rewrite Forall_forall in *. intros p Hp. exact (Nf p (InF p Hp)).
  - rewrite Ef. exact (recoverable_incl foti (lenN_ d) fcyc (skipn j fcyc ++ fcyc) (incl_map_app_r _ _ _) RecF).
  - rewrite Eo. exact ClO.
  - rewrite Eo. exact RecO.
Qed.
Print Assumptions session_mid_fdt_join_delivers.

(* ================= 5. a toy session with a 3-packet FDT instance: non-vacuity, and what the premises exclude ================= *)
(* the FDT "document" is 10 bytes, sent with E = 4, B = 2: block 0 = symbols (0,0) (0,1), block 1 = the short symbol
   (1,0); the toy parser maps it to the instance of C02Session listing TOI 7 = ex_content (5 bytes, E = 2, B = 2) *)
Definition mx_doc : list N := [60; 1; 2; 3; 4; 5; 6; 7; 8; 62].
Definition mx_foti : roti := mk_roti FNoCode 4 2 0 None.
Definition mx_parse (d : list N) : option fdtinst := if eqb_bytes d mx_doc then Some (tx_inst false None) else None.
Definition fpk (sbn esi : N) (close : bool) (payload : list N) : apkt :=
  mk_apkt 0 close false (Some 1) (Some (mx_foti, 10)) None None 0 (mk_pid sbn esi) payload (lenN_ payload).
Definition f00 : apkt := fpk 0 0 false [60; 1; 2; 3].
Definition f01 : apkt := fpk 0 1 false [4; 5; 6; 7].
Definition f10 : apkt := fpk 1 0 false [8; 62].
Definition f10B : apkt := fpk 1 0 true [8; 62].     (* the last packet of a last transfer: close-object flag *)
(* results, objects in the map, rv_completed, rv_error, FDT instances in reception, number of current instances, log *)
Definition sessx (parse : list N -> option fdtinst) (cfg : rconfig) (evs : list apkt) :=
  let '(xs, r, c) := recv_run env_ok parse cfg recv0 (map (fun p => RvPush p 100%Z) evs) ctx0 in
  (xs, map fst (rv_objects r), rv_completed r, rv_error r,
   map (fun q => (fst q, fr_state (snd q))) (rv_fdt_receivers r), length (rv_fdt_current r), c_log c).

Lemma mx_pkt_ok once p : In p [f00; f01; f10; f10B] ->
  fdt_pkt_multi (tx_cfg once false) (tx_inst false None) 100%Z 1 mx_foti mx_doc p.
Proof.
  intros H. assert (G : genuine_pkt mx_foti mx_doc p = true /\ a_toi p = 0 /\ a_fdt_id p = Some 1
                        /\ a_oti p = Some (mx_foti, lenN_ mx_doc) /\ a_cenc p = None).
  { destruct H as [<-|[<-|[<-|[<-|[]]]]]; vm_compute; repeat split. }
  destruct G as (G1 & G2 & G3 & G4 & G5). split; [exact G2|]. split; [exact G3|]. split; [exact G4|].
  split; [left; exact G5|]. split; [exact G1|left; reflexivity].
Qed.

Example mx_premises :
  partition_of mx_foti 10 = (2, 1, 1, 2)
  /\ recoverable mx_foti 10 [f10; f00; f10; f01; f00] = true
  /\ recoverable mx_foti 10 [f10; f00; f10; f00] = false.
Proof. vm_compute. repeat split. Qed.

(* M1 computed: the FDT packets shuffled and duplicated, then the object's packets shuffled and duplicated; receive-once *)
Example mx_first_computed :
  sessx mx_parse (tx_cfg true false) ([f10; f00; f10; f01; f00] ++ ex_pkts)
  = ([POk; POk; POk; POk; POk; POk; POk; POk; POk; POk], [], [7], [], [], 1%nat, delivered_log).
Proof. vm_compute. reflexivity. Qed.

Example mx_first_by_theorem :
  let '(_, r, c) := recv_run env_ok mx_parse (tx_cfg true false) recv0
                             (map (fun p => RvPush p 100%Z) ([f10; f00; f10; f01; f00] ++ ex_pkts)) ctx0 in
  session_delivered (tx_cfg true false) (tx_inst false None) ex_content 7 r c.
Proof.
  apply (session_multi_fdt_first_delivers env_ok mx_parse (tx_cfg true false) ex_oti ex_content 7 None 100%Z
           1 mx_foti mx_doc (tx_inst false None) [f10; f00; f10; f01; f00] ex_pkts).
  - repeat split; vm_compute; reflexivity.
  - discriminate.
  - repeat split; vm_compute; reflexivity.
  - vm_compute. discriminate.
  - vm_compute. discriminate.
  - reflexivity.
  - exists (mk_ff 7 CNull (Some ex_oti) 5 None None false). repeat split.
  - split; reflexivity.
  - intros i. reflexivity.
  - exact I.
  - vm_compute. discriminate.
  - vm_compute. discriminate.
  - apply Forall_forall. intros p Hp. apply mx_pkt_ok. cbn [In] in *. tauto.
  - apply close_flag_ok_noflag. repeat constructor.
  - vm_compute. reflexivity.
  - repeat constructor.
  - repeat constructor.
  - apply close_flag_ok_noflag. repeat constructor.
  - vm_compute. reflexivity.
Qed.

(* C16 / M2 computed and by the theorem: the receiver joins at packet 1 of a transmission of the instance; packets of
   the object carrying EXT_FTI are interleaved with the FDT packets of that cycle and of the next one; then the rest *)
Definition mx_pre : list apkt := map with_fti (firstn 3 ex_pkts).
Definition mx_mix : list apkt :=
  match mx_pre with
  | [e1; e2; e3] => [f01; e1; f10; e2; f00; e3; f01; f10]
  | _ => []
  end.
Example mx_midjoin_computed :
  sessx mx_parse (tx_cfg true false) (mx_mix ++ skipn 3 ex_pkts)
  = ([POk; POk; POk; POk; POk; POk; POk; POk; POk; POk], [], [7], [], [], 1%nat, delivered_log)
  /\ sessx mx_parse (tx_cfg false false) (mx_mix ++ skipn 3 ex_pkts)
     = ([POk; POk; POk; POk; POk; POk; POk; POk; POk; POk], [], [7], [], [(1, FReceiving)], 1%nat, delivered_log).
Proof. vm_compute. split; reflexivity. Qed.

Example mx_midjoin_by_theorem : forall once,
  let '(_, r, c) := recv_run env_ok mx_parse (tx_cfg once false) recv0
                             (map (fun p => RvPush p 100%Z) (mx_mix ++ skipn 3 ex_pkts)) ctx0 in
  session_delivered (tx_cfg once false) (tx_inst false None) ex_content 7 r c.
Proof.
  intros once.
  apply (session_mid_fdt_join_delivers env_ok mx_parse (tx_cfg once false) ex_oti ex_content 7 None 100%Z
           1 mx_foti mx_doc (tx_inst false None) [f00; f01; f10] 1%nat mx_pre mx_mix (skipn 3 ex_pkts)).
  - repeat split; vm_compute; reflexivity.
  - discriminate.
  - repeat split; vm_compute; reflexivity.
  - vm_compute. discriminate.
  - vm_compute. discriminate.
  - reflexivity.
  - exists (mk_ff 7 CNull (Some ex_oti) 5 None None false). repeat split.
  - split; reflexivity.
  - intros i. reflexivity.
  - exact I.
  - vm_compute. discriminate.
  - vm_compute. discriminate.
  - apply Forall_forall. intros p Hp. apply mx_pkt_ok. cbn [In] in *. tauto.
  - repeat constructor.
  - vm_compute. reflexivity.
  - vm_compute. reflexivity.
  - vm_compute. reflexivity.
  - repeat constructor.
  - repeat constructor.
  - repeat constructor.
  - apply close_flag_ok_noflag. repeat constructor.
  - vm_compute. reflexivity.
Qed.

(* REFUTATION 1 (close_flag_ok of the FDT packets): the instance's last packet carries the close-object flag (last
   transfer) and arrives FIRST: the inner object receiver is Interrupted, the packet is answered Err, the instance is
   forgotten; the other two packets start a new reception that never completes.  Every symbol of the instance and of
   the object has arrived, nothing is delivered (the object's packets wait in its cache).  In order, the same packets
   are delivered. *)
Example mx_fdt_close_flag_early_refuted :
  recoverable mx_foti 10 [f10B; f00; f01] = true
  /\ sessx mx_parse (tx_cfg true false) ([f10B; f00; f01] ++ ex_pkts)
     = ([PErr; POk; POk; POk; POk; POk; POk; POk], [7], [], [], [(1, FReceiving)], 0%nat, [])
  /\ sessx mx_parse (tx_cfg true false) ([f00; f01; f10B] ++ ex_pkts)
     = ([POk; POk; POk; POk; POk; POk; POk; POk], [], [7], [], [], 1%nat, delivered_log).
Proof. vm_compute. repeat split. Qed.

(* SURPRISE (copies of the instance after it is complete).  With receive-once they are ignored.  Without it every
   late copy starts a NEW reception of the same instance id: one that carries the close-object flag is answered Err
   (the new inner receiver is interrupted at once); a whole further cycle completes again and is pushed on
   rv_fdt_current a second and third time (it holds 10 instances); a partial one stays in rv_fdt_receivers.  The
   object is delivered in every case (what the theorems state). *)
Example mx_late_copies :
  sessx mx_parse (tx_cfg true false) ([f00; f01; f10B; f10B; f00] ++ ex_pkts)
  = ([POk; POk; POk; POk; POk; POk; POk; POk; POk; POk], [], [7], [], [], 1%nat, delivered_log)
  /\ sessx mx_parse (tx_cfg false false) ([f00; f01; f10B; f10B; f00] ++ ex_pkts)
     = ([POk; POk; POk; PErr; POk; POk; POk; POk; POk; POk], [], [7], [], [(1, FReceiving)], 1%nat, delivered_log)
  /\ sessx mx_parse (tx_cfg false false) ([f00; f01; f10; f00; f01; f10] ++ ex_pkts ++ [f00; f01; f10])
     = ([POk; POk; POk; POk; POk; POk; POk; POk; POk; POk; POk; POk; POk; POk], [], [7], [], [], 3%nat, delivered_log).
Proof. vm_compute. repeat split. Qed.

(* REFUTATION 2 (at most 4097 source blocks in the instance): a 4098-byte document sent with E = 1, B = 1 (4098
   blocks).  The packet of block 1 arrives first, then the packet of block 4097: "too many blocks", the inner object
   is Errored, the packet is answered Err and the instance is forgotten - with the symbol of block 1.  The other 4096
   packets follow in order: the new reception never gets block 1.  Every symbol arrived once; nothing is delivered.
   In order, the instance and the object are delivered. *)
Definition bw_doc : list N := repeat 9 4098.
Definition bw_foti : roti := mk_roti FNoCode 1 1 0 None.
Definition bw_parse (d : list N) : option fdtinst := if eqb_bytes d bw_doc then Some (tx_inst false None) else None.
Definition bw_pk (sbn : N) : apkt :=
  mk_apkt 0 false false (Some 1) (Some (bw_foti, 4098)) None None 0 (mk_pid sbn 0) [9] 1.
Definition bw_cycle : list apkt := map (fun i => bw_pk (N.of_nat i)) (seq 0 4098).
Definition bw_bad : list apkt := bw_pk 1 :: bw_pk 4097 :: bw_pk 0 :: tl (tl bw_cycle).
Definition bw_sess (evs : list apkt) :=
  let '(xs, r, c) := recv_run env_ok bw_parse (tx_cfg true false) recv0 (map (fun p => RvPush p 100%Z) evs) ctx0 in
  (length (filter (fun x => match x with PErr => true | _ => false end) xs), map fst (rv_objects r), rv_completed r,
   map (fun q => (fst q, fr_state (snd q))) (rv_fdt_receivers r), length (rv_fdt_current r), c_log c).
Example mx_fdt_block_window_refuted :
  nb_blocks_of bw_foti 4098 = 4098
  /\ forallb (genuine_pkt bw_foti bw_doc) bw_bad = true
  /\ recoverable bw_foti 4098 bw_bad = true
  /\ bw_sess (bw_bad ++ ex_pkts) = (1%nat, [7], [], [(1, FReceiving)], 0%nat, [])
  /\ bw_sess (bw_cycle ++ ex_pkts) = (0%nat, [], [7], [], 1%nat, delivered_log).
Proof. vm_compute. repeat split. Qed.
